#!/usr/bin/env python3
"""Rust-subset -> Lean 4 translator (tie T of DESIGN.md section 3.1).

Translates straight-line integer functions and constants of the Winterfell sources into
Lean definitions over Nat/Int with every wrap explicit.  Keyed by item path, insensitive
to comments/whitespace, fails closed (TranslateError names the item).

Semantics emitted (W = bit width of the Rust type, P = 2^W as a numeric literal):
  unsigned  a + b        -> a + b                    ok: a + b < P
            a - b        -> a - b   (Nat)            ok: b <= a
            a * b        -> a * b                    ok: a * b < P
            a << k       -> a * 2^k % P              ok: k < W
            a >> k       -> a / 2^k                  ok: k < W
            wrapping_add -> (a + b) % P ; wrapping_sub -> (a + P - b) % P
            wrapping_mul -> a * b % P   ; wrapping_neg -> (P - a) % P
            overflowing_add -> ((a + b) % P, decide (P <= a + b))
            overflowing_sub -> ((a + P - b) % P, decide (a < b))
            x as uV      -> x % 2^V when narrowing, x when widening
  signed    modelled on Int: + - * exact (ok: result in [-2^(W-1), 2^(W-1)))
            a >> k -> a / 2^k (floor), uN as iW -> two's complement reinterpretation,
            iW as uN -> (a % 2^N).toNat
Every translated function `f` comes with `f_ok : ... -> Bool`, the conjunction of the
side conditions under which the checked (debug) build does not panic on overflow.
Each `let` of the Rust body becomes its own Lean def `f.s_<var>` (per-step lemmas).
"""
import re, sys

class TranslateError(Exception):
    pass

# ------------------------------------------------------------------ lexer
TOK_RE = re.compile(r'''
    (?P<ws>\s+|//[^\n]*|/\*.*?\*/)
  | (?P<str>b?"(?:\\.|[^"\\])*")
  | (?P<chr>b?'(?:\\.|[^'\\])')
  | (?P<life>'[A-Za-z_][A-Za-z0-9_]*)
  | (?P<int>0x[0-9a-fA-F_]+(?:[ui](?:8|16|32|64|128|size))?|[0-9][0-9_]*(?:[ui](?:8|16|32|64|128|size))?)
  | (?P<id>[A-Za-z_][A-Za-z0-9_]*!?)
  | (?P<op><<=|>>=|\.\.=|::|->|=>|==|!=|<=|>=|&&|\|\||<<|>>|\+=|-=|\*=|/=|%=|\^=|&=|\|=|\.\.|[-+*/%^&|!=<>.,;:(){}\[\]#?@$~])
''', re.X | re.S)

def lex(text):
    toks = []
    pos = 0
    n = len(text)
    while pos < n:
        m = TOK_RE.match(text, pos)
        if not m:
            raise TranslateError('lex error at %r' % text[pos:pos + 30])
        pos = m.end()
        k = m.lastgroup
        if k == 'ws':
            continue
        toks.append((k, m.group(k)))
    return toks

INT_TYPES = {'u8': 8, 'u16': 16, 'u32': 32, 'u64': 64, 'u128': 128, 'usize': 64,
             'i8': 8, 'i16': 16, 'i32': 32, 'i64': 64, 'i128': 128, 'isize': 64}

def is_signed(t):
    return isinstance(t, str) and t[0] == 'i' and t in INT_TYPES

def is_unsigned(t):
    return isinstance(t, str) and t[0] == 'u' and t in INT_TYPES

# ------------------------------------------------------------------ item scan
class Item:
    def __init__(self, kind, key, toks):
        self.kind, self.key, self.toks = kind, key, toks

def match_close(toks, i):
    """toks[i] is an opening bracket; return index of the matching close."""
    pairs = {'(': ')', '[': ']', '{': '}'}
    o = toks[i][1]
    c = pairs[o]
    d = 0
    while i < len(toks):
        v = toks[i][1]
        if toks[i][0] == 'op':
            if v == o:
                d += 1
            elif v == c:
                d -= 1
                if d == 0:
                    return i
        i += 1
    raise TranslateError('unbalanced bracket')

def scan_items(toks):
    """Return dict key -> Item for consts and fns at module level and inside impl blocks."""
    items = {}
    def scan(lo, hi, prefix):
        i = lo
        while i < hi:
            k, v = toks[i]
            if k == 'op' and v == '#':           # attribute
                j = i + 1
                if toks[j][1] == '!':
                    j += 1
                i = match_close(toks, j) + 1
                continue
            if k == 'id' and v in ('mod',):
                # mod name { ... }  or mod name;
                j = i + 2
                if toks[j][1] == '{':
                    i = match_close(toks, j) + 1
                else:
                    i = j + 1
                continue
            if k == 'id' and v == 'trait' and toks[i + 1][0] == 'id':
                # trait Name<..>: Bounds { default methods }
                name = toks[i + 1][1]
                j = i + 2
                while toks[j][1] not in ('{', ';'):
                    j += 1
                if toks[j][1] == '{':
                    end = match_close(toks, j)
                    scan(j + 1, end, name + '::')
                    i = end + 1
                else:
                    i = j + 1
                continue
            if k == 'id' and v == 'impl':
                j = i + 1
                hdr = []
                # skip generic params  impl<...>
                if toks[j][1] == '<':
                    d = 0
                    while True:
                        if toks[j][1] == '<':
                            d += 1
                        elif toks[j][1] == '>':
                            d -= 1
                            if d == 0:
                                j += 1
                                break
                        elif toks[j][1] == '>>':
                            d -= 2
                            if d <= 0:
                                j += 1
                                break
                        j += 1
                while toks[j][1] != '{':
                    hdr.append(toks[j][1])
                    j += 1
                if 'where' in hdr:
                    hdr = hdr[:hdr.index('where')]
                if 'for' in hdr:
                    name = ''.join(hdr[:hdr.index('for')])
                else:
                    name = ''.join(hdr)
                name = re.sub(r"<'[a-z]+>", '', name)
                end = match_close(toks, j)
                scan(j + 1, end, name + '::')
                i = end + 1
                continue
            if k == 'id' and v == 'const' and toks[i + 1][0] == 'id' and toks[i + 1][1] != 'fn' \
                    and toks[i + 2][1] == ':':
                name = toks[i + 1][1]
                j = i + 3
                d = 0
                while not (toks[j][1] == ';' and d == 0):
                    if toks[j][1] in '([{':
                        d += 1
                    elif toks[j][1] in ')]}':
                        d -= 1
                    j += 1
                key = prefix + name
                if key not in items:
                    items[key] = Item('const', key, toks[i + 3:j])
                i = j + 1
                continue
            if k == 'id' and v in ('struct', 'enum') and toks[i + 1][0] == 'id':
                # struct Name<..> { fields }   /  enum Name { Variant = disc, .. }   (tuple / unit structs skipped)
                name = toks[i + 1][1]
                j = i + 2
                while toks[j][1] not in ('{', ';', '('):
                    j += 1
                if toks[j][1] == '{':
                    end = match_close(toks, j)
                    key = v + ' ' + name
                    if key not in items:
                        items[key] = Item(v, key, toks[j + 1:end])
                    i = end + 1
                elif toks[j][1] == '(':
                    i = match_close(toks, j) + 1
                else:
                    i = j + 1
                continue
            if k == 'id' and v == 'fn':
                name = toks[i + 1][1]
                j = i + 2
                while toks[j][1] not in ('{', ';'):
                    if toks[j][1] in '([':
                        j = match_close(toks, j)
                    j += 1
                if toks[j][1] == ';':
                    i = j + 1
                    continue
                end = match_close(toks, j)
                key = prefix + name
                if key not in items:
                    items[key] = Item('fn', key, toks[i + 1:end + 1])
                i = end + 1
                continue
            if k == 'op' and v == '{':
                i = match_close(toks, i) + 1
                continue
            i += 1
    scan(0, len(toks), '')
    return items

# ------------------------------------------------------------------ parser
class P:
    def __init__(self, toks):
        self.t = toks
        self.i = 0
    def peek(self, o=0):
        return self.t[self.i + o][1] if self.i + o < len(self.t) else None
    def kind(self, o=0):
        return self.t[self.i + o][0] if self.i + o < len(self.t) else None
    def eat(self, v=None):
        tok = self.t[self.i]
        if v is not None and tok[1] != v:
            raise TranslateError('expected %r got %r (ctx %s)' % (v, tok[1], ' '.join(x[1] for x in self.t[max(0, self.i - 6):self.i + 4])))
        self.i += 1
        return tok[1]
    def at_end(self):
        return self.i >= len(self.t)

    # ---- types
    def ty(self):
        v = self.peek()
        if v == '&':
            self.eat()
            if self.kind() == 'life':
                self.eat()
            if self.peek() == 'mut':
                self.eat()
            return self.ty()
        if v == '[':
            self.eat()
            e = self.ty()
            if self.peek() == ';':
                self.eat()
                n = self.expr()
                self.eat(']')
                return ('array', e, n)
            self.eat(']')
            return ('slice', e)
        if v == '(':
            self.eat()
            ts = []
            while self.peek() != ')':
                ts.append(self.ty())
                if self.peek() == ',':
                    self.eat()
            self.eat(')')
            return ('tuple', ts)
        name = self.eat()
        while self.peek() == '::':
            self.eat()
            name += '::' + self.eat()
        if name == 'Vec' and self.peek() == '<':
            self.eat()
            inner = self.ty()
            if self.peek() == '>>':
                self.t[self.i] = ('op', '>')        # the other half closes the enclosing generic list
            else:
                self.eat('>')
            return ('vec', inner)
        if name == 'Option' and self.peek() == '<':
            self.eat()
            inner = self.ty()
            if self.peek() == '>>':
                self.t[self.i] = ('op', '>')
            else:
                self.eat('>')
            return ('option', inner)
        if self.peek() == '<':
            d = 0
            while True:
                x = self.eat()
                if x == '<':
                    d += 1
                elif x == '>':
                    d -= 1
                elif x == '>>':
                    d -= 2
                if d <= 0:
                    break
            name += '<>'
        return name

    # ---- patterns
    def pat(self):
        v = self.peek()
        if v == '(' or v == '[':
            close = ')' if v == '(' else ']'
            self.eat()
            ps = []
            while self.peek() != close:
                ps.append(self.pat())
                if self.peek() == ',':
                    self.eat()
            self.eat(close)
            return ('ptuple', ps)
        if v == 'mut':
            self.eat()
            return ('pvar', self.eat())
        if v == '&':
            self.eat()
            return self.pat()
        if v == 'Some' and self.peek(1) == '(':
            self.eat()
            self.eat('(')
            inner = self.pat()
            self.eat(')')
            return ('psome', inner)
        if v == '_':
            self.eat()
            return ('pwild',)
        return ('pvar', self.eat())

    # ---- expressions
    BIN = [['||'], ['&&'], ['==', '!=', '<', '>', '<=', '>='], ['|'], ['^'], ['&'],
           ['<<', '>>'], ['+', '-'], ['*', '/', '%']]

    def expr(self, lvl=0, nostruct=False):
        if lvl == len(self.BIN):
            return self.cast(nostruct)
        l = self.expr(lvl + 1, nostruct)
        while self.kind() == 'op' and self.peek() in self.BIN[lvl]:
            op = self.eat()
            r = self.expr(lvl + 1, nostruct)
            l = ('bin', op, l, r)
        return l

    def cast(self, nostruct):
        e = self.unary(nostruct)
        while self.peek() == 'as':
            self.eat()
            e = ('cast', e, self.ty())
        return e

    def unary(self, nostruct):
        v = self.peek()
        if self.kind() == 'op' and v in ('-', '!'):
            self.eat()
            return ('un', v, self.unary(nostruct))
        if self.kind() == 'op' and v in ('*', '&'):
            self.eat()
            if self.peek() == 'mut':
                self.eat()
            return self.unary(nostruct)
        return self.postfix(nostruct)

    def args(self):
        self.eat('(')
        a = []
        while self.peek() != ')':
            a.append(self.expr())
            if self.peek() == '..':
                self.eat()
                a[-1] = ('range', a[-1], None if self.peek() in (',', ')') else self.expr())
            if self.peek() == ',':
                self.eat()
        self.eat(')')
        return a

    def postfix(self, nostruct):
        e = self.primary(nostruct)
        while True:
            v = self.peek()
            if v == '.':
                self.eat()
                if self.kind() == 'int':
                    e = ('field', e, int(self.eat()))
                    continue
                name = self.eat()
                tf = None
                if self.peek() == '::':
                    self.eat()
                    self.eat('<')
                    tf = self.ty()
                    self.eat('>')
                if self.peek() == '(':
                    e = ('method', e, name, self.args(), tf)
                else:
                    e = ('field', e, name)
                continue
            if v == '[':
                self.eat()
                if self.peek() == '..':
                    self.eat()
                    ix = ('rangeidx', None, None if self.peek() == ']' else self.expr())
                else:
                    ix = self.expr()
                    if self.peek() == '..':
                        self.eat()
                        ix = ('rangeidx', ix, None if self.peek() == ']' else self.expr())
                self.eat(']')
                e = ('index', e, ix)
                continue
            if v == '(' and e[0] == 'path':
                e = ('call', e[1], self.args())
                continue
            if v == '?':
                self.eat()
                e = ('try', e)          # parsed, never translated (`ev` rejects it)
                continue
            return e

    def primary(self, nostruct):
        k, v = self.kind(), self.peek()
        if k == 'int':
            self.eat()
            m = re.match(r'^(0x[0-9a-fA-F_]+?|[0-9][0-9_]*?)_?((?:[ui](?:8|16|32|64|128|size))?)$', v)
            return ('int', int(m.group(1).replace('_', ''), 0), m.group(2) or None)
        if k == 'str' or k == 'chr':
            self.eat()
            return ('str', v)           # parsed, never translated
        if k == 'op' and v in ('||', '|'):
            # closure: parsed, never translated
            self.eat()
            names = []
            if v == '|':
                depth = 0
                skip_ty = False
                while not (self.peek() == '|' and depth == 0):
                    x = self.eat()
                    if x in '([<':
                        depth += 1
                    elif x in ')]>':
                        depth -= 1
                    elif x == ':' and depth == 0:
                        skip_ty = True
                    elif x == ',' and depth == 0:
                        skip_ty = False
                    elif not skip_ty and re.match(r'^[A-Za-z_]\w*$', x) and x != 'mut':
                        names.append(x)
                self.eat('|')
            return ('closure', names, self.expr())
        if v == '(':
            self.eat()
            es = []
            trailing = False
            while self.peek() != ')':
                es.append(self.expr())
                if self.peek() in ('..', '..='):
                    incl = self.eat() == '..='
                    es[-1] = ('rangeincl' if incl else 'range', es[-1], self.expr())
                trailing = False
                if self.peek() == ',':
                    self.eat()
                    trailing = True
            self.eat(')')
            if len(es) == 1 and not trailing:
                return es[0]
            return ('tuple', es)
        if v == '[':
            self.eat()
            es = []
            while self.peek() != ']':
                es.append(self.expr())
                if self.peek() == ';':
                    self.eat()
                    n = self.expr()
                    self.eat(']')
                    return ('repeat', es[0], n)
                if self.peek() == ',':
                    self.eat()
            self.eat(']')
            return ('array', es)
        if v == 'unsafe' and self.peek(1) == '{':
            self.eat()
            return self.block()
        if v == 'if':
            return self.ifexpr()
        if v == 'match':
            return self.matchexpr()
        if v == '{':
            return self.block()
        if k == 'id':
            if v in ('true', 'false'):
                self.eat()
                return ('bool', v == 'true')
            segs = [self.eat()]
            while self.peek() == '::':
                self.eat()
                if self.peek() == '<':
                    self.eat()
                    t = self.ty()
                    self.eat('>')
                    segs.append(('tf', t))
                else:
                    segs.append(self.eat())
            if isinstance(segs[-1], str) and segs[-1].endswith('!') and self.peek() == '[':
                return ('call', segs, [self.primary(False)])        # vec![..]
            if self.peek() == '{' and not nostruct and isinstance(segs[-1], str) and segs[-1][:1].isupper() \
                    and not segs[-1].isupper():
                # struct literal  Name { field: expr, shorthand, .. }
                self.eat()
                fs = []
                while self.peek() != '}':
                    fn_ = self.eat()
                    if self.peek() == ':':
                        self.eat()
                        fs.append((fn_, self.expr()))
                    else:
                        fs.append((fn_, ('path', [fn_])))
                    if self.peek() == ',':
                        self.eat()
                self.eat('}')
                return ('struct', segs[-1], fs)
            return ('path', segs)
        raise TranslateError('unexpected token %r' % (v,))

    def matchexpr(self):
        """match SCRUTINEE { PAT [| PAT]* => EXPR, .. }  with patterns: enum variant paths, integer literals, `_`"""
        self.eat('match')
        scrut = self.expr(nostruct=True)
        self.eat('{')
        arms = []
        while self.peek() != '}':
            pats = []
            while True:
                if self.peek() == '_':
                    self.eat()
                    pats.append(('pwild',))
                elif self.kind() == 'int':
                    pats.append(self.primary(False))
                elif self.kind() == 'id':
                    segs = [self.eat()]
                    while self.peek() == '::':
                        self.eat()
                        segs.append(self.eat())
                    pats.append(('path', segs))
                else:
                    raise TranslateError('match pattern %r' % (self.peek(),))
                if self.peek() == '|':
                    self.eat()
                    continue
                break
            self.eat('=>')
            e = self.expr()
            if self.peek() == ',':
                self.eat()
            arms.append((pats, e))
        self.eat('}')
        return ('match', scrut, arms)

    def ifexpr(self):
        self.eat('if')
        if self.peek() == 'let':
            self.eat()
            pt = self.pat()
            self.eat('=')
            sc = self.expr(nostruct=True)
            th = self.block()
            el = None
            if self.peek() == 'else':
                self.eat()
                el = ('block', [], self.ifexpr()) if self.peek() == 'if' else self.block()
            return ('iflet', pt, sc, th, el)
        c = self.expr(nostruct=True)
        th = self.block()
        el = None
        if self.peek() == 'else':
            self.eat()
            if self.peek() == 'if':
                el = ('block', [], self.ifexpr())
            else:
                el = self.block()
        return ('if', c, th, el)

    def block(self):
        self.eat('{')
        stmts = []
        final = None
        while self.peek() != '}':
            v = self.peek()
            if v == '#' and self.peek(1) == '[':
                self.eat()
                self.i = match_close(self.t, self.i) + 1         # attribute on a statement
                continue
            if v == 'let':
                self.eat()
                p = self.pat()
                t = None
                if self.peek() == ':':
                    self.eat()
                    t = self.ty()
                e = None
                if self.peek() == '=':
                    self.eat()
                    e = self.expr()
                self.eat(';')
                stmts.append(('let', p, t, e))
                continue
            if v == 'for':
                self.eat()
                p = self.pat()
                self.eat('in')
                rng = self.expr(nostruct=True)
                if self.peek() == '..':
                    self.eat()
                    hi = self.expr(nostruct=True)
                    rng = ('range', rng, hi)
                body = self.block()
                stmts.append(('for', p, rng, body))
                continue
            if v == 'return':
                self.eat()
                e = None if self.peek() in (';', '}') else self.expr()
                if self.peek() == ';':
                    self.eat()
                final = ('return', e)
                continue
            if v == 'while':
                self.eat()
                c = self.expr(nostruct=True)
                body = self.block()
                stmts.append(('while', c, body))
                continue
            if v in ('loop',):
                raise TranslateError('%s not supported' % v)
            if v in ('assert!', 'debug_assert!', 'assert_eq!', 'debug_assert_eq!', 'assert_ne!', 'debug_assert_ne!'):
                # assert!(cond, "message", args..): the condition becomes part of `_ok`; the message is dropped
                self.eat()
                if self.peek() != '(':
                    raise TranslateError('%s without parentheses' % v)
                close = match_close(self.t, self.i)
                sub = P(self.t[self.i + 1:close])
                c = sub.expr()
                if v.rstrip('!').endswith('_eq') or v.rstrip('!').endswith('_ne'):
                    sub.eat(',')
                    c = ('bin', '==' if v.rstrip('!').endswith('_eq') else '!=', c, sub.expr())
                if not sub.at_end() and sub.peek() != ',':
                    raise TranslateError('%s: unexpected %r after the condition' % (v, sub.peek()))
                self.i = close + 1
                if self.peek() == ';':
                    self.eat()
                stmts.append(('assert', c))
                continue
            if v == 'const' and self.kind(1) == 'id' and self.peek(2) == ':':
                # a `const` local to the function body is a `let`
                self.eat()
                nm = self.eat()
                self.eat(':')
                t = self.ty()
                self.eat('=')
                e = self.expr()
                self.eat(';')
                stmts.append(('let', ('pvar', nm), t, e))
                continue
            e = self.expr()
            nv = self.peek()
            if nv == '..':      # range expression statement is not expected
                raise TranslateError('range expr')
            if self.kind() == 'op' and nv in ('=', '+=', '-=', '*=', '/=', '%=', '>>=', '<<=', '^=', '&=', '|='):
                op = self.eat()
                r = self.expr()
                if self.peek() != '}':          # the last assignment of a block may omit the semicolon
                    self.eat(';')
                stmts.append(('assign', e, op, r))
                continue
            if nv == ';':
                self.eat()
                stmts.append(('expr', e))
                continue
            if nv == '}':
                final = e
                break
            if e[0] in ('if', 'iflet'):
                stmts.append(('expr', e))
                continue
            raise TranslateError('statement: unexpected %r' % (nv,))
        self.eat('}')
        return ('block', stmts, final)

def parse_fn(item):
    p = P(item.toks)
    name, params, ret = parse_sig(p)
    if p.peek() == 'where':
        d = 0
        while not (p.peek() == '{' and d == 0):
            x = p.eat()
            if x in '(<':
                d += 1
            elif x in ')>':
                d -= 1
    body = p.block()
    return name, params, ret, body

def parse_struct(item):
    """[(field, type)] of a `struct Name { .. }` item, in declaration order."""
    p = P(item.toks)
    fields = []
    while not p.at_end():
        if p.peek() == '#':
            p.eat()
            p.i = match_close(p.t, p.i) + 1
            continue
        if p.peek() == 'pub':
            p.eat()
            if p.peek() == '(':
                p.i = match_close(p.t, p.i) + 1
        fn_ = p.eat()
        p.eat(':')
        fields.append((fn_, p.ty()))
        if not p.at_end():
            p.eat(',')
    return fields

def parse_enum(item):
    """{variant: discriminant} of a fieldless `enum Name { A = 1, B, .. }` item."""
    p = P(item.toks)
    out = {}
    nxt = 0
    while not p.at_end():
        if p.peek() == '#':
            p.eat()
            p.i = match_close(p.t, p.i) + 1
            continue
        name = p.eat()
        if p.peek() == '=':
            p.eat()
            nxt = const_eval(p.expr(), {})
        elif p.peek() in ('(', '{'):
            raise TranslateError('enum variant %s carries data' % name)
        out[name] = nxt
        nxt += 1
        if not p.at_end():
            p.eat(',')
    return out

def parse_sig(p):
    name = p.eat()
    if p.peek() == '<':
        d = 0
        while True:
            x = p.eat()
            if x == '<':
                d += 1
            elif x == '>':
                d -= 1
            elif x == '>>':
                d -= 2
            if d <= 0:
                break
    p.eat('(')
    params = []
    while p.peek() != ')':
        if p.peek() == '&':
            p.eat()
            if p.peek() == 'mut':
                p.eat()
        if p.peek() == 'mut':
            p.eat()
        pn = p.eat()
        if pn == 'self':
            params.append(('self', 'Self'))
        else:
            p.eat(':')
            isout = p.peek() == '&' and p.peek(1) == 'mut'
            params.append((pn, p.ty()) + (('out',) if isout else ()))
        if p.peek() == ',':
            p.eat()
    p.eat(')')
    ret = None
    if p.peek() == '->':
        p.eat()
        ret = p.ty()
    return name, params, ret

def parse_const(item):
    p = P(item.toks)
    t = p.ty()
    p.eat('=')
    e = p.expr()
    if p.peek() == '..':
        p.eat()
        e = ('range', e, p.expr())
    return t, e

# ------------------------------------------------------------------ constant evaluation (python ints)
def const_eval(e, consts, ftype_names=('BaseElement', 'Self')):
    k = e[0]
    if k == 'int':
        return e[1]
    if k == 'bool':
        return e[1]
    if k == 'un':
        v = const_eval(e[2], consts)
        return -v if e[1] == '-' else (not v)
    if k == 'bin':
        a = const_eval(e[2], consts)
        b = const_eval(e[3], consts)
        op = e[1]
        return {'+': lambda: a + b, '-': lambda: a - b, '*': lambda: a * b, '/': lambda: a // b,
                '%': lambda: a % b, '<<': lambda: a << b, '>>': lambda: a >> b,
                '&': lambda: a & b, '|': lambda: a | b, '^': lambda: a ^ b}[op]()
    if k == 'cast':
        v = const_eval(e[1], consts)
        t = e[2]
        if is_unsigned(t):
            return v % (1 << INT_TYPES[t])
        return v
    if k == 'path':
        segs = e[1]
        name = segs[-1]
        if isinstance(name, str) and name in consts:
            return consts[name]
        raise TranslateError('unknown constant %r' % (segs,))
    if k == 'call':
        segs = e[1]
        if segs[-1] == 'new' and segs[0] in ftype_names + ('BaseElement',):
            return const_eval(e[2][0], consts)
        if len(segs) == 1 and segs[0] in ftype_names:
            return const_eval(e[2][0], consts)
        if segs[-1] == 'from_mont':
            return ('mont', const_eval(e[2][0], consts))
        if len(segs) >= 2 and segs[-2] == 'size_of':
            return INT_TYPES[segs[-1][1]] // 8
        raise TranslateError('const call %r' % (segs,))
    if k in ('array', 'tuple'):
        return [const_eval(x, consts) for x in e[1]]
    if k == 'field' and e[2] in ('start', 'end'):
        r = const_eval(e[1], consts)
        return r[1] if e[2] == 'start' else r[2]
    if k == 'repeat':
        return [const_eval(e[1], consts)] * const_eval(e[2], consts)
    if k == 'range':
        return ('range', const_eval(e[1], consts), const_eval(e[2], consts))
    raise TranslateError('const expr kind %s' % k)

def lean_const(v):
    if isinstance(v, bool):
        return 'true' if v else 'false'
    if isinstance(v, int):
        return str(v) if v >= 0 else '(%d)' % v
    if isinstance(v, list):
        return '[' + ', '.join(lean_const(x) for x in v) + ']'
    raise TranslateError('const value %r' % (v,))

def lean_const_type(v):
    if isinstance(v, bool):
        return 'Bool'
    if isinstance(v, int):
        return 'Nat' if v >= 0 else 'Int'
    if isinstance(v, list):
        def anyneg(x):
            return any(anyneg(y) for y in x) if isinstance(x, list) else (x < 0)
        def depth(x):
            return 1 + depth(x[0]) if isinstance(x, list) and x else (1 if isinstance(x, list) else 0)
        base = 'Int' if anyneg(v) else 'Nat'
        t = base
        for _ in range(depth(v)):
            t = 'List (%s)' % t if ' ' in t else 'List ' + t
        return t
    raise TranslateError('const type')

# ------------------------------------------------------------------ emitter
def P2(w):
    return str(1 << w)

class SV:
    """symbolic value: scalar (expr, ty, free-vars) or aggregate (items)."""
    __slots__ = ('e', 'ty', 'fv', 'items')
    def __init__(self, e=None, ty=None, fv=(), items=None):
        self.e, self.ty, self.fv, self.items = e, ty, frozenset(fv), items
    @property
    def agg(self):
        return self.items is not None

def paren(s):
    if re.match(r'^[A-Za-z0-9_.\']+$', s) or (s.startswith('(') and match_paren_whole(s)):
        return s
    return '(' + s + ')'

def match_paren_whole(s):
    d = 0
    for i, c in enumerate(s):
        if c == '(':
            d += 1
        elif c == ')':
            d -= 1
            if d == 0 and i != len(s) - 1:
                return False
    return True

RAW = '\0raw'

class FnEmitter:
    """Translates one fn body into a sequence of Lean step defs + main def + ok def."""
    def __init__(self, mod, leanname, params, ret, body, generic_f=False):
        self.mod = mod                  # ModuleCtx
        self.name = leanname
        self.params = params
        self.ret = ret
        self.body = body
        self.generic_f = generic_f      # F ops via FOps record `O`
        self.steps = []                 # (stepname, [params], type, expr)
        self.lets = []                  # (var, stepname, [args])  for main def
        self.oks = []                   # (guard or None, cond expr, fv)
        self.names = {}                 # base name -> counter
        self.order = []                 # lean vars in definition order
        self.vartype = {}               # lean var -> lean type string
        self.guards = []                # stack of guard prop strings (with fv)
        self.hints = {}                 # rust var -> rust type, for `let` bindings of untyped literals
        self.nloops = 0
        self.fuelvar = None             # lean name of the fuel parameter once a loop has been seen
        self.objfns = {}                # (object type, method) -> ([rust arg types], rust return type)
        self.selftype = None            # name of the struct `Self` stands for (object-typed receivers only)
        self.lifted = {}                # root param -> {lean-ish name: rust type} of lifted accessor values

    # ---- naming
    def fresh(self, base):
        base = re.sub(r'[^A-Za-z0-9_]', '_', base)
        if base in LEAN_RESERVED:
            base = base + '_'
        c = self.names.get(base, 0)
        self.names[base] = c + 1
        return base if c == 0 else '%s_%d' % (base, c)

    def lty(self, ty):
        if ty == 'bool':
            return 'Bool'
        if isinstance(ty, str) and ty.startswith('fn:'):
            return ty[3:]
        if isinstance(ty, str) and ty.startswith('obj:'):
            return ty[4:]
        if isinstance(ty, str) and ty.startswith('pair:'):
            a_, b_ = ty[5:].split(':')
            return '(%s × %s)' % (self.lty(a_), self.lty(b_))
        if isinstance(ty, str) and ty.startswith('list:'):
            return 'List ' + paren(self.lty(ty[5:]))
        if ty == 'F' and self.generic_f:
            return 'F'
        if ty == 'F':
            return 'F' if self.generic_f else 'Nat'
        if is_signed(ty):
            return 'Int'
        return 'Nat'

    def bind(self, base, sv):
        """materialise scalar sv as a named step; returns SV referencing the new var."""
        if sv.agg:
            return SV(items=[self.bind('%s_%d' % (base, i), x) for i, x in enumerate(sv.items)])
        if re.match(r'^[A-Za-z_][A-Za-z0-9_]*$', sv.e) and sv.e in self.vartype and False:
            return sv
        v = self.fresh(base)
        args = [x for x in self.order if x in sv.fv]
        lt = self.lty(sv.ty)
        ex = sv.e
        if sv.ty == 'bool':
            ex = 'decide (%s)' % ex
        self.steps.append((v, args, lt, ex))
        self.lets.append((v, args))
        self.order.append(v)
        self.vartype[v] = lt
        if sv.ty == 'bool':
            return SV('%s = true' % v, 'bool', [v])
        return SV(v, sv.ty, [v])

    def ok(self, cond, fv):
        g = None
        gfv = set()
        if self.guards:
            g = ' ∧ '.join(paren(x[0]) for x in self.guards)
            for x in self.guards:
                gfv |= set(x[1])
        self.oks.append((g, cond, frozenset(fv) | gfv))

    # ---- type helpers
    def norm_ty(self, t):
        if isinstance(t, str):
            if t == 'Self' and self.selftype is not None:
                t = self.selftype
            if t in self.mod.enums:
                return 'u8'         # a fieldless enum is its discriminant (`as u8` / `as u32` are the identity)
            if t in self.mod.structs:
                return ('agg', [self.norm_ty(ft) for (_fn, ft) in self.mod.struct_fields(t)])
            if t in ('Self', self.mod.ftype, 'BaseElement', 'Self::BaseField', 'B') or t in self.mod.ftypes:
                return 'F'
            if t in INT_TYPES or t == 'bool':
                return t
            if t in ('Self::PositiveInteger', 'B::PositiveInteger'):
                return self.mod.rawty
            raise TranslateError('type %s' % t)
        if t[0] == 'option':
            return ('agg', ['bool', self.norm_ty(t[1])])        # Option<T> = (is_some, value)
        if t[0] in ('vec', 'slice'):
            # a vector / slice of integers or of registered objects is a Lean list
            et = t[1]
            if et == 'Self' and self.selftype is not None:
                et = self.selftype
            if isinstance(et, str) and et in self.mod.objtypes:
                return 'list:obj:' + et
            if isinstance(et, tuple) and et[0] == 'tuple' and len(et[1]) == 2:
                ab = [self.norm_ty(x) for x in et[1]]
                if all(isinstance(x, str) and (x in INT_TYPES or x == 'F') for x in ab):
                    return 'list:pair:%s:%s' % (ab[0], ab[1])
            e = self.norm_ty(et)
            if not (isinstance(e, str) and (e in INT_TYPES or (e == 'F' and self.generic_f))):
                raise TranslateError('vector of %r' % (et,))
            return 'list:' + e
        if t[0] == 'array':
            n = const_eval(t[2], self.mod.consts)
            return ('agg', [self.norm_ty(t[1])] * n)
        if t[0] == 'tuple':
            return ('agg', [self.norm_ty(x) for x in t[1]])
        raise TranslateError('type %r' % (t,))

    def param_sv(self, name, t):
        if isinstance(t, tuple):
            return SV(items=[self.param_sv('%s_%d' % (name, i), x) for i, x in enumerate(t[1])])
        v = self.fresh(name)
        self.order.append(v)
        self.vartype[v] = self.lty(t)
        self.pvars.append(v)
        if t == 'bool':
            return SV('%s = true' % v, 'bool', [v])
        return SV(v, t, [v])

    # ---- expression evaluation
    def lit(self, n, ty):
        if is_signed(ty):
            return SV('(%d : Int)' % n, ty)
        return SV(str(n), ty)

    def ev(self, e, env, want=None):
        k = e[0]
        if k == 'int':
            ty = e[2] or want
            if ty is None or ty == 'F' or isinstance(ty, tuple):
                raise TranslateError('cannot type literal %d' % e[1])
            return self.lit(e[1], ty)
        if k == 'bool':
            return SV('True' if e[1] else 'False', 'bool')
        if k == 'path':
            segs = e[1]
            if len(segs) == 1 and segs[0] in env:
                return env[segs[0]]
            name = segs[-1]
            if len(segs) == 2 and segs[0] in INT_TYPES and is_signed(segs[0]) and name in ('MAX', 'MIN', 'BITS'):
                w = INT_TYPES[segs[0]]
                if name == 'BITS':
                    return self.lit(w, 'u32')
                return self.lit((1 << (w - 1)) - 1 if name == 'MAX' else -(1 << (w - 1)), segs[0])
            if len(segs) == 2 and segs[0] in INT_TYPES and is_unsigned(segs[0]) and name in ('MAX', 'BITS', 'MIN'):
                w = INT_TYPES[segs[0]]
                if name == 'BITS':
                    return self.lit(w, 'u32')
                return self.lit((1 << w) - 1 if name == 'MAX' else 0, segs[0])
            if name in ('ZERO', 'ONE') and (segs[0] in ('Self', self.mod.ftype, 'BaseElement') or segs[0] in self.mod.ftypes):
                return self.f_new(self.lit(0 if name == 'ZERO' else 1, 'u64'))
            if isinstance(name, str) and name in self.mod.consts:
                v = self.mod.consts[name]
                ty = self.mod.const_types.get(name)
                if isinstance(v, int) and not isinstance(v, bool):
                    return self.lit(v, ty if ty in INT_TYPES else (want or 'u64'))
                if isinstance(v, list):
                    return self.const_agg(v, ty)
            raise TranslateError('unknown name %r' % (segs,))
        if k == 'tuple' and isinstance(want, str) and want.startswith('pair:') and len(e[1]) == 2:
            a_, b_ = want[5:].split(':')
            x, y = self.ev(e[1][0], env, a_), self.ev(e[1][1], env, b_)
            if x.agg or y.agg or x.ty != a_ or y.ty != b_:
                raise TranslateError('pair of %r and %r, expected %s' % (x.ty, y.ty, want))
            return SV('(%s, %s)' % (x.e, y.e), want, x.fv | y.fv)
        if k == 'tuple' or k == 'array':
            wants = [None] * len(e[1])
            if isinstance(want, tuple):
                wants = want[1]
            return SV(items=[self.ev(x, env, w) for x, w in zip(e[1], wants)])
        if k == 'selfcall':
            _t, lname, lifted, ptys, rty = self.mod.selfmethods[e[1]]
            svs = [env['@' + nm] for nm, _ in lifted] + [self.ev(a, env, pt) for a, pt in zip(e[2], ptys)]
            if any(x.agg for x in svs) or isinstance(rty, tuple):
                raise TranslateError('self-call %s with aggregate values' % e[1])
            fv = frozenset().union(*[x.fv for x in svs])
            argstr = ' '.join(paren(x.e if x.ty != 'bool' else 'decide (%s)' % x.e) for x in svs)
            if self.generic_f and self.mod.generic_ok:
                argstr, fv = 'O ' + argstr, fv | {'O'}
            self.ok('%s_ok %s = true' % (lname, argstr), fv)
            if rty == 'bool':
                return SV('%s %s = true' % (lname, argstr), 'bool', fv)
            return SV('%s %s' % (lname, argstr), rty, fv)
        if k == 'match':
            return self.matchexpr(e, env, want)
        if k == 'objcall':
            _, T, m, recv, args = e
            x = self.ev(recv, env)
            if x.agg or x.ty != 'obj:' + T:
                raise TranslateError('receiver of %s::%s' % (T, m))
            a, r = self.objsig_of(T, m)
            f, fok = env.get('@fn:%s_%s' % (T, m)), env.get('@fn:%s_%s_ok' % (T, m))
            if f is None or fok is None:
                raise TranslateError('%s::%s is not available here' % (T, m))
            svs = [self.ev(arg, env, t) for arg, t in zip(args, a)]
            for sv, t in zip(svs, a):
                if sv.agg or sv.ty != t:
                    raise TranslateError('%s::%s: argument of type %r, expected %s' % (T, m, sv.ty, t))
            argstr = ' '.join([paren(x.e)] + [paren(sv.e if sv.ty != 'bool' else 'decide (%s)' % sv.e) for sv in svs])
            fv = frozenset().union(x.fv, f.fv, fok.fv, *[sv.fv for sv in svs])
            self.ok('%s %s = true' % (fok.e, argstr), fv)
            if r == 'bool':
                return SV('%s %s = true' % (f.e, argstr), 'bool', fv)
            return SV('%s %s' % (f.e, argstr), r, fv)
        if k == 'struct':
            sname = self.selftype if (e[1] == 'Self' and self.selftype is not None) else e[1]
            if sname not in self.mod.structs:
                raise TranslateError('struct literal of unregistered type %s' % sname)
            decl = self.mod.struct_fields(sname)
            given = dict(e[2])
            if len(given) != len(e[2]) or set(given) != set(fn for fn, _ in decl):
                raise TranslateError('struct literal %s: fields differ from the declaration' % sname)
            return SV(items=[self.ev(given[fn], env, self.norm_ty(ft)) for fn, ft in decl])
        if k == 'repeat':
            n = const_eval(e[2], self.mod.consts)
            x = self.ev(e[1], env, want[1][0] if isinstance(want, tuple) else None)
            return SV(items=[x] * n)
        if k == 'field':
            b = self.ev(e[1], env)
            if isinstance(e[2], int):
                if not b.agg and isinstance(b.ty, str) and b.ty.startswith('pair:') and e[2] in (0, 1):
                    return SV('%s.%d' % (paren(b.e), e[2] + 1), b.ty[5:].split(':')[e[2]], b.fv)
                if b.agg:
                    return b.items[e[2]]
                if b.ty == 'F' and e[2] == 0:
                    return SV(b.e, self.mod.rawty, b.fv)
            raise TranslateError('field %r' % (e[2],))
        if k == 'range' or k == 'rangeincl':
            lo = self.ev(e[1], env, 'usize')
            hi = self.ev(e[2], env, lo.ty)
            if lo.agg or hi.agg or lo.ty != hi.ty or not is_unsigned(lo.ty):
                raise TranslateError('range of %r .. %r' % (lo.ty, hi.ty))
            cnt = '%s - %s' % (paren(hi.e), paren(lo.e)) if k == 'range' else '%s + 1 - %s' % (paren(hi.e), paren(lo.e))
            return SV("List.range' %s (%s)" % (paren(lo.e), cnt), 'list:' + lo.ty, lo.fv | hi.fv)
        if k == 'index' and not (e[1][0] == 'path' and len(e[1][1]) == 1 and e[1][1][0] in env
                                 and not isinstance(env[e[1][1][0]], tuple) and env[e[1][1][0]].agg):
            b = self.ev(e[1], env)
            if not b.agg and isinstance(b.ty, str) and b.ty.startswith('list:'):
                et = b.ty[5:]
                if e[2][0] == 'rangeidx':
                    lo = self.ev(e[2][1], env, 'usize') if e[2][1] is not None else None
                    hi = self.ev(e[2][2], env, 'usize') if e[2][2] is not None else None
                    ex, fv = b.e, set(b.fv)
                    if hi is not None:
                        self.ok('%s ≤ List.length %s' % (paren(hi.e), paren(b.e)), b.fv | hi.fv)
                        ex, fv = 'List.take %s %s' % (paren(hi.e), paren(ex)), fv | hi.fv
                    if lo is not None:
                        self.ok('%s ≤ %s' % (paren(lo.e), paren(hi.e) if hi is not None else 'List.length ' + paren(b.e)),
                                b.fv | lo.fv | (hi.fv if hi is not None else frozenset()))
                        ex, fv = 'List.drop %s %s' % (paren(lo.e), paren(ex)), fv | lo.fv
                    return SV(ex, b.ty, fv)
                ix = self.ev(e[2], env, 'usize')
                if ix.agg or ix.ty != 'usize':
                    raise TranslateError('index of type %r' % (ix.ty,))
                d = self.elem_default(et)
                fv = b.fv | ix.fv | d.fv
                self.ok('%s < List.length %s' % (paren(ix.e), paren(b.e)), b.fv | ix.fv)
                return SV('List.getD %s %s %s' % (paren(b.e), paren(ix.e), paren(d.e)), et, fv)
            raise TranslateError('index of a value of type %r' % (b.ty,))
        if k == 'index':
            b = self.ev(e[1], env)
            ix = const_eval_env(e[2], env, self.mod.consts)
            if not b.agg:
                raise TranslateError('index of scalar')
            return b.items[ix]
        if k == 'cast':
            return self.cast(self.ev(e[1], env, None if e[1][0] != 'int' else self.norm_ty(e[2])), self.norm_ty(e[2]))
        if k == 'un':
            return self.unop(e[1], e[2], env, want)
        if k == 'bin':
            return self.binop(e[1], e[2], e[3], env, want)
        if k == 'method':
            return self.method(e, env, want)
        if k == 'call':
            return self.call(e, env, want)
        if k == 'if':
            return self.ifexpr(e, env, want)
        if k == 'block':
            return self.block(e, dict(env), want)
        raise TranslateError('expr kind %s' % k)

    def const_agg(self, v, ty):
        if isinstance(v, list):
            et = None
            if isinstance(ty, tuple) and ty[0] == 'array':
                et = ty[1]
            elif isinstance(ty, tuple) and ty[0] == 'tuple':
                return SV(items=[self.const_agg(x, t) for x, t in zip(v, ty[1])])
            return SV(items=[self.const_agg(x, et) for x in v])
        t = self.norm_ty(ty) if ty is not None else 'u64'
        if t == 'F':
            return self.f_new(self.lit(v, 'u64'))
        return self.lit(v, t)

    def cast(self, x, to):
        fr = x.ty
        if fr == to:
            return x
        if fr == 'bool' and to in INT_TYPES:
            if is_signed(to):
                return SV('(if %s then (1 : Int) else 0)' % x.e, to, x.fv)
            return SV('(if %s then 1 else 0)' % x.e, to, x.fv)
        if is_unsigned(fr) and is_unsigned(to):
            if INT_TYPES[to] >= INT_TYPES[fr]:
                return SV(x.e, to, x.fv)
            return SV('%s %% %s' % (paren(x.e), P2(INT_TYPES[to])), to, x.fv)
        if is_unsigned(fr) and is_signed(to):
            w = INT_TYPES[to]
            if INT_TYPES[fr] < w:
                return SV('(%s : Int)' % x.e if re.match(r'^\d+$', x.e) else 'Int.ofNat %s' % paren(x.e), to, x.fv)
            return SV('toSigned %d %s' % (w, paren(x.e)), to, x.fv)
        if is_signed(fr) and is_unsigned(to):
            return SV('Int.toNat (%s %% %s)' % (paren(x.e), P2(INT_TYPES[to])), to, x.fv)
        if is_signed(fr) and is_signed(to):
            if INT_TYPES[to] >= INT_TYPES[fr]:
                return SV(x.e, to, x.fv)
            return SV('toSigned %d (Int.toNat (%s %% %s))' % (INT_TYPES[to], paren(x.e), P2(INT_TYPES[to])), to, x.fv)
        raise TranslateError('cast %s -> %s' % (fr, to))

    def unop(self, op, a, env, want):
        if op == '-':
            if a[0] == 'int':
                ty = a[2] or want
                return self.lit(-a[1], ty)
            x = self.ev(a, env, want)
            if x.ty == 'F':
                return self.f_op('neg', [x])
            if is_signed(x.ty):
                w = INT_TYPES[x.ty]
                self.ok('%s ≠ -%s' % (paren(x.e), P2(w - 1)), x.fv)
                return SV('-%s' % paren(x.e), x.ty, x.fv)
            raise TranslateError('negation of unsigned')
        if op == '!':
            x = self.ev(a, env, want)
            if x.ty == 'bool':
                return SV('¬ %s' % paren(x.e), 'bool', x.fv)
            if is_unsigned(x.ty):
                return SV('%s - %s' % (str((1 << INT_TYPES[x.ty]) - 1), paren(x.e)), x.ty, x.fv)
            raise TranslateError('! on %s' % x.ty)
        raise TranslateError('unary %s' % op)

    def binop(self, op, a, b, env, want):
        if op in ('&&', '||'):
            x = self.ev(a, env, 'bool')
            y = self.ev(b, env, 'bool')
            return SV('%s %s %s' % (paren(x.e), '∧' if op == '&&' else '∨', paren(y.e)), 'bool', x.fv | y.fv)
        if op in ('<<', '>>'):
            x = self.ev(a, env, want)
            try:
                kk = const_eval_env(b, env, self.mod.consts)
            except TranslateError:
                # shift by a computed amount: panics in the checked build when the amount is >= the width
                if x.agg or not is_unsigned(x.ty):
                    raise TranslateError('non-constant shift of a non-unsigned value')
                y = self.ev(b, env, None)
                if y.agg or not is_unsigned(y.ty):
                    raise TranslateError('non-constant shift amount of type %s' % (y.ty,))
                w = INT_TYPES[x.ty]
                fv = x.fv | y.fv
                self.ok('%s < %d' % (paren(y.e), w), fv)
                if op == '<<':
                    return SV('%s * 2 ^ %s %% %s' % (paren(x.e), paren(y.e), P2(w)), x.ty, fv)
                return SV('%s / 2 ^ %s' % (paren(x.e), paren(y.e)), x.ty, fv)
            w = INT_TYPES[x.ty]
            if not (0 <= kk < w):
                raise TranslateError('shift amount %d out of range for %s' % (kk, x.ty))
            if op == '<<':
                if is_signed(x.ty):
                    raise TranslateError('signed <<')
                return SV('%s * %s %% %s' % (paren(x.e), P2(kk), P2(w)), x.ty, x.fv)
            return SV('%s / %s' % (paren(x.e), P2(kk)), x.ty, x.fv)
        # operand typing: literals take the type of the other side
        if a[0] == 'int' and a[2] is None:
            y = self.ev(b, env, want if op not in CMP else None)
            x = self.ev(a, env, y.ty)
        else:
            x = self.ev(a, env, want if op not in CMP else None)
            y = self.ev(b, env, x.ty)
        if x.agg or y.agg:
            raise TranslateError('binary op on aggregate')
        fv = x.fv | y.fv
        if op in CMP:
            if x.ty == 'F':
                if op == '==' and not (self.generic_f and self.mod.generic_ok):
                    return self.f_op('eq', [x, y], 'bool')
                if op in ('==', '!=') and self.generic_f and y.ty == 'F':
                    if y.e in ('O.ofNat 0', 'O.ofNat 1'):
                        e_ = 'O.%s %s = true' % ('isZero' if y.e.endswith('0') else 'isOne', paren(x.e))
                    elif x.e in ('O.ofNat 0', 'O.ofNat 1'):
                        e_ = 'O.%s %s = true' % ('isZero' if x.e.endswith('0') else 'isOne', paren(y.e))
                    else:
                        e_ = 'O.beq %s %s = true' % (paren(x.e), paren(y.e))
                    return SV(e_ if op == '==' else '¬ (%s)' % e_, 'bool', fv | {'O'})
                raise TranslateError('ordering on field elements')
            if x.ty != y.ty:
                raise TranslateError('comparison of %s and %s' % (x.ty, y.ty))
            lop = {'==': '=', '!=': '≠', '<': '<', '>': '>', '<=': '≤', '>=': '≥'}[op]
            return SV('%s %s %s' % (paren(x.e), lop, paren(y.e)), 'bool', fv)
        if x.ty == 'F' or y.ty == 'F':
            if x.ty != y.ty:
                raise TranslateError('mixed field/int arithmetic')
            fop = {'+': 'add', '-': 'sub', '*': 'mul', '/': 'div'}.get(op)
            if fop is None:
                raise TranslateError('field op %s' % op)
            return self.f_op(fop, [x, y])
        if x.ty != y.ty:
            raise TranslateError('arithmetic on %s and %s' % (x.ty, y.ty))
        ty = x.ty
        w = INT_TYPES[ty]
        if op in ('&', '|', '^'):
            if is_signed(ty):
                raise TranslateError('bit op on signed')
            lop = {'&': '&&&', '|': '|||', '^': '^^^'}[op]
            return SV('%s %s %s' % (paren(x.e), lop, paren(y.e)), ty, fv)
        if op in ('+', '-', '*'):
            ex = '%s %s %s' % (paren(x.e), op, paren(y.e))
            if is_signed(ty):
                self.ok('-%s ≤ %s ∧ %s < %s' % (P2(w - 1), ex, ex, P2(w - 1)), fv)
            elif op == '-':
                self.ok('%s ≤ %s' % (paren(y.e), paren(x.e)), fv)
            else:
                self.ok('%s < %s' % (ex, P2(w)), fv)
            return SV(ex, ty, fv)
        if op in ('/', '%'):
            if is_signed(ty):
                raise TranslateError('signed division')
            self.ok('%s ≠ 0' % paren(y.e), fv)
            return SV('%s %s %s' % (paren(x.e), op, paren(y.e)), ty, fv)
        raise TranslateError('binary %s' % op)

    # ---- field-typed operations
    def f_new(self, x):
        if self.generic_f:
            return SV('O.ofNat %s' % paren(x.e), 'F', x.fv | {'O'})
        return SV('%s %s' % (self.mod.fop('new'), paren(x.e)), 'F', x.fv)

    def f_op(self, op, xs, rty='F'):
        fv = frozenset().union(*[x.fv for x in xs])
        argstr = ' '.join(paren(x.e) for x in xs)
        if self.generic_f:
            return SV('O.%s %s' % (op, argstr), rty, fv | {'O'})
        if op == 'square':
            return SV('%s %s %s' % (self.mod.fop('mul'), paren(xs[0].e), paren(xs[0].e)), rty, fv)
        if op == 'eq':
            return SV('%s %s = true' % (self.mod.fop('eq'), argstr), 'bool', fv)
        return SV('%s %s' % (self.mod.fop(op), argstr), rty, fv)

    def method(self, e, env, want):
        _, recv, name, args, tf = e
        if name == 'contains' and recv[0] == 'rangeincl' and len(args) == 1:
            v = self.ev(args[0], env, None)
            lo = self.ev(recv[1], env, v.ty)
            hi = self.ev(recv[2], env, v.ty)
            if v.agg or v.ty not in INT_TYPES or lo.ty != v.ty or hi.ty != v.ty:
                raise TranslateError('range contains on %r' % (v.ty,))
            return SV('%s ≤ %s ∧ %s ≤ %s' % (paren(lo.e), paren(v.e), paren(v.e), paren(hi.e)), 'bool',
                      v.fv | lo.fv | hi.fv)
        if name in ('into',):
            x = self.ev(recv, env, None)
            if want is None:
                raise TranslateError('into() without expected type')
            return self.cast(x, want)
        if name == 'inner' or name == 'as_raw':
            x = self.ev(recv, env)
            return SV(x.e, self.mod.rawty, x.fv)
        x = self.ev(recv, env, want)
        if not x.agg and isinstance(x.ty, str) and x.ty.startswith('list:'):
            if name == 'iter' and not args:
                return x
            if name == 'len' and not args:
                return SV('List.length %s' % paren(x.e), 'usize', x.fv)
            if name == 'is_empty' and not args:
                return SV('List.isEmpty %s = true' % paren(x.e), 'bool', x.fv)
            if name in ('to_vec', 'clone', 'cloned', 'copied') and not args:
                return x
            if name == 'collect' and not args:
                return x
            if name == 'map' and len(args) == 1 and args[0][0] == 'closure' and len(args[0][1]) == 1:
                xn = args[0][1][0]
                env2 = dict(env)
                env2[xn] = SV(xn + '_', x.ty[5:], [])
                saved, self.oks = self.oks, []
                n_st, n_g = len(self.steps), len(self.guards)
                try:
                    body = self.ev(args[0][2], env2, None)
                    inner = self.oks
                finally:
                    self.oks = saved
                if len(self.steps) != n_st or body.agg or not (body.ty in INT_TYPES or body.ty == 'F') \
                        or any(g is not None for (g, c, fv) in inner):
                    raise TranslateError('map closure with lets, guards or an aggregate value')
                fv = x.fv | body.fv
                if inner:
                    cond = ' && '.join('decide (%s)' % c for (g, c, f_) in inner)
                    cfv = frozenset().union(*[f_ for (g, c, f_) in inner]) | x.fv
                    self.ok('List.all %s (fun %s_ => %s) = true' % (paren(x.e), xn, cond), cfv)
                return SV('List.map (fun %s_ => %s) %s' % (xn, body.e, paren(x.e)), 'list:' + body.ty, fv)
            if name == 'fold' and len(args) == 2 and args[1][0] == 'closure' and len(args[1][1]) == 2:
                init = self.ev(args[0], env, want)
                if init.agg:
                    raise TranslateError('fold with an aggregate accumulator')
                an, xn = args[1][1]
                env2 = dict(env)
                env2[an] = SV(an + '_', init.ty, [])
                env2[xn] = SV(xn + '_', x.ty[5:], [])
                n_ok, n_st = len(self.oks), len(self.steps)
                body = self.ev(args[1][2], env2, init.ty)
                if len(self.oks) != n_ok or len(self.steps) != n_st or body.agg or body.ty != init.ty:
                    raise TranslateError('fold closure with side conditions, lets or another type')
                return SV('List.foldl (fun %s_ %s_ => %s) %s %s' % (an, xn, body.e, paren(init.e), paren(x.e)),
                          init.ty, x.fv | init.fv | body.fv)
            if name == 'rev' and not args:
                return SV('List.reverse %s' % paren(x.e), x.ty, x.fv)
            if name == 'contains' and len(args) == 1 and x.ty[5:] in INT_TYPES:
                y = self.ev(args[0], env, x.ty[5:])
                if y.agg or y.ty != x.ty[5:]:
                    raise TranslateError('contains: element of type %r' % (y.ty,))
                return SV('List.contains %s %s = true' % (paren(x.e), paren(y.e)), 'bool', x.fv | y.fv)
            if name == 'chain' and len(args) == 1:
                y = self.ev(args[0], env, x.ty)
                if y.agg or y.ty != x.ty:
                    raise TranslateError('chain of %r and %r' % (x.ty, y.ty))
                return SV('%s ++ %s' % (paren(x.e), paren(y.e)), x.ty, x.fv | y.fv)
            raise TranslateError('method %s of a vector' % name)
        if x.ty == 'F':
            if name in ('square', 'double'):
                return self.f_op(name, [x])
            if name in ('clone', 'conjugate'):
                return x
            if name == 'exp' and len(args) == 1 and self.generic_f and self.mod.generic_ok:
                a0 = args[0]
                if a0[0] == 'method' and a0[2] == 'into' and not a0[3]:
                    a0 = a0[1]
                kx = self.ev(a0, env, 'u64')
                if kx.agg or not is_unsigned(kx.ty):
                    raise TranslateError('exp with an exponent of type %r' % (kx.ty,))
                return SV('O.pow %s %s' % (paren(x.e), paren(kx.e)), 'F', x.fv | kx.fv | {'O'})
            if name == 'inv' and not args and self.generic_f and self.mod.generic_ok:
                return SV('O.inv %s' % paren(x.e), 'F', x.fv | {'O'})
            if name == 'mul_base' and len(args) == 1 and self.generic_f and self.mod.generic_ok:
                y = self.ev(args[0], env, 'F')
                return self.f_op('mul', [x, y])
            raise TranslateError('field method %s' % name)
        if name == 'clone':
            return x
        if not is_unsigned(x.ty):
            raise TranslateError('method %s on %s' % (name, x.ty))
        w = INT_TYPES[x.ty]
        Pw = P2(w)
        if name == 'wrapping_neg':
            return SV('(%s - %s) %% %s' % (Pw, paren(x.e), Pw), x.ty, x.fv)
        if name in ('to_le_bytes',) and not args:
            return x                    # the little-endian byte array of a word is represented by the word
        if name in INT_METHODS0:
            if args:
                raise TranslateError('method %s takes no arguments' % name)
            if name == 'ilog2':
                self.ok('%s ≠ 0' % paren(x.e), x.fv)
                return SV('Nat.log2 %s' % paren(x.e), 'u32', x.fv)
            if name == 'is_power_of_two':
                return SV('isPow2 %s = true' % paren(x.e), 'bool', x.fv)
            if name == 'next_power_of_two':
                self.ok('nextPow2 %s < %s' % (paren(x.e), Pw), x.fv)
                return SV('nextPow2 %s' % paren(x.e), x.ty, x.fv)
            if name == 'leading_zeros':
                return SV('clz %d %s' % (w, paren(x.e)), 'u32', x.fv)
            if name == 'trailing_zeros':
                return SV('ctz %d %s' % (w, paren(x.e)), 'u32', x.fv)
            if name == 'reverse_bits':
                return SV('revBits %d %s' % (w, paren(x.e)), x.ty, x.fv)
            if name == 'count_zeros':
                if x.e != '0':
                    raise TranslateError('count_zeros of a non-zero value')
                return self.lit(w, 'u32')
        if name == 'checked_shl' and len(args) == 1:
            y = self.ev(args[0], env, 'u32')
            if y.ty != 'u32':
                raise TranslateError('checked_shl: amount of type %s' % y.ty)
            fv = x.fv | y.fv
            return SV(items=[SV('%s < %d' % (paren(y.e), w), 'bool', fv),
                             SV('%s * 2 ^ %s %% %s' % (paren(x.e), paren(y.e), Pw), x.ty, fv)])
        if name in ('wrapping_shr', 'wrapping_shl'):
            y = self.ev(args[0], env, 'u32')
            if y.ty != 'u32':
                raise TranslateError('%s: amount of type %s' % (name, y.ty))
            fv = x.fv | y.fv
            if name == 'wrapping_shr':
                return SV('%s / 2 ^ (%s %% %d)' % (paren(x.e), paren(y.e), w), x.ty, fv)
            return SV('%s * 2 ^ (%s %% %d) %% %s' % (paren(x.e), paren(y.e), w, Pw), x.ty, fv)
        y = self.ev(args[0], env, x.ty)
        if y.ty != x.ty:
            raise TranslateError('%s: operand types %s / %s' % (name, x.ty, y.ty))
        fv = x.fv | y.fv
        if name == 'wrapping_add':
            return SV('(%s + %s) %% %s' % (paren(x.e), paren(y.e), Pw), x.ty, fv)
        if name == 'wrapping_sub':
            return SV('(%s + %s - %s) %% %s' % (paren(x.e), Pw, paren(y.e), Pw), x.ty, fv)
        if name == 'wrapping_mul':
            return SV('%s * %s %% %s' % (paren(x.e), paren(y.e), Pw), x.ty, fv)
        if name == 'overflowing_add':
            return SV(items=[SV('(%s + %s) %% %s' % (paren(x.e), paren(y.e), Pw), x.ty, fv),
                             SV('%s ≤ %s + %s' % (Pw, paren(x.e), paren(y.e)), 'bool', fv)])
        if name == 'overflowing_sub':
            return SV(items=[SV('(%s + %s - %s) %% %s' % (paren(x.e), Pw, paren(y.e), Pw), x.ty, fv),
                             SV('%s < %s' % (paren(x.e), paren(y.e)), 'bool', fv)])
        if name == 'saturating_sub':
            return SV('%s - %s' % (paren(x.e), paren(y.e)), x.ty, fv)      # truncated subtraction on Nat
        if name in ('min', 'max'):
            return SV('%s %s %s' % (name, paren(x.e), paren(y.e)), x.ty, fv)
        raise TranslateError('method %s' % name)

    def call(self, e, env, want):
        segs = e[1]
        args = e[2]
        name = segs[-1]
        if len(segs) == 1 and segs[0] in ('Self', self.mod.ftype, 'BaseElement'):
            x = self.ev(args[0], env, self.mod.rawty)
            return SV(x.e, 'F', x.fv)
        if name == 'from_mont' or name == 'from_raw':
            x = self.ev(args[0], env, self.mod.rawty)
            return SV(x.e, 'F', x.fv)
        if name == 'new' and segs[0] in ('Self', self.mod.ftype, 'BaseElement') \
                and not (segs[0] == 'Self' and self.selftype in self.mod.structs):
            x = self.ev(args[0], env, self.mod.rawty)
            return self.f_new(x)
        if name == 'from' and segs[0] in ('Self', self.mod.ftype, 'BaseElement'):
            x = self.ev(args[0], env, None)
            return self.f_new(self.cast(x, self.mod.rawty))
        if segs == ['vec!'] and len(args) == 1 and args[0][0] == 'repeat':
            et = want[5:] if isinstance(want, str) and want.startswith('list:') else None
            x = self.ev(args[0][1], env, et)
            n = self.ev(args[0][2], env, 'usize')
            if x.agg or n.agg or n.ty != 'usize' or not (x.ty in INT_TYPES or x.ty == 'F'):
                raise TranslateError('vec![%r; %r]' % (x.ty, n.ty))
            return SV('List.replicate %s %s' % (paren(n.e), paren(x.e)), 'list:' + x.ty, x.fv | n.fv)
        if segs == ['vec!'] and len(args) == 1 and args[0][0] == 'array':
            et = want[5:] if isinstance(want, str) and want.startswith('list:') else None
            xs = [self.ev(a, env, et) for a in args[0][1]]
            if xs and any(x.agg for x in xs):
                raise TranslateError('vec![..] of tuples without a known element type')
            if not xs:
                if et is None:
                    raise TranslateError('vec![] without a known element type')
                return SV('([] : %s)' % self.lty(want), want)
            if any(x.agg or x.ty != xs[0].ty for x in xs):
                raise TranslateError('vec![..] of mixed types')
            fv = frozenset().union(*[x.fv for x in xs])
            return SV('[' + ', '.join(x.e for x in xs) + ']', 'list:' + xs[0].ty, fv)
        if name == 'get_root_of_unity' and len(segs) == 2 and segs[0] in self.mod.ftypes and len(args) == 1 \
                and self.generic_f and self.mod.generic_ok:
            kx = self.ev(args[0], env, 'u32')
            if kx.agg or kx.ty != 'u32':
                raise TranslateError('get_root_of_unity of %r' % (kx.ty,))
            self.ok('O.rootOk %s = true' % paren(kx.e), kx.fv | {'O'})
            return SV('O.root %s' % paren(kx.e), 'F', kx.fv | {'O'})
        if name == 'from' and len(segs) == 2 and segs[0] in self.mod.ftypes and len(args) == 1:
            x = self.ev(args[0], env, 'F')
            if x.ty == 'F':
                return x                # embedding of the base field into the field the function works in
        if name == 'uninit_vector' and len(args) == 1:
            # uninitialised memory that the caller overwrites completely: modelled as zeros
            if not (isinstance(want, str) and want.startswith('list:')):
                raise TranslateError('uninit_vector() without a known element type (add a hint)')
            n = self.ev(args[0], env, 'usize')
            d = self.elem_default(want[5:])
            return SV('List.replicate %s %s' % (paren(n.e), paren(d.e)), want, n.fv | d.fv)
        if segs == ['Vec', 'with_capacity'] and len(args) == 1:
            if not (isinstance(want, str) and want.startswith('list:')):
                raise TranslateError('Vec::with_capacity() without a known element type (add a hint)')
            return SV('([] : %s)' % self.lty(want), want)
        if segs == ['Vec', 'new'] and not args:
            if not (isinstance(want, str) and want.startswith('list:')):
                raise TranslateError('Vec::new() without a known element type (add a hint)')
            return SV('([] : %s)' % self.lty(want), want)
        if name == 'from_le_bytes' and len(segs) == 2 and segs[0] in INT_TYPES and is_unsigned(segs[0]) and len(args) == 1:
            x = self.ev(args[0], env, segs[0])
            if x.agg or x.ty != segs[0]:
                raise TranslateError('from_le_bytes of %r' % (x.ty,))
            return x
        if name in ('min', 'max') and len(segs) >= 2 and segs[-2] == 'cmp' and len(args) == 2:
            if args[0][0] == 'int' and args[0][2] is None:
                y = self.ev(args[1], env, want)
                x = self.ev(args[0], env, y.ty)
            else:
                x = self.ev(args[0], env, want)
                y = self.ev(args[1], env, x.ty)
            if x.agg or y.agg or x.ty != y.ty or x.ty not in INT_TYPES:
                raise TranslateError('cmp::%s of %s and %s' % (name, x.ty, y.ty))
            return SV('%s %s %s' % (name, paren(x.e), paren(y.e)), x.ty, x.fv | y.fv)
        key = '::'.join(s for s in segs if isinstance(s, str))
        sig = self.mod.sigs.get(key) or self.mod.sigs.get(name)
        if sig is None:
            raise TranslateError('call to untranslated function %s' % key)
        lname, ptys, rty = sig
        svs = [self.ev(a, env, pt) for a, pt in zip(args, ptys)]
        flat = []
        def fl(sv):
            if sv.agg:
                for x in sv.items:
                    fl(x)
            else:
                flat.append(sv)
        for sv in svs:
            fl(sv)
        fv = frozenset().union(*[x.fv for x in flat]) if flat else frozenset()
        argstr = ' '.join(paren(x.e if x.ty != 'bool' else 'decide (%s)' % x.e) for x in flat)
        if self.generic_f and self.mod.generic_ok:
            argstr = 'O ' + argstr
            fv = fv | {'O'}
        self.ok('%s_ok %s = true' % (lname, argstr), fv)
        callexpr = '%s %s' % (lname, argstr)
        return self.unpack(callexpr, rty, fv)

    def unpack(self, ex, rty, fv):
        """turn a Lean expression of (nested right) product type into an SV tree."""
        if not isinstance(rty, tuple):
            if rty == 'bool':
                return SV('%s = true' % paren(ex), 'bool', fv)
            return SV(ex, rty, fv)
        leaves = count_leaves(rty)
        # bind the call result first so that projections do not duplicate the call
        tmp = self.fresh('r')
        args = [x for x in self.order if x in fv]
        self.steps.append((tmp, args, lean_prod_type(rty, self), ex))
        self.lets.append((tmp, args))
        self.order.append(tmp)
        self.vartype[tmp] = lean_prod_type(rty, self)
        idx = [0]
        def build(t):
            if isinstance(t, tuple):
                return SV(items=[build(x) for x in t[1]])
            i = idx[0]
            idx[0] += 1
            proj = tmp + ''.join(['.2'] * i) + ('.1' if i < leaves - 1 else '')
            if t == 'bool':
                return SV('%s = true' % proj, 'bool', [tmp])
            return SV(proj, t, [tmp])
        return build(rty)

    def matchexpr(self, e, env, want):
        """`match` on a fieldless enum (its discriminant) or an integer: a chain of `if`s; the last arm of a match
        that lists every variant (or `_`) is the final `else`."""
        _, scrut, arms = e
        x = self.ev(scrut, env, None)
        if x.agg or x.ty not in INT_TYPES:
            raise TranslateError('match on a value of type %r' % (x.ty,))
        def pat_values(pt):
            if pt[0] == 'int':
                return [pt[1]]
            if pt[0] == 'path':
                segs = pt[1]
                if len(segs) != 2:
                    raise TranslateError('match pattern %r' % (segs,))
                en = self.selftype if segs[0] == 'Self' else segs[0]
                if en not in self.mod.enums:
                    raise TranslateError('match pattern of unregistered enum %s' % en)
                variants = self.mod.enum_variants(en)
                if segs[1] not in variants:
                    raise TranslateError('enum %s has no variant %s' % (en, segs[1]))
                return [variants[segs[1]]], en
            raise TranslateError('match pattern')
        conds = []          # (list of values or None for `_`, arm expr)
        enum_name = None
        for pats, ae in arms:
            vals = []
            wild = False
            for pt in pats:
                if pt[0] == 'pwild':
                    wild = True
                else:
                    r = pat_values(pt)
                    if isinstance(r, tuple):
                        vals += r[0]
                        enum_name = r[1]
                    else:
                        vals += r
            conds.append((None if wild else vals, ae))
        covered = [v for vals, _ in conds if vals is not None for v in vals]
        exhaustive = any(vals is None for vals, _ in conds) or \
            (enum_name is not None and set(covered) == set(self.mod.enum_variants(enum_name).values()))
        if not exhaustive:
            raise TranslateError('match that is not exhaustive over a registered enum')
        xb = self.bind('m', x)
        # evaluate arms right to left; every arm's side conditions are guarded by its test
        res = None
        for idx in range(len(conds) - 1, -1, -1):
            vals, ae = conds[idx]
            last = idx == len(conds) - 1 or vals is None
            test = None if vals is None else ' ∨ '.join('%s = %d' % (xb.e, v) for v in vals)
            prev = ['¬ (%s)' % (' ∨ '.join('%s = %d' % (xb.e, v) for v in vs)) for vs, _ in conds[:idx] if vs is not None]
            guard = prev + ([test] if (test is not None and not last) else [])
            for g in guard:
                self.guards.append((g, xb.fv))
            try:
                a = self.ev(ae, dict(env), want if want is not None else (res.ty if res is not None and not res.agg else None))
            finally:
                for g in guard:
                    self.guards.pop()
            if a.agg:
                raise TranslateError('match arm of aggregate type')
            if res is None:
                res = a
            else:
                if a.ty != res.ty:
                    raise TranslateError('match arms of different type %s / %s' % (a.ty, res.ty))
                res = self.merge(SV(test, 'bool', xb.fv), a, res)
        return res

    def ifexpr(self, e, env, want):
        _, c, th, el = e
        cv = self.ev(c, env, 'bool')
        if el is None:
            raise TranslateError('if without else used as expression')
        def branch(blk, neg, w):
            self.guards.append((('¬ %s' % paren(cv.e)) if neg else cv.e, cv.fv))
            try:
                return self.block(blk, dict(env), w)
            finally:
                self.guards.pop()
        try:
            a = branch(th, False, want)
            b = branch(el, True, want if want is not None else (a.ty if not a.agg else None))
        except TranslateError as ex:
            if 'cannot type literal' not in str(ex):
                raise
            b = branch(el, True, want)
            a = branch(th, False, b.ty if not b.agg else None)
        return self.merge(cv, a, b)

    def merge(self, cv, a, b):
        if a.agg != b.agg:
            raise TranslateError('if branches of different shape')
        if a.agg:
            return SV(items=[self.merge(cv, x, y) for x, y in zip(a.items, b.items)])
        if a.ty != b.ty:
            raise TranslateError('if branches of different type %s / %s' % (a.ty, b.ty))
        if a.ty == 'bool':
            return SV('if %s then decide (%s) else decide (%s)' % (cv.e, a.e, b.e), 'bool', cv.fv | a.fv | b.fv)
        return SV('if %s then %s else %s' % (cv.e, a.e, b.e), a.ty, cv.fv | a.fv | b.fv)

    # ---- statements
    def bindpat(self, pat, sv, env):
        if pat[0] == 'pwild':
            return
        if pat[0] == 'pvar':
            env[pat[1]] = self.bind(pat[1], sv)
            return
        if not sv.agg or len(sv.items) != len(pat[1]):
            raise TranslateError('pattern shape')
        for p, x in zip(pat[1], sv.items):
            self.bindpat(p, x, env)

    def assign(self, lhs, sv, env):
        if lhs[0] == 'path' and len(lhs[1]) == 1:
            n = lhs[1][0]
            if n not in env:
                raise TranslateError('assignment to unknown %s' % n)
            env[n] = self.bind(n, sv)
            return
        if lhs[0] == 'index' and lhs[1][0] == 'path' and len(lhs[1][1]) == 1 and lhs[1][1][0] in env \
                and not isinstance(env[lhs[1][1][0]], tuple) and not env[lhs[1][1][0]].agg \
                and isinstance(env[lhs[1][1][0]].ty, str) and env[lhs[1][1][0]].ty.startswith('list:'):
            n = lhs[1][1][0]
            cur = env[n]
            ix = self.ev(lhs[2], env, 'usize')
            if ix.agg or ix.ty != 'usize' or sv.agg or sv.ty != cur.ty[5:]:
                raise TranslateError('element assignment %r [%r] = %r' % (cur.ty, ix.ty, sv.ty))
            self.ok('%s < List.length %s' % (paren(ix.e), paren(cur.e)), cur.fv | ix.fv)
            env[n] = self.bind(n, SV('List.set %s %s %s' % (paren(cur.e), paren(ix.e), paren(sv.e)), cur.ty,
                                     cur.fv | ix.fv | sv.fv))
            return
        if lhs[0] == 'index':
            base = lhs[1]
            ix = const_eval_env(lhs[2], env, self.mod.consts)
            if base[0] == 'path' and len(base[1]) == 1 and base[1][0] in env and env[base[1][0]].agg:
                old = env[base[1][0]]
                items = list(old.items)
                items[ix] = self.bind('%s_%d' % (base[1][0], ix), sv)
                env[base[1][0]] = SV(items=items)
                return
        raise TranslateError('assignment target')

    def hint_for(self, pat):
        """declared type of a `let` pattern whose variables are all listed in the per-function hints
        (stands in for rustc's inference of untyped integer literals)."""
        if pat[0] == 'pvar':
            return self.hints.get(pat[1])
        if pat[0] == 'ptuple':
            ts = [self.hint_for(x) for x in pat[1]]
            return ('agg', ts) if all(t is not None for t in ts) else None
        return None

    def block(self, blk, env, want):
        _, stmts, final = blk
        for si, st in enumerate(stmts):
            k = st[0]
            if k == 'expr' and st[1][0] == 'if' and st[1][3] is None and st[1][2][2] is not None \
                    and st[1][2][2][0] == 'return':
                # `if c { …; return e; }  rest`  ==  `if c { …; e } else { rest }`
                _, c, th, _el = st[1]
                cv = self.ev(c, env, 'bool')
                cvb = self.bind('c', cv)
                self.guards.append((cvb.e, cvb.fv))
                env_t = dict(env)
                a = self.block(th, env_t, want)
                self.guards.pop()
                self.guards.append(('¬ %s' % paren(cvb.e), cvb.fv))
                b = self.block(('block', stmts[si + 1:], final), env, want)
                self.guards.pop()
                for n in getattr(self, 'outnames', []):
                    if n in env and n in env_t and env_t[n] is not env[n]:
                        env[n] = self.bind(n, self.merge_env(cvb, env_t[n], env[n], env[n]))
                if a.agg and b.agg and not a.items and not b.items:
                    return a
                return self.merge(cvb, a, b)
            if k == 'let':
                _, pat, ty, ex = st
                w = self.norm_ty(ty) if ty is not None else None
                if ex is None:
                    raise TranslateError('let without initialiser')
                if w is None:
                    w = self.hint_for(pat)
                if w is None and ex[0] == 'int' and ex[2] is None:
                    w = self.hints.get('*')         # the function's default type of a bare literal
                sv = self.ev(ex, env, w)
                if w is not None and not sv.agg and not isinstance(w, tuple) and sv.ty != w:
                    raise TranslateError('let type mismatch %s vs %s' % (sv.ty, w))
                self.bindpat(pat, sv, env)
            elif k == 'assign':
                _, lhs, op, rhs = st
                if op != '=':
                    rhs = ('bin', op[:-1], lhs, rhs)
                cur = self.ev(lhs, env)
                sv = self.ev(rhs, env, cur.ty if not cur.agg else None)
                self.assign(lhs, sv, env)
            elif k == 'expr':
                ex = st[1]
                if ex[0] == 'if':
                    self.ifstmt(ex, env)
                elif ex[0] == 'method' and ex[2] == 'copy_within' and len(ex[3]) == 2 and ex[3][0][0] == 'range' \
                        and ex[3][0][2] is None and ex[3][1] == ('int', 0, None) and ex[1][0] == 'path' \
                        and len(ex[1][1]) == 1 and ex[1][1][0] in env:
                    # v.copy_within(lo.., 0): the tail moves to the front, the last `lo` elements stay
                    n = ex[1][1][0]
                    cur = env[n]
                    lo = self.ev(ex[3][0][1], env, 'usize')
                    self.ok('%s ≤ List.length %s' % (paren(lo.e), paren(cur.e)), cur.fv | lo.fv)
                    env[n] = self.bind(n, SV('List.drop %s %s ++ List.drop (List.length %s - %s) %s' % (
                        paren(lo.e), paren(cur.e), paren(cur.e), paren(lo.e), paren(cur.e)), cur.ty, cur.fv | lo.fv))
                elif ex[0] == 'method' and ex[2] == 'fill' and len(ex[3]) == 1 and ex[1][0] == 'index' \
                        and ex[1][2][0] == 'rangeidx' and ex[1][2][2] is None and ex[1][1][0] == 'path' \
                        and len(ex[1][1][1]) == 1 and ex[1][1][1][0] in env:
                    # v[lo..].fill(x)
                    n = ex[1][1][1][0]
                    cur = env[n]
                    lo = self.ev(ex[1][2][1], env, 'usize')
                    xv = self.ev(ex[3][0], env, cur.ty[5:])
                    self.ok('%s ≤ List.length %s' % (paren(lo.e), paren(cur.e)), cur.fv | lo.fv)
                    env[n] = self.bind(n, SV('List.take %s %s ++ List.replicate (List.length %s - %s) %s' % (
                        paren(lo.e), paren(cur.e), paren(cur.e), paren(lo.e), paren(xv.e)), cur.ty,
                        cur.fv | lo.fv | xv.fv))
                elif ex[0] == 'call' and isinstance(ex[1][-1], str) and self.mod.outs.get(ex[1][-1]):
                    # f(&mut v, ..);   a translated function with out-parameters: its result is the new v
                    outs = self.mod.outs[ex[1][-1]]
                    tgt = [ex[2][i] for i in outs]
                    if not all(a[0] == 'path' and len(a[1]) == 1 and a[1][0] in env for a in tgt):
                        raise TranslateError('out-argument of %s is not a variable' % ex[1][-1])
                    r = self.ev(ex, env, None)
                    rs = r.items if (r.agg and len(tgt) > 1) else [r]
                    for a, v_ in zip(tgt, rs):
                        env[a[1][0]] = self.bind(a[1][0], v_)
                elif ex[0] == 'call' and len(ex[1]) >= 2 and ex[1][-2:] == ['mem', 'swap'] and len(ex[2]) == 2 \
                        and all(a[0] == 'path' and len(a[1]) == 1 and a[1][0] in env for a in ex[2]):
                    a_, b_ = ex[2][0][1][0], ex[2][1][1][0]
                    env[a_], env[b_] = self.bind(a_, env[b_]), self.bind(b_, env[a_])
                elif ex[0] == 'iflet':
                    # if let Some(x) = opt { .. }   with opt = (is_some, value)
                    _, pt, sc, th, el = ex
                    if pt[0] != 'psome' or pt[1][0] != 'pvar' or el is not None:
                        raise TranslateError('if let: only `Some(x)` without else')
                    o = self.ev(sc, env)
                    if not o.agg or len(o.items) != 2 or o.items[0].ty != 'bool':
                        raise TranslateError('if let on a non-Option value')
                    cvb = self.bind('c', o.items[0])
                    env_t = dict(env)
                    env_t[pt[1][1]] = o.items[1]
                    bound0 = env_t[pt[1][1]]
                    self.guards.append((cvb.e, cvb.fv))
                    self.block(th, env_t, None)
                    self.guards.pop()
                    for n in env:
                        if n == pt[1][1] and env_t.get(n) is bound0:
                            continue            # the pattern variable shadows the option inside the block only
                        if env_t.get(n) is not env[n] and not isinstance(env[n], tuple):
                            m = self.merge_env(cvb, env_t[n], env[n], env[n])
                            env[n] = self.bind(n, m)
                elif ex[0] == 'method' and ex[2] == 'push' and len(ex[3]) == 1 and ex[1][0] == 'path' \
                        and len(ex[1][1]) == 1 and ex[1][1][0] in env:
                    # v.push(x)  ==  v = v ++ [x]
                    n = ex[1][1][0]
                    cur = env[n]
                    if cur.agg or not (isinstance(cur.ty, str) and cur.ty.startswith('list:')
                                       and (cur.ty[5:] in INT_TYPES or cur.ty[5:] == 'F')):
                        raise TranslateError('push on a value of type %r' % (cur.ty,))
                    y = self.ev(ex[3][0], env, cur.ty[5:])
                    if y.agg or y.ty != cur.ty[5:]:
                        raise TranslateError('push of a value of type %r' % (y.ty,))
                    env[n] = self.bind(n, SV('%s ++ [%s]' % (paren(cur.e), y.e), cur.ty, cur.fv | y.fv))
                else:
                    raise TranslateError('expression statement')
            elif k == 'assert':
                cv = self.ev(st[1], env, 'bool')
                self.ok(cv.e, cv.fv)
            elif k == 'while':
                self.whilestmt(st[1], st[2], env)
            elif k == 'for':
                _, pat, rng, body = st
                if rng[0] != 'range':
                    im = self.itermut_of(rng, env)
                    self.forlist(pat, rng, body, env, im)
                    continue
                try:
                    lo = const_eval_env(rng[1], env, self.mod.consts)
                    hi = const_eval_env(rng[2], env, self.mod.consts)
                except TranslateError:
                    self.forlist(pat, rng, body, env)
                    continue
                for i in range(lo, hi):
                    env2 = env
                    if pat[0] == 'pvar':
                        env2[pat[1]] = ('constint', i)
                    r = self.block(body, env2, None)
                    if pat[0] == 'pvar':
                        del env2[pat[1]]
            else:
                raise TranslateError('statement %s' % k)
        if final is None:
            return SV(items=[])
        def stmt_like(e):
            # an `if` all of whose branches are blocks without a value
            if e[0] != 'if':
                return False
            for b in (e[2], e[3]):
                if b is None:
                    continue
                if b[2] is None:
                    continue
                if not b[1] and stmt_like(b[2]):
                    continue
                return False
            return True
        if final[0] == 'if' and (final[3] is None or stmt_like(final)):
            # a trailing `if c { .. } [else { .. }]` whose branches have no value is a statement of unit type
            self.ifstmt(final, env)
            return SV(items=[])
        if final[0] == 'return':
            if final[1] is None:
                return SV(items=[])
            return self.ev(final[1], env, want)
        return self.ev(final, env, want)

    def ifstmt(self, e, env):
        _, c, th, el = e
        for b in (th, el):
            if b is not None and b[2] is not None and b[2][0] == 'return':
                raise TranslateError('early return in this position is not supported')
        cv = self.ev(c, env, 'bool')
        cvb = self.bind('c', cv)
        env_t = dict(env)
        self.guards.append((cvb.e, cvb.fv))
        self.block(th, env_t, None)
        self.guards.pop()
        env_e = dict(env)
        if el is not None:
            self.guards.append(('¬ %s' % paren(cvb.e), cvb.fv))
            self.block(el, env_e, None)
            self.guards.pop()
        for n in env:
            a, b = env_t.get(n), env_e.get(n)
            if a is not env[n] or b is not env[n]:
                if isinstance(env[n], tuple):
                    continue
                m = self.merge_env(cvb, a, b, env[n])
                env[n] = self.bind(n, m) if not m.agg else self.bind(n, m)

    # ---- loops
    def assigned_names(self, blk, acc):
        def lhs_name(lhs):
            if lhs[0] == 'path' and len(lhs[1]) == 1:
                return lhs[1][0]
            if lhs[0] == 'index':
                return lhs_name(lhs[1])
            raise TranslateError('assignment target in loop')
        for st in blk[1]:
            if st[0] == 'assign':
                n = lhs_name(st[1])
                if n not in acc:
                    acc.append(n)
            elif st[0] == 'expr' and st[1][0] == 'if':
                self.assigned_in_if(st[1], acc)
            elif st[0] == 'expr' and st[1][0] == 'method' and st[1][2] == 'push' and st[1][1][0] == 'path' \
                    and len(st[1][1][1]) == 1:
                if st[1][1][1][0] not in acc:
                    acc.append(st[1][1][1][0])
            elif st[0] == 'expr' and st[1][0] == 'method' and st[1][2] == 'copy_within' and st[1][1][0] == 'path' \
                    and len(st[1][1][1]) == 1:
                if st[1][1][1][0] not in acc:
                    acc.append(st[1][1][1][0])
            elif st[0] == 'expr' and st[1][0] == 'method' and st[1][2] == 'fill' and st[1][1][0] == 'index' \
                    and st[1][1][1][0] == 'path' and len(st[1][1][1][1]) == 1:
                if st[1][1][1][1][0] not in acc:
                    acc.append(st[1][1][1][1][0])
            elif st[0] == 'expr' and st[1][0] == 'call' and isinstance(st[1][1][-1], str) \
                    and self.mod.outs.get(st[1][1][-1]):
                for i in self.mod.outs[st[1][1][-1]]:
                    a = st[1][2][i]
                    if a[0] == 'path' and len(a[1]) == 1 and a[1][0] not in acc:
                        acc.append(a[1][0])
            elif st[0] == 'expr' and st[1][0] == 'call' and st[1][1][-2:] == ['mem', 'swap']:
                for a in st[1][2]:
                    if a[0] == 'path' and len(a[1]) == 1 and a[1][0] not in acc:
                        acc.append(a[1][0])
            elif st[0] in ('while',):
                self.assigned_names(st[2], acc)
            elif st[0] == 'for':
                e = st[2]
                while e[0] == 'method' and e[2] in ('zip', 'rev', 'enumerate'):
                    e = e[1]
                if e[0] == 'method' and e[2] == 'iter_mut' and e[1][0] == 'path' and len(e[1][1]) == 1 \
                        and e[1][1][0] not in acc:
                    acc.append(e[1][1][0])          # the vector the loop mutates element by element
                self.assigned_names(st[3], acc)
        if blk[2] is not None and blk[2][0] == 'if':
            self.assigned_in_if(blk[2], acc)

    def assigned_in_if(self, e, acc):
        self.assigned_names(e[2], acc)
        if e[3] is not None:
            self.assigned_names(e[3], acc)

    def fuel(self):
        """the fuel parameter `N` of a function with loops: every `while` runs at most N iterations
        (then returns the state it has reached; theorems quantify over N ≥ a proved bound and show that
        the loop condition is false on the returned state)."""
        if self.fuelvar is None:
            v = self.fresh('N')
            self.fuelvar = v
            self.order.insert(0, v)
            self.vartype[v] = 'Nat'
            self.pvars.insert(0, v)
        return self.fuelvar

    def sub_emitter(self, suffix, names, env):
        em = FnEmitter(self.mod, self.name + suffix, [], None, None, self.generic_f)
        em.hints = self.hints
        em.selftype = self.selftype
        em.parent = self
        em.pvars = []
        sub = {}
        pmap = {}
        for n in names:
            sv = env[n]
            if sv.agg:
                raise TranslateError('aggregate %s live across a loop' % n)
            psv = em.param_sv(n.lstrip('@'), sv.ty)
            sub[n] = psv
            pmap[n] = list(psv.fv)[0]
        for n, v in env.items():
            if isinstance(v, tuple):
                sub[n] = v
        return em, sub, pmap

    def used_params(self, em):
        used = set()
        for st in em.steps:
            if st[0] != RAW:
                used |= set(st[1])
        def fl(x):
            if x.agg:
                for y in x.items:
                    fl(y)
            else:
                used.update(x.fv)
        fl(em.result)
        for (g, c, fv) in em.oks:
            used |= set(fv)
        return used

    def elem_default(self, et):
        if et == 'F':
            return self.f_new(self.lit(0, 'u64'))
        if et in INT_TYPES:
            return SV('0', et)
        if et.startswith('pair:'):
            a_, b_ = et[5:].split(':')
            da, db = self.elem_default(a_), self.elem_default(b_)
            return SV('(%s, %s)' % (da.e, db.e), et, da.fv | db.fv)
        raise TranslateError('no default element of type %r' % (et,))

    def objsig_of(self, T, m):
        em = self
        while em is not None:
            if (T, m) in getattr(em, 'objsig', {}):
                return em.objsig[(T, m)]
            em = getattr(em, 'parent', None)
        raise TranslateError('%s::%s has no signature here' % (T, m))

    def tybinder(self, ltys):
        """`{T : Type} ` for every object type mentioned by the Lean types `ltys`."""
        vs = [T for T in sorted(self.mod.objtypes) if any(re.search(r'\b%s\b' % re.escape(T), x) for x in ltys)]
        return ''.join('{%s : Type} ' % T for T in vs)

    def itermut_of(self, rng, env):
        """(vector variable, reversed?, zipped expression or None) for `v.iter_mut()[.rev()][.zip(w.iter())]`."""
        rev, zp, e = False, None, rng
        if e[0] == 'method' and e[2] == 'zip' and len(e[3]) == 1:
            zp, e = e[3][0], e[1]
        if e[0] == 'method' and e[2] == 'rev' and not e[3]:
            rev, e = True, e[1]
        if e[0] == 'method' and e[2] == 'iter_mut' and not e[3] and e[1][0] == 'path' and len(e[1][1]) == 1 \
                and e[1][1][0] in env:
            if rev and zp is not None:
                raise TranslateError('iter_mut().rev().zip(..)')
            return (e[1][1][0], rev, zp)
        return None

    def forlist(self, pat, rng, body, env, itermut=None):
        """`for x in <vector>` as structural recursion over the list: `f.forK` (state after the loop) and
        `f.forK_ok` (no panic on any iteration), with the body as `f.forK_body` / `f.forK_body_ok`."""
        if self.generic_f and not self.mod.generic_ok:
            raise TranslateError('loop in a field-generic function')
        accname = None
        zipped = False
        if itermut is not None:
            # for x in v.iter_mut()..: the elements are rebuilt into `acc`, which replaces `v` after the loop
            vname, rev, zp = itermut
            V = env[vname]
            if V.agg or not (isinstance(V.ty, str) and V.ty.startswith('list:')):
                raise TranslateError('iter_mut of a value of type %r' % (V.ty,))
            base, fvx, et = V.e, set(V.fv), V.ty[5:]
            if zp is not None:
                W = self.ev(zp, env)
                if W.agg or not (isinstance(W.ty, str) and W.ty.startswith('list:')):
                    raise TranslateError('zip with a value of type %r' % (W.ty,))
                base, fvx = 'List.zip %s %s' % (paren(V.e), paren(W.e)), fvx | set(W.fv)
                zipped = (V.ty[5:], W.ty[5:])
                et = 'fn:(%s × %s)' % (self.lty(V.ty[5:]), self.lty(W.ty[5:]))
            if rev:
                base = 'List.reverse %s' % paren(base)
            xs = SV(base, 'list:' + et, fvx)
            accname = '%s_acc' % vname
            env[accname] = self.bind(accname, SV('([] : %s)' % self.lty(V.ty), V.ty))
        else:
            xs = self.ev(rng, env)
            if xs.agg or not (isinstance(xs.ty, str) and xs.ty.startswith('list:')):
                raise TranslateError('for over a value of type %r' % (xs.ty,))
            et = xs.ty[5:]
        if not zipped and itermut is None and et.startswith('pair:') and pat[0] == 'ptuple':
            zipped = tuple(et[5:].split(':'))
        if zipped:
            if pat[0] != 'ptuple' or len(pat[1]) != 2 or any(q[0] != 'pvar' for q in pat[1]):
                raise TranslateError('pattern in a for over a zip')
            patnames = [pat[1][0][1], pat[1][1][1]]
        else:
            if pat[0] != 'pvar':
                raise TranslateError('pattern in a for over a vector')
            patnames = [pat[1]]
        self.nloops += 1
        k = self.nloops
        lvars = []
        self.assigned_names(body, lvars)
        lvars = [n for n in env if n in lvars and n not in patnames and not isinstance(env[n], tuple)]
        if accname is not None and accname not in lvars:
            lvars.append(accname)
        caps_all = [n for n in env if n not in lvars and not isinstance(env[n], tuple) and not env[n].agg]
        names = lvars + caps_all
        lname = '%s.for%d' % (self.name, k)
        bem, benv, bmap = self.sub_emitter('.for%d_body' % k, names, env)
        if zipped:
            esv = bem.param_sv('e', et)
            ev_ = list(esv.fv)[0]
            benv[patnames[0]] = bem.bind(patnames[0], SV('%s.1' % ev_, zipped[0], [ev_]))
            benv[patnames[1]] = bem.bind(patnames[1], SV('%s.2' % ev_, zipped[1], [ev_]))
        else:
            esv = bem.param_sv(pat[1], et)
            benv[pat[1]] = esv
            ev_ = list(esv.fv)[0]
        bem.block(body, benv, None)
        if accname is not None:
            cur, xe = benv[accname], benv[patnames[0]]
            benv[accname] = bem.bind(accname, SV('%s ++ [%s]' % (paren(cur.e), xe.e), cur.ty, cur.fv | xe.fv))
        if bem.fuelvar is not None:
            raise TranslateError('while loop inside a for over a vector')
        if len(lvars) > 1:
            bem.result = SV(items=[benv[n] for n in lvars])
            bem.rty = ('agg', [env[n].ty for n in lvars])
        elif len(lvars) == 1:
            bem.result = benv[lvars[0]]
            bem.rty = env[lvars[0]].ty
        else:
            bem.result = SV(items=[])
            bem.rty = ('agg', [])
        u = self.used_params(bem)
        caps = [n for n in caps_all if bmap[n] in u]
        keep = lvars + caps
        bem.pvars = [ev_] + [bmap[n] for n in keep]
        self.steps.append((RAW, bem.render()))
        lt = [self.lty(env[n].ty) for n in lvars]
        ct = [self.lty(env[n].ty) for n in caps]
        elt = self.lty(et)
        vs = ['x%d' % i for i in range(len(lvars))]
        cs = ['c%d' % i for i in range(len(caps))]
        capdecl = ' '.join('(%s : %s)' % (c, t) for c, t in zip(cs, ct))
        binder = self.tybinder(ct + lt + [elt])
        og = ''
        if self.generic_f:
            binder = '{F : Type} (O : %s F) ' % self.mod.fops_record + binder
            og = 'O '
        tup = '(' + ', '.join(vs) + ')' if len(vs) > 1 else (vs[0] if vs else '()')
        def proj(r, i):
            if len(vs) == 1:
                return r
            return '%s%s%s' % (r, '.2' * i, '.1' if i < len(vs) - 1 else '')
        args_exc = og + ' '.join(['e'] + vs + cs)
        rec = ' '.join(proj('r', i) for i in range(len(vs)))
        csp = og + ' '.join(cs) + (' ' if cs else '')
        arrow = ' → '.join(['List ' + paren(elt)] + lt)
        pats0 = ', '.join(['[]'] + vs)
        pats1 = ', '.join(['e :: rest'] + vs)
        if lvars:
            self.steps.append((RAW, '\n'.join([
                '/-- `for` loop %d of `%s` over a vector: the loop-carried variables after the last element -/' % (k, self.name),
                'def %s %s%s : %s → %s' % (lname, binder, capdecl, arrow, ' × '.join(lt)),
                '  | %s => %s' % (pats0, tup),
                '  | %s =>' % pats1,
                '    let r := %s_body %s' % (lname, args_exc),
                '    %s %srest %s' % (lname, csp, rec)])))
            self.steps.append((RAW, '\n'.join([
                'def %s_ok %s%s : %s → Bool' % (lname, binder, capdecl, arrow),
                '  | %s => true' % pats0,
                '  | %s =>' % pats1,
                '    %s_body_ok %s &&' % (lname, args_exc),
                '    (let r := %s_body %s' % (lname, args_exc),
                '     %s_ok %srest %s)' % (lname, csp, rec)])))
        else:
            self.steps.append((RAW, '\n'.join([
                '/-- `for` loop %d of `%s` over a vector (assertions only): no panic on any element -/' % (k, self.name),
                'def %s_ok %s%s : %s → Bool' % (lname, binder, capdecl, arrow),
                '  | [] => true',
                '  | e :: rest => %s_body_ok %s && %s_ok %srest' % (lname, args_exc, lname, csp)])))
        def arg(n):
            sv = env[n]
            return paren(sv.e if sv.ty != 'bool' else 'decide (%s)' % sv.e)
        fv = frozenset(xs.fv).union(*[env[n].fv for n in keep]) if keep else frozenset(xs.fv)
        callargs = og + ' '.join([arg(n) for n in caps] + [paren(xs.e)] + [arg(n) for n in lvars])
        if self.generic_f:
            fv = fv | {'O'}
        self.ok('%s_ok %s = true' % (lname, callargs), fv)
        if not lvars:
            return
        prod = ' × '.join(lt)
        tmp = self.fresh('lp')
        args = [x for x in self.order if x in fv]
        self.steps.append((tmp, args, prod, '%s %s' % (lname, callargs)))
        self.lets.append((tmp, args))
        self.order.append(tmp)
        self.vartype[tmp] = prod
        for i, n in enumerate(lvars):
            ty = env[n].ty
            pe = proj(tmp, i)
            env[n] = self.bind(n, SV('%s = true' % pe, 'bool', [tmp]) if ty == 'bool' else SV(pe, ty, [tmp]))
        if accname is not None:
            vname, rev, zp = itermut
            acc, V = env[accname], env[vname]
            if rev:
                nv = 'List.reverse %s' % paren(acc.e)
            elif zp is not None:
                nv = '%s ++ List.drop (List.length %s) %s' % (paren(acc.e), paren(acc.e), paren(V.e))
            else:
                nv = acc.e
            env[vname] = self.bind(vname, SV(nv, V.ty, acc.fv | V.fv))
            del env[accname]

    def whilestmt(self, cond, body, env):
        if self.generic_f:
            raise TranslateError('loop in a field-generic function')
        self.nloops += 1
        k = self.nloops
        lvars = []
        self.assigned_names(body, lvars)
        lvars = [n for n in env if n in lvars and not isinstance(env[n], tuple)]
        caps_all = [n for n in env if n not in lvars and not isinstance(env[n], tuple) and not env[n].agg]
        names = lvars + caps_all
        lname = '%s.loop%d' % (self.name, k)
        # condition and body as functions of (loop variables, captured variables)
        cem, cenv, cmap = self.sub_emitter('.loop%d_cond' % k, names, env)
        cem.result = cem.ev(cond, cenv, 'bool')
        cem.rty = 'bool'
        bem, benv, bmap = self.sub_emitter('.loop%d_body' % k, names, env)
        bem.block(body, benv, None)
        bem.result = SV(items=[benv[n] for n in lvars])
        bem.rty = ('agg', [env[n].ty for n in lvars]) if len(lvars) > 1 else env[lvars[0]].ty
        if len(lvars) == 1:
            bem.result = benv[lvars[0]]
        if not lvars:
            raise TranslateError('loop without loop-carried variables')
        used = set()
        for em, pm in ((cem, cmap), (bem, bmap)):
            u = self.used_params(em)
            used |= set(n for n in names if pm[n] in u)
        caps = [n for n in caps_all if n in used]
        keep = lvars + caps
        need_fuel = cem.fuelvar is not None or bem.fuelvar is not None
        for em, pm in ((cem, cmap), (bem, bmap)):
            em.pvars = ([em.fuel()] if need_fuel else []) + [pm[n] for n in keep]
        self.steps.append((RAW, cem.render()))
        self.steps.append((RAW, bem.render()))
        N = self.fuel()
        lt = [self.lty(env[n].ty) for n in lvars]
        ct = [self.lty(env[n].ty) for n in caps]
        xs = ['x%d' % i for i in range(len(lvars))]
        cs = ['c%d' % i for i in range(len(caps))]
        nf = '(N : Nat) ' if need_fuel else ''
        na = 'N ' if need_fuel else ''
        capdecl = self.tybinder(ct + lt) + ' '.join('(%s : %s)' % (c, t) for c, t in zip(cs, ct))
        tup = '(' + ', '.join(xs) + ')' if len(xs) > 1 else xs[0]
        def proj(r, i):
            if len(xs) == 1:
                return r
            return '%s%s%s' % (r, '.2' * i, '.1' if i < len(xs) - 1 else '')
        args_xc = ' '.join(xs + cs)
        rec = ' '.join([proj('r', i) for i in range(len(xs))])
        prod = ' × '.join(lt)
        arrow = ' → '.join(['Nat'] + lt)
        self.steps.append((RAW, '\n'.join([
            '/-- `while` loop %d of `%s`, at most `fuel` iterations (state reached so far when the fuel runs out) -/' % (k, self.name),
            'def %s %s%s : %s → %s' % (lname, nf, capdecl, arrow, prod),
            '  | 0, %s => %s' % (', '.join(xs), tup),
            '  | fuel + 1, %s =>' % ', '.join(xs),
            '    if %s_cond %s%s = true then' % (lname, na, args_xc),
            '      let r := %s_body %s%s' % (lname, na, args_xc),
            '      %s %s%s fuel %s' % (lname, na, ' '.join(cs) + (' ' if cs else ''), rec),
            '    else %s' % tup])))
        self.steps.append((RAW, '\n'.join([
            'def %s_ok %s%s : %s → Bool' % (lname, nf, capdecl, arrow),
            '  | 0, %s => true' % ', '.join(xs),
            '  | fuel + 1, %s =>' % ', '.join(xs),
            '    %s_cond_ok %s%s &&' % (lname, na, args_xc),
            '    (if %s_cond %s%s = true then' % (lname, na, args_xc),
            '      %s_body_ok %s%s &&' % (lname, na, args_xc),
            '      (let r := %s_body %s%s' % (lname, na, args_xc),
            '       %s_ok %s%s fuel %s)' % (lname, na, ' '.join(cs) + (' ' if cs else ''), rec),
            '    else true)'])))
        # call site
        def arg(n):
            sv = env[n]
            return paren(sv.e if sv.ty != 'bool' else 'decide (%s)' % sv.e)
        fv = frozenset([N]).union(*[env[n].fv for n in keep])
        callargs = '%s%s%s %s' % ((N + ' ') if need_fuel else '', ' '.join(arg(n) for n in caps) + (' ' if caps else ''),
                                  N, ' '.join(arg(n) for n in lvars))
        self.ok('%s_ok %s = true' % (lname, callargs), fv)
        tmp = self.fresh('lp')
        args = [x for x in self.order if x in fv]
        self.steps.append((tmp, args, prod, '%s %s' % (lname, callargs)))
        self.lets.append((tmp, args))
        self.order.append(tmp)
        self.vartype[tmp] = prod
        for i, n in enumerate(lvars):
            ty = env[n].ty
            pe = proj(tmp, i)
            env[n] = self.bind(n, SV('%s = true' % pe, 'bool', [tmp]) if ty == 'bool' else SV(pe, ty, [tmp]))

    def merge_env(self, cv, a, b, old):
        if a is b:
            return a
        if a.agg:
            return SV(items=[self.merge_env(cv, x, y, o) for x, y, o in zip(a.items, b.items, old.items)])
        if a.e == b.e:
            return a
        return self.merge(cv, a, b)

    # ---- object-typed parameters
    def objref(self, e, roots):
        """(root, chain name, rust type) when `e` is a chain of zero-argument method calls / named field
        accesses rooted at an object-typed parameter, else None."""
        k = e[0]
        if k == 'path' and len(e[1]) == 1 and e[1][0] in roots:
            return (e[1][0], 'self' if e[1][0] == 'self' else e[1][0], roots[e[1][0]])
        if (k == 'method' and not e[3] and e[4] is None) or (k == 'field' and isinstance(e[2], str)):
            r = self.objref(e[1], roots)
            if r is None or not self.mod.is_obj(r[2]):
                return None
            t = self.mod.method_type(r[2], e[2]) if k == 'method' else self.mod.field_type(r[2], e[2])
            return (r[0], r[1] + '_' + e[2], t)
        return None

    def iter_elem(self, e):
        """rust element type of an (already lifted) iterator expression over lifted vectors, or None."""
        if e[0] == 'path' and len(e[1]) == 1 and e[1][0] in getattr(self, 'vecparams', {}):
            return self.vecparams[e[1][0]]
        if e[0] == 'method' and e[2] == 'rev' and not e[3]:
            return self.iter_elem(e[1])
        if e[0] == 'path' and len(e[1]) == 1 and isinstance(e[1][0], str) and e[1][0].startswith('@'):
            for root in self.lifted:
                t = self.lifted[root].get(e[1][0][1:])
                if t is not None and self.mod.is_vec(t):
                    return t[1]
            return None
        if e[0] == 'method' and e[2] == 'iter' and not e[3]:
            return self.iter_elem(e[1])
        if e[0] == 'method' and e[2] == 'chain' and len(e[3]) == 1:
            a, b = self.iter_elem(e[1]), self.iter_elem(e[3][0])
            return a if a == b else None
        return None

    def lift(self, e, roots, objvars=None):
        objvars = objvars or {}
        if isinstance(e, list):
            return [self.lift(x, roots, objvars) for x in e]
        if not isinstance(e, tuple) or not e or not isinstance(e[0], str):
            return e
        if e[0] == 'pvar' and (e[1] in roots or e[1] in objvars):
            raise TranslateError('local %s shadows an object-typed parameter' % e[1])
        if e[0] == 'method' and e[1] == ('path', ['self']) and e[3] and 'self' in roots and e[2] in self.mod.selfmethods \
                and self.mod.selfmethods[e[2]][0] == roots['self']:
            # self.m(args): a translated method of the same type; it receives the same accessor values of `self`
            _t, lname, lifted, ptys, rty = self.mod.selfmethods[e[2]]
            for nm, t in lifted:
                old = self.lifted['self'].get(nm)
                if old is not None and old != t:
                    raise TranslateError('accessor %s has two types' % nm)
                self.lifted['self'][nm] = t
            return ('selfcall', e[2], self.lift(e[3], roots, objvars))
        if e[0] in ('path', 'method', 'field'):
            r = self.objref(e, roots)
            if r is not None:
                root, nm, t = r
                if self.mod.is_obj(t):
                    raise TranslateError('object-typed value %s used as a whole' % nm)
                old = self.lifted[root].get(nm)
                if old is not None and old != t:
                    raise TranslateError('accessor %s has two types' % nm)
                self.lifted[root][nm] = t
                return ('path', ['@' + nm])
        if e[0] == 'method' and e[1][0] == 'path' and len(e[1][1]) == 1 and e[1][1][0] in objvars:
            # method call on an element of a vector of objects: the method becomes a function parameter
            # `T_m : T -> args -> result` (with `T_m_ok` for its no-panic condition)
            T = objvars[e[1][1][0]]
            _n, params, ret = self.mod.method_sig(T, e[2])
            if not params or params[0][0] != 'self' or ret is None or len(params) - 1 != len(e[3]):
                raise TranslateError('%s::%s: unsupported signature' % (T, e[2]))
            self.objfns[(T, e[2])] = ([p_[1] for p_ in params[1:]], ret)
            return ('objcall', T, e[2], e[1], self.lift(e[3], roots, objvars))
        if e[0] == 'path' and len(e[1]) == 1 and e[1][0] in objvars:
            raise TranslateError('object element %s used as a whole' % e[1][0])
        if e[0] == 'for':
            _, pat, rng, body = e
            rng2 = self.lift(rng, roots, objvars)
            et = self.iter_elem(rng2) if isinstance(rng2, tuple) and rng2[0] != 'range' else None
            ov = objvars
            if isinstance(et, str) and self.mod.is_obj(et):
                if pat[0] != 'pvar':
                    raise TranslateError('pattern over a vector of objects')
                ov = dict(objvars)
                ov[pat[1]] = et
                return ('for', pat, rng2, self.lift(body, roots, ov))
            return ('for', self.lift(pat, roots, objvars), rng2, self.lift(body, roots, objvars))
        if e[0] in ('path', 'int', 'bool'):
            return e
        return tuple(self.lift(x, roots, objvars) if isinstance(x, (tuple, list)) else x for x in e)

    # ---- driver
    def run(self):
        env = {}
        self.pvars = []
        ptys = []
        # parameters of a registered object type (struct receivers): every zero-argument accessor chain /
        # field chain rooted at such a parameter that ends in an integer, bool or enum becomes one Nat
        # parameter named after the chain (`options.blowup_factor()` -> `options_blowup_factor`), typed
        # by the accessor's declared return type; they replace the object parameter, in name order
        roots = {}
        for prm in self.params:
            pn, pt = prm[0], prm[1]
            tn = self.selftype if (pn == 'self' or pt == 'Self') else pt
            if isinstance(tn, str) and tn in self.mod.objtypes:
                roots[pn] = tn
        self.vecparams = dict((prm[0], prm[1][1]) for prm in self.params
                              if isinstance(prm[1], tuple) and prm[1][0] in ('vec', 'slice'))
        if roots or any(self.mod.is_obj(t) for t in self.vecparams.values()):
            self.lifted = dict((r, {}) for r in roots)
            self.body = self.lift(self.body, roots)
        # methods called on the elements of a vector of objects: function parameters `T_m`, `T_m_ok`
        self.objsig = {}
        for (T, m) in sorted(self.objfns):
            argtys, ret = self.objfns[(T, m)]
            a = [self.norm_ty(x) for x in argtys]
            r = self.norm_ty(ret)
            for x in a + [r]:
                if not (isinstance(x, str) and (x in INT_TYPES or x == 'bool')):
                    raise TranslateError('%s::%s: argument / result of type %r' % (T, m, x))
            self.objsig[(T, m)] = (a, r)
            dom = [T] + [self.lty(x) for x in a]
            env['@fn:%s_%s' % (T, m)] = self.param_sv('%s_%s' % (T, m), 'fn:' + ' → '.join(dom + [self.lty(r)]))
            env['@fn:%s_%s_ok' % (T, m)] = self.param_sv('%s_%s_ok' % (T, m), 'fn:' + ' → '.join(dom + ['Bool']))
        for prm in self.params:
            pn, pt = prm[0], prm[1]
            if pn in roots:
                for nm in sorted(self.lifted[pn]):
                    t = self.norm_ty(self.lifted[pn][nm])
                    if isinstance(t, tuple):
                        raise TranslateError('accessor %s of aggregate type' % nm)
                    ptys.append(t)
                    env['@' + nm] = self.param_sv(nm, t)
                continue
            t = self.norm_ty(pt)
            ptys.append(t)
            env[pn] = self.param_sv(pn if pn != 'self' else 'self_', t)
        rty = self.norm_ty(self.ret) if self.ret is not None else ('agg', [])
        self.outnames = [prm[0] for prm in self.params if len(prm) > 2]
        res = self.block(self.body, env, rty)
        outs = [prm[0] for prm in self.params if len(prm) > 2]
        if self.ret is None and outs:
            res = env[outs[0]] if len(outs) == 1 else SV(items=[env[o] for o in outs])
            rty = self.norm_ty([prm[1] for prm in self.params if len(prm) > 2][0]) if len(outs) == 1 else \
                ('agg', [self.norm_ty(prm[1]) for prm in self.params if len(prm) > 2])
        self.result = res
        self.ptys = ptys
        self.rty = rty
        return self

    def render(self):
        out = []
        opar = ('{F : Type} (O : %s F) ' % self.mod.fops_record) if self.generic_f else ''
        oarg = 'O ' if self.generic_f else ''
        def ptype(v):
            return self.vartype[v]
        # step defs
        for st in self.steps:
            if st[0] == RAW:
                out.append(st[1])
                continue
            (v, args, lt, ex) = st
            ps = ' '.join('(%s : %s)' % (a, ptype(a)) for a in args)
            tb = self.tybinder([ptype(a) for a in args] + [lt])
            out.append('def %s.s_%s %s%s%s : %s :=\n  %s' % (self.name, v, opar if ('O.' in ex or ' O ' in ex) else '', tb, ps, lt, ex))
        def letchain():
            ls = []
            for (v, args) in self.lets:
                st = [s for s in self.steps if s[0] == v][0]
                useO = oarg if ('O.' in st[3] or ' O ' in st[3]) else ''
                ls.append('  let %s := %s.s_%s %s%s' % (v, self.name, v, useO, ' '.join(args)))
            return ls
        ps = ' '.join('(%s : %s)' % (a, ptype(a)) for a in self.pvars)
        ps = self.tybinder([ptype(a) for a in self.pvars]) + ps
        def render_res(sv):
            leaves = []
            def fl(x):
                if x.agg:
                    for y in x.items:
                        fl(y)
                else:
                    leaves.append('decide (%s)' % x.e if x.ty == 'bool' else x.e)
            fl(sv)
            if not leaves:
                return '()'
            if len(leaves) == 1:
                return leaves[0]
            return '(' + ', '.join(leaves) + ')'
        rt = lean_prod_type(self.rty, self)
        out.append('def %s %s%s : %s :=\n%s' % (self.name, opar, ps, rt,
                   '\n'.join(letchain() + ['  ' + render_res(self.result)])))
        conds = []
        for (g, c, fv) in self.oks:
            if g is None:
                conds.append('decide (%s)' % c)
            else:
                conds.append('decide (%s → %s)' % (g, paren(c)))
        if not self.generic_f or self.mod.generic_ok:
            body = ' &&\n    '.join(conds) if conds else 'true'
            out.append('def %s_ok %s%s : Bool :=\n%s' % (self.name, opar, ps, '\n'.join(letchain() + ['  ' + body])))
        return '\n\n'.join(out)

CMP = ('==', '!=', '<', '>', '<=', '>=')
INT_METHODS0 = ('ilog2', 'is_power_of_two', 'next_power_of_two', 'leading_zeros', 'trailing_zeros',
                'reverse_bits', 'count_zeros')
LEAN_RESERVED = {'at', 'from', 'in', 'end', 'do', 'then', 'else', 'fun', 'let', 'have', 'show', 'by',
                 'if', 'open', 'def', 'theorem', 'where', 'with', 'match', 'type', 'Type', 'mut', 'instance',
                 'local', 'private', 'section', 'namespace', 'variable', 'universe', 'import', 'export', 'macro', 'syntax', 'meta'}

def count_leaves(t):
    if isinstance(t, tuple):
        return sum(count_leaves(x) for x in t[1])
    return 1

def lean_prod_type(t, em):
    if isinstance(t, tuple):
        leaves = []
        def fl(x):
            if isinstance(x, tuple):
                for y in x[1]:
                    fl(y)
            else:
                leaves.append(em.lty(x))
        fl(t)
        if not leaves:
            return 'Unit'
        return ' × '.join(leaves)
    return em.lty(t)

def const_eval_env(e, env, consts):
    if e[0] == 'path' and len(e[1]) == 1 and e[1][0] in env and isinstance(env[e[1][0]], tuple) \
            and env[e[1][0]][0] == 'constint':
        return env[e[1][0]][1]
    if e[0] == 'bin':
        a = const_eval_env(e[2], env, consts)
        b = const_eval_env(e[3], env, consts)
        return const_eval(('bin', e[1], ('int', a, None), ('int', b, None)), consts)
    return const_eval(e, consts)

class ModuleCtx:
    def __init__(self, leanmod, path, text, ftype='BaseElement', rawty='u64', fops=None):
        self.leanmod = leanmod
        self.path = path
        self.items = scan_items(lex(text))
        self.ftype = ftype
        self.rawty = rawty
        self.consts = {}
        self.const_types = {}
        self.sigs = {}
        self.fops = fops or {}
        self.out = []
        # object-typed receivers (integer logic of structs): item tables searched for struct definitions
        # and accessor signatures, names of the registered object / struct / enum types
        self.sources = [self.items]
        self.outs = {}                  # function name -> indices of its `&mut` (out) parameters
        self.selfmethods = {}           # method name -> (type, lean name, lifted accessors of self, other param types, result)
        self.ftypes = set()             # further names of the field type (generic parameters `E`, `B`)
        self.fops_record = 'FOps'       # operations record of field-generic functions
        self.generic_ok = False         # field-generic functions with `_ok` (index bounds, assertions) and loops
        self.objtypes = set()
        self.structs = set()
        self.enums = set()

    def add_source(self, text):
        self.sources.append(scan_items(lex(text)))

    def find(self, kind, pred):
        for src in self.sources:
            for key, it in src.items():
                if it.kind == kind and pred(key):
                    return it
        return None

    def is_obj(self, t):
        return isinstance(t, str) and t in self.objtypes

    def is_vec(self, t):
        return isinstance(t, tuple) and t[0] in ('vec', 'slice')

    def struct_fields(self, name):
        it = self.find('struct', lambda k: k == 'struct ' + name)
        if it is None:
            raise TranslateError('definition of struct %s not found' % name)
        return parse_struct(it)

    def enum_variants(self, name):
        it = self.find('enum', lambda k: k == 'enum ' + name)
        if it is None:
            raise TranslateError('definition of enum %s not found' % name)
        return parse_enum(it)

    def field_type(self, t, f):
        if not isinstance(t, str):
            raise TranslateError('field %s of %r' % (f, t))
        for fn_, ft in self.struct_fields(t):
            if fn_ == f:
                return ft
        raise TranslateError('struct %s has no field %s' % (t, f))

    def method_type(self, t, m):
        """declared return type of the zero-argument method `m` of the object type `t`."""
        _name, params, ret = self.method_sig(t, m)
        if len(params) != 1 or params[0][0] != 'self' or ret is None:
            raise TranslateError('%s::%s is not a zero-argument accessor' % (t, m))
        return t if ret == 'Self' else ret

    def method_sig(self, t, m):
        it = self.find('fn', lambda k: re.sub(r'<[^>]*>', '', k) == t + '::' + m)
        if it is None:
            raise TranslateError('method %s::%s not found' % (t, m))
        return parse_sig(P(it.toks))

    def fop(self, op):
        if op not in self.fops:
            raise TranslateError('field operation %s not available in %s' % (op, self.leanmod))
        return self.fops[op]

    def add_const(self, key, leanname=None, emit=True):
        it = self.items.get(key)
        if it is None or it.kind != 'const':
            raise TranslateError('const %s not found in %s' % (key, self.path))
        ty, ex = parse_const(it)
        v = const_eval(ex, self.consts)
        name = key.split('::')[-1]
        self.consts[name] = v
        self.const_types[name] = ty
        if emit:
            ln = leanname or name
            if isinstance(v, tuple) and v[0] == 'range':
                self.out.append('def %s_start : Nat := %d\ndef %s_end : Nat := %d' % (ln, v[1], ln, v[2]))
            else:
                self.out.append('def %s : %s := %s' % (ln, lean_const_type(v), lean_const(v)))
        return v

    def add_frag(self, key, leanname, steps, params, ret, hints=None):
        """translate ONE sub-expression of the function `key` (see select_expr) as a function of the
        listed free variables `params` = [(name, rust type)] with result type `ret` — for integer logic
        that sits inside a function the subset does not cover (I/O, `?`, slices)."""
        it = self.items.get(key)
        if it is None or it.kind != 'fn':
            raise TranslateError('fn %s not found in %s' % (key, self.path))
        try:
            _name, _params, _ret, body = parse_fn(it)
            e = select_expr(body, steps)
            em = FnEmitter(self, leanname, [(n, t) for n, t in params], ret, ('block', [], e))
            em.hints = hints or {}
            em.run()
            want = em.norm_ty(ret)
            if em.result.agg:
                got = ('agg', [x.ty for x in em.result.items])
                if any(x.agg for x in em.result.items) or got != want:
                    raise TranslateError('fragment has type %r, expected %s' % (got, want))
            elif em.result.ty != want:
                raise TranslateError('fragment has type %r, expected %s' % (em.result.ty, want))
            self.out.append(em.render())
        except TranslateError as ex:
            raise TranslateError('%s :: %s %r: %s' % (self.path, key, steps, ex))
        except (KeyError, TypeError, IndexError, AttributeError, ValueError) as ex:
            raise TranslateError('%s :: %s %r: internal %s: %s' % (self.path, key, steps, type(ex).__name__, ex))
        return em

    def add_fn(self, key, leanname, generic_f=False, hints=None, ok_only=False, result=None, ret_src=None):
        """ok_only: translate the statements only (assertions, side conditions), result `()` — for constructors
        whose value is a struct of objects; result / ret_src: replace the final expression by the given Rust
        expression over the function's locals (e.g. the integer fields a constructor stores)."""
        it = self.items.get(key)
        if it is None or it.kind != 'fn':
            raise TranslateError('fn %s not found in %s' % (key, self.path))
        try:
            name, params, ret, body = parse_fn(it)
            if ok_only:
                body, ret = ('block', body[1], None), None
            if result is not None:
                body, ret = ('block', body[1], parse_src(result, 'expr')), parse_src(ret_src, 'ty')
            if any(st[0] == 'for' for st in body[1]):
                body = desugar_for_return(body, ret)
            em = FnEmitter(self, leanname, params, ret, body, generic_f)
            em.hints = hints or {}
            if '::' in key:
                st = re.sub(r'<[^>]*>', '', key.rsplit('::', 1)[0])
                if st in self.objtypes or st in self.structs or st in self.enums:
                    em.selftype = st
            em.run()
            self.out.append(em.render())
        except TranslateError as ex:
            raise TranslateError('%s :: %s: %s' % (self.path, key, ex))
        except (KeyError, TypeError, IndexError, AttributeError, ValueError) as ex:
            # anything the emitter did not anticipate is a translation failure, never a crash (fail closed)
            raise TranslateError('%s :: %s: internal %s: %s' % (self.path, key, type(ex).__name__, ex))
        if em.objfns:
            return em           # takes function parameters: not callable from other translated items
        self.outs[key.split('::')[-1]] = [i for i, prm in enumerate(params) if len(prm) > 2]
        if em.selftype is not None and 'self' in getattr(em, 'lifted', {}) and params and params[0][0] == 'self':
            lifted = sorted(em.lifted['self'].items())
            self.selfmethods[key.split('::')[-1]] = (em.selftype, leanname, lifted, em.ptys[len(lifted):], em.rty)
        self.sigs[key] = (leanname, em.ptys, em.rty)
        self.sigs[key.split('::')[-1]] = (leanname, em.ptys, em.rty) if key.split('::')[-1] not in self.sigs else self.sigs[key.split('::')[-1]]
        return em

def desugar_for_return(blk, ret):
    """`for x in xs { A; if c { B; return e; } R }  rest`   becomes
       `let mut ret_done = false; let mut ret_val: T = 0;
        for x in xs { if !ret_done { A; if c { B; ret_val = e; ret_done = true; } else { R } } }
        if ret_done { return ret_val; }  rest`
    (T = the function's return type, an integer); only top-level loops of the function body."""
    def is_ret_if(st):
        return st[0] == 'expr' and st[1][0] == 'if' and st[1][3] is None and st[1][2][2] is not None \
            and st[1][2][2][0] == 'return'
    out = []
    k = 0
    for st in blk[1]:
        if st[0] == 'for' and st[3][0] == 'block' and st[3][2] is not None and st[3][2][0] == 'if':
            st = ('for', st[1], st[2], ('block', st[3][1] + [('expr', st[3][2])], None))
        if st[0] == 'for' and st[3][0] == 'block' and any(is_ret_if(x) for x in st[3][1]):
            if isinstance(ret, tuple) and ret[0] == 'vec':
                init = ('call', ['Vec', 'new'], [])
            elif isinstance(ret, str) and ret in INT_TYPES:
                init = ('int', 0, None)
            else:
                raise TranslateError('return inside a for loop of a function returning %r' % (ret,))
            k += 1
            d, r = 'ret_done' + ('' if k == 1 else str(k)), 'ret_val' + ('' if k == 1 else str(k))
            body = st[3]
            i = [j for j, x in enumerate(body[1]) if is_ret_if(x)][0]
            pre, ifst, post = body[1][:i], body[1][i], body[1][i + 1:]
            if any(is_ret_if(x) for x in post) or (body[2] is not None and body[2][0] == 'return'):
                raise TranslateError('more than one return inside a for loop')
            th = ifst[1][2]
            new_th = ('block', th[1] + [('assign', ('path', [r]), '=', th[2][1]),
                                        ('assign', ('path', [d]), '=', ('bool', True))], None)
            new_el = ('block', post, body[2])
            guarded = ('expr', ('if', ('un', '!', ('path', [d])),
                                ('block', pre + [('expr', ('if', ifst[1][1], new_th, new_el))], None), None))
            out += [('let', ('pvar', d), 'bool', ('bool', False)), ('let', ('pvar', r), ret, init),
                    ('for', st[1], st[2], ('block', [guarded], None)),
                    ('expr', ('if', ('path', [d]), ('block', [], ('return', ('path', [r]))), None))]
        else:
            out.append(st)
    return ('block', out, blk[2])

def parse_src(src, what):
    p = P(lex(src))
    return p.ty() if what == 'ty' else p.expr()

def select_expr(body, steps):
    """navigate to a sub-expression of a parsed function body: ('let', name) = initialiser of the first
    `let name` (searched through nested blocks), 'then' / 'else' = branch of an `if`, 'final' = final
    expression of a block."""
    skip = [0]
    def find_let(blk, name):
        for st in blk[1]:
            if st[0] == 'let' and st[1] == ('pvar', name) and st[3] is not None:
                if skip[0] == 0:
                    return st[3]
                skip[0] -= 1
            subs = []
            if st[0] == 'let' and st[3] is not None:
                subs.append(st[3])
            if st[0] in ('expr',):
                subs.append(st[1])
            if st[0] == 'while':
                subs.append(st[2])
            if st[0] == 'for':
                subs.append(st[3])
            for x in subs:
                r = find_in(x, name)
                if r is not None:
                    return r
        if blk[2] is not None and blk[2][0] != 'return':
            return find_in(blk[2], name)
        return None
    def find_in(e, name):
        if not isinstance(e, tuple):
            return None
        if e[0] == 'block':
            return find_let(e, name)
        if e[0] == 'if':
            r = find_let(e[2], name)
            if r is None and e[3] is not None:
                r = find_let(e[3], name)
            return r
        return None
    cur = body
    for st in steps:
        if isinstance(st, tuple) and st[0] == 'ifstmt':
            # the k-th `if` statement of the (top-level) block, k from 0
            if cur[0] != 'block':
                raise TranslateError('fragment: if searched in a non-block')
            ifs = [x[1] for x in cur[1] if x[0] == 'expr' and x[1][0] == 'if']
            if cur[2] is not None and cur[2][0] == 'if':
                ifs.append(cur[2])
            if st[1] >= len(ifs):
                raise TranslateError('fragment: if statement %d not found' % st[1])
            cur = ifs[st[1]]
        elif st == 'cond':
            if cur[0] != 'if':
                raise TranslateError('fragment: cond of a non-if')
            cur = cur[1]
        elif st == 'recv':
            if cur[0] == 'try':
                cur = cur[1]
            elif cur[0] == 'method':
                cur = cur[1]
            else:
                raise TranslateError('fragment: recv of %s' % cur[0])
        elif isinstance(st, tuple) and st[0] == 'let':
            if cur[0] != 'block':
                raise TranslateError('fragment: let %s searched in a non-block' % st[1])
            skip[0] = st[2] if len(st) > 2 else 0
            cur = find_let(cur, st[1])
            if cur is None:
                raise TranslateError('fragment: let %s not found' % st[1])
        elif isinstance(st, tuple) and st[0] == 'assert':
            # the condition of the k-th `assert!` / `debug_assert!` of the (top-level) block, k from 0
            if cur[0] != 'block':
                raise TranslateError('fragment: assert searched in a non-block')
            conds = [x[1] for x in cur[1] if x[0] == 'assert']
            if st[1] >= len(conds):
                raise TranslateError('fragment: assertion %d not found' % st[1])
            cur = conds[st[1]]
        elif st in ('then', 'else'):
            if cur[0] != 'if' or (st == 'else' and cur[3] is None):
                raise TranslateError('fragment: %s of a non-if' % st)
            cur = cur[2] if st == 'then' else cur[3]
        elif st == 'final' and cur[0] == 'block' and not cur[1] and cur[2] is not None and cur[2][0] == 'if':
            cur = cur[2]            # `else if ..`: the block that wraps the nested if
        elif st == 'final':
            if cur[0] != 'block' or cur[2] is None or cur[2][0] == 'return':
                raise TranslateError('fragment: block without final expression')
            cur = cur[2]
        else:
            raise TranslateError('fragment step %r' % (st,))
    return cur

PRELUDE = '''/-- two's-complement reinterpretation of an unsigned `w`-bit word as a signed integer -/
def toSigned (w : Nat) (x : Nat) : Int :=
  if x % 2 ^ w < 2 ^ (w - 1) then Int.ofNat (x % 2 ^ w) else Int.ofNat (x % 2 ^ w) - Int.ofNat (2 ^ w)

/-- the base-field operations an `ExtensibleField` formula is written against -/
structure FOps (F : Type) where
  add : F → F → F
  sub : F → F → F
  mul : F → F → F
  neg : F → F
  double : F → F
  square : F → F
  ofNat : Nat → F
'''

# primitives of the integer-logic modules (Gen/IntOps.lean); kept apart from PRELUDE so that the
# arithmetic modules and everything proved about them do not depend on it
INTOPS = '''/-- `is_power_of_two` -/
def isPow2 (x : Nat) : Bool := x != 0 && 2 ^ x.log2 == x

/-- `next_power_of_two`, unbounded (the `_ok` condition of the caller states that it fits the type) -/
def nextPow2 (x : Nat) : Nat := if x ≤ 1 then 1 else 2 ^ ((x - 1).log2 + 1)

/-- number of significant bits -/
def bitLen (x : Nat) : Nat := if x = 0 then 0 else x.log2 + 1

/-- `leading_zeros` of a `w`-bit word -/
def clz (w x : Nat) : Nat := w - bitLen x

/-- `trailing_zeros` of a `w`-bit word (`w` for zero) -/
def ctz : Nat → Nat → Nat
  | 0, _ => 0
  | w + 1, x => if x % 2 = 1 then 0 else ctz w (x / 2) + 1

/-- `reverse_bits` of a `w`-bit word -/
def revBits : Nat → Nat → Nat
  | 0, _ => 0
  | w + 1, x => (x % 2) * 2 ^ w + revBits w (x / 2)
'''

# operations record of the field-generic modules with loops (Gen/FieldOps.lean): the arithmetic record of the
# extension formulas extended by what the polynomial / divisor / FRI code uses
FIELDOPS = '''/-- the field operations of the generic polynomial, divisor and FRI code (`E: FieldElement`): `FOps` and
    `inv()`, `/`, `==`, `exp(n)` -/
structure FOpsX (F : Type) extends FOps F where
  inv : F → F
  div : F → F → F
  beq : F → F → Bool
  /-- `x == E::ZERO`, `x == E::ONE` -/
  isZero : F → Bool
  isOne : F → Bool
  pow : F → Nat → F
  /-- `get_root_of_unity(k)` and the condition under which its assertions hold -/
  root : Nat → F
  rootOk : Nat → Bool
'''
