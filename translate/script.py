#!/usr/bin/env python3
"""Script extraction (tie T for C04): the sequence of public-coin operations of a Rust function, extracted
syntactically and in source order as a small tree.

A *subject* is the coin (`public_coin`, `self.public_coin`) or the prover channel (`channel`).  Every syntactic
use of the subject inside the function body becomes one node, in source order:

    coin  METHOD ARGS     subject.METHOD(ARGS)                    (subject = the coin)
    chan  METHOD ARGS     channel.METHOD(ARGS)                    (`let mut channel = X::new(..)` is `chan new ..`)
    passCoin CALLEE       CALLEE(.., &mut public_coin, ..)  /  CALLEE(.., channel.public_coin(), ..)
    passChan CALLEE       CALLEE(.., &mut channel, ..)
    ite COND THEN ELSE    an `if` whose condition mentions `is_multi_segment` (COND = "aux") or
                          `has_lagrange_kernel_aux_column` (COND = "lagrange")

Plain blocks and closures are transparent (their uses are listed in sequence); a use inside any other `if`,
a `match`, or a loop is a TranslateError (fail closed), as is any use of the subject that fits no pattern.
Uses inside the *condition* of an `if` come before the `if`.  Statements under
`#[cfg(feature = "concurrent")]` are skipped (the default build).  ARGS is the token text of the arguments, with
a variable bound by `let v = channel.read_x()` replaced by `channel.read_x()`.
"""
from rs2lean import lex, scan_items, match_close, TranslateError


def text(toks):
    return ' '.join(t[1] for t in toks)


def callee_of(toks, i):
    """name of the function called by the `(` at index i (path or method name, turbofish skipped)."""
    j = i - 1
    if j >= 0 and toks[j][1] in ('>', '>>'):
        d = 0
        while j >= 0:
            v = toks[j][1]
            if v == '>':
                d += 1
            elif v == '>>':
                d += 2
            elif v == '<':
                d -= 1
                if d == 0:
                    break
            j -= 1
        j -= 1
        if j >= 0 and toks[j][1] == '::':
            j -= 1
    if j < 0 or toks[j][0] != 'id':
        return ''
    name = toks[j][1]
    while j >= 2 and toks[j - 1][1] == '::' and toks[j - 2][0] == 'id':
        name = toks[j - 2][1] + '::' + name
        j -= 2
    return name


class Scanner:
    def __init__(self, toks, subject):
        self.t = toks
        self.subject = subject          # 'public_coin' | 'self.public_coin' | 'channel'
        self.lets = {}                  # v -> text, for `let v = channel.read_x()`

    def is_subject(self, i):
        t = self.t
        if self.subject == 'self.public_coin':
            return t[i][1] == 'self' and i + 2 < len(t) and t[i + 1][1] == '.' and t[i + 2][1] == 'public_coin'
        return t[i][1] == self.subject and not (i > 0 and t[i - 1][1] == '.')

    def subject_len(self):
        return 3 if self.subject == 'self.public_coin' else 1

    def argtext(self, lo, hi):
        out = []
        for k, v in self.t[lo:hi]:
            out.append(self.lets.get(v, v) if k == 'id' else v)
        return ' '.join(out)

    def scan(self, lo, hi, calls):
        """nodes of the token range [lo, hi); `calls` = stack of callee names of the open parentheses."""
        t = self.t
        nodes = []
        calls = list(calls)
        base = len(calls)
        i = lo
        while i < hi:
            k, v = t[i]
            if v == '#' and i + 1 < hi and t[i + 1][1] == '[':
                j = match_close(t, i + 1)
                attr = ''.join(x[1] for x in t[i + 2:j])
                i = j + 1
                if attr == 'cfg(feature="concurrent")':
                    d = 0
                    while i < hi and not (t[i][1] == ';' and d == 0):
                        if t[i][1] in '([{':
                            d += 1
                        elif t[i][1] in ')]}':
                            d -= 1
                        i += 1
                    i += 1
                continue
            if k == 'id' and v == 'let' and self.subject != 'channel':
                # let v = channel.read_x();   (the verifier's reads: their results are the arguments of reseed)
                j = i + 1
                if t[j][1] == 'mut':
                    j += 1
                if t[j][0] == 'id' and t[j + 1][1] == '=' and t[j + 2][1] == 'channel' and t[j + 3][1] == '.' \
                        and t[j + 4][1].startswith('read_') and t[j + 5][1] == '(' and t[j + 6][1] == ')' \
                        and t[j + 7][1] == ';':
                    self.lets[t[j][1]] = 'channel.%s()' % t[j + 4][1]
            if k == 'id' and v == 'if':
                node, i, pre = self.scan_if(i, hi, calls)
                nodes += pre
                if node is not None:
                    nodes.append(node)
                continue
            if k == 'id' and v in ('match', 'for', 'while', 'loop'):
                j = i + 1
                d = 0
                while not (t[j][1] == '{' and d == 0):
                    if t[j][1] in '([':
                        d += 1
                    elif t[j][1] in ')]':
                        d -= 1
                    j += 1
                close = match_close(t, j)
                inner = self.scan(i + 1, j, calls) + self.scan(j + 1, close, calls)
                if inner:
                    raise TranslateError('use of %s inside a `%s`' % (self.subject, v))
                i = close + 1
                continue
            if v == '(':
                calls.append(callee_of(t, i))
                i += 1
                continue
            if v == ')':
                if len(calls) > base:
                    calls.pop()
                i += 1
                continue
            if self.is_subject(i):
                n = self.subject_len()
                # &mut subject  passed to a callee
                if i >= 2 and t[i - 1][1] == 'mut' and t[i - 2][1] == '&' and t[i + n][1] in (',', ')'):
                    if not calls or not calls[-1]:
                        raise TranslateError('%s passed outside a call' % self.subject)
                    nodes.append(('passChan' if self.subject == 'channel' else 'passCoin', calls[-1]))
                    i += n
                    continue
                # let mut channel = X::new(args);
                if self.subject == 'channel' and i >= 1 and t[i - 1][1] in ('let', 'mut') and t[i + 1][1] == '=':
                    j = i + 2
                    while t[j][1] != '(':
                        j += 1
                    close = match_close(t, j)
                    nodes.append(('chan', 'new', self.argtext(j + 1, close)))
                    i = close + 1
                    continue
                # `public_coin: RandomCoin::new(args),` in a struct literal (the channel constructor)
                if t[i + n][1] == ':' and self.subject == 'public_coin':
                    j = i + n + 1
                    while t[j][1] != '(':
                        j += 1
                    close = match_close(t, j)
                    nodes.append(('coin', callee_of(t, j), self.argtext(j + 1, close)))
                    i = close + 1
                    continue
                if t[i + n][1] == '.' and t[i + n + 1][0] == 'id':
                    m = t[i + n + 1][1]
                    j = i + n + 2
                    if t[j][1] == '::':             # turbofish
                        j += 1
                        d = 0
                        while True:
                            if t[j][1] == '<':
                                d += 1
                            elif t[j][1] == '>':
                                d -= 1
                            elif t[j][1] == '>>':
                                d -= 2
                            j += 1
                            if d <= 0:
                                break
                    if t[j][1] != '(':
                        raise TranslateError('field access on %s' % self.subject)
                    close = match_close(t, j)
                    if self.subject == 'channel' and m == 'public_coin' and close == j + 1:
                        # channel.public_coin() handed to a callee
                        if not calls or not calls[-1]:
                            raise TranslateError('channel.public_coin() outside a call')
                        nodes.append(('passCoin', calls[-1]))
                    else:
                        inner = self.scan(j + 1, close, [])
                        if inner:
                            raise TranslateError('use of %s inside the arguments of %s' % (self.subject, m))
                        nodes.append(('chan' if self.subject == 'channel' else 'coin', m, self.argtext(j + 1, close)))
                    i = close + 1
                    continue
                raise TranslateError('use of %s that fits no pattern (near `%s`)' % (self.subject, text(t[max(0, i - 3):i + 5])))
            i += 1
        return nodes

    def scan_if(self, i, hi, calls):
        """`if` at index i: (node or None, next index, nodes of the condition)."""
        t = self.t
        j = i + 1
        d = 0
        while not (t[j][1] == '{' and d == 0):
            if t[j][1] in '([':
                d += 1
            elif t[j][1] in ')]':
                d -= 1
            j += 1
        cond = t[i + 1:j]
        pre = self.scan(i + 1, j, calls)
        close = match_close(t, j)
        th = self.scan(j + 1, close, calls)
        i = close + 1
        el = []
        if i < hi and t[i][1] == 'else':
            if t[i + 1][1] == 'if':
                node, i, pre2 = self.scan_if(i + 1, hi, calls)
                if pre2:
                    raise TranslateError('use of %s in the condition of an `else if`' % self.subject)
                el = [node] if node is not None else []
            else:
                close2 = match_close(t, i + 1)
                el = self.scan(i + 2, close2, calls)
                i = close2 + 1
        names = set(x[1] for x in cond)
        if 'is_multi_segment' in names:
            kind = 'aux'
        elif 'has_lagrange_kernel_aux_column' in names:
            kind = 'lagrange'
        else:
            if th or el:
                raise TranslateError('use of %s inside an `if` on `%s`' % (self.subject, text(cond)[:60]))
            return None, i, pre
        return ('ite', kind, th, el), i, pre


def extract(text_, key, subject):
    items = scan_items(lex(text_))
    it = items.get(key)
    if it is None or it.kind != 'fn':
        raise TranslateError('fn %s not found' % key)
    toks = it.toks
    # body = the last top-level `{ .. }` of the item
    j = len(toks) - 1
    if toks[j][1] != '}':
        raise TranslateError('fn %s has no body' % key)
    d = 0
    while j >= 0:
        if toks[j][1] == '}':
            d += 1
        elif toks[j][1] == '{':
            d -= 1
            if d == 0:
                break
        j -= 1
    return Scanner(toks, subject).scan(j + 1, len(toks) - 1, [])


def lean_str(s):
    return '"' + s.replace('\\', '\\\\').replace('"', '\\"') + '"'


def lean_nodes(nodes, ind=2):
    pad = ' ' * ind
    out = []
    for n in nodes:
        if n[0] == 'ite':
            out.append('%s.ite %s\n%s  [\n%s\n%s  ]\n%s  [\n%s\n%s  ]' % (
                pad, lean_str(n[1]), pad, lean_nodes(n[2], ind + 4), pad, pad, lean_nodes(n[3], ind + 4), pad))
        elif n[0] in ('coin', 'chan'):
            out.append('%s.%s %s %s' % (pad, n[0], lean_str(n[1]), lean_str(n[2])))
        else:
            out.append('%s.%s %s' % (pad, n[0], lean_str(n[1])))
    return ',\n'.join(out)


HEADER = '''/-- one syntactic use of the public coin / the prover channel (see translate/script.py) -/
inductive Node where
  | coin (method args : String)
  | chan (method args : String)
  | passCoin (callee : String)
  | passChan (callee : String)
  | ite (cond : String) (thenBranch elseBranch : List Node)
'''


def lean_def(name, nodes, doc):
    return '/-- %s -/\ndef %s : List Node := [\n%s\n]' % (doc, name, lean_nodes(nodes))
