#!/bin/sh
# Build the framework from files on disk only (offline): generated Lean modules, proofs,
# model drivers and the Rust harness binaries.
set -e
cd "$(dirname "$0")"
export CARGO_NET_OFFLINE=true
python3 translate/gen.py /repo lean || true
(cd lean && lake build Winter $(ls ../checks | sed -n 's/^C\([0-9]*\)\.json$/WinterProofs.C\1 drv_c\1/p'))
(cd harness && cargo build --offline --features genair $(ls ../checks | sed -n 's/^C\([0-9]*\)\.json$/--bin c\1/p'))
