#!/usr/bin/env python3
"""print the markdown table of seeded changes (DESIGN.md section 9.3) from seeded/*/meta.json"""
import json, glob, os, re
rows = []
for d in sorted(glob.glob('/verif/seeded/*/meta.json'), key=lambda p: (re.sub(r'-\d+$', '', os.path.basename(os.path.dirname(p))), p)):
    m = json.load(open(d))
    name = os.path.basename(os.path.dirname(d))
    v = m.get('verification', {})
    checks = v.get('checks', {})
    caught = m.get('caught_by', [])
    missed = [c for c in checks if c not in caught]
    later = m.get('caught_after_strengthening', [])
    def short(s, n):
        s = ' '.join(str(s).split())
        return s if len(s) <= n else s[:n - 1] + '…'
    rows.append('| %s | %s | %s | %s | %s | %s |' % (
        name, m.get('property', ''), short(m.get('summary', ''), 230).replace('|', '/'), short(m.get('needs', ''), 200).replace('|', '/'),
        ', '.join(caught) or '—', (', '.join(missed) + (' (now caught by ' + ', '.join(later) + ' after strengthening)' if later else '')) if missed else ''))
print('| seeded change | targets | what was changed | needs to manifest | caught by (quick tier) | ran and missed |')
print('|---|---|---|---|---|---|')
print('\n'.join(rows))
