#!/usr/bin/env python3
"""print the prompt for a fresh mutation sub-agent: property text + its scratch worktree only."""
import json, sys
pid, wt = sys.argv[1], sys.argv[2]
hint = sys.argv[3] if len(sys.argv) > 3 else ''
p = [json.loads(l) for l in open('/verif/properties.jsonl') if json.loads(l)['id'] == pid][0]
print(f"""You are testing a verification effort by seeding a realistic defect. You work ONLY inside the git worktree {wt} (a checkout of the Rust project "winterfell", a STARK prover/verifier library). Do not read or write anything outside {wt} except temporary files under {wt}/.. that you delete afterwards; in particular do not look at /verif or /repo. No network is available; build with `cargo ... --offline` inside {wt} (first build takes a few minutes).

Property that the library is supposed to satisfy (id {pid}: {p['title']}):
  {p['statement']}
  Scope: {p['quantifier']['text']}
  Code it is anchored in: {', '.join(p['anchors']['files'])}

TASK: make ONE small, realistic change to the library's source in {wt} (the kind of mistake a maintainer could make in a refactoring or an optimisation: an off-by-one, a wrong comparison, a dropped or reordered step, a boundary case handled wrongly, a carry/overflow case, two sites that each look fine alone) that BREAKS this property while the code still compiles and the existing test suite still passes: `cargo test --workspace --offline` must pass exactly as before (run at least the tests of the crates you touch plus `cargo test -p winterfell -p winter-prover -p winter-verifier --offline` if you touch protocol code; say what you ran). The change must need something SPECIFIC to manifest — an unusual input, a particular boundary value, a multi-step sequence of operations, a particular configuration, a particular chunking/interleaving — not something ordinary use would expose at once (if a random input exposes it with probability > ~1/1000 it is too blatant unless the trigger is a specific configuration). {hint}
Do not touch test files, do not add cfg/feature guards, do not change public signatures.

DELIVERABLES, all inside {wt}/SEED/ (create the directory; it is not part of the patch):
 1. patch.diff — `git diff` of your change to the library source (only that; generate it with `git -C {wt} diff -- . ':(exclude)SEED' > SEED/patch.diff`).
 2. demo/ — a demonstration that FAILS with your change and PASSES without it: a small Rust integration test file (e.g. demo/demo_test.rs) plus the exact commands to run it (e.g. copy it into <crate>/tests/ and `cargo test -p <crate> --test demo_test --offline`), using only the library's public API. Verify both directions yourself (with the patch: fails; `git stash`/reverse-apply: passes) and restore your change afterwards.
 3. meta.json — {{"property": "{pid}", "summary": "<one sentence: what was changed>", "needs": "<what specific input/sequence/configuration is needed for it to manifest>", "files": [...], "tests_run": "<commands you ran and their result>", "demo_cmd": "<command>"}}.
Leave the worktree with your change applied and SEED/ filled in. In your final message give the summary, the trigger, and confirm the test-suite result. Keep the change minimal (a few lines).""")
