#!/usr/bin/env python3
"""seedverify.py <worktree> <ID> <name>: confirm a seeded change (tests pass with it, demo fails with it and
passes without it), run ./check <ID> against it, and store it under /verif/seeded/<name>/."""
import json, os, subprocess, sys, shutil, time
wt, pid, name = sys.argv[1], sys.argv[2], sys.argv[3]
extra_checks = sys.argv[4:]          # further property ids whose checks should also be run
def sh(cmd, cwd=None, timeout=7200):
    p = subprocess.run(cmd, cwd=cwd, shell=True, stdout=subprocess.PIPE, stderr=subprocess.STDOUT, text=True, timeout=timeout,
                       env=dict(os.environ, CARGO_NET_OFFLINE='true'))
    return p.returncode, p.stdout
meta = json.load(open(os.path.join(wt, 'SEED', 'meta.json')))
demo = meta['demo_cmd']
# testers sometimes append a prose note in parentheses to the command: keep the command only
import re
demo = re.sub(r'\s+\((?:run from|release mode|create|note)[^)]*\)\s*$', '', demo)
res = {}
rc, out = sh(demo, cwd=wt); res['demo_with_patch_rc'] = rc; res['demo_with_patch_tail'] = out[-600:]
res['demo_fails_with_patch'] = ('test result: FAILED' in out) or ('error: test failed' in out) or rc != 0
rc2, _ = sh("git apply -R SEED/patch.diff", cwd=wt)
rc, out = sh(demo, cwd=wt); res['demo_without_patch_rc'] = rc; res['demo_without_patch_tail'] = out[-300:]
res['demo_passes_without_patch'] = ('test result: ok' in out) and ('test result: FAILED' not in out) and rc == 0
rc3, _ = sh("git apply SEED/patch.diff", cwd=wt)
assert rc2 == 0 and rc3 == 0, 'patch does not apply cleanly'
rc, out = sh("cargo test --workspace --no-fail-fast --offline 2>&1 | grep -E '^test result|FAILED|panicked' | sort | uniq -c", cwd=wt)
res['suite_with_patch'] = out[-1500:]
res['suite_ok'] = ('FAILED' not in out) and ('failed;' not in out or ' 0 failed' in out)
res['checks'] = {}
for cid in [pid] + extra_checks:
    t = time.time()
    rc, out = sh("VERIF_REPO=%s ./check %s" % (wt, cid), cwd='/verif')
    res['checks'][cid] = {'rc': rc, 'wall_s': round(time.time() - t), 'output': out[-2500:]}
import hashlib
# the scratch copy of lean/ and harness/ (several GB of build output) is only needed while the checks run
subprocess.run('rm -rf /var/tmp/verif-work/' + hashlib.sha1(os.path.abspath(wt).encode()).hexdigest()[:10], shell=True)
dst = os.path.join('/verif/seeded', name)
shutil.rmtree(dst, ignore_errors=True)
shutil.copytree(os.path.join(wt, 'SEED'), dst)
meta['verification'] = res
meta['caught_by'] = [c for c, r in res['checks'].items() if r['rc'] == 1 and 'VIOLATION' in r['output']]
json.dump(meta, open(os.path.join(dst, 'meta.json'), 'w'), indent=1)
print(name, 'demo fails with patch:', res['demo_fails_with_patch'], '| passes without:', res['demo_passes_without_patch'], '| suite ok', res['suite_ok'], '| caught by', meta['caught_by'])
for c, r in res['checks'].items():
    print('---', c, 'rc', r['rc'], r['wall_s'], 's')
    print('\n'.join(r['output'].splitlines()[-6:]))
