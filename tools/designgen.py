#!/usr/bin/env python3
"""regenerate the generated tables of DESIGN.md (sections 9.3 seeded changes, 9.4 findings) between their markers"""
import json, re, subprocess
D = '/verif/DESIGN.md'
s = open(D).read()
seeded = subprocess.run(['python3', '/verif/tools/seedtable.py'], capture_output=True, text=True).stdout
k = json.load(open('/verif/known_findings.json'))
def short(x, n):
    x = ' '.join(str(x).split()).replace('|', '/')
    return x if len(x) <= n else x[:n - 1] + '…'
rows = ['| property | status | repo commit | site | what fails |', '|---|---|---|---|---|']
for f in sorted(k['findings'], key=lambda f: (f['property'], f['status'] != 'known', f.get('site', ''))):
    rows.append('| %s | %s | %s | %s | %s |' % (f['property'], f['status'], f.get('commit', ''), short(f.get('site', ''), 60), short(f.get('what', ''), 260)))
findings = '\n'.join(rows)
def put(s, tag, body):
    b, e = '<!-- BEGIN:%s -->' % tag, '<!-- END:%s -->' % tag
    if b not in s:
        return s
    return s[:s.index(b) + len(b)] + '\n' + body + '\n' + s[s.index(e):]
# status table (section 9.2): one block per property from checks/CNN.json (the single source of the level texts,
# also used for MANIFEST.json) and the theorem counts of the last evidence file
import glob, os
blocks = []
for f in sorted(glob.glob('/verif/checks/C*.json')):
    pid = os.path.basename(f)[:-5]
    c = json.load(open(f))
    try:
        ev = json.load(open('/verif/evidence/%s.json' % pid)); cov = ev.get('coverage', {})
        cnt = '%s theorems audited (`#print axioms`), %s discharged, last evidence tier %s' % (cov.get('obligations', '?'), cov.get('discharged', '?'), ev.get('tier'))
    except Exception:
        cnt = 'no evidence file'
    gm = ', '.join(c.get('gen_modules', [])) or 'none'
    blocks.append('**%s** — %s; regenerated modules (tie T): %s.\n\n*Proved / compared:* %s\n\n*Trusted, open, found:* %s\n' % (
        pid, cnt, gm, ' '.join(c.get('level_text', '').split()), ' '.join(c.get('level_note', '').split())))
s = put(s, 'status', '\n'.join(blocks))
s = put(s, 'seeded', seeded)
s = put(s, 'findings', findings)
open(D, 'w').write(s)
print('DESIGN.md tables regenerated:', seeded.count('\n') - 2, 'seeded changes,', len(rows) - 2, 'findings')
