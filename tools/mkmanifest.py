#!/usr/bin/env python3
"""Regenerate MANIFEST.json from checks/*.json (one file per claimed property)."""
import json, os, glob, subprocess
V = os.path.dirname(os.path.dirname(os.path.abspath(__file__)))
props = [json.loads(l) for l in open(os.path.join(V, 'properties.jsonl'))]
checks = []
na = []
hooks = subprocess.run(['git', '-C', '/repo', 'log', '--format=%H %s'], capture_output=True, text=True).stdout.splitlines()
hook_commits = [l.split()[0] for l in hooks if l.split(' ', 1)[1].startswith('verif-hooks')]
for p in props:
    pid = p['id']
    f = os.path.join(V, 'checks', pid + '.json')
    if not os.path.exists(f):
        na.append({'property_id': pid, 'reason': 'not claimed yet: the model, theorems and correspondence harness for this property are still under construction (see DESIGN.md section 5); the technique does apply'})
        continue
    c = json.load(open(f))
    if c.get('claimed') is False:
        na.append({'property_id': pid, 'reason': c.get('not_claimed_reason', 'not claimed yet')})
        continue
    checks.append({
        'property_id': pid,
        'quick_cmd': './check %s --tier quick' % pid,
        'thorough_cmd': './check %s --tier thorough' % pid,
        'evidence_file': '/verif/evidence/%s.json' % pid,
        'replay_cmd_template': './check %s --replay {path}' % pid,
        'engine': 'lean4-proof+correspondence',
        'level_claimed': {'category': c.get('level', 'proof'), 'text': c['level_text'], 'design_ref': c.get('design_ref', 'DESIGN.md section 5')},
        'level_note': c['level_note'],
        'technique': c.get('technique', 'Lean 4 theorems about an executable model; model tied to the code by regeneration from source and differential correspondence'),
    })
m = {
    'version': 1,
    'setup_cmd': './setup.sh',
    'hooks': {
        'guard': 'cargo feature `verif-hooks` of winter-math (off by default)',
        'enable': 'the harness crate depends on winter-math with features = ["verif-hooks"] (harness/Cargo.toml); cargo build --offline in /verif/harness',
        'baseline_off_cmd': 'cd /repo && cargo test --workspace --no-fail-fast --offline',
        'source_commits': hook_commits,
        'add_only': True,
    },
    'engines': [{'name': 'lean4-proof+correspondence', 'path': '/verif/check',
                 'serves_properties': [c['property_id'] for c in checks],
                 'kind_free_text': 'Lean 4 theorems (lake build + #print axioms audit) about an executable model; translator regenerates the arithmetic model from the Rust source on every run; Rust harness runs implementation and model on the same operation lines and an independent oracle judges the implementation'}],
    'checks': checks,
    'not_applicable': na,
    'notes': 'See DESIGN.md. known_findings.json lists recorded and repaired defects. VERIF_REPO=<dir> runs a check against another checkout (used for seeded changes).',
}
json.dump(m, open(os.path.join(V, 'MANIFEST.json'), 'w'), indent=1)
print('claimed:', [c['property_id'] for c in checks])
