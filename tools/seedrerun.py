#!/usr/bin/env python3
"""seedrerun.py <name> <ID>...: re-apply seeded/<name>/patch.diff to a fresh worktree of /repo HEAD and run the given
checks against it; records checks that now report a VIOLATION under `rerun` in seeded/<name>/meta.json."""
import json, os, subprocess, sys, time
name, ids = sys.argv[1], sys.argv[2:]
wt = '/tmp/mut/re-' + name
def sh(cmd, cwd=None):
    p = subprocess.run(cmd, cwd=cwd, shell=True, stdout=subprocess.PIPE, stderr=subprocess.STDOUT, text=True)
    return p.returncode, p.stdout
sh('git -C /repo worktree remove --force %s' % wt)
rc, out = sh('git -C /repo worktree add -q %s HEAD' % wt)
rc, out = sh('git apply /verif/seeded/%s/patch.diff' % name, cwd=wt)
if rc != 0:
    print('patch does not apply to the current HEAD:', out[-300:]); sh('git -C /repo worktree remove --force %s' % wt); sys.exit(2)
mp = '/verif/seeded/%s/meta.json' % name
m = json.load(open(mp))
m.setdefault('rerun', {})
head = sh('git -C /repo rev-parse --short HEAD')[1].strip()
for cid in ids:
    t = time.time()
    rc, out = sh('VERIF_REPO=%s ./check %s' % (wt, cid), cwd='/verif')
    caught = rc == 1 and 'VIOLATION' in out
    m['rerun'][cid] = {'repo_head': head, 'caught': caught, 'wall_s': round(time.time() - t), 'output': out[-1500:]}
    print(name, cid, 'caught' if caught else 'MISSED', round(time.time() - t), 's')
    if caught and cid not in m.get('caught_by', []):
        m.setdefault('caught_after_strengthening', [])
        if cid not in m['caught_after_strengthening']:
            m['caught_after_strengthening'].append(cid)
json.dump(m, open(mp, 'w'), indent=1)
sh('git -C /repo worktree remove --force %s' % wt)
import hashlib
sh('rm -rf /var/tmp/verif-work/' + hashlib.sha1(wt.encode()).hexdigest()[:10])
