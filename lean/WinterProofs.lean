-- Root of the proof library: one file of property theorems per property, helper lemmas apart.
import WinterProofs.C07
