-- Protocol glue of the STARK prover/verifier that is pure integer logic (property C01):
-- what the option / trace-info / degree / context constructors accept, the constraint evaluation
-- domain, the number of composition columns, the FRI schedule, query de-duplication.
-- Mirrors air/src/options.rs, air/src/air/trace_info.rs, air/src/air/transition/degree.rs,
-- air/src/air/context.rs, fri/src/options.rs (num_fri_layers), fri/src/prover/mod.rs
-- (set_remainder), fri/src/verifier/mod.rs (degree bookkeeping), verifier/src/lib.rs (dedup).
-- No Mathlib; everything is executable (driver: Winter/Drv/C01.lean).

namespace Model.Protocol

/-- outcome of a constructor that asserts its arguments -/
inductive Res (α : Type) where
  | ok (a : α)
  | panic
  deriving Repr, DecidableEq

/-- `usize::is_power_of_two` -/
def isPow2 (n : Nat) : Bool := n != 0 && 2 ^ n.log2 == n

/-- `usize::next_power_of_two` (smallest power of two `>= n`; 1 for 0) -/
def nextPow2 (n : Nat) : Nat := if n ≤ 1 then 1 else 2 ^ ((n - 1).log2 + 1)

/-- `TransitionConstraintDegree` -/
structure Degree where
  base : Nat
  cycles : List Nat
  deriving Repr, DecidableEq

/-- what `TransitionConstraintDegree::new` / `with_cycles` accept -/
def Degree.accepted (d : Degree) : Bool :=
  decide (0 < d.base) && d.cycles.all (fun c => decide (2 ≤ c) && isPow2 c)

/-- `get_evaluation_degree` -/
def Degree.evalDegree (d : Degree) (n : Nat) : Nat :=
  d.base * (n - 1) + (d.cycles.map (fun c => (n / c) * (c - 1))).sum

/-- `min_blowup_factor` -/
def Degree.minBlowup (d : Degree) : Nat :=
  max (nextPow2 (d.base + d.cycles.length - 1)) 2

/-- `ProofOptions` (extension degree is checked by the line parser) -/
structure Options where
  queries : Nat
  blowup : Nat
  grinding : Nat
  folding : Nat
  remainder : Nat      -- fri_remainder_max_degree
  deriving Repr, DecidableEq

/-- exactly what `ProofOptions::new` accepts -/
def Options.accepted (o : Options) : Bool :=
  decide (0 < o.queries) && decide (o.queries ≤ 255)
  && isPow2 o.blowup && decide (2 ≤ o.blowup) && decide (o.blowup ≤ 128)
  && decide (o.grinding ≤ 32)
  && isPow2 o.folding && decide (2 ≤ o.folding) && decide (o.folding ≤ 16)
  && isPow2 (o.remainder + 1) && decide (o.remainder ≤ 255)

/-- what `TraceInfo::new_multi_segment` accepts (no metadata) -/
def traceInfoAccepted (mainW auxW auxRands n : Nat) : Bool :=
  decide (8 ≤ n) && isPow2 n && decide (0 < mainW) && decide (mainW + auxW ≤ 255)
  && (decide (auxW ≠ 0) || decide (auxRands = 0)) && decide (auxRands ≤ 255)

/-- `ce_blowup_factor`: the largest `min_blowup_factor` -/
def ceBlowup (degs : List Degree) : Nat := (degs.map Degree.minBlowup).foldl max 0

/-- the largest evaluation degree -/
def highestDegree (degs : List Degree) (n : Nat) : Nat := (degs.map (·.evalDegree n)).foldl max 0

/-- the per-degree bound of `set_num_transition_exemptions` -/
def exemptionsBound (d : Degree) (n ce : Nat) : Nat := (n * ce - 1) + n - d.evalDegree n

/-- what `set_num_transition_exemptions` accepts -/
def exemptionsAccepted (degs : List Degree) (n ce e : Nat) : Bool :=
  decide (0 < e) && decide (e ≤ n / 2 + 1) && degs.all (fun d => decide (e ≤ exemptionsBound d n ce))

/-- `num_constraint_composition_columns` (after repair 0d742c9: `deg / n + 1`) -/
def compositionColumns (degs : List Degree) (n e : Nat) : Nat :=
  max ((highestDegree degs n - (n - e)) / n + 1) 1

/-- the formula of the pinned tree before the repair: `ceil(deg / n)` -/
def compositionColumnsOld (degs : List Degree) (n e : Nat) : Nat :=
  max ((highestDegree degs n - (n - e) + n - 1) / n) 1

/-- `FriOptions::num_fri_layers` together with the size of the last (remainder) domain:
    `while d > maxRem { d /= f; layers += 1 }` -/
def friLayers (d maxRem f : Nat) : Nat × Nat :=
  if h : maxRem < d ∧ 2 ≤ f then
    let r := friLayers (d / f) maxRem f
    (r.1 + 1, r.2)
  else (0, d)
termination_by d
decreasing_by exact Nat.div_lt_self (by omega) (by omega)

/-- sizes of the domains that get folded (one Merkle tree of `d / f` rows each) -/
def friFolded (d maxRem f : Nat) : List Nat :=
  if _h : maxRem < d ∧ 2 ≤ f then d :: friFolded (d / f) maxRem f else []
termination_by d
decreasing_by exact Nat.div_lt_self (by omega) (by omega)

/-- the FRI schedule of an option set over an LDE domain of `lde` points -/
structure Schedule where
  layers : Nat
  remDomain : Nat     -- size of the remainder domain
  remCoef : Nat       -- number of remainder coefficients `remDomain / blowup`
  deriving Repr, DecidableEq

def schedule (lde : Nat) (o : Options) : Schedule :=
  let r := friLayers lde ((o.remainder + 1) * o.blowup) o.folding
  { layers := r.1, remDomain := r.2, remCoef := r.2 / o.blowup }

/-- well-formed schedule: every folded layer keeps at least two rows (`MerkleTree::new` needs two
    leaves) and the remainder has at least one coefficient -/
def wellFormed (lde : Nat) (o : Options) : Bool :=
  (friFolded lde ((o.remainder + 1) * o.blowup) o.folding).all (fun d => decide (2 ≤ d / o.folding))
  && decide (1 ≤ (schedule lde o).remCoef)

/-- the verifier's degree bookkeeping (`FriVerifier::new` for all commitments but the remainder's,
    `verify_generic` for every folded layer): `max_degree_plus_1` must be divisible by the folding
    factor at each of the `k` layers (otherwise `DegreeTruncation`, modelled as `none`); the result is
    the bound the remainder's length is compared with -/
def degreeBookkeeping (maxDegPlus1 f : Nat) : Nat → Option Nat
  | 0 => some maxDegPlus1
  | k + 1 => if maxDegPlus1 % f ≠ 0 then none else degreeBookkeeping (maxDegPlus1 / f) f k

/-- `dedup` of a sorted vector: consecutive duplicates removed -/
def dedup : List Nat → List Nat
  | [] => []
  | [a] => [a]
  | a :: b :: rest => if a = b then dedup (b :: rest) else a :: dedup (b :: rest)

/-- the quantities the harness compares with the real code -/
structure Glue where
  ceBlowup : Nat
  ceDomain : Nat
  ldeDomain : Nat
  columns : Nat
  tracePolyDegree : Nat
  layers : Nat
  remDomain : Nat
  remCoef : Nat
  wellFormed : Bool
  queriesOk : Bool
  deriving Repr, DecidableEq

/-- `ProofOptions::new`, `TraceInfo::new_multi_segment`, the degree constructors,
    `AirContext::new_multi_segment` (one assertion per segment) and
    `set_num_transition_exemptions`, then the derived quantities -/
def glue (n : Nat) (o : Options) (e mainW auxW auxRands : Nat) (mainDegs auxDegs : List Degree) : Res Glue :=
  if !o.accepted then .panic
  else if !traceInfoAccepted mainW auxW auxRands n then .panic
  else if !(mainDegs ++ auxDegs).all Degree.accepted then .panic
  else if mainDegs.isEmpty then .panic
  else if (auxW ≠ 0 ∧ auxDegs.isEmpty) ∨ (auxW = 0 ∧ !auxDegs.isEmpty) then .panic
  else
    let degs := mainDegs ++ auxDegs
    let ce := ceBlowup degs
    if o.blowup < ce then .panic
    else if !exemptionsAccepted degs n ce e then .panic
    else
      let lde := n * o.blowup
      let s := schedule lde o
      .ok { ceBlowup := ce, ceDomain := n * ce, ldeDomain := lde,
            columns := compositionColumns degs n e, tracePolyDegree := n - 1,
            layers := s.layers, remDomain := s.remDomain, remCoef := s.remCoef,
            wellFormed := wellFormed lde o, queriesOk := decide (o.queries < lde) }

/-- degree of the DEEP composition polynomial for trace length `n`: every term is a quotient of
    a polynomial of degree at most `n - 1` by a linear factor -/
def deepDegree (n : Nat) : Nat := n - 2

end Model.Protocol
