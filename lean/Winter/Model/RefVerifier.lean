-- EXECUTABLE REFERENCE VERIFIER: `winter_verifier::verify` (verifier/src/lib.rs `verify`, `perform_verification`)
-- on the BYTES of a serialized proof, for the concrete instantiation
--     base field = 64-bit field (raw words of Model.F64.impl), extension none / quadratic / cubic,
--     hasher     = Rp64_256 (Model.Rescue.rp64: permutation, hash_elements, merge, merge_with_int),
--     coin       = DefaultRandomCoin<Rp64_256> (Model.Coin over that hasher),
--     AIR        = the data-driven family of harness/src/genair.rs WITHOUT auxiliary segment (main segment,
--                  periodic columns, single / periodic / sequence assertions, transition exemptions).
-- Every step is an existing model, composed here:
--     Proof::from_bytes                         Model.Parse.parseProof            (C06/C12)
--     base-field / policy / query-count checks, AIR constructor, VerifierChannel::new
--                                               Model.Parse.verifyFront (outcome), Model.VerifierChecks.channelParse (values)
--     the sequence of checks of perform_verification (coin seeding, reseeds, draws, OOD consistency, PoW,
--     query positions incl. sort+dedup, Merkle checks of the openings, FRI layer loop, remainder checks)
--                                               Model.VerifierChecks.verify       (C02/C03 decision function)
--     DefaultRandomCoin                         Model.Coin                        (C19)
--     Rp64_256                                  Model.Rescue                      (C11)
--     MerkleTree::verify_batch                  Model.Merkle.verifyBatch          (C10)
--     evaluate_constraints                      Model.Composition.evaluateConstraints (C16/C17)
--     fold_positions, map_positions_to_indexes, get_query_values, row interpolation, eval_horner
--                                               Model.Fri                         (C15/C05)
-- Written here because no model had it: the DEEP composer (verifier/src/composer.rs), the element
-- representation shared by all parts (coordinate lists of raw words), the instantiation records and the glue.
-- `refVerify` IS `VerifierChecks.verify` at a concrete `Verifier` record (`mkVerifier`) behind the byte-level
-- front end, so the decision theorems of C02/C03/C05 about `VerifierChecks.verify` apply to what is executed.
-- No Mathlib.  Tied to the real `verify` on identical proof bytes by the `refv` op of harness/src/bin/c03.rs.
import Winter.Model.Parse
import Winter.Model.VerifierChecks
import Winter.Model.Coin
import Winter.Model.Rescue
import Winter.Model.Composition
import Winter.Model.Ext

namespace Model.RefVerifier
open Model

/-! ## 1. Field elements of the protocol: coordinate lists of raw words of the 64-bit field -/

/-- an element of the base field (`[c0]`) or of its quadratic / cubic extension (`[c0, c1]`, `[c0, c1, c2]`);
    the coordinates are raw words (`BaseElement.0`, Montgomery form, `< M` by the invariant of C07) -/
abbrev El := List Nat

/-- a digest of Rp64_256: four raw words -/
abbrev Dg := List Nat

def I : FieldImpl := F64.impl
def BO : BOps Nat := BOps.ofImpl I
def X2 : Ext2 Nat := Ext2.f64 BO.toFOps
def X3 : Ext3 Nat := Ext3.f64 BO.toFOps

/-- the operations of `E` (`FieldElement`) the verifier uses -/
structure EOps where
  deg : Nat
  zero : El
  one : El
  add : El → El → El
  sub : El → El → El
  mul : El → El → El
  /-- `inv` (zero is mapped to zero) -/
  inv : El → El
  /-- `E::from(b)` for a raw word of the base field -/
  ofBase : Nat → El

/-- base-field inversion; the model's `inv` of the 64-bit field always returns -/
def binv (x : Nat) : Nat :=
  match I.inv x with
  | .done r => r
  | .out => I.new 0

def addEl (a b : El) : El := List.zipWith I.add a b
def subEl (a b : El) : El := List.zipWith I.sub a b

def baseOps : EOps where
  deg := 1
  zero := [I.new 0]
  one := [I.new 1]
  add := addEl
  sub := subEl
  mul := List.zipWith I.mul
  inv := List.map binv
  ofBase := fun x => [x]

def quadMul : El → El → El
  | [a0, a1], [b0, b1] => let p := X2.mul a0 a1 b0 b1; [p.1, p.2]
  | _, _ => []

/-- `QuadExtension::inv`; its debug assertion (`norm[1] == 0`) and a base inversion that does not return are
    mapped to zero: neither happens over the 64-bit field (C08) -/
def quadInv : El → El
  | [a0, a1] =>
    match Quad.inv BO X2 ⟨a0, a1⟩ with
    | .ok r => [r.c0, r.c1]
    | _ => [I.new 0, I.new 0]
  | _ => []

def quadOps : EOps where
  deg := 2
  zero := [I.new 0, I.new 0]
  one := [I.new 1, I.new 0]
  add := addEl
  sub := subEl
  mul := quadMul
  inv := quadInv
  ofBase := fun x => [x, I.new 0]

def cubeMul : El → El → El
  | [a0, a1, a2], [b0, b1, b2] => let p := X3.mul a0 a1 a2 b0 b1 b2; [p.1, p.2.1, p.2.2]
  | _, _ => []

def cubeInv : El → El
  | [a0, a1, a2] =>
    match Cube.inv BO X3 ⟨a0, a1, a2⟩ with
    | .ok r => [r.c0, r.c1, r.c2]
    | _ => [I.new 0, I.new 0, I.new 0]
  | _ => []

def cubeOps : EOps where
  deg := 3
  zero := [I.new 0, I.new 0, I.new 0]
  one := [I.new 1, I.new 0, I.new 0]
  add := addEl
  sub := subEl
  mul := cubeMul
  inv := cubeInv
  ofBase := fun x => [x, I.new 0, I.new 0]

/-- the element type selected by `FieldExtension` (discriminant 1, 2, 3) -/
def extOps (ext : Nat) : Option EOps :=
  if ext = 1 then some baseOps else if ext = 2 then some quadOps else if ext = 3 then some cubeOps else none

/-- `get_root_of_unity(k)`; `none` = its assertions -/
def rootRaw (k : Nat) : Option Nat := I.rootOfUnity k

/-- the operation record of the FRI model over `E` -/
def EOps.fri (E : EOps) : Fri.FOps El where
  zero := E.zero
  one := E.one
  add := E.add
  sub := E.sub
  mul := E.mul
  inv := E.inv
  beq := fun a b => a == b
  ofNat := fun n => E.ofBase (I.new n)
  root := fun k => match rootRaw k with
    | some r => E.ofBase r
    | none => E.zero
  rootOk := fun k => k != 0 && decide (k ≤ I.twoAdicity)
  offset := E.ofBase (I.new I.generator)

def EOps.pow (E : EOps) (x : El) (n : Nat) : El := Fri.pow E.fri x n

/-- the operation record of the divisor / composition models over `E` (division always returns) -/
def EOps.div (E : EOps) : Divisor.Ops El where
  zero := E.zero
  one := E.one
  add := E.add
  sub := E.sub
  mul := E.mul
  pow := E.pow
  div := fun a b => some (E.mul a (E.inv b))
  ofNat := fun v => E.ofBase (I.new (v % I.M))
  root := fun k => (rootRaw k).map E.ofBase

/-! ## 2. Rp64_256 and the coin over it -/

def P : Rescue.Params := Rescue.rp64

/-- `Rp64_256` as the public coin uses it (seed elements are canonical integers) -/
def hashOps : Coin.HashOps Dg where
  hashElements := fun es => Rescue.hashElements P (es.map I.new)
  merge := Rescue.merge P
  mergeWithInt := Rescue.mergeWithInt P
  asBytes := Rescue.digestBytes64

/-- `Rp64_256` as the Merkle code uses it -/
def merkleH : Merkle.Hasher Dg := ⟨Rescue.merge P, List.replicate 4 (I.new 0)⟩

/-- `H::hash_elements(&[E])`: the coordinates of all elements, in order -/
def hashEls (vs : List El) : Dg := Rescue.hashElementsExt P vs

def fieldDesc : Coin.FieldDesc := ⟨I.M, I.bytes⟩

/-- `DefaultRandomCoin<Rp64_256>` drawing elements of `E` -/
def coinOps (E : EOps) : VerifierChecks.CoinOps (Coin.Coin Dg) Dg El where
  new := Coin.new hashOps
  reseed := Coin.reseed hashOps
  draw := fun c =>
    match Coin.draw hashOps fieldDesc E.deg c with
    | (.elem cs, c') => some (cs.map I.new, c')
    | _ => none
  drawInts := fun c n dom nonce =>
    match Coin.drawIntegers hashOps n dom nonce c with
    | (.ints vs, _) => some vs
    | _ => none
  leadingZeros := Coin.checkLeadingZeros hashOps

/-! ## 3. The computation: description and the AIR instance the verifier builds from it -/

/-- a description of the harness's AIR family without auxiliary segment: what `check_main` reads
    (`VerifierChecks.Air`) plus the declared constraint degrees -/
structure Desc where
  air : VerifierChecks.Air
  degs : List Protocol.Degree
  deriving Repr

/-- `base[.cycle]*` of a constraint `deg:expr` -/
def parseDegree (s : String) : Option Protocol.Degree :=
  match s.splitOn ":" with
  | d :: _ =>
    match (d.splitOn ".").mapM VerifierChecks.parseNat with
    | some (b :: cs) => some { base := b, cycles := cs }
    | _ => none
  | _ => none

/-- the text form of harness/src/genair.rs; descriptions with an auxiliary segment (`x=`) are not modelled -/
def parseDesc (line : String) : Option Desc :=
  let fields := VerifierChecks.nonEmpty (line.splitOn ";")
  if fields.any (fun f => f.startsWith "x=" || f.startsWith "h=" || f.startsWith "u=" || f.startsWith "b=") then none
  else
    match VerifierChecks.parseAir line with
    | none => none
    | some A =>
      let degs := fields.filterMap fun f =>
        if f.startsWith "t=" then some ((VerifierChecks.nonEmpty ((f.drop 2).toString.splitOn ",")).mapM parseDegree) else none
      match degs with
      | [some ds] => if ds.length = A.constraints.length then some ⟨A, ds⟩ else none
      | _ => none

/-- constraint expressions of the description as the composition model reads them -/
def convExpr : VerifierChecks.Expr → Composition.Expr
  | .const v => .const v
  | .cur i => .cur i
  | .nxt i => .nxt i
  | .per i => .per i
  | .add x y => .add (convExpr x) (convExpr y)
  | .sub x y => .sub (convExpr x) (convExpr y)
  | .mul x y => .mul (convExpr x) (convExpr y)
  | .pow k x => .pow (convExpr x) k
  | .neg x => .neg (convExpr x)

/-- every cell an expression reads exists in a frame of `width` columns and `nper` periodic values
    (`env.cur[i]` etc. of genair's `Expr::eval` panic otherwise) -/
def exprInRange (width nper : Nat) : VerifierChecks.Expr → Bool
  | .const _ => true
  | .cur i => decide (i < width)
  | .nxt i => decide (i < width)
  | .per i => decide (i < nper)
  | .add x y => exprInRange width nper x && exprInRange width nper y
  | .sub x y => exprInRange width nper x && exprInRange width nper y
  | .mul x y => exprInRange width nper x && exprInRange width nper y
  | .pow _ x => exprInRange width nper x
  | .neg x => exprInRange width nper x

/-- `B::from_word(v % MOD)` embedded into `E` -/
def embedInt (E : EOps) (v : Nat) : El := E.ofBase (I.new (v % I.M))

/-- `GenericAir::get_assertions`: the public values in assertion order (a missing value reads as zero, the
    number of values of a sequence comes from the DESCRIPTION's trace length), through the asserting
    constructors `Assertion::single / periodic / sequence`; `none` = one of them panics -/
def mkAssertions (E : EOps) (d : Desc) (pubs : List Nat) : Option (List (Divisor.Assertion El)) :=
  (List.range d.air.assertions.length).mapM fun k =>
    match d.air.assertions[k]? with
    | none => none
    | some a =>
      let vals := (List.range (a.numValues d.air.n)).map fun i =>
        match pubs[d.air.pubOffset k + i]? with
        | some v => embedInt E v
        | none => E.zero
      match a.kind, vals with
      | .single, v :: _ => some (Divisor.single a.column a.first v)
      | .periodic, v :: _ =>
        (match Divisor.periodic a.column a.first a.stride v with
         | .ok x => some x
         | .panic _ => none)
      | .sequence, vs =>
        (match Divisor.sequence a.column a.first a.stride vs with
         | .ok x => some x
         | .panic _ => none)
      | _, [] => none

/-- the instance `AIR::new(proof.trace_info(), pub_inputs, proof.options())` as `evaluate_constraints` sees it:
    trace shape from the proof's context, everything else from the description -/
def compAir (E : EOps) (d : Desc) (asserts : List (Divisor.Assertion El)) (ti : Serde.TraceInfo) : Composition.Air El where
  n := ti.length
  e := d.air.exemptions
  mainWidth := ti.main
  auxWidth := 0
  periodic := d.air.periodic.map fun col => col.map (embedInt E)
  mainCons := d.air.constraints.map convExpr
  auxCons := []
  mainDegs := d.degs.map fun g => ⟨g.base, g.cycles⟩
  auxDegs := []
  mainAsserts := asserts
  auxAsserts := []

/-- what `evaluate_constraints` computes before it touches the frame, or `none` where the real code panics:
    the assertions of `get_periodic_column_polys` (cycle length `>= 2`, a power of two, at most the trace
    length), an out-of-range cell index in a constraint (`Expr::eval`), the asserting constructors and
    `prepare_assertions` of `BoundaryConstraints::new` -/
def prepOf (E : EOps) (d : Desc) (pubs : List Nat) (ti : Serde.TraceInfo) :
    Option (Composition.Air El × Composition.Prep El) :=
  if !d.air.periodic.all (fun p => decide (2 ≤ p.length) && Divisor.isPow2 p.length && decide (p.length ≤ ti.length)) then none
  else if !d.air.constraints.all (exprInRange ti.main d.air.periodic.length) then none
  else
    match mkAssertions E d pubs with
    | none => none
    | some asserts =>
      let air := compAir E d asserts ti
      match Composition.prep E.div air with
      | none => none
      | some P => some (air, P)

/-- `slice[i]` of a frame row (indices are validated by `prepOf`) -/
def cell (E : EOps) (row : List El) (i : Nat) : El :=
  match row[i]? with
  | some v => v
  | none => E.zero

/-- `evaluate_constraints(air, coefficients, OOD main frame, z)`; the OOD trace frame arrives in hashing order
    (current and next value of every column interleaved) -/
def evalConstraints (E : EOps) (d : Desc) (pubs : List Nat) (ti : Serde.TraceInfo) (coeffs oodTrace : List El) (z : El) : El :=
  match prepOf E d pubs ti with
  | none => E.zero
  | some (air, P) =>
    let cn := Serde.deinterleave oodTrace
    let fr : Composition.Frames El := ⟨cell E cn.1, cell E cn.2, fun _ => E.zero, fun _ => E.zero⟩
    let nT := d.air.constraints.length
    let nA := d.air.assertions.length
    match Composition.evaluateConstraints E.div air P fr (fun _ => E.zero) (coeffs.take nT) ((coeffs.drop nT).take nA) z with
    | some v => v
    | none => E.zero

/-- `Σ_i z^((i·n) as u32) · value_i` (verifier/src/lib.rs; the exponent is cast to `u32`) -/
def combineOod (E : EOps) (n : Nat) (z : El) (vals : List El) : El :=
  vals.zipIdx.foldl (fun acc p => E.add acc (E.mul (E.pow z ((p.2 * n) % 4294967296)) p.1)) E.zero

/-! ## 4. The DEEP composer (verifier/src/composer.rs) -/

/-- `E::from(value)` for a cell of the main segment (a base-field element, parsed as a one-coordinate list) -/
def embedCell (E : EOps) (v : El) : El :=
  match v with
  | [c] => E.ofBase c
  | _ => v

/-- `DeepComposer::new`: the x coordinates `g_lde^p · domain_offset` of the query positions -/
def xCoordinates (E : EOps) (lde : Nat) (positions : List Nat) : List El :=
  match rootRaw (Nat.log2 lde) with
  | none => []
  | some g => positions.map fun p => E.ofBase (I.mul (I.exp g p) (I.new I.generator))

/-- `Σ_i (value_i − ood_i) · cc_i` -/
def linComb (E : EOps) (vals oods ccs : List El) : El :=
  ((vals.zip oods).zip ccs).foldl (fun acc t => E.add acc (E.mul (E.sub t.1.1 t.1.2) t.2)) E.zero

/-- `compose_trace_columns` for a trace without auxiliary segment: per query
    `(t1_num · t2_den + t2_num · t1_den) / (t1_den · t2_den)` (batch inversion = inversion entry by entry, zero
    mapped to zero) -/
def composeTrace (E : EOps) (xs : List El) (z0 z1 : El) (ccTrace : List El) (rows : List (List El))
    (oodCur oodNxt : List El) : List El :=
  (rows.zip xs).map fun rx =>
    let vals := rx.1.map (embedCell E)
    let t1num := linComb E vals oodCur ccTrace
    let t2num := linComb E vals oodNxt ccTrace
    let t1den := E.sub rx.2 z0
    let t2den := E.sub rx.2 z1
    E.mul (E.add (E.mul t1num t2den) (E.mul t2num t1den)) (E.inv (E.mul t1den t2den))

/-- `compose_constraint_evaluations`: per query `Σ_i (H_i(x) − H_i(z)) · cc_i / (x − z)` -/
def composeConstraints (E : EOps) (xs : List El) (z0 : El) (ccCons : List El) (rows : List (List El))
    (oodEvals : List El) : List El :=
  (rows.zip xs).map fun rx => E.mul (linComb E rx.1 oodEvals ccCons) (E.inv (E.sub rx.2 z0))

/-- `DeepComposer::new`, `compose_trace_columns`, `compose_constraint_evaluations`, `combine_compositions` -/
def deepCompose (E : EOps) (n lde width : Nat) (positions : List Nat) (z : El) (deep : List El)
    (traceRows : List (List (List El))) (constraintRows : List (List El)) (oodTrace oodEvals : List El) : List El :=
  let xs := xCoordinates E lde positions
  let gTrace := match rootRaw (Nat.log2 n) with
    | some g => g
    | none => I.new 0
  let z1 := E.mul z (E.ofBase gTrace)
  let cn := Serde.deinterleave oodTrace
  let mainRows := match traceRows with
    | r :: _ => r
    | [] => []
  let t := composeTrace E xs z z1 (deep.take width) mainRows (cn.1.take width) (cn.2.take width)
  let c := composeConstraints E xs z (deep.drop width) constraintRows oodEvals
  List.zipWith E.add t c

/-! ## 5. The instantiation of the verifier's decision function -/

/-- `AcceptableOptions` (the proven-security variant uses floating point and is not modelled) -/
inductive Acceptable where
  | minConjectured (bits : Nat)
  | optionSet (opts : List Serde.ProofOptions)
  deriving Repr

/-- what the byte-level front end needs to know about the instantiation -/
def frontAir (d : Desc) : Parse.Air where
  F := I
  cubic := true
  digestBytes := 32
  digestSize := 32
  exemptions := d.air.exemptions
  mainDegs := d.degs
  auxDegs := []
  nMainAssert := d.air.assertions.length
  nAuxAssert := 0
  descAuxWidth := 0
  lagrange := false

/-- `H::COLLISION_RESISTANCE` of Rp64_256 -/
def COLLISION_RESISTANCE : Nat := 128

/-- `proof.security_level::<H>(true)`; `none` = an arithmetic panic -/
def securityLevel (d : Desc) (ctx : Serde.Context) : Option Nat :=
  (Parse.conjecturedSecurity ctx.options (frontAir d).fieldBits ctx.traceInfo.length).map fun s => min s COLLISION_RESISTANCE

/-- `acceptable_options.validate::<H>(&proof)` succeeds (a panicking security estimate counts as refused here;
    `refVerify` reports it as a panic before it gets here) -/
def policyOk (d : Desc) (acc : Acceptable) (ctx : Serde.Context) : Bool :=
  match acc with
  | .minConjectured m =>
    (match securityLevel d ctx with
     | some s => decide (m ≤ s)
     | none => false)
  | .optionSet l => l.contains ctx.options

/-- `FriOptions` of a parsed option set (`ProofOptions::read_from` only returns folding factors 2, 4, 8, 16) -/
def friOpts (o : Serde.ProofOptions) : Fri.Opts :=
  match Fri.Opts.new? o.blowup o.folding o.remDeg with
  | some x => x
  | none => ⟨o.blowup, 2, o.remDeg, Or.inl rfl⟩

/-- number of columns of the constraint composition polynomial of the instance (`0` when the AIR constructor
    panics: `refVerify` never gets that far) -/
def numCols (d : Desc) (ctx : Serde.Context) : Nat :=
  match Parse.airNew (frontAir d) ctx.traceInfo ctx.options with
  | some k => k
  | none => 0

/-- value at `alpha` of the row polynomial of one opened FRI row (`interpolate_batch` + `eval`, Lagrange form):
    the row's points are `g_layer^pos · offset · ω_N^j` with `ω_N` taken from the initial domain -/
def foldRow (E : EOps) (lde N : Nat) (dom pos : Nat) (row : List El) (alpha : El) : El :=
  let F := E.fri
  let g0 := F.root (Nat.log2 lde)
  let foldingRoots := (List.range N).map fun i => Fri.pow F g0 (lde / N * i)
  Fri.lagrangeEval F (Fri.rowPoints F foldingRoots (F.root (Nat.log2 dom)) pos) row alpha

/-- `eval_horner(remainder, offset · g_last^position)` -/
def evalRemainder (E : EOps) (rem : List El) (dom pos : Nat) : El :=
  let F := E.fri
  Fri.horner F rem (F.mul F.offset (Fri.pow F (F.root (Nat.log2 dom)) pos))

/-- the AIR instance of a proof context -/
def airInst (E : EOps) (d : Desc) (pubs : List Nat) (ctx : Serde.Context) :
    VerifierChecks.AirInst (Coin.Coin Dg) Dg El :=
  let ti := ctx.traceInfo
  let o := ctx.options
  let lde := ti.length * o.blowup
  { extSupported := true
    multiSegment := decide (ti.aux > 0)
    lagrange := false
    numAuxRands := 0
    numCoeffs := d.air.constraints.length + d.air.assertions.length
    numDeepCoeffs := ti.main + ti.aux + numCols d ctx
    ldeSize := lde
    numQueries := o.numQueries
    grinding := o.grinding
    fri := friOpts o
    tracePolyDegree := ti.length - 1
    gkrVerify := fun _ _ => none
    evalConstraints := fun coeffs _ _ oodTrace z => evalConstraints E d pubs ti coeffs oodTrace z
    combineOod := combineOod E ti.length
    deepCompose := deepCompose E ti.length lde (ti.main + ti.aux)
    foldRow := fun _ dom pos row alpha => foldRow E lde o.folding dom pos row alpha
    evalRemainder := evalRemainder E }

/-- **the concrete verifier**: `VerifierChecks.Verifier` for the 64-bit field, Rp64_256, the default coin, the
    computation `d` with public inputs `pubs`, the acceptance policy `acc` and elements `E` -/
def mkVerifier (E : EOps) (d : Desc) (pubs : List Nat) (acc : Acceptable) :
    VerifierChecks.Verifier (Coin.Coin Dg) Dg El where
  coin := coinOps E
  merkle := merkleH
  hashElems := hashEls
  modulus := (frontAir d).modulusBytes
  elemBytes := I.bytes
  pubElems := pubs.map (· % I.M)
  acceptable := fun ctx =>
    policyOk d acc ctx && decide (ctx.options.numQueries < ctx.traceInfo.length * ctx.options.blowup)
  air := airInst E d pubs
  commitCheck := true

/-! ## 6. From the parsed byte blocks to the verifier's inputs -/

/-- parameters of `VerifierChannel::new` for a context whose AIR asks for `ncols` composition columns -/
def chanCfg (ctx : Serde.Context) (ncols : Nat) : VerifierChecks.ChanCfg :=
  let ti := ctx.traceInfo
  let o := ctx.options
  let lde := ti.length * o.blowup
  { F := I, ext := o.fieldExt, digest := Serde.elemDigest64, numSegments := ti.numSegments,
    mainWidth := ti.main, auxWidth := ti.aux, constraintWidth := ncols,
    ldeLog := Nat.log2 lde,
    numFriLayers := (Protocol.friLayers lde ((o.remDeg + 1) * o.blowup) o.folding).1,
    folding := o.folding, lagrangeLog := none }

/-- canonical coordinates (as the readers deliver them) to raw words -/
def rawEl (cs : List Nat) : El := cs.map I.new
def rawDg (cs : List Nat) : Dg := cs.map I.new

def rawOpening (o : VerifierChecks.ParsedOpening) : VerifierChecks.Opening El Dg :=
  ⟨o.rows.map (·.map rawEl), o.nodes.map (·.map rawDg)⟩

/-- what `perform_verification` reads before the query positions are drawn -/
def committedOf (c : VerifierChecks.ParsedChannel) : VerifierChecks.Committed El Dg where
  traceRoots := c.traceRoots.map rawDg
  constraintRoot := rawDg c.constraintRoot
  oodTrace := Serde.interleave (c.oodCurrent.map rawEl) (c.oodNext.map rawEl)
  oodEvals := c.oodEvals.map rawEl
  friRoots := c.friRoots.map rawDg
  powNonce := c.powNonce
  gkr := c.gkr

/-- what it reads afterwards -/
def openedOf (c : VerifierChecks.ParsedChannel) : VerifierChecks.Opened El Dg where
  traceOpenings := c.traceOpenings.map rawOpening
  constraintOpening := rawOpening c.constraintOpening
  friLayers := c.friLayers.map rawOpening
  remainder := c.remainder.map rawEl
  numPartitions := c.numPartitions

/-! ## 7. The reference verifier -/

/-- verdict classes of `Proof::from_bytes` followed by `verify` -/
inductive Verdict where
  | ok
  /-- `Proof::from_bytes` returned an error -/
  | parseErr
  /-- `InsufficientConjecturedSecurity` -/
  | insufficientSecurity
  /-- the other `VerifierError` kinds; `VErr.panic` = the real code panics -/
  | err (e : VerifierChecks.VErr)
  deriving Repr, DecidableEq

def Verdict.ofExcept : Except VerifierChecks.VErr Unit → Verdict
  | .ok _ => .ok
  | .error e => .err e

/-- `acceptable_options.validate`, as a verdict: `none` = accepted -/
def policyVerdict (d : Desc) (acc : Acceptable) (ctx : Serde.Context) : Option Verdict :=
  match acc with
  | .minConjectured m =>
    (match securityLevel d ctx with
     | none => some (.err (.panic "security_level"))
     | some s => if s < m then some .insufficientSecurity else none)
  | .optionSet l => if l.contains ctx.options then none else some (.err .unacceptableOptions)

/-- `verify::<GenericAir, Rp64_256, DefaultRandomCoin<Rp64_256>>(proof, pub_inputs, acceptable)` on a parsed
    proof, step by step:
    base-field check, acceptance policy, query-count check, AIR constructor, extension support and
    `VerifierChannel::new` (outcome: `Parse.verifyFront`; parsed values: `VerifierChecks.channelParse`), the
    part of `evaluate_constraints` that can panic on a trace shape the description does not fit, then
    `perform_verification` = `VerifierChecks.verify` at `mkVerifier` -/
def refVerifyProof (d : Desc) (pubs : List Nat) (acc : Acceptable) (p : Serde.Proof) : Verdict :=
  let ctx := p.context
  let A := frontAir d
  if ctx.modulus ≠ A.modulusBytes then .err .inconsistentBaseField
  else
    match policyVerdict d acc ctx with
    | some v => v
    | none =>
      match (Parse.verifyFront A p).1 with
      | .field => .err .inconsistentBaseField
      | .opts => .err .unacceptableOptions
      | .airnew => .err (.panic "AIR::new")
      | .ext => .err .unsupportedExtension
      | .err => .err .deserialization
      | .panic => .err (.panic "verify front end")
      | .pass =>
        match Parse.airNew A ctx.traceInfo ctx.options, extOps ctx.options.fieldExt with
        | some ncols, some E =>
          match VerifierChecks.channelParse (chanCfg ctx ncols) p with
          | .panic => .err (.panic "VerifierChannel::new")
          | .err _ => .err .deserialization
          | .ok c =>
            if (prepOf E d pubs ctx.traceInfo).isNone then .err (.panic "evaluate_constraints")
            else Verdict.ofExcept (VerifierChecks.verify (mkVerifier E d pubs acc) ctx (some (committedOf c, openedOf c)))
        | _, _ => .err (.panic "AIR::new")

/-- **the reference verifier**: `Proof::from_bytes(bytes)` then `verify` -/
def refVerify (d : Desc) (pubs : List Nat) (acc : Acceptable) (bytes : List Nat) : Verdict :=
  match (Parse.parseProof bytes).1 with
  | .ok p => refVerifyProof d pubs acc p
  | .err => .parseErr
  | .eof => .parseErr
  | .panic => .err (.panic "Proof::from_bytes")

/-! ## 8. Canonical text of a verdict (the `refv` op of the C03 driver) -/

def friErr (s : String) : String := "err:FriVerificationFailed." ++ s

def Verdict.text : Verdict → String
  | .ok => "ok"
  | .parseErr => "parse-err"
  | .insufficientSecurity => "err:InsufficientConjecturedSecurity"
  | .err e =>
    match e with
    | .inconsistentBaseField => "err:InconsistentBaseField"
    | .unacceptableOptions => "err:UnacceptableProofOptions"
    | .unsupportedExtension => "err:UnsupportedFieldExtension"
    | .deserialization => "err:ProofDeserializationError"
    | .gkrFailed => "err:GkrProofVerificationFailed"
    | .randomCoin => "err:RandomCoinError"
    | .inconsistentOod => "err:InconsistentOodConstraintEvaluations"
    | .degreeTruncation k => friErr s!"DegreeTruncation:{k}"
    | .proofOfWork => "err:QuerySeedProofOfWorkVerificationFailed"
    | .traceQuery => "err:TraceQueryDoesNotMatchCommitment"
    | .constraintQuery => "err:ConstraintQueryDoesNotMatchCommitment"
    | .numPositionEvaluationMismatch => friErr "NumPositionEvaluationMismatch"
    | .layerCommitmentMismatch _ => friErr "LayerCommitmentMismatch"
    | .invalidLayerFolding k => friErr s!"InvalidLayerFolding:{k}"
    | .remainderCommitmentMismatch => friErr "RemainderCommitmentMismatch"
    | .remainderDegreeMismatch => friErr "RemainderDegreeMismatch"
    | .invalidRemainderFolding => friErr "InvalidRemainderFolding"
    | .panic _ => "panic"

end Model.RefVerifier
