-- EXECUTABLE REFERENCE VERIFIER: `winter_verifier::verify` (verifier/src/lib.rs `verify`, `perform_verification`)
-- on the BYTES of a serialized proof, for an instantiation record `Inst` (a PARAMETER of `refVerify`):
--     base field = raw words of a `FieldImpl` with its quadratic / cubic extension formulas,
--     hasher     = a Rescue Prime instance of Model.Rescue (permutation, hash_elements, merge, merge_with_int) with
--                  its digest encoding,
--     coin       = DefaultRandomCoin over that hasher (Model.Coin),
-- with the three instances
--     `Inst.rp64`    64-bit field, Rp64_256          `Inst.rpjive`  64-bit field, RpJive64_256
--     `Inst.rp62`    62-bit field, Rp62_248
-- (extension none / quadratic / cubic each), and for
--     AIR        = the data-driven family of harness/src/genair.rs: main segment, periodic columns, single /
--                  periodic / sequence assertions, transition exemptions, and an optional AUXILIARY SEGMENT
--                  (aux random elements drawn after the main commitment, aux commitment reseed, aux queries, aux
--                  columns in the OOD frame, aux transition constraints and aux boundary assertions whose values are
--                  expressions in the random elements and the public inputs, aux columns in the DEEP composer),
--                  whose last column may be a LAGRANGE KERNEL column (`x=w.r.1`): GKR proof decoding with the
--                  unconsumed-bytes check, the GKR verifier drawing the Lagrange random elements from the coin BEFORE
--                  the auxiliary random elements are drawn, the requirement of log2(trace length) of them, the
--                  Lagrange kernel frame of the OOD frame, the Lagrange kernel transition and boundary constraints
--                  with their composition coefficients, the Lagrange term of the DEEP composition.  The GKR
--                  verifier modelled (`gkrVerify`) is THE FAMILY'S, not the library's (the library only defines the
--                  trait): harness/src/genair.rs `GenGkrVerifier`, the dummy set-up of the repository's own test AIR -
--                  the "GKR proof" is a `usize` (vint64), more than 64 is an error, that many elements are drawn.
-- Every step is an existing model, composed here:
--     Proof::from_bytes                         Model.Parse.parseProof            (C06/C12)
--     base-field / policy / query-count checks, AIR constructor, VerifierChannel::new
--                                               Model.Parse.verifyFront (outcome), Model.VerifierChecks.channelParse (values)
--     the sequence of checks of perform_verification (coin seeding, reseeds, the auxiliary-segment phase, draws, OOD
--     consistency, PoW, query positions incl. sort+dedup, Merkle checks of the openings, FRI layer loop, remainder
--     checks)                                   Model.VerifierChecks.verify       (C02/C03 decision function)
--     DefaultRandomCoin                         Model.Coin                        (C19)
--     Rp64_256 / RpJive64_256 / Rp62_248        Model.Rescue                      (C11)
--     MerkleTree::verify_batch                  Model.Merkle.verifyBatch          (C10)
--     evaluate_constraints (main and auxiliary transition constraints and boundary groups)
--                                               Model.Composition.evaluateConstraints (C16/C17)
--     fold_positions, map_positions_to_indexes, get_query_values, row interpolation, eval_horner
--                                               Model.Fri                         (C15/C05)
-- Written here because no model had it: the DEEP composer (verifier/src/composer.rs), the element
-- representation shared by all parts (coordinate lists of raw words), the instantiation records and the glue.
-- `refVerify` IS `VerifierChecks.verify` at a concrete `Verifier` record (`mkVerifier`) behind the byte-level
-- front end, so the decision theorems of C02/C03/C05 about `VerifierChecks.verify` apply to what is executed.
-- No Mathlib.  Tied to the real `verify` on identical proof bytes by the `refv` op of harness/src/bin/c03.rs
-- (and, on C06's hostile mutants, of harness/src/bin/c06.rs).
import Winter.Model.Parse
import Winter.Model.VerifierChecks
import Winter.Model.Coin
import Winter.Model.Rescue
import Winter.Model.Composition
import Winter.Model.Ext

namespace Model.RefVerifier
open Model

/-! ## 1. Field elements of the protocol: coordinate lists of raw words of the base field -/

/-- an element of the base field (`[c0]`) or of its quadratic / cubic extension (`[c0, c1]`, `[c0, c1, c2]`);
    the coordinates are raw words (`BaseElement.0`; `< M` by the invariant of C07) -/
abbrev El := List Nat

/-- a digest of a Rescue hasher: four raw words -/
abbrev Dg := List Nat

/-- the operations of `E` (`FieldElement`) the verifier uses, over the base field `I`.  `norm` maps a raw word to
    the canonical raw word of the same residue (the identity for the 64-bit field, whose raw words are canonical;
    `normalize` for the 62-bit field, whose raw words live in `[0, 2^62)` with `M < 2^62` and whose `==` normalizes):
    every operation result is normalized, so that the structural equality the decision function uses on values and
    digests is the `==` of the code -/
structure EOps where
  I : FieldImpl
  norm : Nat → Nat
  deg : Nat
  zero : El
  one : El
  add : El → El → El
  sub : El → El → El
  mul : El → El → El
  /-- `inv` (zero is mapped to zero) -/
  inv : El → El
  /-- `E::from(b)` for a raw word of the base field -/
  ofBase : Nat → El

/-- base-field inversion; a fuel-bounded inversion loop that does not return is mapped to zero (it returns for every
    word satisfying the invariant: C07) -/
def binv (I : FieldImpl) (x : Nat) : Nat :=
  match I.inv x with
  | .done r => r
  | .out => I.new 0

def addEl (I : FieldImpl) (nm : Nat → Nat) (a b : El) : El := (List.zipWith I.add a b).map nm
def subEl (I : FieldImpl) (nm : Nat → Nat) (a b : El) : El := (List.zipWith I.sub a b).map nm

def baseOps (I : FieldImpl) (nm : Nat → Nat) : EOps where
  I := I
  norm := nm
  deg := 1
  zero := [nm (I.new 0)]
  one := [nm (I.new 1)]
  add := addEl I nm
  sub := subEl I nm
  mul := fun a b => (List.zipWith I.mul a b).map nm
  inv := fun a => a.map (fun x => nm (binv I x))
  ofBase := fun x => [nm x]

def quadMul (X2 : Ext2 Nat) (nm : Nat → Nat) : El → El → El
  | [a0, a1], [b0, b1] => let p := X2.mul a0 a1 b0 b1; [nm p.1, nm p.2]
  | _, _ => []

/-- `QuadExtension::inv`; its debug assertion (`norm[1] == 0`) and a base inversion that does not return are
    mapped to zero: neither happens over the fields of the instances (C08) -/
def quadInv (I : FieldImpl) (X2 : Ext2 Nat) (nm : Nat → Nat) : El → El
  | [a0, a1] =>
    match Quad.inv (BOps.ofImpl I) X2 ⟨a0, a1⟩ with
    | .ok r => [nm r.c0, nm r.c1]
    | _ => [nm (I.new 0), nm (I.new 0)]
  | _ => []

def quadOps (I : FieldImpl) (X2 : Ext2 Nat) (nm : Nat → Nat) : EOps where
  I := I
  norm := nm
  deg := 2
  zero := [nm (I.new 0), nm (I.new 0)]
  one := [nm (I.new 1), nm (I.new 0)]
  add := addEl I nm
  sub := subEl I nm
  mul := quadMul X2 nm
  inv := quadInv I X2 nm
  ofBase := fun x => [nm x, nm (I.new 0)]

def cubeMul (X3 : Ext3 Nat) (nm : Nat → Nat) : El → El → El
  | [a0, a1, a2], [b0, b1, b2] => let p := X3.mul a0 a1 a2 b0 b1 b2; [nm p.1, nm p.2.1, nm p.2.2]
  | _, _ => []

def cubeInv (I : FieldImpl) (X3 : Ext3 Nat) (nm : Nat → Nat) : El → El
  | [a0, a1, a2] =>
    match Cube.inv (BOps.ofImpl I) X3 ⟨a0, a1, a2⟩ with
    | .ok r => [nm r.c0, nm r.c1, nm r.c2]
    | _ => [nm (I.new 0), nm (I.new 0), nm (I.new 0)]
  | _ => []

def cubeOps (I : FieldImpl) (X3 : Ext3 Nat) (nm : Nat → Nat) : EOps where
  I := I
  norm := nm
  deg := 3
  zero := [nm (I.new 0), nm (I.new 0), nm (I.new 0)]
  one := [nm (I.new 1), nm (I.new 0), nm (I.new 0)]
  add := addEl I nm
  sub := subEl I nm
  mul := cubeMul X3 nm
  inv := cubeInv I X3 nm
  ofBase := fun x => [nm x, nm (I.new 0), nm (I.new 0)]

/-- `get_root_of_unity(k)`; `none` = its assertions -/
def rootRaw (I : FieldImpl) (k : Nat) : Option Nat := I.rootOfUnity k

/-- the operation record of the FRI model over `E` -/
def EOps.fri (E : EOps) : Fri.FOps El where
  zero := E.zero
  one := E.one
  add := E.add
  sub := E.sub
  mul := E.mul
  inv := E.inv
  beq := fun a b => a == b
  ofNat := fun n => E.ofBase (E.I.new n)
  root := fun k => match rootRaw E.I k with
    | some r => E.ofBase r
    | none => E.zero
  rootOk := fun k => k != 0 && decide (k ≤ E.I.twoAdicity)
  offset := E.ofBase (E.I.new E.I.generator)

def EOps.pow (E : EOps) (x : El) (n : Nat) : El := Fri.pow E.fri x n

/-- the operation record of the divisor / composition models over `E` (division always returns) -/
def EOps.div (E : EOps) : Divisor.Ops El where
  zero := E.zero
  one := E.one
  add := E.add
  sub := E.sub
  mul := E.mul
  pow := E.pow
  div := fun a b => some (E.mul a (E.inv b))
  ofNat := fun v => E.ofBase (E.I.new (v % E.I.M))
  root := fun k => (rootRaw E.I k).map E.ofBase

/-! ## 2. The instantiation: base field, extensions, hasher, digest encoding -/

/-- what `verify::<AIR, H, DefaultRandomCoin<H>>` is instantiated with -/
structure Inst where
  name : String
  /-- `AIR::BaseField` -/
  I : FieldImpl
  /-- the canonical raw word of the residue of a raw word (`PartialEq for BaseElement` compares these) -/
  norm : Nat → Nat
  /-- the formulas of `ExtensibleField<2>` / `ExtensibleField<3>` of the base field -/
  X2 : Ext2 Nat
  X3 : Ext3 Nat
  /-- `CubeExtension::<B>::is_supported()` -/
  cubic : Bool
  /-- the Rescue Prime instance -/
  P : Rescue.Params
  /-- `Digest::as_bytes` (32 bytes) -/
  asBytes : Dg → List Nat
  /-- the serialized digest (canonical coordinates) -/
  digest : Serde.Codec (List Nat)
  /-- serialized length of a digest and its `size_of` -/
  digestBytes : Nat
  digestSize : Nat
  /-- `H::COLLISION_RESISTANCE` -/
  collisionResistance : Nat

/-- 64-bit field, `Rp64_256` -/
def Inst.rp64 : Inst where
  name := "f64/rp64_256"
  I := F64.impl
  norm := id
  X2 := Ext2.f64 (BOps.ofImpl F64.impl).toFOps
  X3 := Ext3.f64 (BOps.ofImpl F64.impl).toFOps
  cubic := true
  P := Rescue.rp64
  asBytes := Rescue.digestBytes64
  digest := Serde.elemDigest64
  digestBytes := 32
  digestSize := 32
  collisionResistance := 128

/-- 64-bit field, `RpJive64_256` -/
def Inst.rpjive : Inst := { Inst.rp64 with name := "f64/rpjive64_256", P := Rescue.rpjive }

/-- 62-bit field, `Rp62_248` -/
def Inst.rp62 : Inst where
  name := "f62/rp62_248"
  I := F62.impl
  norm := Gen.F62.normalize
  X2 := Ext2.f62 (BOps.ofImpl F62.impl).toFOps
  X3 := Ext3.f62 (BOps.ofImpl F62.impl).toFOps
  cubic := true
  P := Rescue.rp62
  asBytes := Rescue.digestBytes62
  digest := Serde.elemDigest62
  digestBytes := 31
  digestSize := 32
  collisionResistance := 124

/-- the element type selected by `FieldExtension` (discriminant 1, 2, 3) -/
def extOps (J : Inst) (ext : Nat) : Option EOps :=
  if ext = 1 then some (baseOps J.I J.norm) else if ext = 2 then some (quadOps J.I J.X2 J.norm)
  else if ext = 3 then some (cubeOps J.I J.X3 J.norm) else none

/-- the hasher as the public coin uses it (seed elements are canonical integers) -/
def hashOps (J : Inst) : Coin.HashOps Dg where
  hashElements := fun es => Rescue.hashElements J.P (es.map J.I.new)
  merge := Rescue.merge J.P
  mergeWithInt := Rescue.mergeWithInt J.P
  asBytes := J.asBytes

/-- the hasher as the Merkle code uses it (digests in canonical raw words: digest equality is element equality) -/
def merkleH (J : Inst) : Merkle.Hasher Dg :=
  ⟨fun a b => (Rescue.merge J.P a b).map J.norm, List.replicate 4 (J.norm (J.I.new 0))⟩

/-- `H::hash_elements(&[E])`: the coordinates of all elements, in order -/
def hashEls (J : Inst) (vs : List El) : Dg := (Rescue.hashElementsExt J.P vs).map J.norm

def fieldDesc (J : Inst) : Coin.FieldDesc := ⟨J.I.M, J.I.bytes⟩

/-- `DefaultRandomCoin<H>` drawing elements of `E` -/
def coinOps (J : Inst) (E : EOps) : VerifierChecks.CoinOps (Coin.Coin Dg) Dg El where
  new := Coin.new (hashOps J)
  reseed := Coin.reseed (hashOps J)
  draw := fun c =>
    match Coin.draw (hashOps J) (fieldDesc J) E.deg c with
    | (.elem cs, c') => some (cs.map (fun c => J.norm (J.I.new c)), c')
    | _ => none
  drawInts := fun c n dom nonce =>
    match Coin.drawIntegers (hashOps J) n dom nonce c with
    | (.ints vs, _) => some vs
    | _ => none
  leadingZeros := Coin.checkLeadingZeros (hashOps J)

/-! ## 3. The computation: description and the AIR instance the verifier builds from it -/

/-- the auxiliary segment of a description (`x= u= b=` of the text form, without Lagrange kernel column) -/
structure AuxDesc where
  /-- declared width and number of random elements (the verifier takes both from the PROOF's trace info) -/
  width : Nat
  numRands : Nat
  /-- transition constraints over main frame, auxiliary frame, periodic values and random elements -/
  cons : List Composition.Expr
  degs : List Protocol.Degree
  /-- assertions against auxiliary columns; the asserted value is an expression in the random elements and the
      public inputs (`w<i>`: public input `i + j` for the `j`-th value of a sequence) -/
  asserts : List (VerifierChecks.AssertDesc × Composition.Expr)
  /-- the last auxiliary column is a Lagrange kernel column (it is not part of the auxiliary evaluation frame: the
      constraints and assertions above see `width - 1` auxiliary cells) -/
  lagrange : Bool := false
  deriving Repr

/-- a description of the harness's AIR family: what `check_main` reads (`VerifierChecks.Air`), the declared
    constraint degrees, and the auxiliary segment if there is one -/
structure Desc where
  air : VerifierChecks.Air
  degs : List Protocol.Degree
  aux : Option AuxDesc := none
  deriving Repr

def Desc.auxCons (d : Desc) : List Composition.Expr := match d.aux with | some x => x.cons | none => []
def Desc.auxDegs (d : Desc) : List Protocol.Degree := match d.aux with | some x => x.degs | none => []
def Desc.auxAsserts (d : Desc) : List (VerifierChecks.AssertDesc × Composition.Expr) :=
  match d.aux with | some x => x.asserts | none => []
def Desc.auxWidth (d : Desc) : Nat := match d.aux with | some x => x.width | none => 0
def Desc.lagrange (d : Desc) : Bool := match d.aux with | some x => x.lagrange | none => false

/-- `base[.cycle]*` of a constraint `deg:expr` -/
def parseDegree (s : String) : Option Protocol.Degree :=
  match s.splitOn ":" with
  | d :: _ =>
    match (d.splitOn ".").mapM VerifierChecks.parseNat with
    | some (b :: cs) => some { base := b, cycles := cs }
    | _ => none
  | _ => none

/-- prefix expression parser for the full atom set of genair's `parse_expr` (`k c n p a b r v w + - * ^ ~`; the
    division of generation rules is not a constraint expression); fuel = remaining nesting depth -/
def parseExprX : Nat → List Char → Option (Composition.Expr × List Char)
  | 0, _ => none
  | _ + 1, [] => none
  | fuel + 1, c :: rest =>
    let idx (mk : Nat → Composition.Expr) : Option (Composition.Expr × List Char) :=
      match VerifierChecks.parseNum rest with
      | some (v, r) => if v > 100000 then none else some (mk v, r)
      | none => none
    let bin (mk : Composition.Expr → Composition.Expr → Composition.Expr) : Option (Composition.Expr × List Char) :=
      match parseExprX fuel rest with
      | some (x, r1) =>
        match parseExprX fuel r1 with
        | some (y, r2) => some (mk x y, r2)
        | none => none
      | none => none
    if c = 'k' then
      match VerifierChecks.parseNum rest with
      | some (v, r) => if v < VerifierChecks.u128Lim then some (.const v, r) else none
      | none => none
    else if c = 'c' then idx .cur
    else if c = 'n' then idx .nxt
    else if c = 'p' then idx .per
    else if c = 'a' then idx .acur
    else if c = 'b' then idx .anxt
    else if c = 'r' then idx .rand
    else if c = 'v' then idx .pub
    else if c = 'w' then idx .pubSeq
    else if c = '+' then bin .add
    else if c = '-' then bin .sub
    else if c = '*' then bin .mul
    else if c = '^' then
      match VerifierChecks.parseNum rest with
      | some (k, r) =>
        if k > 64 then none
        else
          match parseExprX fuel r with
          | some (x, r2) => some (.pow x k, r2)
          | none => none
      | none => none
    else if c = '~' then
      match parseExprX fuel rest with
      | some (x, r) => some (.neg x, r)
      | none => none
    else none

def parseExprXAll (s : String) : Option Composition.Expr :=
  match parseExprX 201 s.toList with
  | some (e, []) => some e
  | _ => none

/-- `<degree>:<expr>` of an auxiliary constraint -/
def parseAuxConstraint (s : String) : Option (Protocol.Degree × Composition.Expr) :=
  match s.splitOn ":" with
  | [_, e] =>
    match parseDegree s, parseExprXAll e with
    | some g, some x => some (g, x)
    | _, _ => none
  | _ => none

/-- `<assertion>=<expr>` of an auxiliary assertion -/
def parseAuxAssertion (s : String) : Option (VerifierChecks.AssertDesc × Composition.Expr) :=
  match s.splitOn "=" with
  | [a, e] =>
    match VerifierChecks.parseAssertion a, parseExprXAll e with
    | some a, some x => some (a, x)
    | _, _ => none
  | _ => none

/-- the `x= u= b=` fields of a description line: `none` = malformed, `some none` = no auxiliary segment -/
def parseAux (fields : List String) : Option (Option AuxDesc) :=
  let val (f : String) : String := "=".intercalate ((f.splitOn "=").drop 1)
  let xs := fields.filter (·.startsWith "x=")
  let us := fields.filter (·.startsWith "u=")
  let bs := fields.filter (·.startsWith "b=")
  match xs with
  | [] => if us.isEmpty && bs.isEmpty then some none else none
  | [x] =>
    match ((val x).splitOn ".").mapM VerifierChecks.parseNat with
    | some [w, r, l] =>
      if w = 0 then none
      else
        let cons := (us.map fun u => (VerifierChecks.nonEmpty ((val u).splitOn ",")).mapM parseAuxConstraint)
        let asserts := (bs.map fun b => (VerifierChecks.nonEmpty ((val b).splitOn ",")).mapM parseAuxAssertion)
        match cons, asserts with
        | [some cs], [some as] => some (some ⟨w, r, cs.map (·.2), cs.map (·.1), as, decide (l ≠ 0)⟩)
        | _, _ => none
    | _ => none
  | _ => none

/-- the text form of harness/src/genair.rs -/
def parseDesc (line : String) : Option Desc :=
  let fields := VerifierChecks.nonEmpty (line.splitOn ";")
  match VerifierChecks.parseAir line, parseAux fields with
  | some A, some aux =>
    let degs := fields.filterMap fun f =>
      if f.startsWith "t=" then some ((VerifierChecks.nonEmpty ((f.drop 2).toString.splitOn ",")).mapM parseDegree) else none
    match degs with
    | [some ds] => if ds.length = A.constraints.length then some ⟨A, ds, aux⟩ else none
    | _ => none
  | _, _ => none

/-- constraint expressions of the main segment as the composition model reads them -/
def convExpr : VerifierChecks.Expr → Composition.Expr
  | .const v => .const v
  | .cur i => .cur i
  | .nxt i => .nxt i
  | .per i => .per i
  | .add x y => .add (convExpr x) (convExpr y)
  | .sub x y => .sub (convExpr x) (convExpr y)
  | .mul x y => .mul (convExpr x) (convExpr y)
  | .pow k x => .pow (convExpr x) k
  | .neg x => .neg (convExpr x)

/-- every cell a main constraint reads exists in a frame of `width` columns and `nper` periodic values
    (`env.cur[i]` etc. of genair's `Expr::eval` panic otherwise) -/
def exprInRange (width nper : Nat) : VerifierChecks.Expr → Bool
  | .const _ => true
  | .cur i => decide (i < width)
  | .nxt i => decide (i < width)
  | .per i => decide (i < nper)
  | .add x y => exprInRange width nper x && exprInRange width nper y
  | .sub x y => exprInRange width nper x && exprInRange width nper y
  | .mul x y => exprInRange width nper x && exprInRange width nper y
  | .pow _ x => exprInRange width nper x
  | .neg x => exprInRange width nper x

/-- every slice index of `Expr::eval` on an environment with `width` main cells, `nper` periodic values, `aw`
    auxiliary cells and `nr` random elements is in range (public inputs are read with `get(i).unwrap_or(ZERO)`:
    never a panic) -/
def exprInRangeX (width nper aw nr : Nat) : Composition.Expr → Bool
  | .const _ => true
  | .cur i => decide (i < width)
  | .nxt i => decide (i < width)
  | .per i => decide (i < nper)
  | .acur i => decide (i < aw)
  | .anxt i => decide (i < aw)
  | .rand i => decide (i < nr)
  | .pub _ => true
  | .pubSeq _ => true
  | .add x y => exprInRangeX width nper aw nr x && exprInRangeX width nper aw nr y
  | .sub x y => exprInRangeX width nper aw nr x && exprInRangeX width nper aw nr y
  | .mul x y => exprInRangeX width nper aw nr x && exprInRangeX width nper aw nr y
  | .pow x _ => exprInRangeX width nper aw nr x
  | .neg x => exprInRangeX width nper aw nr x

/-- `B::from_word(v % MOD)` embedded into `E` -/
def embedInt (E : EOps) (v : Nat) : El := E.ofBase (E.I.new (v % E.I.M))

/-- the asserting constructors `Assertion::single / periodic / sequence` on the values of one assertion;
    `none` = a panic -/
def toLibAssertion (a : VerifierChecks.AssertDesc) (vals : List El) : Option (Divisor.Assertion El) :=
  match a.kind, vals with
  | .single, v :: _ => some (Divisor.single a.column a.first v)
  | .periodic, v :: _ =>
    (match Divisor.periodic a.column a.first a.stride v with
     | .ok x => some x
     | .panic _ => none)
  | .sequence, vs =>
    (match Divisor.sequence a.column a.first a.stride vs with
     | .ok x => some x
     | .panic _ => none)
  | _, [] => none

/-- `GenericAir::get_assertions`: the public values in assertion order (a missing value reads as zero, the
    number of values of a sequence comes from the DESCRIPTION's trace length), through the asserting
    constructors; `none` = one of them panics -/
def mkAssertions (E : EOps) (d : Desc) (pubs : List Nat) : Option (List (Divisor.Assertion El)) :=
  (List.range d.air.assertions.length).mapM fun k =>
    match d.air.assertions[k]? with
    | none => none
    | some a =>
      toLibAssertion a ((List.range (a.numValues d.air.n)).map fun i =>
        match pubs[d.air.pubOffset k + i]? with
        | some v => embedInt E v
        | none => E.zero)

/-- the environment in which `aux_assertions` evaluates an asserted value: no cells, the random elements, the
    public inputs (a missing one reads as zero), the index of the value within a sequence -/
def valueEnv (E : EOps) (pubs : List Nat) (rands : List El) (seq : Nat) : Composition.Env El :=
  ⟨fun _ => E.zero, fun _ => E.zero, fun _ => E.zero, fun _ => E.zero, fun _ => E.zero,
   fun i => match rands[i]? with | some r => r | none => E.zero,
   fun i => match pubs[i]? with | some v => embedInt E v | none => E.zero, seq⟩

/-- `GenericAir::get_aux_assertions(aux_rand_elements)` (`genair::aux_assertions`); `none` = a panic: a value
    expression that reads a cell (all cell slices are empty there) or a random element that was not drawn, or an
    asserting constructor -/
def mkAuxAssertions (E : EOps) (d : Desc) (pubs : List Nat) (rands : List El) : Option (List (Divisor.Assertion El)) :=
  d.auxAsserts.mapM fun av =>
    if !exprInRangeX 0 0 0 rands.length av.2 then none
    else toLibAssertion av.1 ((List.range (av.1.numValues d.air.n)).map fun j => av.2.eval E.div (valueEnv E pubs rands j))

/-- the instance `AIR::new(proof.trace_info(), pub_inputs, proof.options())` as `evaluate_constraints` sees it:
    trace shape from the proof's context, everything else from the description -/
def compAir (E : EOps) (d : Desc) (asserts auxAsserts : List (Divisor.Assertion El)) (ti : Serde.TraceInfo) :
    Composition.Air El where
  n := ti.length
  e := d.air.exemptions
  mainWidth := ti.main
  auxWidth := ti.aux
  periodic := d.air.periodic.map fun col => col.map (embedInt E)
  mainCons := d.air.constraints.map convExpr
  auxCons := d.auxCons
  mainDegs := d.degs.map fun g => ⟨g.base, g.cycles⟩
  auxDegs := d.auxDegs.map fun g => ⟨g.base, g.cycles⟩
  mainAsserts := asserts
  auxAsserts := auxAsserts

/-- width of the auxiliary evaluation frame: the auxiliary width of the proof's trace info, without the Lagrange
    kernel column (`OodFrame::parse`: `aux_trace_width - 1` when there is a Lagrange kernel frame) -/
def auxFrameWidth (d : Desc) (ti : Serde.TraceInfo) : Nat := if d.lagrange then ti.aux - 1 else ti.aux

/-- what `evaluate_constraints` computes before it touches the frame, or `none` where the real code panics:
    the assertions of `get_periodic_column_polys` (cycle length `>= 2`, a power of two, at most the trace
    length), an out-of-range index in a main or auxiliary constraint (`Expr::eval`), the value expressions of the
    auxiliary assertions, the asserting constructors and `prepare_assertions` of `BoundaryConstraints::new`
    (for both segments).  `rands` are the auxiliary random elements the verifier has drawn (`[]` for a
    single-segment trace). -/
def prepOf (E : EOps) (d : Desc) (pubs : List Nat) (ti : Serde.TraceInfo) (rands : List El) :
    Option (Composition.Air El × Composition.Prep El) :=
  if !d.air.periodic.all (fun p => decide (2 ≤ p.length) && Divisor.isPow2 p.length && decide (p.length ≤ ti.length)) then none
  else if !d.air.constraints.all (exprInRange ti.main d.air.periodic.length) then none
  else if !d.auxCons.all (exprInRangeX ti.main d.air.periodic.length (auxFrameWidth d ti) rands.length) then none
  -- `group.evaluate_at(aux_trace_frame.current(), x)` indexes the auxiliary frame by the assertion's column:
  -- `prepare_assertions` admits the Lagrange kernel column, the frame does not have it
  else if d.lagrange && !d.auxAsserts.all (fun av => decide (av.1.column < auxFrameWidth d ti)) then none
  else
    match mkAssertions E d pubs, mkAuxAssertions E d pubs rands with
    | some asserts, some auxAsserts =>
      let air := compAir E d asserts auxAsserts ti
      match Composition.prep E.div air with
      | none => none
      | some P => some (air, P)
    | _, _ => none

/-- `slice[i]` of a frame row (indices are validated by `prepOf`) -/
def cell (E : EOps) (row : List El) (i : Nat) : El :=
  match row[i]? with
  | some v => v
  | none => E.zero

/-- the OOD trace frame arrives in hashing order: current and next value of every column of the evaluation frames
    interleaved (main columns first, `frameWidth` columns in all), then the Lagrange kernel frame:
    (current row, next row, Lagrange kernel frame) -/
def splitOod (frameWidth : Nat) (oodTrace : List El) : List El × List El × List El :=
  let cn := Serde.deinterleave (oodTrace.take (2 * frameWidth))
  (cn.1, cn.2, oodTrace.drop (2 * frameWidth))

/-- the OOD evaluation frames of the two segments -/
def oodFrames (E : EOps) (mainWidth frameWidth : Nat) (oodTrace : List El) : Composition.Frames El :=
  let cn := splitOod frameWidth oodTrace
  ⟨cell E (cn.1.take mainWidth), cell E (cn.2.1.take mainWidth), cell E (cn.1.drop mainWidth), cell E (cn.2.1.drop mainWidth)⟩

/-- `LagrangeKernelTransitionConstraints::evaluate_and_combine(frame, rands, x)`: with `v = frame rows − 1`, for
    `k = 1 .. v` the numerator `coeff_(k−1) · (r_(v−k) · c_0 − (1 − r_(v−k)) · c_(v−k+1))` divided by its divisor
    `ConstraintDivisor::from_transition(2^(k−1), 0)` at `x`, i.e. `x^(2^(k−1)) − 1` (over an empty product of
    exemptions), summed; the numerators are zipped with the coefficients -/
def lagrangeTransition (E : EOps) (frame rands coeffs : List El) (x : El) : El :=
  let v := frame.length - 1
  let evals := (List.range v).map fun i =>
    let k := i + 1
    let r := cell E rands (v - k)
    E.sub (E.mul r (cell E frame 0)) (E.mul (E.sub E.one r) (cell E frame (v - k + 1)))
  ((evals.zip coeffs).zipIdx).foldl (fun acc eci =>
    let numerator := E.mul eci.1.2 eci.1.1
    let z := match Divisor.Divisor.evalAt E.div ⟨[(2 ^ eci.2, E.one)], []⟩ x with
      | some z => z
      | none => E.zero
    E.add acc (E.mul numerator (E.inv z))) E.zero

/-- `LagrangeKernelBoundaryConstraint::evaluate_at(x, frame)`: `(c_0 − Π (1 − r_i)) · coeff / (x − 1)` -/
def lagrangeBoundary (E : EOps) (frame rands : List El) (coeff x : El) : El :=
  let assertionValue := rands.foldl (fun av r => E.mul av (E.sub E.one r)) E.one
  E.mul (E.mul (E.sub (cell E frame 0) assertionValue) coeff) (E.inv (E.sub x E.one))

/-- `evaluate_constraints(air, coefficients, OOD main frame, OOD aux frame, Lagrange kernel frame, aux rands, z)`:
    transition constraints and boundary groups of both segments (composition model), then, for an AIR with a
    Lagrange kernel column, the Lagrange kernel transition constraints and boundary constraint with the coefficients
    that follow the boundary coefficients (`log2 n` of them, then one) -/
def evalConstraints (E : EOps) (d : Desc) (pubs : List Nat) (ti : Serde.TraceInfo) (rands lagRands coeffs oodTrace : List El)
    (z : El) : El :=
  match prepOf E d pubs ti rands with
  | none => E.zero
  | some (air, P) =>
    let nT := d.air.constraints.length + d.auxCons.length
    let nA := d.air.assertions.length + d.auxAsserts.length
    let fw := ti.main + auxFrameWidth d ti
    let base := match Composition.evaluateConstraints E.div air P (oodFrames E ti.main fw oodTrace) (cell E rands)
        (coeffs.take nT) ((coeffs.drop nT).take nA) z with
      | some v => v
      | none => E.zero
    if d.lagrange then
      let frame := (splitOod fw oodTrace).2.2
      let lc := coeffs.drop (nT + nA)
      let nL := Nat.log2 ti.length
      E.add (E.add base (lagrangeTransition E frame lagRands (lc.take nL) z))
        (lagrangeBoundary E frame lagRands (cell E lc nL) z)
    else base

/-- `Σ_i z^((i·n) as u32) · value_i` (verifier/src/lib.rs; the exponent is cast to `u32`) -/
def combineOod (E : EOps) (n : Nat) (z : El) (vals : List El) : El :=
  vals.zipIdx.foldl (fun acc p => E.add acc (E.mul (E.pow z ((p.2 * n) % 4294967296)) p.1)) E.zero

/-! ## 4. The DEEP composer (verifier/src/composer.rs) -/

/-- `E::from(value)` for a cell of the main segment (a base-field element, parsed as a one-coordinate list) -/
def embedCell (E : EOps) (v : El) : El :=
  match v with
  | [c] => E.ofBase c
  | _ => v

/-- `DeepComposer::new`: the x coordinates `g_lde^p · domain_offset` of the query positions -/
def xCoordinates (E : EOps) (lde : Nat) (positions : List Nat) : List El :=
  match rootRaw E.I (Nat.log2 lde) with
  | none => []
  | some g => positions.map fun p => E.ofBase (E.I.mul (E.I.exp g p) (E.I.new E.I.generator))

/-- `Σ_i (value_i − ood_i) · cc_i` -/
def linComb (E : EOps) (vals oods ccs : List El) : El :=
  ((vals.zip oods).zip ccs).foldl (fun acc t => E.add acc (E.mul (E.sub t.1.1 t.1.2) t.2)) E.zero

/-- the numerator `t1_num · t2_den + t2_num · t1_den` one segment contributes to a query -/
def segmentNum (E : EOps) (x z0 z1 : El) (vals oodCur oodNxt ccs : List El) : El :=
  let t1num := linComb E vals oodCur ccs
  let t2num := linComb E vals oodNxt ccs
  E.add (E.mul t1num (E.sub x z1)) (E.mul t2num (E.sub x z0))

/-- the Lagrange kernel term of `compose_trace_columns`, per query: with the opening points
    `xs = [z, z·g, z·g², z·g⁴, …]` (as many as the Lagrange frame has rows) and the frame as values,
    `(T_l(x) − p_S(x)) · cc_lagrange / Z_S'(x)` where `p_S` interpolates the frame over `xs` (`polynom::interpolate`,
    here evaluated by Lagrange's formula: the same value whenever the points are distinct, i.e. `z ≠ 0`) and
    `Z_S'` vanishes on `xs[2..]`; `T_l(x)` is the last cell of the queried auxiliary row -/
def lagrangeNums (E : EOps) (xs : List El) (z : El) (gTrace : Nat) (lagCol : Nat) (cc : El) (frame : List El)
    (auxRows : List (List El)) : List El :=
  let F := E.fri
  let gexps := (List.range (frame.length - 1)).map fun i => E.ofBase (E.I.exp gTrace (2 ^ i))
  let pts := z :: gexps.map fun g => E.mul z g
  (auxRows.zip xs).map fun rx =>
    let value := cell E rx.1 lagCol
    let num := E.mul (E.sub value (Fri.lagrangeEval F pts frame rx.2)) cc
    let den := (pts.drop 2).foldl (fun acc p => E.mul acc (E.sub rx.2 p)) E.one
    E.mul num (E.inv den)

/-- `compose_trace_columns`: per query the numerator of the main segment, plus (for a multi-segment trace) the
    numerator of the auxiliary segment with the coefficients and OOD values that follow the main ones (the
    auxiliary OOD frame does not contain a Lagrange kernel column, so that column of the queried row is left out),
    plus the Lagrange kernel term, over the
    common denominator `(x − z)(x − z·g)` (batch inversion = inversion entry by entry, zero mapped to zero) -/
def composeTrace (E : EOps) (xs : List El) (z0 z1 : El) (mainWidth : Nat) (ccTrace : List El)
    (mainRows : List (List El)) (auxRows : Option (List (List El))) (oodCur oodNxt : List El) (lagNums : List El) : List El :=
  let auxNums : List El := match auxRows with
    | none => []
    | some rows => (rows.zip xs).map fun rx =>
        segmentNum E rx.2 z0 z1 rx.1 (oodCur.drop mainWidth) (oodNxt.drop mainWidth) (ccTrace.drop mainWidth)
  ((mainRows.zip xs).zipIdx).map fun rxj =>
    let x := rxj.1.2
    let num := segmentNum E x z0 z1 (rxj.1.1.map (embedCell E)) oodCur oodNxt ccTrace
    let num := match auxNums[rxj.2]? with
      | some a => E.add num a
      | none => num
    let num := match lagNums[rxj.2]? with
      | some l => E.add num l
      | none => num
    E.mul num (E.inv (E.mul (E.sub x z0) (E.sub x z1)))

/-- `compose_constraint_evaluations`: per query `Σ_i (H_i(x) − H_i(z)) · cc_i / (x − z)` -/
def composeConstraints (E : EOps) (xs : List El) (z0 : El) (ccCons : List El) (rows : List (List El))
    (oodEvals : List El) : List El :=
  (rows.zip xs).map fun rx => E.mul (linComb E rx.1 oodEvals ccCons) (E.inv (E.sub rx.2 z0))

/-- `DeepComposer::new`, `compose_trace_columns`, `compose_constraint_evaluations`, `combine_compositions`;
    `width` = main + auxiliary width (the number of trace coefficients), `frameWidth` the number of columns of the OOD
    evaluation frames, `lag = some ncols` for an AIR with a Lagrange kernel column (`ncols` constraint composition
    columns: the Lagrange coefficient follows the `width + ncols` others) -/
def deepCompose (E : EOps) (n lde mainWidth width frameWidth : Nat) (lag : Option Nat) (positions : List Nat) (z : El)
    (deep : List El) (traceRows : List (List (List El))) (constraintRows : List (List El)) (oodTrace oodEvals : List El) :
    List El :=
  let xs := xCoordinates E lde positions
  let gTrace := match rootRaw E.I (Nat.log2 n) with
    | some g => g
    | none => E.I.new 0
  let z1 := E.mul z (E.ofBase gTrace)
  let cn := splitOod frameWidth oodTrace
  let mainRows := match traceRows with
    | r :: _ => r
    | [] => []
  let lagNums := match lag, traceRows[1]? with
    | some ncols, some auxRows =>
      lagrangeNums E xs z gTrace (width - mainWidth - 1) (cell E deep (width + ncols)) cn.2.2 auxRows
    | _, _ => []
  let t := composeTrace E xs z z1 mainWidth (deep.take width) mainRows traceRows[1]? cn.1 cn.2.1 lagNums
  let c := composeConstraints E xs z (deep.drop width) constraintRows oodEvals
  List.zipWith E.add t c

/-! ## 5. The instantiation of the verifier's decision function -/

/-- `AcceptableOptions` (the proven-security variant uses floating point and is not modelled) -/
inductive Acceptable where
  | minConjectured (bits : Nat)
  | optionSet (opts : List Serde.ProofOptions)
  deriving Repr

/-- what the byte-level front end needs to know about the instantiation and the computation -/
def frontAir (J : Inst) (d : Desc) : Parse.Air where
  F := J.I
  cubic := J.cubic
  digestBytes := J.digestBytes
  digestSize := J.digestSize
  exemptions := d.air.exemptions
  mainDegs := d.degs
  auxDegs := d.auxDegs
  nMainAssert := d.air.assertions.length
  nAuxAssert := d.auxAsserts.length
  descAuxWidth := d.auxWidth
  lagrange := d.lagrange

/-- `proof.security_level::<H>(true)`; `none` = an arithmetic panic -/
def securityLevel (J : Inst) (d : Desc) (ctx : Serde.Context) : Option Nat :=
  (Parse.conjecturedSecurity ctx.options (frontAir J d).fieldBits ctx.traceInfo.length).map fun s =>
    min s J.collisionResistance

/-- `acceptable_options.validate::<H>(&proof)` succeeds (a panicking security estimate counts as refused here;
    `refVerify` reports it as a panic before it gets here) -/
def policyOk (J : Inst) (d : Desc) (acc : Acceptable) (ctx : Serde.Context) : Bool :=
  match acc with
  | .minConjectured m =>
    (match securityLevel J d ctx with
     | some s => decide (m ≤ s)
     | none => false)
  | .optionSet l => l.contains ctx.options

/-- `FriOptions` of a parsed option set (`ProofOptions::read_from` only returns folding factors 2, 4, 8, 16) -/
def friOpts (o : Serde.ProofOptions) : Fri.Opts :=
  match Fri.Opts.new? o.blowup o.folding o.remDeg with
  | some x => x
  | none => ⟨o.blowup, 2, o.remDeg, Or.inl rfl⟩

/-- number of columns of the constraint composition polynomial of the instance (`0` when the AIR constructor
    panics: `refVerify` never gets that far) -/
def numCols (J : Inst) (d : Desc) (ctx : Serde.Context) : Nat :=
  match Parse.airNew (frontAir J d) ctx.traceInfo ctx.options with
  | some k => k
  | none => 0

/-- value at `alpha` of the row polynomial of one opened FRI row (`interpolate_batch` + `eval`, Lagrange form):
    the row's points are `g_layer^pos · offset · ω_N^j` with `ω_N` taken from the initial domain -/
def foldRow (E : EOps) (lde N : Nat) (dom pos : Nat) (row : List El) (alpha : El) : El :=
  let F := E.fri
  let g0 := F.root (Nat.log2 lde)
  let foldingRoots := (List.range N).map fun i => Fri.pow F g0 (lde / N * i)
  Fri.lagrangeEval F (Fri.rowPoints F foldingRoots (F.root (Nat.log2 dom)) pos) row alpha

/-- `eval_horner(remainder, offset · g_last^position)` -/
def evalRemainder (E : EOps) (rem : List El) (dom pos : Nat) : El :=
  let F := E.fri
  Fri.horner F rem (F.mul F.offset (Fri.pow F (F.root (Nat.log2 dom)) pos))

/-- the GKR "proof" of the family's dummy Lagrange kernel set-up (`GenGkrVerifier::GkrProof = usize`):
    `usize::read_from` on the serialized GKR proof, which must be consumed entirely (lib.rs: `UnconsumedBytes`);
    `none` = `ProofDeserializationError` -/
def decodeGkr (g : Serde.Bytes) : Option Nat :=
  match Serde.runAll Serde.readUsize g with
  | .ok k => some k
  | _ => none

/-- `GenGkrVerifier::verify(gkr_proof, public_coin)` of harness/src/genair.rs (THE FAMILY'S GKR verifier: more than
    64 is an error, otherwise that many Lagrange random elements are drawn from the coin) followed by the check of
    lib.rs that there are exactly `log2(trace length)` of them; `none` = `GkrProofVerificationFailed` (a GKR
    proof that does not decode is reported as `ProofDeserializationError` by `refVerifyProof` before this runs) -/
def gkrVerify (K : VerifierChecks.CoinOps (Coin.Coin Dg) Dg El) (logLen : Nat) (g : Serde.Bytes) (c : Coin.Coin Dg) :
    Option (List El × Coin.Coin Dg) :=
  match decodeGkr g with
  | none => none
  | some k =>
    if k > 64 then none
    else
      match VerifierChecks.drawMany K k c with
      | none => none
      | some (lag, c') => if lag.length = logLen then some (lag, c') else none

/-- the AIR instance of a proof context: the number of auxiliary random elements, the widths and the trace length
    come from the PROOF's trace info, the numbers of constraints and assertions from the description -/
def airInst (J : Inst) (E : EOps) (d : Desc) (pubs : List Nat) (ctx : Serde.Context) :
    VerifierChecks.AirInst (Coin.Coin Dg) Dg El :=
  let ti := ctx.traceInfo
  let o := ctx.options
  let lde := ti.length * o.blowup
  { extSupported := true
    multiSegment := decide (ti.aux > 0)
    lagrange := d.lagrange
    numAuxRands := ti.rands
    -- transition, boundary, then (Lagrange kernel column) `log2 n` transition coefficients and one boundary coefficient
    numCoeffs := d.air.constraints.length + d.auxCons.length + (d.air.assertions.length + d.auxAsserts.length)
      + (if d.lagrange then Nat.log2 ti.length + 1 else 0)
    -- one per trace column, one per constraint composition column, then (Lagrange kernel column) one more
    numDeepCoeffs := ti.main + ti.aux + numCols J d ctx + (if d.lagrange then 1 else 0)
    ldeSize := lde
    numQueries := o.numQueries
    grinding := o.grinding
    fri := friOpts o
    tracePolyDegree := ti.length - 1
    gkrVerify := gkrVerify (coinOps J E) (Nat.log2 ti.length)
    evalConstraints := fun coeffs auxRands lagRands oodTrace z => evalConstraints E d pubs ti auxRands lagRands coeffs oodTrace z
    combineOod := combineOod E ti.length
    deepCompose := deepCompose E ti.length lde ti.main (ti.main + ti.aux) (ti.main + auxFrameWidth d ti)
      (if d.lagrange then some (numCols J d ctx) else none)
    foldRow := fun _ dom pos row alpha => foldRow E lde o.folding dom pos row alpha
    evalRemainder := evalRemainder E }

/-- **the concrete verifier**: `VerifierChecks.Verifier` for the instantiation `J`, the computation `d` with public
    inputs `pubs`, the acceptance policy `acc` and elements `E` -/
def mkVerifier (J : Inst) (E : EOps) (d : Desc) (pubs : List Nat) (acc : Acceptable) :
    VerifierChecks.Verifier (Coin.Coin Dg) Dg El where
  coin := coinOps J E
  merkle := merkleH J
  hashElems := hashEls J
  modulus := (frontAir J d).modulusBytes
  elemBytes := J.I.bytes
  pubElems := pubs.map (· % J.I.M)
  acceptable := fun ctx =>
    policyOk J d acc ctx && decide (ctx.options.numQueries < ctx.traceInfo.length * ctx.options.blowup)
  air := airInst J E d pubs
  commitCheck := true

/-! ## 6. From the parsed byte blocks to the verifier's inputs -/

/-- parameters of `VerifierChannel::new` for a context whose AIR asks for `ncols` composition columns -/
def chanCfg (J : Inst) (d : Desc) (ctx : Serde.Context) (ncols : Nat) : VerifierChecks.ChanCfg :=
  let ti := ctx.traceInfo
  let o := ctx.options
  let lde := ti.length * o.blowup
  { F := J.I, ext := o.fieldExt, digest := J.digest, numSegments := ti.numSegments,
    mainWidth := ti.main, auxWidth := ti.aux, constraintWidth := ncols,
    ldeLog := Nat.log2 lde,
    numFriLayers := (Protocol.friLayers lde ((o.remDeg + 1) * o.blowup) o.folding).1,
    folding := o.folding, lagrangeLog := if d.lagrange then some (Nat.log2 ti.length) else none }

/-- canonical coordinates (as the readers deliver them) to canonical raw words -/
def rawEl (J : Inst) (cs : List Nat) : El := cs.map fun c => J.norm (J.I.new c)
def rawDg (J : Inst) (cs : List Nat) : Dg := cs.map fun c => J.norm (J.I.new c)

def rawOpening (J : Inst) (o : VerifierChecks.ParsedOpening) : VerifierChecks.Opening El Dg :=
  ⟨o.rows.map (·.map (rawEl J)), o.nodes.map (·.map (rawDg J))⟩

/-- what `perform_verification` reads before the query positions are drawn -/
def committedOf (J : Inst) (c : VerifierChecks.ParsedChannel) : VerifierChecks.Committed El Dg where
  traceRoots := c.traceRoots.map (rawDg J)
  constraintRoot := rawDg J c.constraintRoot
  oodTrace := Serde.interleave (c.oodCurrent.map (rawEl J)) (c.oodNext.map (rawEl J)) ++
    (match c.oodLagrange with
     | some l => l.map (rawEl J)
     | none => [])
  oodEvals := c.oodEvals.map (rawEl J)
  friRoots := c.friRoots.map (rawDg J)
  powNonce := c.powNonce
  gkr := c.gkr

/-- what it reads afterwards -/
def openedOf (J : Inst) (c : VerifierChecks.ParsedChannel) : VerifierChecks.Opened El Dg where
  traceOpenings := c.traceOpenings.map (rawOpening J)
  constraintOpening := rawOpening J c.constraintOpening
  friLayers := c.friLayers.map (rawOpening J)
  remainder := c.remainder.map (rawEl J)
  numPartitions := c.numPartitions

/-- the random elements `perform_verification` obtains for a multi-segment trace, in the order of the code: the coin
    seeded with context and public inputs, reseeded with the main trace commitment; for an AIR with a Lagrange
    kernel column FIRST the GKR verifier (it draws the Lagrange random elements), THEN
    `trace_info.num_aux_segment_rands` draws for the auxiliary random elements: (auxiliary, Lagrange) random elements
    (`([], [])` for a single-segment trace; `none` = the phase ends in an error or a panic - no GKR proof, the GKR
    verifier refuses, a draw fails -, which the decision function itself reports) -/
def auxRandsOf (J : Inst) (E : EOps) (d : Desc) (pubs : List Nat) (acc : Acceptable) (ctx : Serde.Context)
    (c : VerifierChecks.ParsedChannel) : Option (List El × List El) :=
  let W := mkVerifier J E d pubs acc
  let cm := committedOf J c
  match cm.traceRoots with
  | [] => none
  | r0 :: rest =>
    match VerifierChecks.auxPhase W.coin (W.air ctx) cm
        (W.coin.reseed (W.coin.new (VerifierChecks.coinSeed W.elemBytes ctx W.pubElems)) r0) r0 rest with
    | .ok (ar, lr, _, _) => some (ar, lr)
    | .error _ => none

/-! ## 7. The reference verifier -/

/-- verdict classes of `Proof::from_bytes` followed by `verify` -/
inductive Verdict where
  | ok
  /-- `Proof::from_bytes` returned an error -/
  | parseErr
  /-- `InsufficientConjecturedSecurity` -/
  | insufficientSecurity
  /-- the other `VerifierError` kinds; `VErr.panic` = the real code panics -/
  | err (e : VerifierChecks.VErr)
  deriving Repr, DecidableEq

def Verdict.ofExcept : Except VerifierChecks.VErr Unit → Verdict
  | .ok _ => .ok
  | .error e => .err e

/-- `acceptable_options.validate`, as a verdict: `none` = accepted -/
def policyVerdict (J : Inst) (d : Desc) (acc : Acceptable) (ctx : Serde.Context) : Option Verdict :=
  match acc with
  | .minConjectured m =>
    (match securityLevel J d ctx with
     | none => some (.err (.panic "security_level"))
     | some s => if s < m then some .insufficientSecurity else none)
  | .optionSet l => if l.contains ctx.options then none else some (.err .unacceptableOptions)

/-- the computation fits the trace shape of the proof: `evaluate_constraints` gets past the AIR's callbacks and
    `BoundaryConstraints::new` with the auxiliary random elements the verifier draws (when these cannot be drawn
    the decision function reports the panic of `get_aux_rand_elements`) -/
def shapeOk (J : Inst) (E : EOps) (d : Desc) (pubs : List Nat) (acc : Acceptable) (ctx : Serde.Context)
    (c : VerifierChecks.ParsedChannel) : Bool :=
  match auxRandsOf J E d pubs acc ctx c with
  | none => true
  | some rands => (prepOf E d pubs ctx.traceInfo rands.1).isSome

/-- there is a serialized GKR proof and `usize::read_from` does not consume exactly its bytes -/
def gkrUndecodable (g : Option Serde.Bytes) : Bool :=
  match g with
  | some b => (decodeGkr b).isNone
  | none => false

/-- `verify::<GenericAir, H, DefaultRandomCoin<H>>(proof, pub_inputs, acceptable)` on a parsed proof, step by step:
    base-field check, acceptance policy, query-count check, AIR constructor, extension support and
    `VerifierChannel::new` (outcome: `Parse.verifyFront`; parsed values: `VerifierChecks.channelParse`), the
    part of `evaluate_constraints` that can panic on a trace shape the description does not fit, then
    `perform_verification` = `VerifierChecks.verify` at `mkVerifier` -/
def refVerifyProof (J : Inst) (d : Desc) (pubs : List Nat) (acc : Acceptable) (p : Serde.Proof) : Verdict :=
  let ctx := p.context
  let A := frontAir J d
  if ctx.modulus ≠ A.modulusBytes then .err .inconsistentBaseField
  else
    match policyVerdict J d acc ctx with
    | some v => v
    | none =>
      match (Parse.verifyFront A p).1 with
      | .field => .err .inconsistentBaseField
      | .opts => .err .unacceptableOptions
      | .airnew => .err (.panic "AIR::new")
      | .ext => .err .unsupportedExtension
      | .err => .err .deserialization
      | .panic => .err (.panic "verify front end")
      | .pass =>
        match Parse.airNew A ctx.traceInfo ctx.options, extOps J ctx.options.fieldExt with
        | some ncols, some E =>
          match VerifierChecks.channelParse (chanCfg J d ctx ncols) p with
          | .panic => .err (.panic "VerifierChannel::new")
          | .err _ => .err .deserialization
          | .ok c =>
            -- the first thing `perform_verification` can fail on: the serialized GKR proof of a multi-segment
            -- trace with a Lagrange kernel column does not decode / has bytes left over
            if d.lagrange && decide (ctx.traceInfo.aux > 0) && gkrUndecodable c.gkr then .err .deserialization
            else if !shapeOk J E d pubs acc ctx c then .err (.panic "evaluate_constraints")
            else Verdict.ofExcept (VerifierChecks.verify (mkVerifier J E d pubs acc) ctx (some (committedOf J c, openedOf J c)))
        | _, _ => .err (.panic "AIR::new")

/-- **the reference verifier**: `Proof::from_bytes(bytes)` then `verify` -/
def refVerify (J : Inst) (d : Desc) (pubs : List Nat) (acc : Acceptable) (bytes : List Nat) : Verdict :=
  match (Parse.parseProof bytes).1 with
  | .ok p => refVerifyProof J d pubs acc p
  | .err => .parseErr
  | .eof => .parseErr
  | .panic => .err (.panic "Proof::from_bytes")

/-! ## 8. Canonical text of a verdict (the `refv` op of the C03 / C06 drivers) -/

def friErr (s : String) : String := "err:FriVerificationFailed." ++ s

def Verdict.text : Verdict → String
  | .ok => "ok"
  | .parseErr => "parse-err"
  | .insufficientSecurity => "err:InsufficientConjecturedSecurity"
  | .err e =>
    match e with
    | .inconsistentBaseField => "err:InconsistentBaseField"
    | .unacceptableOptions => "err:UnacceptableProofOptions"
    | .unsupportedExtension => "err:UnsupportedFieldExtension"
    | .deserialization => "err:ProofDeserializationError"
    | .gkrFailed => "err:GkrProofVerificationFailed"
    | .randomCoin => "err:RandomCoinError"
    | .inconsistentOod => "err:InconsistentOodConstraintEvaluations"
    | .degreeTruncation k => friErr s!"DegreeTruncation:{k}"
    | .proofOfWork => "err:QuerySeedProofOfWorkVerificationFailed"
    | .traceQuery => "err:TraceQueryDoesNotMatchCommitment"
    | .constraintQuery => "err:ConstraintQueryDoesNotMatchCommitment"
    | .numPositionEvaluationMismatch => friErr "NumPositionEvaluationMismatch"
    | .layerCommitmentMismatch _ => friErr "LayerCommitmentMismatch"
    | .invalidLayerFolding k => friErr s!"InvalidLayerFolding:{k}"
    | .remainderCommitmentMismatch => friErr "RemainderCommitmentMismatch"
    | .remainderDegreeMismatch => friErr "RemainderDegreeMismatch"
    | .invalidRemainderFolding => friErr "InvalidRemainderFolding"
    | .panic _ => "panic"

/-- the instantiation of a `<field> <hasher>` pair of an op line -/
def instOf (field hasher : String) : Option Inst :=
  if field = "f64" ∧ hasher = "rp64_256" then some Inst.rp64
  else if field = "f64" ∧ hasher = "rpjive64_256" then some Inst.rpjive
  else if field = "f62" ∧ hasher = "rp62_248" then some Inst.rp62
  else none

/-- `q.b.g.x.f.r` -/
def optsOf (s : String) : Option Serde.ProofOptions :=
  match (s.splitOn ".").mapM VerifierChecks.parseNat with
  | some [q, b, g, x, f, r] => some ⟨q, b, g, x, f, r⟩
  | _ => none

/-- `os:<q.b.g.x.f.r>[,..]` (OptionSet) | `mc:<bits>` (MinConjecturedSecurity) -/
def acceptableOf (s : String) : Option Acceptable :=
  if s.startsWith "os:" then ((((s.drop 3).toString).splitOn ",").mapM optsOf).map .optionSet
  else if s.startsWith "mc:" then (VerifierChecks.parseNat ((s.drop 3).toString)).map .minConjectured
  else none

/-- `-` | comma separated integers -/
def pubsOf (s : String) : Option (List Nat) :=
  if s = "-" then some [] else (s.splitOn ",").mapM VerifierChecks.parseNat

/-- the `refv` op line of the C03 and C06 drivers:
    `refv <field> <hasher> <q.b.g.x.f.r> <seed> <AirDesc line> <acceptable> <public inputs> <tag> <proof bytes hex>`;
    `bytes` = the decoded last token (`none`: not hexadecimal).  `-` = not modelled (another hasher / field, a
    description with a Lagrange kernel column or one the parser does not accept) -/
def refvLine (field hasher desc acc pubs : String) (bytes : Option (List Nat)) : String :=
  match instOf field hasher with
  | none => "-"
  | some J =>
    match parseDesc desc with
    | none => "-"
    | some d =>
      match acceptableOf acc, pubsOf pubs, bytes with
      | some a, some ps, some bs => (refVerify J d ps a bs).text
      | _, _, _ => "bad-op"

end Model.RefVerifier
