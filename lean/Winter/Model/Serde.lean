-- Hand-written executable model of winter-utils' serialization layer (utils/core/src/serde) and of the
-- serializable types of the proof format (air/src/proof, air/src/options.rs, air/src/air/trace_info.rs,
-- fri/src/proof.rs, crypto digests, field elements), over byte lists.
--
-- Conventions
-- * a byte string is a `List Nat` (`Bytes`); the reader is the `SliceReader` semantics: a decoder takes the
--   unread bytes and returns an outcome `Res` together with the bytes it left unread;
-- * every way a decoder can end is explicit: `ok`, `err` (InvalidValue / UnconsumedBytes / UnknownError),
--   `eof` (UnexpectedEOF), `panic` (an `assert!`, an arithmetic overflow of the debug build, a constructor
--   that refuses its arguments);
-- * writers are total functions to bytes; narrowing casts (`len as u8/u16/u32`) are truncations (`leBytes`
--   keeps the low bytes); writers that assert are described by `wpanic`;
-- * `wf` is the acceptance predicate of the public constructor(s) of the type (what can exist as a value);
-- * usize is 64 bits wide (the platform the harness runs on).
import Winter.Model.Field
import Winter.Gen.Limits

namespace Model.Serde
open Model

abbrev Bytes := List Nat

/-- outcome of reading -/
inductive Res (α : Type) where
  | ok (a : α)
  | err
  | eof
  | panic
  deriving Repr, DecidableEq

/-- a decoder over the unread bytes of a `SliceReader` -/
def Dec (α : Type) := Bytes → Res (α × Bytes)

namespace Dec
def pure (a : α) : Dec α := fun bs => .ok (a, bs)
def bind (d : Dec α) (f : α → Dec β) : Dec β := fun bs =>
  match d bs with
  | .ok (a, r) => f a r
  | .err => .err
  | .eof => .eof
  | .panic => .panic
def fail : Dec α := fun _ => .err
def panic : Dec α := fun _ => .panic
instance : Monad Dec where
  pure := Dec.pure
  bind := Dec.bind
end Dec

-- ------------------------------------------------------------------------------------------------
-- ByteReader (SliceReader)

def readU8 : Dec Nat
  | [] => .eof
  | b :: r => .ok (b, r)

def peekU8 : Dec Nat
  | [] => .eof
  | b :: r => .ok (b, b :: r)

/-- the first `n` bytes and the rest, `none` when there are fewer than `n`
    (`= if bs.length < n then none else some (acc.reverse ++ bs.take n, bs.drop n)`, lemma `splitAcc_eq`) -/
def splitAcc : Nat → Bytes → Bytes → Option (Bytes × Bytes)
  | 0, bs, acc => some (acc.reverse, bs)
  | _ + 1, [], _ => none
  | n + 1, b :: bs, acc => splitAcc n bs (b :: acc)

/-- `read_slice(n)` / `read_array::<N>()` / `read_vec(n)`: `check_eor` first -/
def readSlice (n : Nat) : Dec Bytes := fun bs =>
  match splitAcc n bs [] with
  | some (a, r) => .ok (a, r)
  | none => .eof

/-- `read_u16/u32/u64/u128`: `n` little-endian bytes -/
def readUInt (n : Nat) : Dec Nat := do
  let s ← readSlice n
  pure (ofLeBytes s)

def readBool : Dec Bool := do
  let b ← readU8
  if b = 0 then pure false else if b = 1 then pure true else Dec.fail

/-- `u8::trailing_zeros` by repeated halving (8 for 0) -/
def tz : Nat → Nat → Nat
  | 0, _ => 0
  | k + 1, b => if b % 2 = 1 then 0 else 1 + tz k (b / 2)

def trailingZeros8 (b : Nat) : Nat := tz 8 b

/-- number of significant bits (`64 - leading_zeros`) -/
def bitLen (v : Nat) : Nat := if v = 0 then 0 else v.log2 + 1

/-- `encoded_len` of byte_writer.rs: `zeros.saturating_sub(1) / 7`, `9 - min(len, 8)` -/
def encodedLen (v : Nat) : Nat :=
  let zeros := 64 - bitLen v
  let len := (zeros - 1) / 7
  9 - min len 8

/-- `write_usize` (vint64); the value is first cast to u64 -/
def writeUsize (v : Nat) : Bytes :=
  let v := v % 18446744073709551616
  let length := encodedLen v
  if length = 9 then 0 :: leBytes 8 v
  else
    let x := ((v * 2 % 18446744073709551616) ||| 1) <<< (length - 1) % 18446744073709551616
    (leBytes 8 x).take length

/-- `read_usize`: the length is the number of trailing zeros of the first byte plus one -/
def readUsize : Dec Nat := do
  let first ← peekU8
  let length := trailingZeros8 first + 1
  if length = 9 then do
    let _ ← readU8
    let v ← readUInt 8
    pure v
  else do
    let s ← readSlice length
    -- copied into a zeroed [u8; 8], read as u64, shifted right by `length`
    pure (ofLeBytes s >>> length)

/-- `read_many(n)` -/
def readMany (d : Dec α) : Nat → Dec (List α)
  | 0 => pure []
  | n + 1 => do
    let x ← d
    let xs ← readMany d n
    pure (x :: xs)

-- ------------------------------------------------------------------------------------------------
-- codecs

/-- encoder, decoder, the constructor's acceptance predicate and the writer's assertion of one type -/
structure Codec (α : Type) where
  enc : α → Bytes
  dec : Dec α
  wf : α → Bool
  wpanic : α → Bool := fun _ => false

/-- the round-trip property: equal value, exactly the written bytes consumed, whatever follows -/
def Codec.RT (c : Codec α) : Prop :=
  ∀ x rest, c.wf x = true → c.wpanic x = false ∧ c.dec (c.enc x ++ rest) = .ok (x, rest)

def pow2 (n : Nat) : Bool := n != 0 && n == 2 ^ n.log2

/-- u8 / u16 / u32 / u64 / u128: `n` little-endian bytes -/
def uint (n : Nat) : Codec Nat where
  enc v := leBytes n v
  dec := readUInt n
  wf v := v < 256 ^ n

def usize : Codec Nat where
  enc := writeUsize
  dec := readUsize
  wf v := v < 18446744073709551616

def bool : Codec Bool where
  enc b := [if b then 1 else 0]
  dec := readBool
  wf _ := true

def unit : Codec Unit where
  enc _ := []
  dec := pure ()
  wf _ := true

def option (c : Codec α) : Codec (Option α) where
  enc
    | none => [0]
    | some x => 1 :: c.enc x
  dec := do
    let b ← readBool
    if b then do
      let x ← c.dec
      pure (some x)
    else pure none
  wf
    | none => true
    | some x => c.wf x
  wpanic
    | none => false
    | some x => c.wpanic x

def pair (a : Codec α) (b : Codec β) : Codec (α × β) where
  enc p := a.enc p.1 ++ b.enc p.2
  dec := do
    let x ← a.dec
    let y ← b.dec
    pure (x, y)
  wf p := a.wf p.1 && b.wf p.2
  wpanic p := a.wpanic p.1 || b.wpanic p.2

def encMany (c : Codec α) : List α → Bytes
  | [] => []
  | x :: xs => c.enc x ++ encMany c xs

/-- `[T; n]`: `write_many` / `read_many(n)` without a length prefix -/
def array (n : Nat) (c : Codec α) : Codec (List α) where
  enc xs := encMany c xs
  dec := readMany c.dec n
  wf xs := xs.length == n && xs.all c.wf
  wpanic xs := xs.any c.wpanic

/-- `Vec<T>` (and `[T]`): vint64 length, then the elements -/
def vec (c : Codec α) : Codec (List α) where
  enc xs := writeUsize xs.length ++ encMany c xs
  dec := do
    let n ← readUsize
    readMany c.dec n
  wf xs := xs.length < 18446744073709551616 && xs.all c.wf
  wpanic xs := xs.any c.wpanic

-- UTF-8 validity as `String::from_utf8` decides it (Unicode table 3-7)
def cont (b : Nat) : Bool := 128 ≤ b && b ≤ 191

def validUtf8 : Bytes → Bool
  | [] => true
  | b0 :: r =>
    if b0 ≤ 127 then validUtf8 r
    else if 194 ≤ b0 && b0 ≤ 223 then
      match r with
      | b1 :: r => cont b1 && validUtf8 r
      | _ => false
    else if 224 ≤ b0 && b0 ≤ 239 then
      match r with
      | b1 :: b2 :: r =>
        (if b0 = 224 then 160 ≤ b1 && b1 ≤ 191 else if b0 = 237 then 128 ≤ b1 && b1 ≤ 159 else cont b1)
          && cont b2 && validUtf8 r
      | _ => false
    else if 240 ≤ b0 && b0 ≤ 244 then
      match r with
      | b1 :: b2 :: b3 :: r =>
        (if b0 = 240 then 144 ≤ b1 && b1 ≤ 191 else if b0 = 244 then 128 ≤ b1 && b1 ≤ 143 else cont b1)
          && cont b2 && cont b3 && validUtf8 r
      | _ => false
    else false

/-- `String`: vint64 byte length, the bytes, then `String::from_utf8` -/
def str : Codec Bytes where
  enc bs := writeUsize bs.length ++ bs
  dec := do
    let n ← readUsize
    let bs ← readMany readU8 n
    if validUtf8 bs then pure bs else Dec.fail
  wf bs := bs.length < 18446744073709551616 && validUtf8 bs

-- `BTreeMap` / `BTreeSet` values are strictly increasing lists; `cmp` models the key type's `Ord`
def mapInsert (cmp : κ → κ → Ordering) (k : κ) (v : ν) : List (κ × ν) → List (κ × ν)
  | [] => [(k, v)]
  | (k', v') :: t =>
    match cmp k k' with
    | .lt => (k, v) :: (k', v') :: t
    | .eq => (k, v) :: t
    | .gt => (k', v') :: mapInsert cmp k v t

/-- `BTreeMap::from_iter` -/
def mapFromList (cmp : κ → κ → Ordering) (l : List (κ × ν)) : List (κ × ν) :=
  l.foldl (fun m kv => mapInsert cmp kv.1 kv.2 m) []

def sortedKeys (cmp : κ → κ → Ordering) : List (κ × ν) → Bool
  | [] => true
  | (k, _) :: t => t.all (fun kv => cmp k kv.1 == .lt) && sortedKeys cmp t

def btreeMap (cmp : κ → κ → Ordering) (k : Codec κ) (v : Codec ν) : Codec (List (κ × ν)) where
  enc m := writeUsize m.length ++ encMany (pair k v) m
  dec := do
    let n ← readUsize
    let l ← readMany (pair k v).dec n
    pure (mapFromList cmp l)
  wf m := m.length < 18446744073709551616 && m.all (pair k v).wf && sortedKeys cmp m
  wpanic m := m.any (pair k v).wpanic

def setInsert (cmp : κ → κ → Ordering) (k : κ) : List κ → List κ
  | [] => [k]
  | k' :: t =>
    match cmp k k' with
    | .lt => k :: k' :: t
    | .eq => k' :: t            -- `BTreeSet::insert` keeps the element that is already there
    | .gt => k' :: setInsert cmp k t

def setFromList (cmp : κ → κ → Ordering) (l : List κ) : List κ :=
  l.foldl (fun s k => setInsert cmp k s) []

def sortedList (cmp : κ → κ → Ordering) : List κ → Bool
  | [] => true
  | k :: t => t.all (fun x => cmp k x == .lt) && sortedList cmp t

def btreeSet (cmp : κ → κ → Ordering) (k : Codec κ) : Codec (List κ) where
  enc s := writeUsize s.length ++ encMany k s
  dec := do
    let n ← readUsize
    let l ← readMany k.dec n
    pure (setFromList cmp l)
  wf s := s.length < 18446744073709551616 && s.all k.wf && sortedList cmp s
  wpanic s := s.any k.wpanic

/-- lexicographic order of lists (`Ord for [T]`, `str`) -/
def cmpList (cmp : α → α → Ordering) : List α → List α → Ordering
  | [], [] => .eq
  | [], _ :: _ => .lt
  | _ :: _, [] => .gt
  | a :: as, b :: bs =>
    match cmp a b with
    | .eq => cmpList cmp as bs
    | o => o

def cmpPair (ca : α → α → Ordering) (cb : β → β → Ordering) (x y : α × β) : Ordering :=
  match ca x.1 y.1 with
  | .eq => cb x.2 y.2
  | o => o

def cmpOption (c : α → α → Ordering) : Option α → Option α → Ordering
  | none, none => .eq
  | none, some _ => .lt
  | some _, none => .gt
  | some a, some b => c a b

/-- the order of the unsigned integers -/
def natCmp (a b : Nat) : Ordering := compare a b

def cmpBool : Bool → Bool → Ordering
  | false, true => .lt
  | true, false => .gt
  | _, _ => .eq

-- ------------------------------------------------------------------------------------------------
-- field elements (a value is the canonical integer of the element), digests

/-- base field element: canonical little-endian bytes; the reader rejects integers `≥ M` -/
def elem (F : FieldImpl) : Codec Nat where
  enc v := leBytes F.bytes v
  dec := do
    let v ← readUInt F.bytes
    if v ≥ F.M then Dec.fail else pure v
  wf v := v < F.M

/-- `QuadExtension<B>`: the two coordinates -/
def quad (F : FieldImpl) : Codec (Nat × Nat) := pair (elem F) (elem F)
/-- `CubeExtension<B>`: the three coordinates -/
def cube (F : FieldImpl) : Codec (Nat × Nat × Nat) := pair (elem F) (pair (elem F) (elem F))

/-- `ByteDigest<N>` -/
def byteDigest (n : Nat) : Codec Bytes where
  enc bs := bs
  dec := readSlice n
  wf bs := bs.length == n

/-- `ElementDigest` of Rp64_256 (and the Jive variant): four canonical u64; the reader reduces with
    `BaseElement::new` instead of rejecting -/
def elemDigest64 : Codec (List Nat) where
  enc d := encMany (uint 8) d
  dec := do
    let l ← readMany (readUInt 8) 4
    pure (l.map (· % F64.impl.M))
  wf d := d.length == 4 && d.all (· < F64.impl.M)

def u64max : Nat := 18446744073709551616
def mask62 : Nat := 4611686018427387903

/-- `ElementDigest::as_bytes` of Rp62_248: four 62-bit integers packed into 248 bits -/
def pack62 (v1 v2 v3 v4 : Nat) : Bytes :=
  (leBytes 8 ((v1 ||| (v2 <<< 62 % u64max))) ++ leBytes 8 (((v2 >>> 2) ||| (v3 <<< 60 % u64max))) ++
    leBytes 8 (((v3 >>> 4) ||| (v4 <<< 58 % u64max))) ++ leBytes 8 (v4 >>> 6)).take 31

def elemDigest62 : Codec (List Nat) where
  enc
    | [v1, v2, v3, v4] => pack62 v1 v2 v3 v4
    | _ => []
  dec := do
    let v1 ← readUInt 8
    let v2 ← readUInt 8
    let v3 ← readUInt 8
    let v4 ← readUInt 4
    let v5 ← readUInt 2
    let v6 ← readU8
    let m := F62.impl.M
    -- `BaseElement::new` reduces modulo M (inputs below 2^64)
    let e1 := (v1 &&& mask62) % m
    let e2 := ((((v2 <<< 4) % u64max) >>> 2) ||| ((v1 >>> 62) &&& mask62)) % m
    let e3 := ((((v3 <<< 6) % u64max) >>> 2) ||| ((v2 >>> 60) &&& mask62)) % m
    let e4 := ((v3 >>> 58) ||| (v4 <<< 6) ||| (v5 <<< 38) ||| (v6 <<< 54)) % m
    pure [e1, e2, e3, e4]
  wf d := d.length == 4 && d.all (· < F62.impl.M)

-- ------------------------------------------------------------------------------------------------
-- FieldExtension, ProofOptions

/-- `FieldExtension` as its discriminant 1, 2, 3 -/
def fext : Codec Nat where
  enc v := [v]
  dec := do
    let b ← readU8
    if b = 1 ∨ b = 2 ∨ b = 3 then pure b else Dec.fail
  wf v := v == 1 || v == 2 || v == 3

structure ProofOptions where
  numQueries : Nat
  blowup : Nat
  grinding : Nat
  fieldExt : Nat
  folding : Nat
  remDeg : Nat
  deriving Repr, DecidableEq

open Gen.Limits in
/-- the assertions of `ProofOptions::new` -/
def ProofOptions.wf (o : ProofOptions) : Bool :=
  o.numQueries > 0 && o.numQueries ≤ MAX_NUM_QUERIES &&
  pow2 o.blowup && o.blowup ≥ MIN_BLOWUP_FACTOR && o.blowup ≤ MAX_BLOWUP_FACTOR &&
  o.grinding ≤ MAX_GRINDING_FACTOR &&
  pow2 o.folding && o.folding ≥ FRI_MIN_FOLDING_FACTOR && o.folding ≤ FRI_MAX_FOLDING_FACTOR &&
  pow2 (o.remDeg + 1) && o.remDeg ≤ FRI_MAX_REMAINDER_DEGREE &&
  fext.wf o.fieldExt

def proofOptions : Codec ProofOptions where
  enc o := [o.numQueries % 256, o.blowup % 256, o.grinding % 256, o.fieldExt, o.folding % 256, o.remDeg % 256]
  dec := do
    let nq ← readU8
    let bl ← readU8
    let gr ← readU8
    let fe ← fext.dec
    let ff ← readU8
    let rd ← readU8
    let o : ProofOptions := ⟨nq, bl, gr, fe, ff, rd⟩
    -- the conditions of `ProofOptions::new` are checked first and reported as errors
    if o.wf then pure o else Dec.fail
  wf := ProofOptions.wf

-- ------------------------------------------------------------------------------------------------
-- TraceInfo

structure TraceInfo where
  main : Nat
  aux : Nat
  rands : Nat
  length : Nat
  metadata : Bytes
  deriving Repr, DecidableEq

open Gen.Limits in
/-- the assertions of `TraceInfo::new_multi_segment` -/
def TraceInfo.wf (t : TraceInfo) : Bool :=
  t.length ≥ MIN_TRACE_LENGTH && pow2 t.length && t.length < 18446744073709551616 &&
  t.metadata.length ≤ MAX_META_LENGTH &&
  t.main > 0 && t.main + t.aux ≤ MAX_TRACE_WIDTH &&
  (t.aux != 0 || t.rands == 0) &&
  t.rands ≤ MAX_RAND_SEGMENT_ELEMENTS

def TraceInfo.numSegments (t : TraceInfo) : Nat := if t.aux > 0 then 2 else 1

open Gen.Limits in
def traceInfo : Codec TraceInfo where
  enc t := [t.main % 256, t.aux % 256, t.rands % 256, t.length.log2 % 256] ++ leBytes 2 t.metadata.length ++ t.metadata
  dec := do
    let main ← readU8
    if main = 0 then Dec.fail else do
    let aux ← readU8
    if main + aux > MAX_TRACE_WIDTH then Dec.fail else do
    let rands ← readU8
    if aux = 0 ∧ rands ≠ 0 then Dec.fail else do
    if rands > MAX_RAND_SEGMENT_ELEMENTS then Dec.fail else do
    let e ← readU8
    if e < MIN_TRACE_LENGTH.log2 then Dec.fail else do
    -- `1_usize.checked_shl(e)`
    if e ≥ 64 then Dec.fail else do
    let n ← readUInt 2
    let md ← (if n ≠ 0 then readSlice n else pure [])
    let t : TraceInfo := ⟨main, aux, rands, 2 ^ e, md⟩
    if t.wf then pure t else Dec.panic
  wf := TraceInfo.wf
  -- debug_asserts of the writer
  wpanic t := t.aux > 255 || t.rands > 255

-- ------------------------------------------------------------------------------------------------
-- Context

structure Context where
  traceInfo : TraceInfo
  modulus : Bytes
  options : ProofOptions
  deriving Repr, DecidableEq

/-- `Context::new::<B>`: the pieces are values of their types, trace length and LDE domain fit u32; the
    modulus bytes come from the field (8 or 16 of them; the length byte allows up to 255) -/
def Context.wf (c : Context) : Bool :=
  c.traceInfo.wf && c.options.wf &&
  c.traceInfo.length ≤ 4294967295 && c.traceInfo.length * c.options.blowup ≤ 4294967295 &&
  c.modulus.length > 0 && c.modulus.length < 256

def context : Codec Context where
  enc c := traceInfo.enc c.traceInfo ++ [c.modulus.length % 256] ++ c.modulus ++ proofOptions.enc c.options
  dec := do
    let ti ← traceInfo.dec
    let n ← readU8
    if n = 0 then Dec.fail else do
    let m ← readSlice n
    let o ← proofOptions.dec
    -- the size limits of `Context::new`
    if ti.length > 4294967295 then Dec.fail else do
    if ti.length * o.blowup > 4294967295 then Dec.fail else do
    pure ⟨ti, m, o⟩
  wf := Context.wf
  wpanic c := traceInfo.wpanic c.traceInfo || c.modulus.length ≥ 256

-- ------------------------------------------------------------------------------------------------
-- byte blocks with a fixed-width length prefix

/-- `write_uN(len as uN); write_bytes(..)` / `read_uN; read_vec(len)` -/
def block (n : Nat) : Codec Bytes where
  enc bs := leBytes n bs.length ++ bs
  dec := do
    let k ← readUInt n
    readSlice k
  wf bs := bs.length < 256 ^ n

/-- `Commitments`: the concatenated digests; the writer asserts `len <= u16::MAX` -/
def commitments : Codec Bytes where
  enc := (block 2).enc
  dec := (block 2).dec
  wf bs := bs.length < 65536
  wpanic bs := bs.length ≥ 65536

/-- `Commitments::new`: trace roots, constraint root, FRI roots, each digest serialized -/
def commitmentsNew (d : Codec δ) (trace : List δ) (constraint : δ) (fri : List δ) : Bytes :=
  encMany d trace ++ d.enc constraint ++ encMany d fri

structure Queries where
  values : Bytes
  paths : Bytes
  deriving Repr, DecidableEq

def queries : Codec Queries where
  enc q := (block 4).enc q.values ++ (block 4).enc q.paths
  dec := do
    let v ← (block 4).dec
    let p ← (block 4).dec
    pure ⟨v, p⟩
  wf q := q.values.length < 4294967296 && q.paths.length < 4294967296

/-- `BatchMerkleProof::serialize_nodes`; `none` = one of its assertions (more than 255 vectors / nodes) -/
def serializeNodes (d : Codec δ) (nodes : List (List δ)) : Option Bytes :=
  if nodes.length > 255 || nodes.any (fun v => v.length > 255) then none
  else some (nodes.length :: (nodes.map (fun v => v.length :: encMany d v)).flatten)

/-- `Queries::new`; `none` = an assertion of the constructor -/
def queriesNew (e : Codec ε) (d : Codec δ) (nodes : List (List δ)) (values : List (List ε)) : Option Queries :=
  match values with
  | [] => none
  | row0 :: _ =>
    if row0.length = 0 || values.any (fun r => r.length != row0.length) then none
    else
      match serializeNodes d nodes with
      | none => none
      | some paths => some ⟨encMany (array row0.length e) values, paths⟩

structure OodFrame where
  traceStates : Bytes
  lagrange : Bytes
  evaluations : Bytes
  deriving Repr, DecidableEq

def oodFrame : Codec OodFrame where
  enc f := (block 2).enc f.traceStates ++ (block 2).enc f.lagrange ++ (block 2).enc f.evaluations
  dec := do
    let t ← (block 2).dec
    let l ← (block 2).dec
    let e ← (block 2).dec
    pure ⟨t, l, e⟩
  wf f := f.traceStates.length < 65536 && f.lagrange.length < 65536 && f.evaluations.length < 65536

def interleave : List α → List α → List α
  | a :: as, b :: bs => a :: b :: interleave as bs
  | _, _ => []

/-- `OodFrame::set_trace_states` on an empty frame; `none` = an assertion (`TraceOodFrame::new` wants rows of
    equal length, the debug assertion on the Lagrange frame length, more than 65535 bytes of trace states) -/
def oodSetTraceStates (e : Codec ε) (cur next : List ε) (lagrange : Option (List ε)) : Option (Bytes × Bytes) :=
  if cur.length != next.length then none
  else
    let l := lagrange.getD []
    let ts := 2 :: encMany e (interleave cur next)
    if l.length ≥ 255 ∨ ts.length > 65535 then none
    else some (ts, (l.length % 256) :: encMany e l)

/-- `OodFrame::set_constraint_evaluations` on an empty frame; `none` = an assertion (no evaluations, more
    than 65535 bytes) -/
def oodSetEvaluations (e : Codec ε) (evals : List ε) : Option Bytes :=
  let bs := encMany e evals
  if evals.isEmpty ∨ bs.length > 65535 then none else some bs

structure FriLayer where
  values : Bytes
  paths : Bytes
  deriving Repr, DecidableEq

/-- `FriProofLayer`; the reader refuses an empty value block -/
def friLayer : Codec FriLayer where
  enc l := (block 4).enc l.values ++ (block 4).enc l.paths
  dec := do
    let n ← readUInt 4
    if n = 0 then Dec.fail else do
    let v ← readSlice n
    let p ← (block 4).dec
    pure ⟨v, p⟩
  wf l := l.values.length > 0 && l.values.length < 4294967296 && l.paths.length < 4294967296

structure FriProof where
  layers : List FriLayer
  remainder : Bytes
  numPartitions : Nat
  deriving Repr, DecidableEq

def friProof : Codec FriProof where
  enc p := [p.layers.length % 256] ++ encMany friLayer p.layers ++ (block 2).enc p.remainder ++ [p.numPartitions]
  dec := do
    let n ← readU8
    let ls ← readMany friLayer.dec n
    let r ← (block 2).dec
    let np ← readU8
    -- the number of partitions is stored as an exponent of two
    if np ≥ 64 then Dec.fail else do
    pure ⟨ls, r, np⟩
  wf p := p.layers.length < 256 && p.layers.all friLayer.wf && p.remainder.length < 65536 && p.numPartitions < 64

structure Proof where
  context : Context
  numUniqueQueries : Nat
  commitments : Bytes
  traceQueries : List Queries
  constraintQueries : Queries
  oodFrame : OodFrame
  friProof : FriProof
  powNonce : Nat
  gkrProof : Option Bytes
  deriving Repr, DecidableEq

/-- a `Proof` literal whose parts are values of their types and which carries one query set per trace
    segment (the number of query sets is not written: the reader takes it from the trace info) -/
def Proof.wf (p : Proof) : Bool :=
  Serde.context.wf p.context && p.numUniqueQueries < 256 && Serde.commitments.wf p.commitments &&
  p.traceQueries.length == p.context.traceInfo.numSegments && p.traceQueries.all Serde.queries.wf &&
  Serde.queries.wf p.constraintQueries && Serde.oodFrame.wf p.oodFrame && Serde.friProof.wf p.friProof &&
  p.powNonce < 18446744073709551616 && (option (vec (uint 1))).wf p.gkrProof

def proof : Codec Proof where
  enc p := context.enc p.context ++ [p.numUniqueQueries] ++ commitments.enc p.commitments ++
    encMany queries p.traceQueries ++ queries.enc p.constraintQueries ++ oodFrame.enc p.oodFrame ++
    friProof.enc p.friProof ++ leBytes 8 p.powNonce ++ (option (vec (uint 1))).enc p.gkrProof
  dec := do
    let c ← context.dec
    let nuq ← readU8
    let cm ← commitments.dec
    let tq ← readMany queries.dec c.traceInfo.numSegments
    let cq ← queries.dec
    let ood ← oodFrame.dec
    let fri ← friProof.dec
    let nonce ← readUInt 8
    let gkr ← (option (vec (uint 1))).dec
    pure ⟨c, nuq, cm, tq, cq, ood, fri, nonce, gkr⟩
  wf := Proof.wf
  wpanic p := context.wpanic p.context || commitments.wpanic p.commitments

-- ------------------------------------------------------------------------------------------------
-- `Queries::parse` / `Table::from_bytes`

open Gen.Limits in
/-- `Table::from_bytes`: the assertions, then `rows * cols` elements -/
def tableFromBytes (e : Codec ε) (bytes : Bytes) (rows cols : Nat) : Res (List (List ε)) :=
  if rows = 0 ∨ ¬ rows ≤ MAX_ROWS ∨ cols = 0 ∨ ¬ cols ≤ MAX_COLS then .panic
  else
    match readMany (array cols e).dec rows bytes with
    | .ok (t, _) => .ok t
    | .err => .err
    | .eof => .eof
    | .panic => .panic

/-- `BatchMerkleProof::deserialize` on the path bytes (the leaves are hashes of the rows and are not modelled) -/
def deserializeNodes (d : Codec δ) : Dec (List (List δ)) := do
  let n ← readU8
  readMany (do let k ← readU8; readMany d.dec k) n

/-- `Queries::parse(domain_size = 2^depth, num_queries, values_per_query)` -/
def queriesParse (e : Codec ε) (elemBytes : Nat) (d : Codec δ) (q : Queries) (depth rows cols : Nat) :
    Res (List (List ε) × List (List δ)) :=
  if rows = 0 ∨ cols = 0 then .panic
  else if q.values.length ≠ rows * (elemBytes * cols) then .err
  else
    match tableFromBytes e q.values rows cols with
    | .ok t =>
      if depth = 0 ∨ rows > 255 then .err
      else
        match deserializeNodes d q.paths with
        | .ok (nodes, rest) => if rest.isEmpty then .ok (t, nodes) else .err
        | .err => .err
        | .eof => .eof
        | .panic => .panic
    | .err => .err
    | .eof => .eof
    | .panic => .panic

-- ------------------------------------------------------------------------------------------------
-- `Commitments::parse`, `OodFrame::parse`

/-- run a decoder over a whole byte block: unconsumed bytes are an error (`UnconsumedBytes`) -/
def runAll (d : Dec α) (bs : Bytes) : Res α :=
  match d bs with
  | .ok (x, rest) => if rest.isEmpty then .ok x else .err
  | .err => .err
  | .eof => .eof
  | .panic => .panic

/-- `Commitments::parse(num_trace_segments, num_fri_layers)` -/
def commitmentsParse (d : Codec δ) (bytes : Bytes) (nt nf : Nat) : Res (List δ × δ × List δ) :=
  runAll (do
    let t ← readMany d.dec nt
    let c ← d.dec
    let f ← readMany d.dec (nf + 1)
    pure (t, c, f)) bytes

/-- `chunks_exact(2)`: current and next row -/
def deinterleave : List α → List α × List α
  | a :: b :: t => (a :: (deinterleave t).1, b :: (deinterleave t).2)
  | _ => ([], [])

/-- `OodFrame::parse(main_trace_width, aux_trace_width, num_evaluations)`: current row, next row, Lagrange
    kernel frame, constraint evaluations (each of the three blocks must be consumed entirely) -/
def oodParse (e : Codec ε) (f : OodFrame) (main aux nev : Nat) :
    Res (List ε × List ε × Option (List ε) × List ε) :=
  if main = 0 ∨ nev = 0 then .panic
  else
    let lagDec : Dec (Option (List ε)) := do
      let n ← readU8
      if n > 0 then do
        let l ← readMany e.dec n
        pure (some l)
      else pure none
    match runAll lagDec f.lagrange with
    | .ok lag =>
      let k := if lag.isSome then 1 else 0
      if aux < k then .err
      else
        let trDec : Dec (List ε) := do
          let fs ← readU8
          if fs ≠ 2 then Dec.fail else readMany e.dec ((main + (aux - k)) * fs)
        match runAll trDec f.traceStates with
        | .ok tr =>
          match runAll (readMany e.dec nev) f.evaluations with
          | .ok ev => .ok ((deinterleave tr).1, (deinterleave tr).2, lag, ev)
          | .err => .err
          | .eof => .eof
          | .panic => .panic
        | .err => .err
        | .eof => .eof
        | .panic => .panic
    | .err => .err
    | .eof => .eof
    | .panic => .panic

-- ------------------------------------------------------------------------------------------------
-- the `std::io::Cursor` byte source (the required methods of `ByteReader`; the provided methods are the
-- same code for every source)

structure Cursor where
  buf : Bytes
  pos : Nat
  deriving Repr, DecidableEq

/-- the unread bytes (`cursor_remaining_buf!`) -/
def Cursor.rem (c : Cursor) : Bytes := c.buf.drop (min c.pos c.buf.length)

def Cursor.readU8 (c : Cursor) : Res (Nat × Cursor) :=
  match c.rem with
  | [] => .eof
  | b :: _ => .ok (b, { c with pos := c.pos + 1 })

def Cursor.peekU8 (c : Cursor) : Res (Nat × Cursor) :=
  match c.rem with
  | [] => .eof
  | b :: _ => .ok (b, c)

/-- `read_slice` / `read_array`: `size.saturating_sub(pos) < len` is the end-of-data test -/
def Cursor.readSlice (n : Nat) (c : Cursor) : Res (Bytes × Cursor) :=
  if c.buf.length - c.pos < n then .eof
  else .ok ((c.buf.drop (min c.pos c.buf.length)).take n, { c with pos := c.pos + n })

def Cursor.hasMoreBytes (c : Cursor) : Bool := c.pos < c.buf.length

/-- forget the cursor: keep the unread bytes -/
def Res.unread : Res (α × Cursor) → Res (α × Bytes)
  | .ok (a, c) => .ok (a, c.rem)
  | .err => .err
  | .eof => .eof
  | .panic => .panic

end Model.Serde
