-- Hand-written executable model of the public coin (C19):
--   crypto/src/random/default.rs   DefaultRandomCoin: new, reseed, next, draw, draw_integers, check_leading_zeros
--   utils/core/src/lib.rs          Randomizable::from_random_bytes (via TryFrom<&[u8]> of the field elements)
--   prover/src/channel.rs          grind_query_seed (the search predicate)
-- The hash function is a parameter (`HashOps D`): `hashElements`, `merge`, `mergeWithInt` and the
-- 32-byte view `asBytes` of a digest (`Digest::as_bytes`, zero padded for shorter digests).
-- Two executable instances are used by the driver: a toy hasher implemented identically in the
-- harness (the coin code is generic in the hasher), and an oracle table recorded from the real hashers.

namespace Model.Coin

/-- the abstract hasher -/
structure HashOps (D : Type) where
  /-- `ElementHasher::hash_elements` of base-field elements given as canonical integers -/
  hashElements : List Nat → D
  /-- `Hasher::merge(&[a, b])` -/
  merge : D → D → D
  /-- `Hasher::merge_with_int(seed, value)` -/
  mergeWithInt : D → Nat → D
  /-- `Digest::as_bytes`: always 32 bytes in the implementation -/
  asBytes : D → List Nat

/-- a base field as the coin sees it: modulus and `ELEMENT_BYTES` -/
structure FieldDesc where
  M : Nat
  bytes : Nat
  deriving Repr, DecidableEq

/-- `DefaultRandomCoin` -/
structure Coin (D : Type) where
  seed : D
  counter : Nat

def U64 : Nat := 18446744073709551616

/-- number of bytes of `Digest::as_bytes()` -/
def DIGEST_BYTES : Nat := 32

/-- number of PRNG calls `draw` / `draw_integers` make at most -/
def MAX_TRIES : Nat := 1000

/-- little-endian value of a byte string -/
def leVal : List Nat → Nat
  | [] => 0
  | b :: bs => b + 256 * leVal bs

/-- `u64::trailing_zeros` (64 for zero), by structural recursion on a bit budget -/
def tzAux : Nat → Nat → Nat
  | 0, _ => 0
  | k + 1, x => if x % 2 = 1 then 0 else 1 + tzAux k (x / 2)

def tz64 (x : Nat) : Nat := tzAux 64 x

section coin
variable {D : Type} (H : HashOps D)

/-- `RandomCoin::new` -/
def new (seed : List Nat) : Coin D := ⟨H.hashElements seed, 0⟩

/-- `RandomCoin::reseed` -/
def reseed (c : Coin D) (data : D) : Coin D := ⟨H.merge c.seed data, 0⟩

/-- `DefaultRandomCoin::next`: `None` models the overflow panic of `counter += 1` -/
def next (c : Coin D) : Option (D × Coin D) :=
  if c.counter + 1 < U64 then some (H.mergeWithInt c.seed (c.counter + 1), ⟨c.seed, c.counter + 1⟩)
  else none

/-- `RandomCoin::check_leading_zeros` -/
def checkLeadingZeros (c : Coin D) (value : Nat) : Nat :=
  tz64 (leVal ((H.asBytes (H.mergeWithInt c.seed value)).take 8))

/-- read `deg` coordinates of `fd.bytes` little-endian bytes each; `None` if one is not canonical -/
def readCoords (fd : FieldDesc) : Nat → List Nat → Option (List Nat)
  | 0, _ => some []
  | k + 1, bs =>
    let v := leVal (bs.take fd.bytes)
    if v < fd.M then
      match readCoords fd k (bs.drop fd.bytes) with
      | some rest => some (v :: rest)
      | none => none
    else none

/-- `E::from_random_bytes` for an element of extension degree `deg` over `fd` -/
def fromRandomBytes (fd : FieldDesc) (deg : Nat) (bs : List Nat) : Option (List Nat) :=
  if bs.length = fd.bytes * deg then readCoords fd deg bs else none

/-- outcome of a coin operation -/
inductive Out where
  | elem (coords : List Nat)
  | ints (vs : List Nat)
  | num (n : Nat)
  | unit
  | err
  | panic (site : String)
  deriving Repr, DecidableEq

/-- the retry loop of `draw` -/
def drawLoop (fd : FieldDesc) (deg : Nat) : Nat → Coin D → Out × Coin D
  | 0, c => (.err, c)
  | k + 1, c =>
    match next H c with
    | none => (.panic "counter overflow", c)
    | some (v, c') =>
      match fromRandomBytes fd deg ((H.asBytes v).take (fd.bytes * deg)) with
      | some e => (.elem e, c')
      | none => drawLoop fd deg k c'

/-- `RandomCoin::draw::<E>` as in the original snapshot: `as_bytes()[..ELEMENT_BYTES]` is out of
    range for elements wider than a digest -/
def drawOld (fd : FieldDesc) (deg : Nat) (c : Coin D) : Out × Coin D :=
  if DIGEST_BYTES < fd.bytes * deg then
    match next H c with
    | none => (.panic "counter overflow", c)
    | some (_, c') => (.panic "slice index out of range", c')
  else drawLoop H fd deg MAX_TRIES c

/-- `RandomCoin::draw::<E>` as it is now: an element that does not fit into a digest cannot be
    drawn, which is reported as an error before the PRNG is touched -/
def draw (fd : FieldDesc) (deg : Nat) (c : Coin D) : Out × Coin D :=
  if DIGEST_BYTES < fd.bytes * deg then (.err, c)
  else drawLoop H fd deg MAX_TRIES c

/-- `usize::is_power_of_two` -/
def isPow2 (x : Nat) : Bool := x != 0 && 2 ^ x.log2 == x

/-- the loop of `draw_integers`; `acc` is in reverse order -/
def intLoop (mask n : Nat) : Nat → Coin D → List Nat → Option (List Nat × Coin D)
  | 0, c, acc => some (acc, c)
  | k + 1, c, acc =>
    match next H c with
    | none => none
    | some (v, c') =>
      let value := leVal ((H.asBytes v).take 8) &&& mask
      let acc := value :: acc
      if acc.length = n then some (acc, c') else intLoop mask n k c' acc

/-- `RandomCoin::draw_integers` (`domainSize` a `usize`) -/
def drawIntegers (n domainSize nonce : Nat) (c : Coin D) : Out × Coin D :=
  if ¬ isPow2 domainSize then (.panic "domain size must be a power of two", c)
  else if ¬ n < domainSize then (.panic "number of values must be smaller than domain size", c)
  else
    let c1 : Coin D := ⟨H.mergeWithInt c.seed nonce, 0⟩
    match intLoop H (domainSize - 1) n MAX_TRIES c1 [] with
    | none => (.panic "counter overflow", c1)
    | some (acc, c2) => if acc.length < n then (.err, c2) else (.ints acc.reverse, c2)

/-- the prover's `grind_query_seed`: the first nonce in `start, start+1, ...` (at most `fuel`
    candidates) whose `check_leading_zeros` reaches the grinding factor -/
def grind (c : Coin D) (gf : Nat) : Nat → Nat → Option Nat
  | 0, _ => none
  | fuel + 1, nonce => if gf ≤ checkLeadingZeros H c nonce then some nonce else grind c gf fuel (nonce + 1)

/-- the verifier's test of the nonce -/
def powOk (c : Coin D) (gf nonce : Nat) : Bool := ¬ (checkLeadingZeros H c nonce < gf)

/-- one operation of a coin history -/
inductive Op (D : Type) where
  | reseed (data : D)
  | draw (fd : FieldDesc) (deg : Nat)
  | drawIntegers (n domainSize nonce : Nat)
  | checkLeadingZeros (value : Nat)

def step (c : Coin D) : Op D → Out × Coin D
  | .reseed d => (.unit, reseed H c d)
  | .draw fd deg => draw H fd deg c
  | .drawIntegers n dom nonce => drawIntegers H n dom nonce c
  | .checkLeadingZeros v => (.num (checkLeadingZeros H c v), c)

def isPanic : Out → Bool
  | .panic _ => true
  | _ => false

/-- the interpreter: outputs of a history, stopping after the first panic -/
def runFrom (c : Coin D) : List (Op D) → List Out × Coin D
  | [] => ([], c)
  | op :: ops =>
    let (o, c') := step H c op
    if isPanic o then ([o], c')
    else
      let (os, c'') := runFrom c' ops
      (o :: os, c'')

def run (seed : List Nat) (ops : List (Op D)) : List Out × Coin D := runFrom H (new H seed) ops

end coin

-- ------------------------------------------------------------------ toy hasher (mirrored in the harness)
namespace Toy

def P : UInt64 := 1099511628211
def K : UInt64 := 11400714819323198485

/-- absorb byte `b` at index `i` into the four lanes (wrapping 64-bit arithmetic) -/
def absorb (s : UInt64 × UInt64 × UInt64 × UInt64) (i b : Nat) : UInt64 × UInt64 × UInt64 × UInt64 :=
  let (a, bb, c, d) := s
  let x := UInt64.ofNat b
  match i % 4 with
  | 0 => let a := (a ^^^ x) * P; (a, bb + a, c, d)
  | 1 => let bb := (bb ^^^ x) * P; (a, bb, c + bb, d)
  | 2 => let c := (c ^^^ x) * P; (a, bb, c, d + c)
  | _ => let d := (d ^^^ x) * P; (a + d, bb, c, d)

def absorbAll : List Nat → Nat → UInt64 × UInt64 × UInt64 × UInt64 → UInt64 × UInt64 × UInt64 × UInt64
  | [], _, s => s
  | b :: bs, i, s => absorbAll bs (i + 1) (absorb s i b)

def mix (x y : UInt64) : UInt64 :=
  let z := (x + y) * K
  z ^^^ (z >>> 31)

def round (s : UInt64 × UInt64 × UInt64 × UInt64) : UInt64 × UInt64 × UInt64 × UInt64 :=
  let (a, b, c, d) := s
  let a := mix a b
  let b := mix b c
  let c := mix c d
  let d := mix d a
  (a, b, c, d)

def le8 (x : Nat) : List Nat :=
  [x % 256, x / 256 % 256, x / 65536 % 256, x / 16777216 % 256, x / 4294967296 % 256,
   x / 1099511627776 % 256, x / 281474976710656 % 256, x / 72057594037927936 % 256]

/-- the toy hash: 32 bytes.  `mode` 1 forces three quarters of the digests to all-ones bytes (so
    that rejection sampling is exercised for every field), `mode` 2 all of them, `mode` 3 gives all-zero digests -/
def hash (mode : Nat) (bytes : List Nat) : List Nat :=
  let s := absorbAll bytes 0 (2611923443488327891, 1376283091369227076, 11820040416388919760, 589684135938649225)
  let (a, b, c, d) := s
  let s := round (round (round (a ^^^ UInt64.ofNat bytes.length, b, c, d)))
  let (a, b, c, d) := s
  if mode = 3 then List.replicate 32 0
  else if mode = 2 ∨ (mode = 1 ∧ a.toNat % 4 ≠ 0) then List.replicate 32 255
  else le8 a.toNat ++ le8 b.toNat ++ le8 c.toNat ++ le8 d.toNat

def leBytes : Nat → Nat → List Nat
  | 0, _ => []
  | n + 1, v => (v % 256) :: leBytes n (v / 256)

/-- modes 4 and 5 behave like mode 0 except in `mergeWithInt` -/
def baseMode (mode : Nat) : Nat := if mode ≥ 4 then 0 else mode

/-- the toy hasher over a field with `elementBytes`-byte elements.  Modes 4 / 5: `merge_with_int(seed, v)`
    is all-ones unless `v` is a multiple of 1000 / 1001 (a candidate is accepted exactly at the 1000th /
    1001st PRNG call: on and just beyond the retry budget of `draw`) -/
def ops (mode elementBytes : Nat) : HashOps (List Nat) where
  hashElements := fun es => hash (baseMode mode) (es.flatMap (leBytes elementBytes))
  merge := fun a b => hash (baseMode mode) (a ++ b)
  mergeWithInt := fun s v =>
    if (mode = 4 ∧ v % 1000 ≠ 0) ∨ (mode = 5 ∧ v % 1001 ≠ 0) then List.replicate 32 255
    else hash (baseMode mode) (s ++ le8 v)
  asBytes := fun d => d

end Toy

end Model.Coin
