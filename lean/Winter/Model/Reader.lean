-- Executable model of utils/core/src/serde/byte_reader.rs:
--   * the `ByteReader` trait: required methods as a record, provided methods (`read_bool`, `read_u16` …
--     `read_usize`, `read_vec`, `read_string`, `read_many`) written once, generically, as in the trait;
--   * `SliceReader` (source + pos), the reference of property C13, and the same reader written directly
--     on the list of remaining bytes (`Mem`);
--   * `ReadAdapter` as a state machine over an abstract chunked source and the `BufReader` it wraps.
-- Bytes are naturals (the theorems hold for all lists of naturals, in particular for all byte lists).
-- Nothing here is proved; the theorems are in WinterProofs/C13.lean.

namespace Model.Reader

/-- outcome of a `ByteReader` call. `eof` = `DeserializationError::UnexpectedEOF`, `invalid` =
    `DeserializationError::InvalidValue`, `panic` = any Rust panic (index out of bounds, `debug_assert!`,
    `unreachable!`) and also exhaustion of the fuel of a modelled loop (C13 proves neither happens). -/
inductive Res (α : Type) where
  | ok (a : α)
  | eof
  | invalid
  | panic
  deriving Repr, DecidableEq

/-- the required methods of `trait ByteReader` over a reader state `σ`. Every method returns the new
    state as well: `peek_u8`, `check_eor` and `has_more_bytes` take `&self` in Rust but the adapter
    mutates its `BufReader` through a `RefCell` in them. -/
structure Reader (σ : Type) where
  readU8 : σ → Res Nat × σ
  peekU8 : σ → Res Nat × σ
  readSlice : Nat → σ → Res (List Nat) × σ
  readArray : Nat → σ → Res (List Nat) × σ
  checkEor : Nat → σ → Res Unit × σ
  hasMore : σ → Bool × σ

-- ---------------------------------------------------------------------------------------------
-- provided methods of the trait

/-- `uN::from_le_bytes` -/
def leNat : List Nat → Nat
  | [] => 0
  | b :: bs => b + 256 * leNat bs

/-- `u8::trailing_zeros` (8 for the byte 0) -/
def tz8 (b : Nat) : Nat :=
  if b % 2 = 1 then 0 else if b % 4 = 2 then 1 else if b % 8 = 4 then 2 else if b % 16 = 8 then 3
  else if b % 32 = 16 then 4 else if b % 64 = 32 then 5 else if b % 128 = 64 then 6
  else if b % 256 = 128 then 7 else 8

def isCont (b : Nat) : Bool := 128 ≤ b && b ≤ 191

/-- `core::str::from_utf8(..).is_ok()`: well-formed UTF-8 (no overlong forms, no surrogates, ≤ U+10FFFF) -/
def utf8Valid : List Nat → Bool
  | [] => true
  | b :: rest =>
    if b < 128 then utf8Valid rest
    else if 194 ≤ b && b ≤ 223 then
      match rest with
      | c :: r => isCont c && utf8Valid r
      | _ => false
    else if 224 ≤ b && b ≤ 239 then
      match rest with
      | c :: d :: r =>
        (if b = 224 then 160 ≤ c && c ≤ 191 else if b = 237 then 128 ≤ c && c ≤ 159 else isCont c)
          && isCont d && utf8Valid r
      | _ => false
    else if 240 ≤ b && b ≤ 244 then
      match rest with
      | c :: d :: e :: r =>
        (if b = 240 then 144 ≤ c && c ≤ 191 else if b = 244 then 128 ≤ c && c ≤ 143 else isCont c)
          && isCont d && isCont e && utf8Valid r
      | _ => false
    else false

/-- sequencing with `?`: run `m`, on `Ok(a)` continue with `f a`, otherwise return the error (the state
    keeps whatever `m` did to it: "if the error occurs, the reader is not rolled back") -/
def andThen {σ α β : Type} (m : σ → Res α × σ) (f : α → σ → Res β × σ) : σ → Res β × σ := fun s =>
  match m s with
  | (.ok a, s') => f a s'
  | (.eof, s') => (.eof, s')
  | (.invalid, s') => (.invalid, s')
  | (.panic, s') => (.panic, s')

/-- `Ok(a)` -/
def ret {σ α : Type} (a : α) : σ → Res α × σ := fun s => (.ok a, s)

section provided
variable {σ : Type} (R : Reader σ)

/-- `read_bool` -/
def readBool : σ → Res Bool × σ :=
  andThen R.readU8 fun b s =>
    if b = 0 then (.ok false, s) else if b = 1 then (.ok true, s) else (.invalid, s)

/-- `read_u16/u32/u64/u128`: `read_array::<k>` then `from_le_bytes` -/
def readInt (k : Nat) : σ → Res Nat × σ :=
  andThen (R.readArray k) fun bs => ret (leNat bs)

/-- `read_usize` (vint64). The final range check against `usize::MAX` cannot fail on a 64-bit target. -/
def readUsize : σ → Res Nat × σ :=
  andThen R.peekU8 fun first =>
    let length := tz8 first + 1
    if length = 9 then
      -- 9-byte special case
      andThen R.readU8 fun _ => andThen (R.readArray 8) fun bs => ret (leNat bs)
    else
      andThen (R.readSlice length) fun bs => ret (leNat bs / 2 ^ length)

/-- `read_vec` -/
def readVec (n : Nat) : σ → Res (List Nat) × σ := R.readSlice n

/-- `read_string`; the string is represented by its bytes -/
def readString (n : Nat) : σ → Res (List Nat) × σ :=
  andThen (readVec R n) fun bs s => if utf8Valid bs then (.ok bs, s) else (.invalid, s)

/-- element types `D` of `read_many::<D>` / `read::<D>` that are modelled: `u8 … usize`, the zero-width
    `()`, `Option<u8>` and the tuple `(u8, u16)`. Values are encoded as naturals: `()` ↦ 0, `None` ↦ 0,
    `Some(v)` ↦ v + 1, `(a, b)` ↦ a * 65536 + b. -/
inductive Elem where
  | u8 | u16 | u32 | u64 | u128 | usize | unit | optU8 | pairU8U16
  deriving Repr, DecidableEq

/-- `D::read_from` -/
def readElem (e : Elem) : σ → Res Nat × σ :=
  match e with
  | .u8 => R.readU8
  | .u16 => readInt R 2
  | .u32 => readInt R 4
  | .u64 => readInt R 8
  | .u128 => readInt R 16
  | .usize => readUsize R
  | .unit => ret 0
  | .optU8 => andThen (readBool R) fun b => if b then andThen R.readU8 fun v => ret (v + 1) else ret 0
  | .pairU8U16 => andThen R.readU8 fun a => andThen (readInt R 2) fun b => ret (a * 65536 + b)

/-- `read_many::<D>(n)`: n elements in order, stopping at the first error -/
def readMany (e : Elem) : Nat → σ → Res (List Nat) × σ
  | 0 => ret []
  | k + 1 => andThen (readElem R e) fun v => andThen (readMany e k) fun vs => ret (v :: vs)

end provided

-- ---------------------------------------------------------------------------------------------
-- operations and histories

inductive Op where
  | readU8 | peekU8
  | readSlice (n : Nat) | readArray (n : Nat)
  | readBool | readU16 | readU32 | readU64 | readU128 | readUsize
  | readVec (n : Nat) | readString (n : Nat)
  | readMany (e : Elem) (n : Nat)
  | checkEor (n : Nat) | hasMore
  deriving Repr, DecidableEq

/-- returned values -/
inductive Val where
  | nat (n : Nat)
  | bool (b : Bool)
  | bytes (bs : List Nat)
  | nats (vs : List Nat)
  | unit
  deriving Repr, DecidableEq

def Res.val {α : Type} (f : α → Val) : Res α → Res Val
  | .ok a => .ok (f a)
  | .eof => .eof
  | .invalid => .invalid
  | .panic => .panic

/-- one `ByteReader` call -/
def step {σ : Type} (R : Reader σ) (op : Op) (s : σ) : Res Val × σ :=
  match op with
  | .readU8 => let r := R.readU8 s; (r.1.val .nat, r.2)
  | .peekU8 => let r := R.peekU8 s; (r.1.val .nat, r.2)
  | .readSlice n => let r := R.readSlice n s; (r.1.val .bytes, r.2)
  | .readArray n => let r := R.readArray n s; (r.1.val .bytes, r.2)
  | .readBool => let r := readBool R s; (r.1.val .bool, r.2)
  | .readU16 => let r := readInt R 2 s; (r.1.val .nat, r.2)
  | .readU32 => let r := readInt R 4 s; (r.1.val .nat, r.2)
  | .readU64 => let r := readInt R 8 s; (r.1.val .nat, r.2)
  | .readU128 => let r := readInt R 16 s; (r.1.val .nat, r.2)
  | .readUsize => let r := readUsize R s; (r.1.val .nat, r.2)
  | .readVec n => let r := readVec R n s; (r.1.val .bytes, r.2)
  | .readString n => let r := readString R n s; (r.1.val .bytes, r.2)
  | .readMany e n => let r := readMany R e n s; (r.1.val .nats, r.2)
  | .checkEor n => let r := R.checkEor n s; (r.1.val (fun _ => .unit), r.2)
  | .hasMore => let r := R.hasMore s; (.ok (.bool r.1), r.2)

/-- a history: the results of all calls, and the final state -/
def run {σ : Type} (R : Reader σ) : List Op → σ → List (Res Val) × σ
  | [], s => ([], s)
  | op :: ops, s =>
    let r := step R op s
    let rest := run R ops r.2
    (r.1 :: rest.1, rest.2)

-- ---------------------------------------------------------------------------------------------
-- the reference: the in-memory reader

/-- the in-memory reader written directly on the bytes that are left -/
def Mem : Reader (List Nat) where
  readU8 := fun l => match l with
    | [] => (.eof, [])
    | b :: t => (.ok b, t)
  peekU8 := fun l => match l with
    | [] => (.eof, [])
    | b :: _ => (.ok b, l)
  readSlice := fun n l => if l.length < n then (.eof, l) else (.ok (l.take n), l.drop n)
  readArray := fun n l => if l.length < n then (.eof, l) else (.ok (l.take n), l.drop n)
  checkEor := fun n l => if l.length < n then (.eof, l) else (.ok (), l)
  hasMore := fun l => (!l.isEmpty, l)

/-- `struct SliceReader { source, pos }` -/
structure Slice where
  source : List Nat
  pos : Nat
  deriving Repr

namespace Slice

/-- `SliceReader::check_eor`: `num_bytes > self.source.len() - self.pos` (`usize` subtraction; it would
    underflow, i.e. panic, if `pos` exceeded the length) -/
def checkEor (t : Slice) (n : Nat) : Res Unit × Slice :=
  if t.source.length < t.pos then (.panic, t)
  else if n > t.source.length - t.pos then (.eof, t) else (.ok (), t)

/-- `self.source[self.pos]`: an index out of bounds is a panic -/
def readU8 (t : Slice) : Res Nat × Slice :=
  andThen (fun t => checkEor t 1) (fun _ t =>
    match t.source[t.pos]? with
    | some b => (.ok b, { t with pos := t.pos + 1 })
    | none => (.panic, t)) t

def peekU8 (t : Slice) : Res Nat × Slice :=
  andThen (fun t => checkEor t 1) (fun _ t =>
    match t.source[t.pos]? with
    | some b => (.ok b, t)
    | none => (.panic, t)) t

/-- `&self.source[self.pos..self.pos + len]`: a range out of bounds is a panic -/
def readSlice (t : Slice) (n : Nat) : Res (List Nat) × Slice :=
  andThen (fun t => checkEor t n) (fun _ t =>
    if t.pos + n ≤ t.source.length then (.ok ((t.source.drop t.pos).take n), { t with pos := t.pos + n })
    else (.panic, t)) t

def hasMore (t : Slice) : Bool × Slice := (decide (t.pos < t.source.length), t)

def reader : Reader Slice where
  readU8 := readU8
  peekU8 := peekU8
  readSlice := fun n t => readSlice t n
  readArray := fun n t => readSlice t n      -- `read_array::<N>` is `read_slice(N)` copied into an array
  checkEor := fun n t => checkEor t n
  hasMore := hasMore

def new (bytes : List Nat) : Slice := { source := bytes, pos := 0 }

/-- the bytes not yet read -/
def rest (t : Slice) : List Nat := t.source.drop t.pos

end Slice

-- ---------------------------------------------------------------------------------------------
-- the streaming reader

/-- The reads a `BufReader` of capacity `cap` performs on a source whose `read` would return the given
    chunks when offered an unbounded buffer: a chunk longer than `cap` is delivered in pieces (`fuel` ≥
    chunk length suffices; `capSplit` supplies it). -/
def splitCap (cap : Nat) : Nat → List Nat → List (List Nat)
  | 0, c => [c]
  | fuel + 1, c => if c.length ≤ cap ∨ cap = 0 then [c] else c.take cap :: splitCap cap fuel (c.drop cap)

def capSplit (cap : Nat) (chunks : List (List Nat)) : List (List Nat) :=
  (chunks.map (fun c => splitCap cap c.length c)).flatten

/-- State of `ReadAdapter` together with the `BufReader` and the source it wraps.
    * `src`: what the successive `read` calls on the underlying source will return (`[]` = `Ok(0)`;
      after the list is exhausted every read returns `Ok(0)`);
    * `eofSeen` (ghost): some `read` has already returned `Ok(0)`;
    * `rbuf`: the unread part of the `BufReader`'s buffer;
    * `buf`, `pos`, `geof`: the fields `buf`, `pos`, `guaranteed_eof`;
    * `orc`: the future answers of `!has_remaining_capacity(len)` in `read_slice` (depends on `Vec`'s
      allocation strategy, which is not modelled; `[]` = always `false`). -/
structure St where
  src : List (List Nat)
  eofSeen : Bool := false
  rbuf : List Nat := []
  buf : List Nat := []
  pos : Nat := 0
  geof : Bool := false
  orc : List Bool := []
  deriving Repr

namespace St

/-- `ReadAdapter::new` over a source that will deliver `chunks` -/
def new (chunks : List (List Nat)) (orc : List Bool := []) : St := { src := chunks, orc := orc }

/-- `buffer()`: `self.buf.get(self.pos..).unwrap_or(&[])` -/
def unread (s : St) : List Nat := s.buf.drop s.pos

/-- `BufReader::fill_buf`: the buffered bytes if any, otherwise one `read` of the source -/
def fill (s : St) : St :=
  if s.rbuf.isEmpty then
    match s.src with
    | [] => { s with eofSeen := true }
    | c :: rest => { s with rbuf := c, src := rest, eofSeen := s.eofSeen || c.isEmpty }
  else s

/-- `non_empty_reader_buffer_mut`: `false` = `Err(UnexpectedEOF)`, which also sets `guaranteed_eof` -/
def fillMut (s : St) : Bool × St :=
  let s1 := fill s
  if s1.rbuf.isEmpty then (false, { s1 with geof := true }) else (true, s1)

/-- `pop` -/
def pop (s : St) : Res Nat × St :=
  match s.unread with
  | b :: _ => (.ok b, { s with pos := s.pos + 1 })
  | [] =>
    let s1 := fill s
    match s1.rbuf with
    | b :: r => (.ok b, { s1 with rbuf := r })
    | [] => (.eof, { s1 with geof := true })

/-- the loop of `buffer_at_least(count)`: pull whole `BufReader` buffers into `buf` until `buffer()` holds
    `count` bytes or the source ends; `fuel` bounds the number of iterations -/
def bufferAtLeastF : Nat → St → Nat → Res Unit × St
  | 0, s, _ => (.panic, s)
  | fuel + 1, s, count =>
    if s.unread.length ≥ count then (.ok (), s)
    else
      let r := fillMut s
      if r.1 then
        let s1 := r.2
        bufferAtLeastF fuel { s1 with buf := s1.buf ++ s1.rbuf, rbuf := [] } count
      else (.eof, r.2)

/-- `buffer_at_least`: every iteration but the first starts with an empty `BufReader` buffer and takes
    one chunk of the source, so `src.length + 2` iterations always suffice (C13 proves it) -/
def bufferAtLeast (s : St) (count : Nat) : Res Unit × St :=
  bufferAtLeastF (s.src.length + 2) s count

/-- `read_slice` -/
def readSlice (s : St) (len : Nat) : Res (List Nat) × St :=
  if len = 0 then (.ok [], s)
  else
    let full := s.orc.headD false
    let s0 := { s with orc := s.orc.tail }
    -- should_optimize_storage: move the unread bytes to the front of `buf`
    let s1 := if s0.pos ≥ 16 ∧ full then { s0 with buf := s0.unread, pos := 0 } else s0
    andThen (fun s => bufferAtLeast s len) (fun _ s2 =>
      -- `&self.buf[start..start + len]` with `start = pos`
      if s2.unread.length < len then (.panic, s2)
      else (.ok (s2.unread.take len), { s2 with pos := s2.pos + len })) s1

/-- the tail of `read_exact`: "check if we should reset our internal buffer" -/
def resetIfDrained (s : St) : St :=
  if s.unread.isEmpty ∧ s.pos > 0 then { s with buf := [], pos := 0 } else s

/-- the fallback of `read_exact::<N>`: fill `buf` until it holds `N` unread bytes and take them (no reset
    check on this path). The slice `buffer()[..N]` / the `debug_assert!` panic when fewer are there. -/
def exactFromBuf (s : St) (N : Nat) : Res (List Nat) × St :=
  andThen (fun s => bufferAtLeast s N) (fun _ s2 =>
    if s2.unread.length < N then (.panic, s2)
    else (.ok (s2.unread.take N), { s2 with pos := s2.pos + N })) s

/-- `read_exact::<N>` -/
def readExact (s : St) (N : Nat) : Res (List Nat) × St :=
  let n := s.unread.length
  if n = 0 then
    let r := fillMut s
    if r.1 then
      let s1 := r.2
      if s1.rbuf.length < N then exactFromBuf s1 N
      else (.ok (s1.rbuf.take N), resetIfDrained { s1 with rbuf := s1.rbuf.drop N })
    else (.eof, r.2)
  else if n ≥ N then
    (.ok (s.unread.take N), resetIfDrained { s with pos := s.pos + N })
  else
    -- we have to fill from both the local and reader buffers
    let r := fillMut s
    if r.1 then
      let s1 := r.2
      let m := s1.rbuf.length
      if m + n ≥ N then
        (.ok (s1.unread ++ s1.rbuf.take (N - n)),
         resetIfDrained { s1 with pos := s1.pos + n, rbuf := s1.rbuf.drop (N - n) })
      else exactFromBuf s1 N
    else (.eof, r.2)

/-- `read_array::<N>` -/
def readArray (s : St) (N : Nat) : Res (List Nat) × St :=
  if N = 0 then (.ok [], s) else readExact s N

/-- `peek_u8` (`non_empty_reader_buffer` does not touch `guaranteed_eof`) -/
def peekU8 (s : St) : Res Nat × St :=
  match s.unread with
  | b :: _ => (.ok b, s)
  | [] =>
    let s1 := fill s
    match s1.rbuf with
    | b :: _ => (.ok b, s1)
    | [] => (.eof, s1)

/-- `check_eor` -/
def checkEor (s : St) (n : Nat) : Res Unit × St :=
  let bl := s.unread.length
  if bl ≥ n then (.ok (), s)
  else
    let s1 := fill s
    if s1.rbuf.isEmpty then (.eof, s1)
    else if bl + s1.rbuf.length ≥ n then (.ok (), s1)
    else if s1.geof then (.eof, s1)
    else (.ok (), s1)

/-- `has_more_bytes` -/
def hasMore (s : St) : Bool × St :=
  if s.unread.isEmpty then
    let s1 := fill s
    (!s1.rbuf.isEmpty, s1)
  else (true, s)

def reader : Reader St where
  readU8 := pop
  peekU8 := peekU8
  readSlice := fun n s => readSlice s n
  readArray := fun n s => readArray s n
  checkEor := fun n s => checkEor s n
  hasMore := hasMore

/-- the bytes the adapter has not handed out yet -/
def abs (s : St) : List Nat := s.unread ++ s.rbuf ++ s.src.flatten

end St

end Model.Reader
