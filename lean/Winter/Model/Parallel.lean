-- C14: the partition / commutation model of the `concurrent` code paths.
--
-- Every concurrent routine of the repository is "a set of tasks, each reading immutable inputs (or its own
-- earlier writes) and writing an index set".  This file has
--   * the generic part: steps on an array state, footprints, schedules (arbitrary interleavings of the tasks'
--     step lists), non-interference;
--   * the index arithmetic of each routine as the Rust code computes it (Nat arithmetic, `none` = the panic):
--       utils/core/src/iterators.rs          batch_iter_mut!            -> batchIterMut
--       slice::par_chunks_mut / chunks_mut                              -> chunks
--       math/src/fft/concurrent.rs           permute                    -> permuteTasks
--                                            split_radix_fft            -> splitRadix (functional form)
--                                            clone_and_shift, interpolate_poly_with_offset -> shiftBatches
--       crypto/src/merkle/concurrent.rs      build_merkle_nodes         -> merkleTaskLevels, merkleTip
--       prover/src/constraints/evaluator/default.rs + evaluation_table.rs  fragments -> numFragments, evalFragments
--       prover/src/trace/trace_table.rs      fragments                  -> traceFragments
--       prover/src/matrix/row_matrix.rs      transpose                  -> transposeBatches
--       prover/src/matrix/segments.rs        concurrent::permute        -> (permuteTasks with twice the batches)
--   * the chunked value computations (power series, batch inversion, shifts) over an operation record.
-- No Mathlib; the theorems are in WinterProofs/C14.lean.  What this model cannot exhibit is named there
-- ("runtime scheduling"): data races in the language memory model, rayon's scheduler, which nonce `find_any` returns.
import Winter.Model.Fft

namespace Model.Parallel
open Model.Fft (brev permuteIndex isPow2)

/-! ## generic: steps, footprints, schedules -/

/-- one atomic step of a task on an array state (index ↦ value) -/
structure Step (α : Type) where
  /-- the task the step belongs to -/
  task : Nat
  run : (Nat → α) → (Nat → α)

/-- execute the steps in list order -/
def runAll {α : Type} (steps : List (Step α)) (s : Nat → α) : Nat → α :=
  steps.foldl (fun s st => st.run s) s

/-- `st` writes only inside `W`, and what it writes there is a function of the state on `R` -/
structure Footprint {α : Type} (st : Step α) (R W : Nat → Prop) : Prop where
  frame : ∀ s i, ¬ W i → st.run s i = s i
  determined : ∀ s s', (∀ i, R i → s i = s' i) → ∀ i, W i → st.run s i = st.run s' i

/-- neither step writes what the other reads or writes -/
def NonInterfering (Ra Wa Rb Wb : Nat → Prop) : Prop :=
  (∀ i, Wa i → ¬ Rb i ∧ ¬ Wb i) ∧ (∀ i, Wb i → ¬ Ra i ∧ ¬ Wa i)

/-- the steps of task `t` in schedule order -/
def stepsOf {α : Type} (t : Nat) (l : List (Step α)) : List (Step α) := l.filter (fun st => st.task == t)

/-- `sched` is an interleaving of the tasks' step lists: it consists of exactly the steps of `tasks.flatten`
    and runs the steps of every single task in that task's own order.  (Schedules at task granularity —
    permutations of whole tasks — are the special case.) -/
def IsSchedule {α : Type} (tasks : List (List (Step α))) (sched : List (Step α)) : Prop :=
  sched.length = tasks.flatten.length ∧ ∀ t, stepsOf t sched = stepsOf t tasks.flatten

/-- write `v` at index `i` -/
def setAt {α : Type} (s : Nat → α) (i : Nat) (v : α) : Nat → α := fun p => if p = i then v else s p

/-- `slice.swap(i, j)` -/
def swapAt {α : Type} (s : Nat → α) (i j : Nat) : Nat → α :=
  fun p => if p = i then s j else if p = j then s i else s p

/-! ## integer helpers -/

/-- `usize::next_power_of_two` (0 ↦ 1) -/
def nextPow2 (n : Nat) : Nat := if n ≤ 1 then 1 else 2 ^ (Nat.log2 (n - 1) + 1)

/-- number of chunks `chunks_mut(size)` / `par_chunks_mut(size)` produces on `len` elements -/
def numChunks (len size : Nat) : Nat := (len + size - 1) / size

/-- (offset, length) of chunk `i`: the last one may be ragged -/
def chunk (len size i : Nat) : Nat × Nat := (i * size, min size (len - i * size))

/-- `par_chunks_mut(size)`: `none` = the panic "chunk_size must not be zero" -/
def chunks (len size : Nat) : Option (List (Nat × Nat)) :=
  if size = 0 then none else some ((List.range (numChunks len size)).map (chunk len size))

/-! ## `batch_iter_mut!` -/

/-- the (offset, length) batches `batch_iter_mut!(e, c)` (`min = none`) / `batch_iter_mut!(e, min, c)` hands to the
    closure when `concurrent` is on and the pool has `threads` threads: `batch_size = len / threads.next_power_of_two()`,
    one batch `(0, len)` when `batch_size < min` (`< 1` in the two-argument form), `par_chunks_mut(batch_size)` otherwise -/
def batchIterMut (len : Nat) (min : Option Nat) (threads : Nat) : Option (List (Nat × Nat)) :=
  let bs := len / nextPow2 threads
  if bs < min.getD 1 then some [(0, len)] else chunks len bs

/-- the serial build: always the whole slice -/
def batchIterMutSerial (len : Nat) : List (Nat × Nat) := [(0, len)]

/-! ## concurrent `permute` (math/src/fft/concurrent.rs; prover/src/matrix/segments.rs uses `factor = 2`) -/

/-- number of spawned tasks: `threads.next_power_of_two() * factor`, at most `n` -/
def permuteNumTasks (n threads factor : Nat) : Nat := min (nextPow2 threads * factor) n

/-- the index range `[start, start + len)` task `b` loops over -/
def permuteTaskRange (n threads factor b : Nat) : Nat × Nat :=
  let bs := n / permuteNumTasks n threads factor
  (b * bs, bs)

/-- `let j = permute_index(n, i); if j > i { values.swap(i, j) }` (a panic of `permute_index` leaves the state) -/
def permuteStepFn {α : Type} (n i : Nat) (s : Nat → α) : Nat → α :=
  match permuteIndex n i with
  | some j => if j > i then swapAt s i j else s
  | none => s

def permuteStep {α : Type} (n task i : Nat) : Step α := { task := task, run := permuteStepFn n i }

/-- the step lists of the spawned tasks -/
def permuteTasks {α : Type} (n threads factor : Nat) : List (List (Step α)) :=
  (List.range (permuteNumTasks n threads factor)).map (fun b =>
    let r := permuteTaskRange n threads factor b
    (List.range' r.1 r.2).map (permuteStep n b))

/-- the serial loop `for i in 0..n` -/
def permuteSerial {α : Type} (n : Nat) : List (Step α) := (List.range n).map (permuteStep n 0)

/-! ## concurrent `build_merkle_nodes` -/

/-- `num_subtrees = min(threads.next_power_of_two(), n)` where `n = leaves / 2` -/
def merkleSubtrees (n threads : Nat) : Nat := min (nextPow2 threads) n

/-- the `while start_idx >= num_subtrees` loop of one spawned task: (start_idx, batch_size) of every iteration;
    the iteration writes nodes `start_idx .. start_idx + batch_size` (downwards) from their children -/
def merkleLoop (S : Nat) : Nat → Nat → Nat → List (Nat × Nat)
  | 0, _, _ => []
  | fuel + 1, start, bs => if start ≥ S then (start, bs) :: merkleLoop S fuel (start / 2) (bs / 2) else []

/-- task `i` of `num_subtrees = S` on `n` parent-of-leaf nodes: `batch_size = n / S / 2`, `start_idx = n / 2 + batch_size * i`
    (64 iterations exhaust a `usize`) -/
def merkleTaskLevels (n S i : Nat) : List (Nat × Nat) :=
  merkleLoop S 64 (n / 2 + (n / S / 2) * i) (n / S / 2)

/-- the tip, finished by the calling thread after the scope: nodes `S-1, …, 1` -/
def merkleTip (S : Nat) : List Nat := (List.range' 1 (S - 1)).reverse

/-- the nodes a task writes, in the order it writes them -/
def merkleTaskWrites (n S i : Nat) : List Nat :=
  (merkleTaskLevels n S i).flatMap (fun p => (List.range' p.1 p.2).reverse)

/-- `nodes[k] = H::merge(&two_nodes[k])` in heap numbering: node `k` from its children `2k`, `2k+1`; the `2n` leaves
    of the tree are the indexes `[2n, 4n)` of the state and are never written -/
def merkleStep {α : Type} (merge : α → α → α) (task k : Nat) : Step α :=
  { task := task, run := fun s => setAt s k (merge (s (2 * k)) (s (2 * k + 1))) }

/-- the first phase (`par_iter_mut().zip(..)`): one task per parent-of-leaves node `n + j` -/
def merkleFirstRow {α : Type} (merge : α → α → α) (n : Nat) : List (List (Step α)) :=
  (List.range n).map (fun j => [merkleStep merge j (n + j)])

/-- the spawned tasks of the second phase -/
def merkleTasks {α : Type} (merge : α → α → α) (n S : Nat) : List (List (Step α)) :=
  (List.range S).map (fun i => (merkleTaskWrites n S i).map (merkleStep merge i))

/-- the tip, on the calling thread -/
def merkleTipSteps {α : Type} (merge : α → α → α) (S : Nat) : List (Step α) := (merkleTip S).map (merkleStep merge 0)

/-- the serial `build_merkle_nodes`: first row upwards, then nodes `n-1, …, 1` -/
def merkleSerial {α : Type} (merge : α → α → α) (n : Nat) : List (Step α) :=
  (List.range n).map (fun j => merkleStep merge 0 (n + j)) ++ ((List.range' 1 (n - 1)).reverse).map (merkleStep merge 0)

/-! ## fragments -/

/-- `DefaultConstraintEvaluator::evaluate`: number of fragments for a constraint evaluation domain of `ce` rows -/
def numFragments (ce threads : Nat) : Nat := if ce ≥ 8192 then min (nextPow2 threads) (ce / 16) else 1

/-- `ConstraintEvaluationTable::fragments(k)`: (offset, rows) of every fragment; `none` = the assertion
    `fragment_size >= 16`, the division by zero for `k = 0`, or `make_fragments` indexing past `k` fragments -/
def evalFragments (rows k : Nat) : Option (List (Nat × Nat)) :=
  if k = 0 then none
  else if rows / k < 16 then none
  else if numChunks rows (rows / k) ≠ k then none
  else chunks rows (rows / k)

/-- `TraceTable::new(_, len)` followed by `fragments(fragLen)`: (index, offset, length); `none` = an assertion -/
def traceFragments (len fragLen : Nat) : Option (List (Nat × Nat × Nat)) :=
  if len < 8 ∨ !isPow2 len then none
  else if fragLen < 2 ∨ fragLen > len ∨ !isPow2 fragLen then none
  else some ((List.range (len / fragLen)).map (fun i => (i, i * fragLen, fragLen)))

/-- `transpose` of prover/src/matrix/row_matrix.rs (more than one segment): number of batches and rows per batch -/
def transposeBatches (numRows numSegs threads : Nat) : Nat × Nat :=
  let nb := if numRows * numSegs < 1024 then 1 else min (nextPow2 threads * 2) numRows
  (nb, numRows / nb)

/-! ## chunked value computations over an operation record -/

structure FOps (F : Type) where
  one : F
  zero : F
  mul : F → F → F
  inv : F → F
  isZero : F → Bool

/-- `b.exp(e)` by repeated multiplication (the value; the code uses square-and-multiply) -/
def powF {F : Type} (o : FOps F) (b : F) : Nat → F
  | 0 => o.one
  | e + 1 => o.mul (powF o b e) b

/-- `fill_power_series(result, base, start)`: `[start, start*base, …]` -/
def fillSeries {F : Type} (o : FOps F) (base : F) : Nat → F → List F
  | 0, _ => []
  | n + 1, start => start :: fillSeries o base n (o.mul start base)

/-- serial `get_power_series_with_offset(b, s, n)` (`s = 1`: `get_power_series`) -/
def powerSeriesSerial {F : Type} (o : FOps F) (b s : F) (n : Nat) : List F := fillSeries o b n (o.mul s (powF o b 0))

/-- the concurrent one: every batch `(offset, len)` starts at `s * b.exp(offset)` -/
def powerSeriesBatched {F : Type} (o : FOps F) (b s : F) (batches : List (Nat × Nat)) : List F :=
  batches.flatMap (fun p => fillSeries o b p.2 (o.mul s (powF o b p.1)))

/-- `serial_batch_inversion(values, result)`: forward pass (running products skipping zeros) … -/
def invForward {F : Type} (o : FOps F) : List F → F → List F × F
  | [], last => ([], last)
  | v :: vs, last =>
    let r := invForward o vs (if o.isZero v then last else o.mul last v)
    (last :: r.1, r.2)

/-- … and the backward pass over (value, prefix product) pairs from the end -/
def invBackward {F : Type} (o : FOps F) : List (F × F) → F → List F
  | [], _ => []
  | (v, pre) :: rest, last =>
    if o.isZero v then o.zero :: invBackward o rest last
    else o.mul pre last :: invBackward o rest (o.mul last v)

def serialBatchInversion {F : Type} (o : FOps F) (values : List F) : List F :=
  let f := invForward o values o.one
  (invBackward o (values.zip f.1).reverse (o.inv f.2)).reverse

/-- `batch_inversion` with `concurrent`: every batch inverts its own slice of the values -/
def batchInversionBatched {F : Type} (o : FOps F) (values : List F) (batches : List (Nat × Nat)) : List F :=
  batches.flatMap (fun p => serialBatchInversion o ((values.drop p.1).take p.2))

/-- `clone_and_shift` / the scaling loop of `interpolate_poly_with_offset`: element `off + i` of the batch at `off`
    is multiplied by `c * offset.exp(off) * offset^i` -/
def shiftBatch {F : Type} (o : FOps F) (offset c : F) (xs : List F) (off : Nat) : List F :=
  (xs.zip (fillSeries o offset xs.length (o.mul (powF o offset off) c))).map (fun p => o.mul p.1 p.2)

def shiftBatched {F : Type} (o : FOps F) (offset c : F) (values : List F) (batches : List (Nat × Nat)) : List F :=
  batches.flatMap (fun p => shiftBatch o offset c ((values.drop p.1).take p.2) p.1)

/-! ## `split_radix_fft` in functional form

`n = inner * outer`, `inner = 2^(k/2)`, `outer = n / inner`, `stretch = outer / inner ∈ {1, 2}`.  The array is a
function of the index; `rowFft j ρ x` is the serial transform of `2^j` values (bit-reversed output) with root `ρ`,
a parameter here (C09 is about it). -/

/-- `transpose_square_stretch(values, size, stretch)`: the element at `(r*size + c)*stretch + t` and the one at
    `(c*size + r)*stretch + t` change places -/
def transposeIdx (size stretch p : Nat) : Nat :=
  let t := p % stretch
  let q := p / stretch
  ((q % size) * size + q / size) * stretch + t

def transposeFn {α : Type} (size stretch : Nat) (x : Nat → α) : Nat → α := fun p => x (transposeIdx size stretch p)

/-- `par_chunks_mut(outer).for_each(|row| row.fft_in_place_raw(twiddles, stretch, stretch, 0))`: in every row,
    `stretch` interleaved transforms of `inner` values each (root `ρ`) -/
def innerRows {α : Type} (rowFft : (Nat → α) → Nat → α) (outer stretch : Nat) (x : Nat → α) : Nat → α := fun p =>
  let row := p / outer
  let q := p % outer
  rowFft (fun c => x (row * outer + c * stretch + q % stretch)) (q / stretch)

/-- the second `par_chunks_mut(outer)` loop: scale element `q` of row `i` by `g^(permute_index(inner, i) * q)`
    (`scale e v` = `v.mul_base(g^e)`; nothing for row 0 and for `q = 0`), then transform the row -/
def outerRows {α : Type} (rowFft : (Nat → α) → Nat → α) (scale : Nat → α → α) (ki outer : Nat) (x : Nat → α) :
    Nat → α := fun p =>
  let row := p / outer
  rowFft (fun q => if row = 0 ∨ q = 0 then x (row * outer + q) else scale (brev ki row * q) (x (row * outer + q)))
    (p % outer)

/-- `split_radix_fft` on `2^k` values: `fftI` / `fftO` are the serial transforms of `2^(k/2)` / `2^(k - k/2)` values -/
def splitRadix {α : Type} (fftI fftO : (Nat → α) → Nat → α) (scale : Nat → α → α) (k : Nat) (x : Nat → α) : Nat → α :=
  let ki := k / 2
  let inner := 2 ^ ki
  let outer := 2 ^ (k - ki)
  let stretch := outer / inner
  let a1 := transposeFn inner stretch x
  let a2 := innerRows fftI outer stretch a1
  let a3 := transposeFn inner stretch a2
  outerRows fftO scale ki outer a3

end Model.Parallel
