-- Hand-written executable model of what happens to UNTRUSTED bytes (property C06):
--   * `parseProof`: `Proof::from_bytes` (air/src/proof/mod.rs, context.rs, air/src/air/trace_info.rs,
--     air/src/options.rs, commitments.rs, queries.rs, ood_frame.rs, fri/src/proof.rs, the readers of
--     utils/core/src/serde) over a `SliceReader`, WITH AN ALLOCATION COUNTER: every `read_vec(n)`,
--     `Vec::with_capacity(n)`, `read_many(n)`, `vec![x; n]` adds the bytes it requests, at the point where the
--     code requests them (before or after the bytes are checked, as the code does);
--   * `verifyFront`: what `verify()` (verifier/src/lib.rs) does with a parsed proof up to and including
--     `VerifierChannel::new` (verifier/src/channel.rs): base-field check, acceptance policy
--     `MinConjecturedSecurity(0)`, query-count check, the AIR constructor (`AirContext::new*` as the generic AIR of
--     the harness calls it), extension support, then the parsing of commitments, queries, FRI layers, remainder
--     and out-of-domain frame (`Commitments::parse`, `Queries::parse`, `Table::from_bytes`,
--     `BatchMerkleProof::deserialize`, `FriProof::parse_remainder / parse_layers`, `OodFrame::parse`).
-- Every site where the Rust code can panic (assertion, arithmetic overflow of the debug build, `ilog2(0)`, `% 0`,
-- asserting constructor reached from a reader) is an explicit `panic` outcome, also where an earlier check makes
-- it unreachable: that it IS unreachable is what WinterProofs/C06.lean proves.
-- The model mirrors the code AFTER the repairs recorded in known_findings.json (property C06); the witnesses of
-- the repaired defects are kept as theorems about this model (they now end in `err` / `eof`).
-- Types, byte-level primitives and the acceptance predicates come from the serialization model of C12.
import Winter.Model.Serde
import Winter.Model.Protocol

namespace Model.Parse
open Model Model.Serde

-- ------------------------------------------------------------------------------------------------
-- decoders with an allocation counter

/-- a decoder over the unread bytes with the number of heap bytes requested so far -/
def PDec (α : Type) := Bytes → Nat → Res (α × Bytes) × Nat

namespace PDec
def pure (x : α) : PDec α := fun bs a => (.ok (x, bs), a)
def bind (d : PDec α) (f : α → PDec β) : PDec β := fun bs a =>
  match d bs a with
  | (.ok (x, r), a') => f x r a'
  | (.err, a') => (.err, a')
  | (.eof, a') => (.eof, a')
  | (.panic, a') => (.panic, a')
instance : Monad PDec where
  pure := PDec.pure
  bind := PDec.bind
end PDec

/-- a `ByteReader` primitive: requests no memory -/
def lift (d : Dec α) : PDec α := fun bs a => (d bs, a)
/-- `n` bytes requested from the allocator -/
def alloc (n : Nat) : PDec Unit := fun bs a => (.ok ((), bs), a + n)
def pfail : PDec α := fun _ a => (.err, a)
def ppanic : PDec α := fun _ a => (.panic, a)
/-- `if reader.has_more_bytes() { return Err(UnconsumedBytes) }` -/
def pEnd : PDec Unit := fun bs a => if bs.isEmpty then (.ok ((), bs), a) else (.err, a)

def u8 : PDec Nat := lift readU8

/-- `read_vec(n)`: `read_slice(n)` (bounds check first), then `to_vec()` -/
def readVec (n : Nat) : PDec Bytes := do
  let s ← lift (readSlice n)
  alloc n
  pure s

/-- `write_uN(len); write_bytes` blocks: `read_uN` then `read_vec` -/
def pBlock (k : Nat) : PDec Bytes := do
  let n ← lift (readUInt k)
  readVec n

/-- `MAX_PREALLOCATED_BYTES` of `ByteReader::read_many` (repair 0bf474e) -/
def MAX_PREALLOC : Nat := 65536

/-- elements `read_many` pre-allocates for `n` requested elements of `size` bytes -/
def preallocCount (size n : Nat) : Nat := min n (MAX_PREALLOC / max size 1)

def loopMany (d : PDec α) : Nat → PDec (List α)
  | 0 => pure []
  | n + 1 => do
    let x ← d
    let xs ← loopMany d n
    pure (x :: xs)

/-- an element pushed onto a vector: `g` bytes are requested for the growth of the vector -/
def growing (g : Nat) (d : PDec α) : PDec α := do
  let x ← d
  alloc g
  pure x

/-- `read_many::<D>(n)` with `size_of::<D>() = size`: a bounded pre-allocation, then one element after the other;
    when more elements than pre-allocated are requested the vector grows by doubling while it is filled, counted
    as twice the element size per element read -/
def readManyA (size : Nat) (d : PDec α) (n : Nat) : PDec (List α) := do
  alloc (preallocCount size n * size)
  loopMany (growing (if n ≤ MAX_PREALLOC / max size 1 then 0 else 2 * size) d) n

-- ------------------------------------------------------------------------------------------------
-- Proof::from_bytes

open Gen.Limits in
/-- `ProofOptions::read_from` (repair 01a5214): six bytes, the checks, then the asserting constructor -/
def pOptions : PDec ProofOptions := do
  let nq ← u8
  let bl ← u8
  let gr ← u8
  let fe ← lift fext.dec
  let ff ← u8
  let rd ← u8
  if nq = 0 ∨ nq > MAX_NUM_QUERIES then pfail else
  if pow2 bl = false ∨ bl < MIN_BLOWUP_FACTOR ∨ bl > MAX_BLOWUP_FACTOR then pfail else
  if gr > MAX_GRINDING_FACTOR then pfail else
  if pow2 ff = false ∨ ff < FRI_MIN_FOLDING_FACTOR ∨ ff > FRI_MAX_FOLDING_FACTOR then pfail else
  if pow2 (rd + 1) = false ∨ rd > FRI_MAX_REMAINDER_DEGREE then pfail else
  let o : ProofOptions := ⟨nq, bl, gr, fe, ff, rd⟩
  -- `ProofOptions::new` asserts
  if o.wf then pure o else ppanic

open Gen.Limits in
/-- `TraceInfo::read_from` (repair 0353f38: the shift is checked) followed by `new_multi_segment` -/
def pTraceInfo : PDec TraceInfo := do
  let main ← u8
  if main = 0 then pfail else do
  let aux ← u8
  if main + aux > MAX_TRACE_WIDTH then pfail else do
  let rands ← u8
  if aux = 0 ∧ rands ≠ 0 then pfail else
  if rands > MAX_RAND_SEGMENT_ELEMENTS then pfail else do
  let e ← u8
  if e < 3 then pfail else
  if e ≥ 64 then pfail else do
  let n ← lift (readUInt 2)
  let md ← (if n ≠ 0 then readVec n else pure [])
  let t : TraceInfo := ⟨main, aux, rands, 2 ^ e, md⟩
  -- `TraceInfo::new_multi_segment` asserts
  if t.wf then pure t else ppanic

/-- `Context::read_from` (repair 0d65c7b: the size limits of `Context::new`) -/
def pContext : PDec Context := do
  let ti ← pTraceInfo
  let n ← u8
  if n = 0 then pfail else do
  let m ← readVec n
  let o ← pOptions
  if ti.length > 4294967295 then pfail else
  if ti.length * o.blowup > 4294967295 then pfail else
  pure ⟨ti, m, o⟩

def pQueries : PDec Queries := do
  let v ← pBlock 4
  let p ← pBlock 4
  pure ⟨v, p⟩

def pOod : PDec OodFrame := do
  let t ← pBlock 2
  let l ← pBlock 2
  let e ← pBlock 2
  pure ⟨t, l, e⟩

def pFriLayer : PDec FriLayer := do
  let n ← lift (readUInt 4)
  if n = 0 then pfail else do
  let v ← readVec n
  let p ← pBlock 4
  pure ⟨v, p⟩

/-- `size_of::<FriProofLayer>()` = `size_of::<Queries>()`: two `Vec<u8>` -/
def SIZE_TWO_VECS : Nat := 48

/-- `FriProof::read_from` (repair 80aebf5: the partition exponent is checked) -/
def pFri : PDec FriProof := do
  let n ← u8
  let ls ← readManyA SIZE_TWO_VECS pFriLayer n
  let r ← pBlock 2
  let np ← u8
  if np ≥ 64 then pfail else
  pure ⟨ls, r, np⟩

/-- `Option<Vec<u8>>`: bool, vint64 length, `read_many::<u8>` -/
def pGkr : PDec (Option Bytes) := do
  let b ← lift readBool
  if b then do
    let n ← lift readUsize
    let v ← readManyA 1 u8 n
    pure (some v)
  else pure none

/-- `Proof::read_from` -/
def pProof : PDec Proof := do
  let c ← pContext
  let nuq ← u8
  let cm ← pBlock 2
  -- `Vec::with_capacity(num_trace_segments)`
  alloc (c.traceInfo.numSegments * SIZE_TWO_VECS)
  let tq ← loopMany pQueries c.traceInfo.numSegments
  let cq ← pQueries
  let ood ← pOod
  let fri ← pFri
  let nonce ← lift (readUInt 8)
  let gkr ← pGkr
  pure ⟨c, nuq, cm, tq, cq, ood, fri, nonce, gkr⟩

/-- `Proof::from_bytes`: outcome (trailing bytes are ignored) and the heap bytes requested -/
def parseProof (bs : Bytes) : Res Proof × Nat :=
  match pProof bs 0 with
  | (.ok (p, _), a) => (.ok p, a)
  | (.err, a) => (.err, a)
  | (.eof, a) => (.eof, a)
  | (.panic, a) => (.panic, a)

-- ------------------------------------------------------------------------------------------------
-- the verifier front end

/-- what the front end needs to know about the computation and the instantiation of `verify` -/
structure Air where
  F : FieldImpl
  /-- `CubeExtension::<B>::is_supported()` -/
  cubic : Bool
  /-- serialized length of a digest of the hasher, and its `size_of` -/
  digestBytes : Nat
  digestSize : Nat
  -- the generic AIR of the harness (harness/src/genair.rs `GenericAir::new`)
  exemptions : Nat
  mainDegs : List Protocol.Degree
  auxDegs : List Protocol.Degree
  nMainAssert : Nat
  nAuxAssert : Nat
  /-- width of the auxiliary segment the AIR was written for (0: none) and whether its last column is a
      Lagrange kernel column -/
  descAuxWidth : Nat
  lagrange : Bool

/-- `get_modulus_le_bytes()` -/
def Air.modulusBytes (A : Air) : Bytes := leBytes A.F.bytes A.F.M

/-- number of bits of the modulus (`Context::num_modulus_bits` on the bytes of the field) -/
def Air.fieldBits (A : Air) : Nat := A.F.M.log2 + 1

/-- allocation-counting computations without an input stream -/
def AM (α : Type) := Nat → Res α × Nat

namespace AM
def pure (x : α) : AM α := fun a => (.ok x, a)
def bind (m : AM α) (f : α → AM β) : AM β := fun a =>
  match m a with
  | (.ok x, a') => f x a'
  | (.err, a') => (.err, a')
  | (.eof, a') => (.eof, a')
  | (.panic, a') => (.panic, a')
instance : Monad AM where
  pure := AM.pure
  bind := AM.bind
end AM

def aerr : AM α := fun a => (.err, a)
def apanic : AM α := fun a => (.panic, a)
def aalloc (n : Nat) : AM Unit := fun a => (.ok (), a + n)

/-- `SliceReader::new(bytes)` and a decoder run on it (unread bytes are dropped: decoders that must consume
    everything end with `pEnd`) -/
def onBytes (bytes : Bytes) (d : PDec α) : AM α := fun a =>
  match d bytes a with
  | (.ok (x, _), a') => (.ok x, a')
  | (.err, a') => (.err, a')
  | (.eof, a') => (.eof, a')
  | (.panic, a') => (.panic, a')

/-- `.map_err(|err| InvalidValue(..))`: every failure becomes an error value -/
def mapErr (m : AM α) : AM α := fun a =>
  match m a with
  | (.eof, a') => (.err, a')
  | r => r

/-- a digest of the hasher: fixed number of bytes (none of the digest readers rejects a value) -/
def dDigest (A : Air) : Dec Unit := do
  let _ ← readSlice A.digestBytes
  pure ()

def pDigest (A : Air) : PDec Unit := lift (dDigest A)

/-- an element of the extension of degree `deg`: `deg` canonical base field elements -/
def dElem (A : Air) (deg : Nat) : Dec Unit := do
  let _ ← readMany (elem A.F).dec deg
  pure ()

def pElem (A : Air) (deg : Nat) : PDec Unit := lift (dElem A deg)

def elemSize (A : Air) (deg : Nat) : Nat := A.F.bytes * deg

/-- `Commitments::parse(num_trace_segments, num_fri_layers)` -/
def commitmentsParse (A : Air) (cm : Bytes) (numSeg layers : Nat) : AM Unit :=
  onBytes cm (do
    let _ ← readManyA A.digestSize (pDigest A) numSeg
    pDigest A
    let _ ← readManyA A.digestSize (pDigest A) (layers + 1)
    pEnd)

/-- `BatchMerkleProof::deserialize(reader, leaves, depth)` for `leaves` hashed queries -/
def pMerkle (A : Air) (depth leaves : Nat) : PDec Unit := do
  if depth = 0 then pfail else
  if leaves = 0 then pfail else
  if leaves > 255 then pfail else do
  let nvec ← u8
  -- `Vec::with_capacity(num_node_vectors)` of `Vec<Digest>`
  alloc (nvec * 24)
  let _ ← loopMany (do
    let ndig ← u8
    let _ ← readManyA A.digestSize (pDigest A) ndig
    pure ()) nvec
  pure ()

open Gen.Limits in
/-- `Queries::parse::<H, E>(domain_size, num_queries, values_per_query)` with `Table::from_bytes` -/
def queriesParse (A : Air) (q : Queries) (domain rows cols deg : Nat) : AM Unit := do
  if pow2 domain = false then apanic else
  if rows = 0 then apanic else
  if cols = 0 then apanic else do
  let nqb := elemSize A deg * cols
  if q.values.length ≠ rows * nqb then aerr else
  -- `Table::from_bytes`
  if rows > MAX_ROWS then apanic else
  if cols > MAX_COLS then apanic else do
  let _ ← onBytes q.values (readManyA (elemSize A deg) (pElem A deg) (rows * cols))
  -- hashes of the rows
  aalloc (rows * A.digestSize)
  onBytes q.paths (do
    pMerkle A (domain.log2 % 256) rows
    pEnd)

/-- `FriProofLayer::parse(domain_size, folding_factor)` -/
def layerParse (A : Air) (l : FriLayer) (domain folding deg : Nat) : AM Unit := do
  let nqb := elemSize A deg * folding
  if nqb = 0 then apanic else
  if l.values.length % nqb ≠ 0 then aerr else do
  let nq := l.values.length / nqb
  if nq = 0 then aerr else do
  -- `vec![H::Digest::default(); num_queries]`, `Vec::with_capacity(num_queries * folding_factor)`
  aalloc (nq * A.digestSize)
  aalloc (nq * folding * elemSize A deg)
  onBytes l.values (do
    let _ ← loopMany (readManyA (elemSize A deg) (pElem A deg) folding) nq
    pEnd)
  -- `domain_size.ilog2()`
  if domain = 0 then apanic else
  onBytes l.paths (do
    pMerkle A (domain.log2 % 256) nq
    pEnd)

/-- the loop of `FriProof::parse_layers` (repair f3196f9: a domain folded to 0 is an error) -/
def layersParse (A : Air) (folding deg : Nat) : List FriLayer → Nat → AM Unit
  | [], _ => pure ()
  | l :: ls, domain => do
    let domain := domain / folding
    if domain = 0 then aerr else do
    mapErr (layerParse A l domain folding deg)
    layersParse A folding deg ls domain

/-- `FriProof::parse_layers(domain_size, folding_factor)` -/
def friParseLayers (A : Air) (fri : FriProof) (domain folding deg : Nat) : AM Unit := do
  if pow2 domain = false then apanic else
  if pow2 folding = false then apanic else
  if folding ≤ 1 then apanic else
  layersParse A folding deg fri.layers domain

/-- `FriProof::parse_remainder::<E>()` -/
def friParseRemainder (A : Air) (fri : FriProof) (deg : Nat) : AM Unit := do
  if elemSize A deg = 0 then apanic else do
  let ne := fri.remainder.length / elemSize A deg
  if pow2 ne = false then aerr else
  mapErr (onBytes fri.remainder (do
    let _ ← readManyA (elemSize A deg) (pElem A deg) ne
    pEnd))

/-- `OodFrame::parse(main_trace_width, aux_trace_width, num_evaluations)` (repairs 660ad26, eda2442, 247eff9); the
    result is the number of rows of the Lagrange kernel frame, if there is one -/
def oodParse (A : Air) (f : OodFrame) (mainW auxW ncols deg : Nat) : AM (Option Nat) := do
  if mainW = 0 then apanic else
  if ncols = 0 then apanic else do
  let lag ← onBytes f.lagrange (do
    let k ← u8
    let r ← (if k > 0 then do
      let _ ← readManyA (elemSize A deg) (pElem A deg) k
      pure (some k)
    else pure none)
    -- repair 247eff9
    pEnd
    pure r)
  if lag.isSome ∧ auxW = 0 then aerr else do
  let auxW' := if lag.isSome then auxW - 1 else auxW
  onBytes f.traceStates (do
    let fs ← u8
    if fs ≠ 2 then pfail else do
    let _ ← readManyA (elemSize A deg) (pElem A deg) ((mainW + auxW') * fs)
    pEnd)
  -- `current_row`, `next_row`: `Vec::with_capacity(main_trace_width)` each
  aalloc (2 * mainW * elemSize A deg)
  onBytes f.evaluations (do
    let _ ← readManyA (elemSize A deg) (pElem A deg) ncols
    pEnd)
  pure lag

/-- `TraceQueries::new(trace_queries, air, num_unique_queries)`: `assert_eq!(queries.len(), num_segments)`,
    then `queries.remove(0)` for the main segment and, for a multi-segment trace, for the auxiliary segment -/
def traceQueriesNew (A : Air) (p : Proof) (lde deg : Nat) : AM Unit :=
  let ti := p.context.traceInfo
  if p.traceQueries.length ≠ ti.numSegments then apanic else
  match p.traceQueries with
  | [] => apanic
  | q0 :: rest => do
    mapErr (queriesParse A q0 lde p.numUniqueQueries ti.main 1)
    if ti.aux > 0 then
      match rest with
      | [] => apanic
      | q1 :: _ => mapErr (queriesParse A q1 lde p.numUniqueQueries ti.aux deg)
    else pure ()

/-- the FRI part of `VerifierChannel::new` (repair 73d3514: the number of layers is compared first) -/
def friNew (A : Air) (fri : FriProof) (lde layers folding deg : Nat) : AM Unit := do
  if fri.layers.length ≠ layers then aerr else
  -- `FriProof::num_partitions`: `2usize.pow(byte)`
  if fri.numPartitions ≥ 64 then apanic else do
  friParseRemainder A fri deg
  mapErr (friParseLayers A fri lde folding deg)

/-- the out-of-domain part of `VerifierChannel::new` with the shape checks of the repairs bef468b (Lagrange
    kernel frame) and 76bb3d0 (a GKR proof the AIR has no use for) -/
def oodNew (A : Air) (p : Proof) (ncols deg : Nat) : AM Unit := do
  let ti := p.context.traceInfo
  let lag ← mapErr (oodParse A p.oodFrame ti.main ti.aux ncols deg)
  let expected := if A.lagrange then some (ti.length.log2 + 1) else none
  if lag ≠ expected then aerr else
  if p.gkrProof.isSome ∧ A.lagrange = false then aerr else pure ()

/-- `VerifierChannel::new(air, proof)` after the base-field check; `ncols` is
    `air.context().num_constraint_composition_columns()` -/
def channelNew (A : Air) (p : Proof) (ncols : Nat) : AM Unit := do
  let ti := p.context.traceInfo
  let o := p.context.options
  let deg := o.fieldExt
  let lde := ti.length * o.blowup
  let layers := (Protocol.friLayers lde ((o.remDeg + 1) * o.blowup) o.folding).1
  mapErr (commitmentsParse A p.commitments ti.numSegments layers)
  -- repair 18a2667
  if p.numUniqueQueries = 0 then aerr else do
  traceQueriesNew A p lde deg
  mapErr (queriesParse A p.constraintQueries lde p.numUniqueQueries ncols deg)
  friNew A p.friProof lde layers o.folding deg
  oodNew A p ncols deg

/-- `get_conjectured_security` in `u32` / `usize` arithmetic of a debug build; `none` = an arithmetic panic
    (overflowing product, `ilog2(0)`, underflowing subtraction) -/
def conjecturedSecurity (o : ProofOptions) (fieldBits n : Nat) : Option Nat :=
  let fieldSize := fieldBits * o.fieldExt
  let lde := n * o.blowup
  if lde = 0 ∨ lde ≥ 18446744073709551616 ∨ o.blowup = 0 then none else
  if fieldSize < lde.log2 then none else
  let fs := fieldSize - lde.log2
  let q := o.blowup.log2 * o.numQueries
  let q := if q ≥ Gen.Limits.GRINDING_CONTRIBUTION_FLOOR then q + o.grinding else q
  if min fs q = 0 then none else some (min fs q - 1)

/-- `GenericAir::new(trace_info, pub_inputs, options)` of the harness: `AirContext::new` /
    `new_multi_segment`, `set_num_transition_exemptions`; `none` = one of their assertions; the value is
    `num_constraint_composition_columns()` -/
def airNew (A : Air) (ti : TraceInfo) (o : ProofOptions) : Option Nat :=
  -- `AirContext::new` refuses a multi-segment trace info
  if A.descAuxWidth = 0 ∧ ti.aux > 0 then none else
  if A.mainDegs.isEmpty ∨ A.nMainAssert = 0 then none else
  let auxDegs := if A.descAuxWidth = 0 then [] else A.auxDegs
  let nAux := if A.descAuxWidth = 0 then 0 else A.nAuxAssert
  if ti.aux > 0 ∧ (auxDegs.isEmpty ∨ nAux = 0) then none else
  if ti.aux = 0 ∧ (!auxDegs.isEmpty ∨ nAux ≠ 0) then none else
  -- `lagrange_kernel_aux_column_idx == trace_info.get_aux_segment_width() - 1` (usize subtraction)
  if A.lagrange ∧ A.descAuxWidth ≠ 0 ∧ (ti.aux = 0 ∨ A.descAuxWidth - 1 ≠ ti.aux - 1) then none else
  let degs := A.mainDegs ++ auxDegs
  let ce := Protocol.ceBlowup degs
  if o.blowup < ce then none else
  -- `get_root_of_unity(log2)` asserts `log2 <= TWO_ADICITY`
  if (ti.length * o.blowup).log2 > A.F.twoAdicity then none else
  if A.exemptions ≠ 1 ∧ !Protocol.exemptionsAccepted degs ti.length ce A.exemptions then none else
  some (Protocol.compositionColumns degs ti.length A.exemptions)

/-- where the front end of `verify()` ends -/
inductive Front where
  | field      -- InconsistentBaseField
  | opts       -- the acceptance policy / the query-count check refuses the options
  | airnew     -- the AIR constructor panicked (recorded finding c06.verify.air-new)
  | ext        -- UnsupportedFieldExtension
  | err        -- ProofDeserializationError
  | panic
  | pass       -- the channel was built
  deriving Repr, DecidableEq

/-- `verify::<AIR, H, R>(proof, pub_inputs, &MinConjecturedSecurity(0))` up to the construction of the channel,
    with the heap bytes requested by the channel construction -/
def verifyFront (A : Air) (p : Proof) : Front × Nat :=
  let ti := p.context.traceInfo
  let o := p.context.options
  if p.context.modulus ≠ A.modulusBytes then (.field, 0) else
  match conjecturedSecurity o A.fieldBits ti.length with
  | none => (.panic, 0)
  | some _ =>
    -- repair 3bbab84
    if o.numQueries ≥ ti.length * o.blowup then (.opts, 0) else
    match airNew A ti o with
    | none => (.airnew, 0)
    | some ncols =>
      if o.fieldExt = 3 ∧ A.cubic = false then (.ext, 0) else
      match channelNew A p ncols 0 with
      | (.ok _, a) => (.pass, a)
      | (.err, a) => (.err, a)
      | (.eof, a) => (.err, a)
      | (.panic, a) => (.panic, a)

end Model.Parse
