-- The operations record `Model.Divisor.Ops` of the hand-written divisor model as an operations record
-- `Gen.FOpsX` of the definitions regenerated from air/src/air/divisor.rs (Winter/Gen/Divisor.lean): the driver
-- of C16 evaluates model and regenerated definition on every divisor line (translation validation of tie T),
-- WinterProofs/Lemmas/C16Gen.lean proves them equal for every `Ops`.
import Winter.Model.Divisor
import Winter.Gen.Divisor

namespace Model.Divisor

variable {α : Type}

def Ops.toX (O : Ops α) : Gen.FOpsX α where
  add := O.add
  sub := O.sub
  mul := O.mul
  neg := fun x => O.sub O.zero x
  double := fun x => O.add x x
  square := fun x => O.mul x x
  ofNat := fun n => if n = 0 then O.zero else O.one
  inv := fun x => (O.div O.one x).getD O.zero
  div := fun x y => (O.div x y).getD O.zero
  beq := fun _ _ => false
  isZero := fun _ => false
  isOne := fun _ => false
  pow := O.pow
  root := fun k => (O.root k).getD O.zero
  rootOk := fun k => (O.root k).isSome

/-- the regenerated `from_transition` as a model divisor -/
def fromTransitionG (O : Ops α) (n e : Nat) : Res (Divisor α) :=
  if Gen.Divisor.from_transition_ok O.toX n e then
    .ok ⟨(Gen.Divisor.from_transition O.toX n e).1, (Gen.Divisor.from_transition O.toX n e).2⟩
  else .panic "from_transition"

end Model.Divisor
