-- Hand-written executable model of the FRI layer (crate `winter-fri`):
--   folding/mod.rs   apply_drp, get_inv_offsets, fold_positions
--   utils.rs         map_positions_to_indexes
--   options.rs       num_fri_layers
--   prover/mod.rs    FriProver: build_layers, build_layer, set_remainder, build_proof, query_layer, reset
--   verifier/mod.rs  FriVerifier::new, verify, verify_generic, get_query_values, eval_horner
-- generic over a record of field operations `FOps α` (raw words of a base field, pairs of raw words for a
-- quadratic extension, or a Mathlib `Field` in the proof files).  No Mathlib import: the drivers link it.
--
-- Abstractions (named in checks/C15.json, checks/C05.json):
--   * `serial_fft` on a row of N values is modelled by its value `X_k = Σ_j v_j w^(jk)` (`dft`); that the
--     in-place butterfly network computes this is property C09;
--   * `polynom::interpolate_batch` followed by `polynom::eval` is modelled by the Lagrange formula
--     (`lagrangeEval`); that the synthetic-division/batch-inversion code computes it is property C20;
--   * `fft::interpolate_poly_with_offset` (set_remainder) is modelled by the inverse DFT with offset (C09);
--   * Merkle batch verification of a layer opening is a Boolean input per layer (C10); the hash that commits
--     to the remainder is a parameter `hashRem`;
--   * the public coin is abstracted: the α's are inputs (one per layer commitment, as drawn).

namespace Model.Fri

/-! ## field operations -/

/-- the operations the FRI code uses, on the element type `E` (base-field constants embedded by `E::from`) -/
structure FOps (α : Type) where
  zero : α
  one : α
  add : α → α → α
  sub : α → α → α
  mul : α → α → α
  inv : α → α
  beq : α → α → Bool
  /-- `E::from(n as u32)` -/
  ofNat : Nat → α
  /-- `E::from(B::get_root_of_unity(k))`, meaningful when `rootOk k` -/
  root : Nat → α
  /-- `k ≠ 0 ∧ k ≤ B::TWO_ADICITY` (the two assertions of `get_root_of_unity`) -/
  rootOk : Nat → Bool
  /-- `E::from(B::GENERATOR)` = `FriOptions::domain_offset` -/
  offset : α

variable {α : Type}

/-- square-and-multiply exponentiation (value of `exp` / `exp_vartime`) -/
def pow (F : FOps α) (x : α) (n : Nat) : α :=
  if h : n = 0 then F.one
  else
    let r := pow F (F.mul x x) (n / 2)
    if n % 2 = 1 then F.mul r x else r
termination_by n
decreasing_by omega

/-- sum of a list -/
def sumL (F : FOps α) (l : List α) : α := l.foldr F.add F.zero

/-- product of a list -/
def prodL (F : FOps α) (l : List α) : α := l.foldr F.mul F.one

/-- `polynom::eval` / `eval_horner`: `p.iter().rev().fold(ZERO, |acc, c| acc * x + c)` -/
def horner (F : FOps α) (p : List α) (x : α) : α :=
  p.foldr (fun c acc => F.add (F.mul acc x) c) F.zero

/-- `get_power_series_with_offset(b, s, n)`: `[s, s·b, s·b², …]` -/
def powerSeries (F : FOps α) (b s : α) : Nat → List α
  | 0 => []
  | n + 1 => s :: powerSeries F b (F.mul s b) n

/-- elementwise equality of two vectors (`Vec<E> != Vec<E>`) -/
def beqList (F : FOps α) : List α → List α → Bool
  | [], [] => true
  | a :: as, b :: bs => F.beq a b && beqList F as bs
  | _, _ => false

/-! ## outcomes -/

/-- `VerifierError` (payloads other than the layer depth dropped) -/
inductive VErr where
  | numPositionEvaluationMismatch
  | unsupportedFoldingFactor
  | layerCommitmentMismatch
  | invalidLayerFolding (depth : Nat)
  | remainderCommitmentMismatch
  | invalidRemainderFolding
  | remainderDegreeMismatch
  | degreeTruncation (depth : Nat)
  deriving DecidableEq, Repr

/-- result of a modelled function that can return an error or panic -/
inductive Res (β : Type) where
  | ok (b : β)
  | err (e : VErr)
  | panic (site : String)
  deriving Repr, DecidableEq

namespace Res
def bind {β γ : Type} : Res β → (β → Res γ) → Res γ
  | .ok b, f => f b
  | .err e, _ => .err e
  | .panic s, _ => .panic s

instance : Monad Res where
  pure := .ok
  bind := Res.bind

/-- an `Option` whose `none` is a panic at `site` (index out of bounds, `unwrap`) -/
def ofOption {β : Type} (site : String) : Option β → Res β
  | some b => .ok b
  | none => .panic site
end Res

/-! ## options -/

/-- `FriOptions`; `valid` is the assertion of `FriOptions::new` on the folding factor -/
structure Opts where
  blowup : Nat
  folding : Nat
  remMaxDeg : Nat
  valid : folding = 2 ∨ folding = 4 ∨ folding = 8 ∨ folding = 16

theorem Opts.two_le (o : Opts) : 2 ≤ o.folding := by
  rcases o.valid with h | h | h | h <;> omega

/-- `FriOptions::new`: `none` = one of the two assertions fails -/
def Opts.new? (blowup folding remMaxDeg : Nat) : Option Opts :=
  if _hb : blowup ≠ 0 ∧ 2 ^ Nat.log2 blowup = blowup then
    if h : folding = 2 ∨ folding = 4 ∨ folding = 8 ∨ folding = 16 then
      some ⟨blowup, folding, remMaxDeg, h⟩
    else none
  else none

/-- the loop of `num_fri_layers` for a folding factor `≥ 2` -/
def numLayersLoop (maxRem folding : Nat) (hf : 2 ≤ folding) (d : Nat) : Nat :=
  if h : maxRem < d then numLayersLoop maxRem folding hf (d / folding) + 1 else 0
termination_by d
decreasing_by exact Nat.div_lt_self (by omega) hf

/-- `FriOptions::num_fri_layers` -/
def numFriLayers (o : Opts) (domainSize : Nat) : Nat :=
  numLayersLoop ((o.remMaxDeg + 1) * o.blowup) o.folding o.two_le domainSize

/-- `usize::next_power_of_two` -/
def nextPow2 (n : Nat) : Nat := if n ≤ 1 then 1 else 2 ^ (Nat.log2 (n - 1) + 1)

/-! ## positions -/

/-- the loop body of `fold_positions` -/
def foldStep (m : Nat) (acc : List Nat) (p : Nat) : List Nat :=
  if acc.contains (p % m) then acc else acc ++ [p % m]

/-- `fold_positions(positions, source_domain_size, folding_factor)`; the remainder by a zero target size
    is a panic -/
def foldPositions (positions : List Nat) (domainSize folding : Nat) : Option (List Nat) :=
  if domainSize / folding = 0 then (if positions.isEmpty then some [] else none)
  else some (positions.foldl (foldStep (domainSize / folding)) [])

/-- `map_positions_to_indexes` -/
def mapPositionsToIndexes (positions : List Nat) (domainSize folding numPartitions : Nat) :
    Option (List Nat) :=
  if numPartitions = 1 then some positions
  else if numPartitions = 0 then (if positions.isEmpty then some [] else none)
  else
    let partitionSize := domainSize / folding / numPartitions
    some (positions.map fun p =>
      let partitionIdx := p % numPartitions
      let localIdx := (p - partitionIdx) / numPartitions
      partitionIdx * partitionSize + localIdx)

/-! ## layout -/

/-- `transpose_slice::<_, N>`: row `r` is `[source[r], source[r + m], …, source[r + (N-1)·m]]`, `m = len / N`;
    `none` = the divisibility assertion fails -/
def transpose (N : Nat) (xs : List α) : Option (List (List α)) :=
  let m := xs.length / N
  if m * N ≠ xs.length then none
  else (List.range m).mapM fun r => (List.range N).mapM fun j => xs[r + j * m]?

/-- `get_query_values`: for every position the value in its row; `none` = index out of bounds -/
def getQueryValues (rows : List (List α)) (positions folded : List Nat) (domainSize N : Nat) :
    Option (List α) :=
  let m := domainSize / N
  if m = 0 then (if positions.isEmpty then some [] else none)
  else positions.mapM fun p =>
    match folded.idxOf? (p % m) with
    | none => none
    | some idx =>
      match rows[idx]? with
      | none => none
      | some row => row[p / m]?

/-! ## degree-respecting projection -/

/-- value of `serial_fft(row, twiddles of w)`: `X_k = Σ_j row[j]·w^(j·k)` -/
def dft (F : FOps α) (w : α) (row : List α) : List α :=
  (List.range row.length).map fun k =>
    sumL F (row.zipIdx.map fun (v, j) => F.mul v (pow F w (j * k)))

/-- the loop `for coeff in poly { *coeff *= offset; offset *= domain_offset }` -/
def scaleSeries (F : FOps α) (d : α) : α → List α → List α
  | _, [] => []
  | s, c :: cs => F.mul c s :: scaleSeries F d (F.mul s d) cs

/-- one row of `apply_drp`: interpolate the N values over the coset `x·ζ^j` (inverse FFT of size N, then
    scaling by `N⁻¹·(x⁻¹)^k`) and evaluate at `alpha`; `invX` is the entry of `inv_offsets` of the row -/
def drpRow (F : FOps α) (invRootN lenInv : α) (alpha : α) (row : List α) (invX : α) : α :=
  horner F (scaleSeries F invX lenInv (dft F invRootN row)) alpha

/-- `apply_drp::<_, _, N>(values, domain_offset, alpha)` on the transposed evaluations -/
def applyDrp (F : FOps α) (N : Nat) (rows : List (List α)) (alpha : α) : Res (List α) :=
  let n := rows.length * N
  -- get_inv_offsets: n.ilog2() panics on 0, get_root_of_unity asserts
  if n = 0 then .panic "get_inv_offsets.ilog2"
  else if !F.rootOk (Nat.log2 n) then .panic "get_inv_offsets.get_root_of_unity"
  else if !F.rootOk (Nat.log2 N) then .panic "get_inv_twiddles"
  else
    let g := F.root (Nat.log2 n)
    let invOffsets := powerSeries F (F.inv g) (F.inv F.offset) rows.length
    let rootN := F.root (Nat.log2 N)
    let invRootN := pow F rootN (N - 1)
    let lenInv := F.inv (F.ofNat N)
    .ok ((rows.zip invOffsets).map fun (row, invX) => drpRow F invRootN lenInv alpha row invX)

/-! ## prover -/

/-- `FriLayer`: the transposed evaluations (the Merkle tree over the hashed rows is abstracted) -/
structure Layer (α : Type) where
  rows : List (List α)

/-- `FriProver` state -/
structure Prover (α : Type) where
  layers : List (Layer α)
  remainder : List α

/-- `FriProver::new` -/
def Prover.init : Prover α := ⟨[], []⟩

/-- `FriProver::reset` -/
def Prover.reset (_ : Prover α) : Prover α := ⟨[], []⟩

/-- value of `fft::interpolate_poly_with_offset` over the domain `offset·g^i`, `g = root(log2 n)`:
    `c_k = n⁻¹·offset^(-k)·Σ_j v_j·g^(-jk)` -/
def interpolateWithOffset (F : FOps α) (evals : List α) : List α :=
  let n := evals.length
  let g := F.root (Nat.log2 n)
  scaleSeries F (F.inv F.offset) (F.inv (F.ofNat n)) (dft F (F.inv g) evals)

/-- `set_remainder` -/
def setRemainder (F : FOps α) (o : Opts) (evals : List α) : Res (List α) :=
  if 2 ^ Nat.log2 evals.length ≠ evals.length ∨ evals.length = 0 then .panic "get_inv_twiddles"
  else if !F.rootOk (Nat.log2 evals.length) then .panic "get_inv_twiddles.get_root_of_unity"
  else .ok ((interpolateWithOffset F evals).take (evals.length / o.blowup))

/-- the layers built by the loop of `build_layers`: (layers, final evaluations, remaining alphas) -/
def buildLayersLoop (F : FOps α) (N : Nat) : Nat → List α → List α → Res (List (Layer α) × List α)
  | 0, _, evals => .ok ([], evals)
  | _ + 1, [], _ => .panic "draw_fri_alpha"
  | k + 1, alpha :: alphas, evals =>
    match transpose N evals with
    | none => .panic "transpose_slice"
    | some rows =>
      match applyDrp F N rows alpha with
      | .ok evals' =>
        match buildLayersLoop F N k alphas evals' with
        | .ok (ls, last) => .ok (⟨rows⟩ :: ls, last)
        | .err e => .err e
        | .panic s => .panic s
      | .err e => .err e
      | .panic s => .panic s

/-- `FriProver::build_layers` with the channel's α's as input -/
def Prover.buildLayers (F : FOps α) (o : Opts) (p : Prover α) (alphas : List α) (evals : List α) :
    Res (Prover α) :=
  if !p.layers.isEmpty then .panic "build_layers.not-completed"
  else
    match buildLayersLoop F o.folding (numFriLayers o evals.length) alphas evals with
    | .ok (ls, last) =>
      match setRemainder F o last with
      | .ok rem => .ok ⟨ls, rem⟩
      | .err e => .err e
      | .panic s => .panic s
    | .err e => .err e
    | .panic s => .panic s

/-- what a `FriProofLayer` carries in the abstract: the queried rows (Merkle paths abstracted) -/
abbrev ProofLayer (α : Type) := List (List α)

/-- `query_layer`: rows at the (folded) positions; `none` = index out of bounds / Merkle proof failure -/
def queryLayer (l : Layer α) (positions : List Nat) : Option (ProofLayer α) :=
  positions.mapM fun p => l.rows[p]?

/-- the loop of `build_proof` over the layers -/
def queryLayers (N : Nat) : List (Layer α) → List Nat → Nat → Res (List (ProofLayer α))
  | [], _, _ => .ok []
  | l :: ls, positions, domainSize =>
    match foldPositions positions domainSize N with
    | none => .panic "fold_positions"
    | some folded =>
      match queryLayer l folded with
      | none => .panic "query_layer"
      | some pl =>
        match queryLayers N ls folded (domainSize / N) with
        | .ok pls => .ok (pl :: pls)
        | .err e => .err e
        | .panic s => .panic s

/-- `FriProver::build_proof`: (state after, proof layers, remainder) -/
def Prover.buildProof (o : Opts) (p : Prover α) (positions : List Nat) :
    Res (Prover α × List (ProofLayer α) × List α) :=
  if p.remainder.isEmpty then .panic "build_proof.not-built"
  else
    let domainSize := match p.layers with
      | [] => 0
      | l :: _ => l.rows.length * o.folding
    match queryLayers o.folding p.layers positions domainSize with
    | .ok pls =>
      -- FriProof::new asserts a power-of-two number of remainder elements
      if 2 ^ Nat.log2 p.remainder.length ≠ p.remainder.length then .panic "FriProof::new"
      else if pls.any (·.isEmpty) then .panic "FriProofLayer::new"
      else .ok (p.reset, pls, p.remainder)
    | .err e => .err e
    | .panic s => .panic s

/-! ## verifier -/

/-- one layer of the proof as the verifier's channel presents it -/
structure Opening (α : Type) where
  /-- `MerkleTree::verify_batch(commitment, indexes, proof)` succeeded -/
  merkleOk : Bool
  /-- `group_slice_elements(layer_queries)`: one row of N values per folded position -/
  rows : List (List α)

/-- everything `FriVerifier::new` and `verify` read; `D` is the digest type -/
structure VInput (α D : Type) where
  maxPolyDegree : Nat
  numPartitions : Nat
  /-- `read_fri_layer_commitments` (the last one commits to the remainder) -/
  commitments : List D
  /-- the coin's draws, one per commitment -/
  alphas : List α
  layers : List (Opening α)
  remainder : List α
  positions : List Nat
  evaluations : List α

/-- the checks of `FriVerifier::new` over the commitments: `DegreeTruncation` at every commitment but the
    last -/
def newChecks (N total : Nat) : Nat → Nat → Nat → Option Nat
  | 0, _, _ => none
  | k + 1, depth, maxDegPlus1 =>
    if depth ≠ total - 1 ∧ maxDegPlus1 % N ≠ 0 then some depth
    else newChecks N total k (depth + 1) (maxDegPlus1 / N)

/-- loop state of `verify_generic` -/
structure VState (α : Type) where
  positions : List Nat
  evals : List α
  domainGen : α
  domainSize : Nat
  maxDegPlus1 : Nat

/-- `[x·r_0, …, x·r_{N-1}]` for `x = domain_generator^i · offset` -/
def rowPoints (F : FOps α) (foldingRoots : List α) (domainGen : α) (i : Nat) : List α :=
  let xe := F.mul (pow F domainGen i) F.offset
  foldingRoots.map fun r => F.mul xe r

/-- value at `a` of the polynomial of degree `< xs.length` through `(xs[j], ys[j])`: Lagrange's formula
    (value of `polynom::eval(interpolate_batch(xs, ys)[row], a)`) -/
def lagrangeEval (F : FOps α) (xs ys : List α) (a : α) : α :=
  sumL F ((xs.zip ys).zipIdx.map fun ((xj, yj), j) =>
    let others := xs.eraseIdx j
    F.mul yj (F.mul (prodL F (others.map fun xk => F.sub a xk))
      (F.inv (prodL F (others.map fun xk => F.sub xj xk)))))

/-- one iteration of the layer loop of `verify_generic` -/
def verifyLayer (F : FOps α) {D : Type} (N : Nat) (inp : VInput α D) (foldingRoots : List α)
    (depth : Nat) (st : VState α) : Res (VState α) :=
  match foldPositions st.positions st.domainSize N with
  | none => .panic "fold_positions"
  | some folded =>
    match mapPositionsToIndexes folded st.domainSize N inp.numPartitions with
    | none => .panic "map_positions_to_indexes"
    | some _indexes =>
      match inp.commitments[depth]? with
      | none => .panic "layer_commitments[depth]"
      | some _ =>
        match inp.layers[depth]? with
        | none => .panic "take_next_fri_layer_proof"
        | some opening =>
          if !opening.merkleOk then .err .layerCommitmentMismatch
          else if opening.rows.length < folded.length then .err .layerCommitmentMismatch
          else if opening.rows.length ≠ folded.length then .panic "interpolate_batch.len"
          else if opening.rows.any (fun r => r.length ≠ N) then .panic "group_slice_elements"
          else
            match getQueryValues opening.rows st.positions folded st.domainSize N with
            | none => .panic "get_query_values"
            | some queryValues =>
              if !beqList F st.evals queryValues then .err (.invalidLayerFolding depth)
              else
                match inp.alphas[depth]? with
                | none => .panic "layer_alphas[depth]"
                | some alpha =>
                  let evals' := (folded.zip opening.rows).map fun (i, row) =>
                    lagrangeEval F (rowPoints F foldingRoots st.domainGen i) row alpha
                  if st.maxDegPlus1 % N ≠ 0 then .err (.degreeTruncation depth)
                  else .ok {
                    positions := folded
                    evals := evals'
                    domainGen := pow F st.domainGen N
                    domainSize := st.domainSize / N
                    maxDegPlus1 := st.maxDegPlus1 / N }

/-- `count` iterations of the layer loop starting at `depth` -/
def verifyLayers (F : FOps α) {D : Type} (N : Nat) (inp : VInput α D) (foldingRoots : List α) :
    Nat → Nat → VState α → Res (VState α)
  | 0, _, st => .ok st
  | count + 1, depth, st =>
    match verifyLayer F N inp foldingRoots depth st with
    | .ok st' => verifyLayers F N inp foldingRoots count (depth + 1) st'
    | .err e => .err e
    | .panic s => .panic s

/-- the comparison of the hash of the remainder with the commitment that follows the layer commitments -/
def remainderCommitted {D : Type} [BEq D] (hashRem : List α → D) (inp : VInput α D) (numLayers : Nat) :
    Bool :=
  match inp.commitments[numLayers]? with
  | none => false
  | some c => hashRem inp.remainder == c

/-- the remainder checks after the loop.  `commitCheck = false` is the verifier of the pinned tree
    (`read_remainder` returns the remainder unchecked); `commitCheck = true` is the repaired verifier -/
def verifyRemainder (F : FOps α) {D : Type} [BEq D] (commitCheck : Bool) (hashRem : List α → D)
    (inp : VInput α D) (numLayers : Nat) (st : VState α) : Res Unit :=
  if commitCheck && !remainderCommitted hashRem inp numLayers then .err .remainderCommitmentMismatch
  else if inp.remainder.length > st.maxDegPlus1 then .err .remainderDegreeMismatch
  else if (st.positions.zip st.evals).all (fun (p, e) =>
      F.beq (horner F inp.remainder (F.mul F.offset (pow F st.domainGen p))) e)
    then .ok ()
  else .err .invalidRemainderFolding

/-- `FriVerifier::new` followed by `FriVerifier::verify` -/
def verify (F : FOps α) {D : Type} [BEq D] (commitCheck : Bool) (hashRem : List α → D) (o : Opts)
    (inp : VInput α D) : Res Unit :=
  let N := o.folding
  let domainSize := nextPow2 (inp.maxPolyDegree + 1) * o.blowup
  -- FriVerifier::new
  if domainSize = 0 then .panic "new.ilog2"
  else if !F.rootOk (Nat.log2 domainSize) then .panic "new.get_root_of_unity"
  else if inp.alphas.length ≠ inp.commitments.length then .panic "model.alphas"
  else
    match newChecks N inp.commitments.length inp.commitments.length 0 (inp.maxPolyDegree + 1) with
    | some depth => .err (.degreeTruncation depth)
    | none =>
      -- FriVerifier::verify
      if inp.evaluations.length ≠ inp.positions.length then .err .numPositionEvaluationMismatch
      else
        let g := F.root (Nat.log2 domainSize)
        let foldingRoots := (List.range N).map fun i => pow F g (domainSize / N * i)
        let numLayers := numFriLayers o domainSize
        let st0 : VState α := {
          positions := inp.positions
          evals := inp.evaluations
          domainGen := g
          domainSize := domainSize
          maxDegPlus1 := inp.maxPolyDegree + 1 }
        match verifyLayers F N inp foldingRoots numLayers 0 st0 with
        | .ok st => verifyRemainder F commitCheck hashRem inp numLayers st
        | .err e => .err e
        | .panic s => .panic s

end Model.Fri
