-- the FRI model's record of field operations for the three base fields (raw words, exactly as the Rust code
-- performs them) and for the quadratic extension of the 64-bit field: what the drivers of C15/C05 execute and
-- what WinterProofs/C15Inst.lean / C05Inst.lean instantiate the theorems with
import Winter.Model.Field
import Winter.Model.Fri

namespace Model.Fri
open Model

/-- the FRI model's operations over a base field, on raw words -/
def baseOps (I : FieldImpl) : FOps Nat where
  zero := I.new 0
  one := I.new 1
  add := I.add
  sub := I.sub
  mul := I.mul
  inv := fun x => match I.inv x with
    | .done r => r
    | .out => I.new 0
  beq := I.eq
  ofNat := I.new
  root := fun k => match I.rootOfUnity k with
    | some r => r
    | none => I.new 0
  rootOk := fun k => k != 0 && decide (k ≤ I.twoAdicity)
  offset := I.new I.generator

/-- `QuadExtension<f64::BaseElement>` (x² − x + 2) on pairs of raw words:
    `impl ExtensibleField<2> for f64::BaseElement` and `QuadExtension::inv` -/
def quad64Ops : FOps (Nat × Nat) :=
  let I := F64.impl
  let mul := fun (a b : Nat × Nat) =>
    let a0b0 := I.mul a.1 b.1
    (I.sub a0b0 (I.double (I.mul a.2 b.2)), I.sub (I.mul (I.add a.1 a.2) (I.add b.1 b.2)) a0b0)
  let binv := fun x => match I.inv x with
    | .done r => r
    | .out => I.new 0
  { zero := (I.new 0, I.new 0)
    one := (I.new 1, I.new 0)
    add := fun a b => (I.add a.1 b.1, I.add a.2 b.2)
    sub := fun a b => (I.sub a.1 b.1, I.sub a.2 b.2)
    mul := mul
    inv := fun x =>
      if I.eq x.1 (I.new 0) && I.eq x.2 (I.new 0) then x
      else
        let num := (I.add x.1 x.2, I.neg x.2)
        let norm := mul x num
        let d := binv norm.1
        (I.mul num.1 d, I.mul num.2 d)
    beq := fun a b => I.eq a.1 b.1 && I.eq a.2 b.2
    ofNat := fun n => (I.new n, I.new 0)
    root := fun k => match I.rootOfUnity k with
      | some r => (r, I.new 0)
      | none => (I.new 0, I.new 0)
    rootOk := fun k => k != 0 && decide (k ≤ I.twoAdicity)
    offset := (I.new I.generator, I.new 0) }

end Model.Fri
