-- `write_usize` / `read_usize` of Winter/Model/Serde.lean with exactly their integer parts (encoded length,
-- the word written, the length read off the first byte, the shift extracting the value) replaced by the
-- definitions regenerated from utils/core/src/serde/{byte_writer,byte_reader}.rs on this run
-- (Winter/Gen/Serde.lean).  WinterProofs/Lemmas/C12Gen.lean proves them equal to the model functions; the
-- driver of C12 evaluates both (translation validation of tie T).
import Winter.Model.Serde
import Winter.Gen.Serde
import Winter.Gen.ReadGuards
import Winter.Gen.TraceInfo
import Winter.Gen.ProofOpts

namespace Model.Serde

/-- `write_usize` over the regenerated integer logic -/
def writeUsizeG (v : Nat) : Bytes :=
  let v := v % 18446744073709551616
  let length := Gen.Serde.encoded_len v
  if length = 9 then 0 :: leBytes 8 v
  else (leBytes 8 (Gen.Serde.write_usize_word v length)).take length

/-- `read_usize` over the regenerated integer logic -/
def readUsizeG : Dec Nat := do
  let first ← peekU8
  let length := Gen.Serde.read_usize_length first
  if length = 9 then do
    let _ ← readU8
    let v ← readUInt 8
    pure v
  else do
    let s ← readSlice length
    pure (Gen.Serde.read_usize_value (ofLeBytes s) length)

-- the decoders of `TraceInfo`, `ProofOptions` and `Context` with exactly their guards (which byte values are
-- rejected) replaced by the conditions regenerated from the three `read_from` functions on this run
-- (Winter/Gen/ReadGuards.lean); the constructor calls at their ends by the regenerated assertions
open Gen.ReadGuards in
def traceInfoDecG : Dec TraceInfo := do
  let main ← readU8
  if trace_info_main_zero main then Dec.fail else do
  let aux ← readU8
  if trace_info_too_wide (trace_info_full_width main aux) then Dec.fail else do
  let rands ← readU8
  if trace_info_rands_without_aux aux rands then Dec.fail else do
  if trace_info_too_many_rands rands then Dec.fail else do
  let e ← readU8
  if trace_info_too_short e then Dec.fail else do
  if !(trace_info_length e).1 then Dec.fail else do
  let n ← readUInt 2
  let md ← (if trace_info_has_meta n then readSlice n else pure [])
  let t : TraceInfo := ⟨main, aux, rands, (trace_info_length e).2, md⟩
  if Gen.TraceInfo.new_multi_segment_ok main aux rands (trace_info_length e).2 md then pure t else Dec.panic

open Gen.ReadGuards in
def proofOptionsDecG : Dec ProofOptions := do
  let nq ← readU8
  let bl ← readU8
  let gr ← readU8
  let fe ← fext.dec
  let ff ← readU8
  let rd ← readU8
  if proof_options_bad_queries nq || proof_options_bad_blowup bl || proof_options_bad_grinding gr
      || proof_options_bad_folding ff || proof_options_bad_remainder rd then Dec.fail
  else if Gen.ProofOpts.new_ok nq bl gr fe ff rd then pure ⟨nq, bl, gr, fe, ff, rd⟩ else Dec.panic

open Gen.ReadGuards in
def contextDecG : Dec Context := do
  let ti ← traceInfoDecG
  let n ← readU8
  if context_empty_modulus n then Dec.fail else do
  let m ← readSlice n
  let o ← proofOptionsDecG
  if context_trace_too_long ti.length then Dec.fail else do
  if context_lde_too_big (context_lde ti.length o.blowup) then Dec.fail else do
  pure ⟨ti, m, o⟩

end Model.Serde
