-- `write_usize` / `read_usize` of Winter/Model/Serde.lean with exactly their integer parts (encoded length,
-- the word written, the length read off the first byte, the shift extracting the value) replaced by the
-- definitions regenerated from utils/core/src/serde/{byte_writer,byte_reader}.rs on this run
-- (Winter/Gen/Serde.lean).  WinterProofs/Lemmas/C12Gen.lean proves them equal to the model functions; the
-- driver of C12 evaluates both (translation validation of tie T).
import Winter.Model.Serde
import Winter.Gen.Serde

namespace Model.Serde

/-- `write_usize` over the regenerated integer logic -/
def writeUsizeG (v : Nat) : Bytes :=
  let v := v % 18446744073709551616
  let length := Gen.Serde.encoded_len v
  if length = 9 then 0 :: leBytes 8 v
  else (leBytes 8 (Gen.Serde.write_usize_word v length)).take length

/-- `read_usize` over the regenerated integer logic -/
def readUsizeG : Dec Nat := do
  let first ← peekU8
  let length := Gen.Serde.read_usize_length first
  if length = 9 then do
    let _ ← readU8
    let v ← readUInt 8
    pure v
  else do
    let s ← readSlice length
    pure (Gen.Serde.read_usize_value (ofLeBytes s) length)

end Model.Serde
