-- Hand-written executable model of the hash functions (crypto/src/hash): the three Rescue Prime
-- instances on raw field words (permutation, sponge over bytes and elements, merging, Jive
-- compression, digest encodings) and, for BLAKE3 / SHA3, the wrapper only: which bytes are fed.
-- Arithmetic cores (field operations, MDS tables, round constants, the frequency-domain MDS
-- product) are the definitions generated from the Rust sources (Winter/Gen).
import Winter.Model.Field
import Winter.Gen.Mds12
import Winter.Gen.Mds8
import Winter.Gen.Rp64
import Winter.Gen.Rp64Jive
import Winter.Gen.Rp62

namespace Model.Rescue
open Model

/-- outcome of a function that can panic in the implementation -/
inductive Res (α : Type) where
  | ok (a : α)
  | panic (site : String)
  deriving Repr, DecidableEq

/-- a sponge state: the raw words of the state array -/
abbrev State := List Nat

/-- one Rescue instance as the code has it, on raw words -/
structure Params where
  name : String
  F : FieldImpl
  width : Nat
  rateStart : Nat
  rateWidth : Nat
  capIdx : Nat            -- the capacity element that receives the length / flag
  digestStart : Nat
  rounds : Nat
  sbox : Nat → Nat
  invSbox : Nat → Nat
  mds : State → State     -- `apply_mds`
  ark1 : List (List Nat)  -- raw words of the round constants
  ark2 : List (List Nat)
  jive : Bool             -- Hirose padding in the sponge, Jive compression for merging

-- ------------------------------------------------------------------------------------------------
-- S-boxes

namespace F64
open Gen.F64 Model.F64

/-- `apply_inv_sbox` of the 64-bit instances, one state element: the addition chain for
    `x^10540996611094048183` -/
def invSbox (x : Nat) : Nat :=
  let t1 := square x
  let t2 := square t1
  let t3 := expAcc 3 t2 t2
  let t4 := expAcc 6 t3 t3
  let t5 := expAcc 12 t4 t4
  let t6 := expAcc 6 t5 t3
  let t7 := expAcc 31 t6 t6
  let a := square (square (mul (square t7) t6))
  let b := mul (mul t1 t2) x
  mul a b

end F64

namespace F62
open Gen.F62

def square (x : Nat) : Nat := mul x x

/-- `FieldElement::cube` (default method): `self * self * self` -/
def cube (x : Nat) : Nat := mul (mul x x) x

def sqN : Nat → Nat → Nat
  | 0, x => x
  | n + 1, x => sqN n (square x)

/-- `exp_acc::<_, _, N>(base, tail)`, one element -/
def expAcc (n : Nat) (base tail : Nat) : Nat := mul (sqN n base) tail

/-- `apply_inv_sbox` of the 62-bit instance: the addition chain for `x^3074416663688030891` -/
def invSbox (x : Nat) : Nat :=
  let t1 := square x
  let t2 := expAcc 2 t1 t1
  let t4 := expAcc 4 t2 t2
  let t8 := expAcc 8 t4 t4
  let acc := expAcc 7 t8 t2
  let acc := expAcc 15 acc t8
  let acc := expAcc 16 acc t8
  let acc := expAcc 8 acc t4
  mul x acc

/-- one row of the plain matrix-vector product: `r = 0; for (s, m) r += m * s` -/
def dotRow (row : List Nat) (st : State) : Nat :=
  (List.zip st row).foldl (fun r sm => add r (mul sm.2 sm.1)) (new 0)

/-- `apply_mds` of the 62-bit instance (plain matrix-vector product on raw words) -/
def mds (st : State) : State :=
  (Gen.Rp62.MDS.map (fun row => row.map new)).map (fun row => dotRow row st)

end F62

/-- `mds_multiply` of the 12x12 frequency-domain MDS on a state list -/
def mds12 : State → State
  | [s0, s1, s2, s3, s4, s5, s6, s7, s8, s9, s10, s11] =>
    let (r0, r1, r2, r3, r4, r5, r6, r7, r8, r9, r10, r11) :=
      Gen.Mds12.mds_multiply s0 s1 s2 s3 s4 s5 s6 s7 s8 s9 s10 s11
    [r0, r1, r2, r3, r4, r5, r6, r7, r8, r9, r10, r11]
  | st => st

/-- `mds_multiply` of the 8x8 frequency-domain MDS on a state list -/
def mds8 : State → State
  | [s0, s1, s2, s3, s4, s5, s6, s7] =>
    let (r0, r1, r2, r3, r4, r5, r6, r7) := Gen.Mds8.mds_multiply s0 s1 s2 s3 s4 s5 s6 s7
    [r0, r1, r2, r3, r4, r5, r6, r7]
  | st => st

-- ------------------------------------------------------------------------------------------------
-- the three instances

def rp64 : Params where
  name := "rp64"
  F := Model.F64.impl
  width := Gen.Rp64.STATE_WIDTH
  rateStart := Gen.Rp64.RATE_RANGE_start
  rateWidth := Gen.Rp64.RATE_WIDTH
  capIdx := Gen.Rp64.CAPACITY_RANGE_start
  digestStart := Gen.Rp64.DIGEST_RANGE_start
  rounds := Gen.Rp64.NUM_ROUNDS
  sbox := Gen.F64.exp7
  invSbox := F64.invSbox
  mds := mds12
  ark1 := Gen.Rp64.ARK1.map (fun r => r.map Gen.F64.new)
  ark2 := Gen.Rp64.ARK2.map (fun r => r.map Gen.F64.new)
  jive := false

def rpjive : Params where
  name := "rpjive"
  F := Model.F64.impl
  width := Gen.Rp64Jive.STATE_WIDTH
  rateStart := Gen.Rp64Jive.RATE_RANGE_start
  rateWidth := Gen.Rp64Jive.RATE_WIDTH
  capIdx := Gen.Rp64Jive.CAPACITY_RANGE_start
  digestStart := Gen.Rp64Jive.DIGEST_RANGE_start
  rounds := Gen.Rp64Jive.NUM_ROUNDS
  sbox := Gen.F64.exp7
  invSbox := F64.invSbox
  mds := mds8
  ark1 := Gen.Rp64Jive.ARK1.map (fun r => r.map Gen.F64.new)
  ark2 := Gen.Rp64Jive.ARK2.map (fun r => r.map Gen.F64.new)
  jive := true

/-- the 62-bit instance keeps the rate in elements 0..8 and the length in the last element -/
def rp62 : Params where
  name := "rp62"
  F := Model.F62.impl
  width := Gen.Rp62.STATE_WIDTH
  rateStart := 0
  rateWidth := Gen.Rp62.RATE_WIDTH
  capIdx := Gen.Rp62.STATE_WIDTH - 1
  digestStart := 0
  rounds := Gen.Rp62.NUM_ROUNDS
  sbox := F62.cube
  invSbox := F62.invSbox
  mds := F62.mds
  ark1 := Gen.Rp62.ARK1.map (fun r => r.map Gen.F62.new)
  ark2 := Gen.Rp62.ARK2.map (fun r => r.map Gen.F62.new)
  jive := false

-- ------------------------------------------------------------------------------------------------
-- permutation

variable (P : Params)

/-- `add_constants`: element-wise `s += k` -/
def addConstants (st : State) (ark : List Nat) : State :=
  List.zipWith P.F.add st ark

/-- `apply_round` with the constants of one round -/
def roundWith (st : State) (k1 k2 : List Nat) : State :=
  let st := st.map P.sbox
  let st := P.mds st
  let st := addConstants P st k1
  let st := st.map P.invSbox
  let st := P.mds st
  addConstants P st k2

/-- `apply_round(state, r)`; `none` = index out of bounds (panic) -/
def applyRound (st : State) (r : Nat) : Option State :=
  match P.ark1[r]?, P.ark2[r]? with
  | some k1, some k2 => some (roundWith P st k1 k2)
  | _, _ => none

/-- `apply_permutation`: the rounds in order -/
def applyPermutation (st : State) : State :=
  (List.zip P.ark1 P.ark2).foldl (fun st k => roundWith P st k.1 k.2) st

-- ------------------------------------------------------------------------------------------------
-- sponge

def zeroState : State := List.replicate P.width (P.F.new 0)

/-- `state[k] += e` -/
def addAt (st : State) (k : Nat) (e : Nat) : State :=
  st.modify k (fun s => P.F.add s e)

/-- initial state of the sponge for an input of `n` elements -/
def initState (n : Nat) : State :=
  if P.jive then
    if n % P.rateWidth ≠ 0 then (zeroState P).set P.capIdx (P.F.new 1) else zeroState P
  else
    (zeroState P).set P.capIdx (P.F.new n)

/-- absorb one element at rate position `i`; permute when the rate is full -/
def absorbOne (si : State × Nat) (e : Nat) : State × Nat :=
  let st := addAt P si.1 (P.rateStart + si.2) e
  let i := si.2 + 1
  if i % P.rateWidth = 0 then (applyPermutation P st, 0) else (st, i)

/-- `state[rate.start + i] = ONE; then zeros up to the end of the rate` (Jive instances only) -/
def padRate (st : State) (i : Nat) : State :=
  let st := st.set (P.rateStart + i) (P.F.new 1)
  (List.range (P.rateWidth - (i + 1))).foldl (fun st k => st.set (P.rateStart + i + 1 + k) (P.F.new 0)) st

/-- what happens after the absorption loop -/
def finish (si : State × Nat) : State :=
  if si.2 > 0 then
    if P.jive then applyPermutation P (padRate P si.1 si.2) else applyPermutation P si.1
  else si.1

/-- the digest elements of a state -/
def digestOf (st : State) : List Nat := (st.drop P.digestStart).take 4

/-- `ElementHasher::hash_elements` on base-field raw words -/
def hashElements (es : List Nat) : List Nat :=
  digestOf P (finish P (es.foldl (absorbOne P) (initState P es.length, 0)))

/-- `hash_elements` on extension elements: `slice_as_base_elements` is the flattening of the
    coordinate arrays (the `unsafe` cast is modelled, not verified) -/
def hashElementsExt (es : List (List Nat)) : List Nat := hashElements P es.flatten

-- ------------------------------------------------------------------------------------------------
-- hashing bytes

def chunksAux : Nat → List Nat → List (List Nat)
  | 0, _ => []
  | fuel + 1, bs => if bs.isEmpty then [] else bs.take 7 :: chunksAux fuel (bs.drop 7)

/-- `bytes.chunks(7)` -/
def chunks7 (bs : List Nat) : List (List Nat) := chunksAux bs.length bs

/-- number of elements needed for `len` bytes -/
def numElements (len : Nat) : Nat := if len % 7 = 0 then len / 7 else len / 7 + 1

/-- one iteration of the byte loop: the new 8-byte buffer, or the panic of the iteration.
    `index` is the chunk index, `n` the number of elements. -/
def chunkBuf (n index : Nat) (buf chunk : List Nat) : Res (List Nat) :=
  if n = 0 then .panic "num_elements - 1 overflows"
  else if index < n - 1 then
    -- buf[..7].copy_from_slice(chunk): lengths must agree; buf[7] keeps its value
    if chunk.length = 7 then .ok (chunk ++ buf.drop 7) else .panic "copy_from_slice length mismatch"
  else
    -- buf = [0; 8]; buf[..chunk_len].copy_from_slice(chunk); buf[chunk_len] = 1
    if chunk.length < 8 then
      .ok (chunk ++ [1] ++ List.replicate (7 - chunk.length) 0)
    else .panic "index out of bounds"

/-- the byte loop over the chunks: (state, rate index, buffer) -/
def absorbChunks (n : Nat) : List (List Nat) → Nat → (State × Nat) → List Nat → Res (State × Nat)
  | [], _, si, _ => .ok si
  | chunk :: rest, index, si, buf =>
    match chunkBuf n index buf chunk with
    | .panic s => .panic s
    | .ok buf =>
      absorbChunks n rest (index + 1) (absorbOne P si (P.F.new (ofLeBytes buf))) buf

/-- `Hasher::hash` of the Rescue instances -/
def hashBytes (bs : List Nat) : Res (List Nat) :=
  let n := numElements bs.length
  match absorbChunks P n (chunks7 bs) 0 (initState P n, 0) (List.replicate 8 0) with
  | .panic s => .panic s
  | .ok si => .ok (digestOf P (finish P si))

-- ------------------------------------------------------------------------------------------------
-- merging

/-- Jive compression: the permutation, then the sum of both halves of the initial and final state -/
def jiveCompress (init : State) : List Nat :=
  let fin := applyPermutation P init
  (List.range 4).map (fun i =>
    match init[i]?, init[4 + i]?, fin[i]?, fin[4 + i]? with
    | some a, some b, some c, some d => P.F.add (P.F.add (P.F.add a b) c) d
    | _, _, _, _ => 0)

/-- the state `merge` permutes (sponge instances): the eight digest elements in the rate, the
    number 8 in the capacity -/
def mergeState (a b : List Nat) : State :=
  let st := (zeroState P).set P.capIdx (P.F.new P.rateWidth)
  (List.range 8).foldl (fun st k =>
    match (a ++ b)[k]? with
    | some e => st.set (P.rateStart + k) e
    | none => st) st

/-- `Hasher::merge` -/
def merge (a b : List Nat) : List Nat :=
  if P.jive then jiveCompress P (a ++ b)
  else digestOf P (applyPermutation P (mergeState P a b))

/-- the integers written into the state by `merge_with_int`: (value element, overflow element,
    domain flag); `value / MODULUS` is written only when the value is not below the modulus -/
def intEncoding (v : Nat) : Nat × Nat × Nat :=
  if v < P.F.M then (v, 0, 5) else (v, v / P.F.M, 6)

/-- the pre-permutation state of `merge_with_int` -/
def mergeIntState (seed : List Nat) (v : Nat) : State :=
  let enc := intEncoding P v
  if P.jive then
    -- seed in 0..4, value at 4, overflow at 5, flag at 7
    let st := seed ++ [P.F.new enc.1, if v < P.F.M then P.F.new 0 else P.F.new enc.2.1, P.F.new 0, P.F.new enc.2.2]
    st
  else
    let st := (zeroState P).set P.capIdx (P.F.new enc.2.2)
    let st := (List.range 4).foldl (fun st k =>
      match seed[k]? with
      | some e => st.set (P.rateStart + k) e
      | none => st) st
    let st := st.set (P.rateStart + 4) (P.F.new enc.1)
    if v < P.F.M then st else st.set (P.rateStart + 5) (P.F.new enc.2.1)

/-- `Hasher::merge_with_int` -/
def mergeWithInt (seed : List Nat) (v : Nat) : List Nat :=
  if P.jive then jiveCompress P (mergeIntState P seed v)
  else digestOf P (applyPermutation P (mergeIntState P seed v))

-- ------------------------------------------------------------------------------------------------
-- digest encodings

/-- `Digest::as_bytes` of the 64-bit instances: four canonical integers, little endian -/
def digestBytes64 (d : List Nat) : List Nat :=
  (d.map (fun e => leBytes 8 (Gen.F64.as_int e))).flatten

/-- `Deserializable::read_from` of the 64-bit digests: four `u64`, each given to `new`; `none` = eof -/
def digestRead64 (bs : List Nat) : Option (List Nat × List Nat) :=
  if bs.length < 32 then none
  else some ((List.range 4).map (fun k => Gen.F64.new (ofLeBytes ((bs.drop (8 * k)).take 8))), bs.drop 32)

/-- `Digest::as_bytes` of the 62-bit instance: the four canonical integers packed 62 bits each -/
def digestBytes62 (d : List Nat) : List Nat :=
  match d.map Gen.F62.as_int with
  | [v1, v2, v3, v4] =>
    let w := 18446744073709551616
    leBytes 8 ((v1 ||| (v2 <<< 62)) % w) ++ leBytes 8 (((v2 >>> 2) ||| (v3 <<< 60)) % w)
      ++ leBytes 8 (((v3 >>> 4) ||| (v4 <<< 58)) % w) ++ leBytes 8 (v4 >>> 6)
  | _ => []

/-- serialisation of the 62-bit digest: the first 31 bytes of `as_bytes` -/
def digestSer62 (d : List Nat) : List Nat := (digestBytes62 d).take 31

/-- `read_from` of the 62-bit digest (operator precedence as in the code: `&` binds tighter than `|`) -/
def digestRead62 (bs : List Nat) : Option (List Nat × List Nat) :=
  if bs.length < 31 then none
  else
    let w := 18446744073709551616
    let mask := 0x3FFFFFFFFFFFFFFF
    let v1 := ofLeBytes (bs.take 8)
    let v2 := ofLeBytes ((bs.drop 8).take 8)
    let v3 := ofLeBytes ((bs.drop 16).take 8)
    let v4 := ofLeBytes ((bs.drop 24).take 4)
    let v5 := ofLeBytes ((bs.drop 28).take 2)
    let v6 := ofLeBytes ((bs.drop 30).take 1)
    let e1 := Gen.F62.new (v1 &&& mask)
    let e2 := Gen.F62.new ((((v2 <<< 4) % w) >>> 2) ||| ((v1 >>> 62) &&& mask))
    let e3 := Gen.F62.new ((((v3 <<< 6) % w) >>> 2) ||| ((v2 >>> 60) &&& mask))
    let e4 := Gen.F62.new ((v3 >>> 58) ||| (v4 <<< 6) ||| (v5 <<< 38) ||| (v6 <<< 54))
    some ([e1, e2, e3, e4], bs.drop 31)

-- ------------------------------------------------------------------------------------------------
-- BLAKE3 / SHA3 wrappers: the bytes that are fed to the opaque hash function

/-- `hash_elements`: with `IS_CANONICAL` the memory of the elements (for the 128-bit field the raw
    word is the canonical integer), otherwise `write_many`, i.e. each element's canonical
    little-endian serialisation, without a length prefix -/
def bytesFedElements (F : FieldImpl) (isCanonical : Bool) (es : List Nat) : List Nat :=
  if isCanonical then (es.map (fun e => leBytes F.bytes e)).flatten
  else (es.map (fun e => F.toBytes e)).flatten

/-- `merge`: the two digests' bytes, concatenated -/
def bytesFedMerge (a b : List Nat) : List Nat := a ++ b

/-- `merge_with_int`: the seed's bytes followed by the integer as 8 little-endian bytes -/
def bytesFedMergeInt (seed : List Nat) (v : Nat) : List Nat := seed ++ leBytes 8 v

/-- Blake3_192: the first 24 bytes of the 32-byte BLAKE3 digest -/
def truncate192 (digest : List Nat) : List Nat := digest.take 24

end Model.Rescue
