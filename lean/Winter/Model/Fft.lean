-- Hand-written executable model of winter-math's FFT module (math/src/fft/{mod,serial,fft_inputs}.rs,
-- serial code path) and of the prover's segmented row-major LDE (prover/src/matrix/{row_matrix,segments,
-- col_matrix}.rs, prover/src/domain.rs), generic over records of field operations so that
--   * the driver runs it on raw words with `Model.F64.impl` / `F62.impl` / `F128.impl`, and
--   * the proofs (WinterProofs/C09.lean) instantiate it with a Mathlib field / module.
-- `none` is a panic of the debug build (index out of bounds, `assert!`, `debug_assert!`, division by zero)
-- or, for the recursions that take fuel, exhausted fuel; the theorems show `some _` for well-formed inputs.
-- No Mathlib here: the driver links this file.
import Winter.Model.Field

namespace Model.Fft

/-! ## operation records -/

/-- operations of the element type `α` of a transform (`E`, or a row `[B; N]` of a segment) with twiddles in
    the base field `β` -/
structure Ops (β α : Type) where
  add : α → α → α
  sub : α → α → α
  /-- `x.mul_base(t)` for slices of elements, `x * E::from(t)` for slices of arrays -/
  mulBase : α → β → α
  /-- `x != E::ZERO` negated (used by `degree_of`) -/
  isZero : α → Bool

/-- operations of the base field `β` used to build twiddles, coset offsets and normalisation factors -/
structure BaseOps (β : Type) where
  one : β
  mul : β → β → β
  /-- `exp` with an integer exponent -/
  exp : β → Nat → β
  /-- `inv`; `none` = the implementation's loop did not terminate within the model's fuel -/
  inv : β → Option β
  /-- `B::from(n as u32)` -/
  ofNat : Nat → β
  /-- `== B::ZERO` -/
  isZero : β → Bool
  twoAdicity : Nat
  /-- `get_root_of_unity(n)`; `none` = its assertions (`n != 0`, `n <= TWO_ADICITY`) -/
  rootOfUnity : Nat → Option β

/-! ## integer helpers -/

/-- `usize::is_power_of_two` -/
def isPow2 (n : Nat) : Bool := n != 0 && n == 2 ^ Nat.log2 n

/-- `usize::ilog2`; `none` = the panic on zero -/
def ilog2 (n : Nat) : Option Nat := if n = 0 then none else some (Nat.log2 n)

/-- `usize::trailing_zeros` on a 64-bit word (`fuel = 64`) -/
def trailingZeros : Nat → Nat → Nat
  | 0, _ => 0
  | fuel + 1, n => if n % 2 = 1 then 0 else 1 + trailingZeros fuel (n / 2)

/-- reversal of the low `w` bits of `i` (`usize::reverse_bits` is `brev 64`) -/
def brev : Nat → Nat → Nat
  | 0, _ => 0
  | w + 1, i => (i % 2) * 2 ^ w + brev w (i / 2)

/-- `fft::permute_index(size, index)`: `index.reverse_bits().wrapping_shr(64 - size.trailing_zeros())`
    with its two debug assertions -/
def permuteIndex (size index : Nat) : Option Nat :=
  if index < size ∧ isPow2 size then
    some (brev 64 index >>> ((64 - trailingZeros 64 size) % 64))
  else none

/-- `for i in start..start+cnt { s = f(i, s)? }` -/
def forRange {σ : Type} (f : Nat → σ → Option σ) : Nat → Nat → σ → Option σ
  | _, 0, s => some s
  | start, cnt + 1, s => (f start s).bind (forRange f (start + 1) cnt)

/-! ## `FftInputs` for slices -/

variable {β α : Type}

/-- `slice.swap(i, j)` -/
def swap (a : Array α) (i j : Nat) : Option (Array α) :=
  if h : i < a.size ∧ j < a.size then some (a.swap i j h.1 h.2) else none

/-- `FftInputs::permute`: `for i in 0..n { let j = permute_index(n, i); if j > i { swap(i, j) } }` -/
def permute (a : Array α) : Option (Array α) :=
  forRange (fun i a =>
    match permuteIndex a.size i with
    | none => none
    | some j => if j > i then swap a i j else some a) 0 a.size a

/-- `butterfly(offset, stride)`: `temp = v[i]; v[i] = temp + v[j]; v[j] = temp - v[j]` with `j = i + stride` -/
def butterfly (ops : Ops β α) (a : Array α) (i stride : Nat) : Option (Array α) :=
  let j := i + stride
  if hi : i < a.size then
    if hj : j < a.size then
      let temp := a[i]
      let a1 := a.set i (ops.add temp a[j])
      if hj1 : j < a1.size then
        some (a1.set j (ops.sub temp a1[j]))
      else none
    else none
  else none

/-- `butterfly_twiddle(twiddle, offset, stride)`:
    `temp = v[i]; v[j] = v[j].mul_base(t); v[i] = temp + v[j]; v[j] = temp - v[j]` -/
def butterflyTw (ops : Ops β α) (t : β) (a : Array α) (i stride : Nat) : Option (Array α) :=
  let j := i + stride
  if hi : i < a.size then
    if hj : j < a.size then
      let temp := a[i]
      let a1 := a.set j (ops.mulBase a[j] t)
      if h1 : i < a1.size ∧ j < a1.size then
        let a2 := a1.set i (ops.add temp a1[j]) h1.1
        if h2 : j < a2.size then
          some (a2.set j (ops.sub temp a2[j]))
        else none
      else none
    else none
  else none

/-- the core recursion `fft_in_place(values, twiddles, count, stride, offset)` of fft_inputs.rs;
    `maxLoop` is the constant `MAX_LOOP` (256 in the code). `fuel` bounds the recursion depth (the size
    halves on every level: `fuel ≥ log2 (len / stride)` suffices). -/
def fftInPlace (ops : Ops β α) (maxLoop : Nat) (tw : Array β) :
    Nat → Nat → Nat → Nat → Array α → Option (Array α)
  | 0, _, _, _, _ => none
  | fuel + 1, count, stride, offset, a =>
    -- `values.len() / stride`
    if stride = 0 then none else
    let size := a.size / stride
    -- debug_assert!(size.is_power_of_two()); debug_assert!(offset < stride);
    -- debug_assert_eq!(values.len() % size, 0)
    if ¬ (isPow2 size ∧ offset < stride ∧ a.size % size = 0) then none else
    let rec1 : Option (Array α) :=
      if size > 2 then
        if stride = count ∧ count < maxLoop then
          fftInPlace ops maxLoop tw fuel (2 * count) (2 * stride) offset a
        else
          (fftInPlace ops maxLoop tw fuel count (2 * stride) offset a).bind
            (fftInPlace ops maxLoop tw fuel count (2 * stride) (offset + stride))
      else some a
    rec1.bind fun a =>
    -- for offset in offset..(offset + count) { butterfly(values, offset, stride) }
    (forRange (fun o a => butterfly ops a o stride) offset count a).bind fun a =>
    -- for (i, offset) in (offset..offset + size*stride).step_by(2*stride).enumerate().skip(1)
    --   for j in offset..(offset + count) { butterfly_twiddle(values, twiddles[i], j, stride) }
    forRange (fun i a =>
      forRange (fun j a =>
        match tw[i]? with
        | none => none
        | some t => butterflyTw ops t a j stride) (offset + i * (2 * stride)) count a)
      1 ((size + 1) / 2 - 1) a

/-- `FftInputs::fft_in_place(twiddles)` = `fft_in_place(self, twiddles, 1, 1, 0)` -/
def fftTop (ops : Ops β α) (maxLoop : Nat) (tw : Array β) (a : Array α) : Option (Array α) :=
  fftInPlace ops maxLoop tw (a.size + 1) 1 1 0 a

/-- `shift_by(offset)`: every element times `E::from(offset)` -/
def shiftBy (ops : Ops β α) (a : Array α) (c : β) : Array α := a.map (fun x => ops.mulBase x c)

/-- the running products `[x, x*b, (x*b)*b, …]` (`n` of them): `fill_power_series`, the `factor *= offset`
    loops of the coset evaluation and `shift_by_series` -/
def powersFrom (mul : β → β → β) (b : β) : Nat → β → List β
  | 0, _ => []
  | n + 1, x => x :: powersFrom mul b n (mul x b)

/-- `shift_by_series(offset, increment)`: element `i` times `offset * increment^i` (running product) -/
def shiftBySeries (ops : Ops β α) (B : BaseOps β) (a : Array α) (offset increment : β) : Array α :=
  Array.zipWith (fun x c => ops.mulBase x c) a (powersFrom B.mul increment a.size offset).toArray

/-! ## the clean recursive transform the in-place recursion is compared with -/

/-- bit-reversed-output radix-2 transform of the `2^k` values `x 0 … x (2^k - 1)`: transform the even- and
    odd-indexed halves, then position `2i` holds `E i + t i • O i` and position `2i+1` holds
    `E i - t i • O i`, where (like the code) no multiplication is made for `i = 0` -/
def fftRec (ops : Ops β α) (tw : Nat → β) : Nat → (Nat → α) → Nat → α
  | 0, x, m => x m
  | k + 1, x, m =>
    let e := fftRec ops tw k (fun j => x (2 * j)) (m / 2)
    let o := fftRec ops tw k (fun j => x (2 * j + 1)) (m / 2)
    let o' := if m / 2 = 0 then o else ops.mulBase o (tw (m / 2))
    if m % 2 = 0 then ops.add e o' else ops.sub e o'

/-! ## twiddles -/

/-- `get_power_series(b, n)` (serial): `[b.exp(0), · * b, …]` -/
def powerSeries (B : BaseOps β) (b : β) (n : Nat) : Array β :=
  (powersFrom B.mul b n (B.exp b 0)).toArray

/-- the assertions shared by the entry points: power of two, subgroup exists; returns `ilog2 n` -/
def checkDomain (B : BaseOps β) (n : Nat) : Option Nat :=
  if isPow2 n then
    match ilog2 n with
    | some k => if k ≤ B.twoAdicity then some k else none
    | none => none
  else none

/-- `fft::get_twiddles(domain_size)` -/
def getTwiddles (B : BaseOps β) (n : Nat) : Option (Array β) :=
  match checkDomain B n with
  | none => none
  | some k =>
    match B.rootOfUnity k with
    | none => none
    | some root => permute (powerSeries B root (n / 2))

/-- `fft::get_inv_twiddles(domain_size)` -/
def getInvTwiddles (B : BaseOps β) (n : Nat) : Option (Array β) :=
  match checkDomain B n with
  | none => none
  | some k =>
    match B.rootOfUnity k with
    | none => none
    | some root =>
      -- `root.exp((domain_size as u32 - 1).into())`: the cast truncates, the subtraction is checked
      if n % 4294967296 = 0 then none else
      permute (powerSeries B (B.exp root (n % 4294967296 - 1)) (n / 2))

/-! ## evaluation and interpolation -/

/-- `fft::evaluate_poly(p, twiddles)` -/
def evaluatePoly (ops : Ops β α) (B : BaseOps β) (maxLoop : Nat) (p : Array α) (tw : Array β) :
    Option (Array α) :=
  match checkDomain B p.size with
  | none => none
  | some _ =>
    if p.size ≠ tw.size * 2 then none else
    (fftTop ops maxLoop tw p).bind permute

/-- one chunk of `evaluate_poly_with_offset`: coefficient `d` times `offset^d` (running product), then the
    in-place transform -/
def cosetChunk (ops : Ops β α) (B : BaseOps β) (maxLoop : Nat) (p : Array α) (tw : Array β) (offset : β) :
    Option (Array α) :=
  fftTop ops maxLoop tw (shiftBySeries ops B p B.one offset)

/-- `fft::evaluate_poly_with_offset(p, twiddles, domain_offset, blowup_factor)` -/
def evaluatePolyWithOffset (ops : Ops β α) (B : BaseOps β) (maxLoop : Nat) (p : Array α) (tw : Array β)
    (domainOffset : β) (blowup : Nat) : Option (Array α) :=
  if ¬ (isPow2 p.size ∧ isPow2 blowup) then none else
  if p.size ≠ tw.size * 2 then none else
  match checkDomain B (p.size * blowup) with
  | none => none
  | some k =>
    if B.isZero domainOffset then none else
    match B.rootOfUnity k with
    | none => none
    | some g =>
      (forRange (fun i (res : Array α) =>
        match permuteIndex blowup i with
        | none => none
        | some idx =>
          (cosetChunk ops B maxLoop p tw (B.mul (B.exp g idx) domainOffset)).map (res ++ ·))
        0 blowup (Array.mkEmpty (p.size * blowup))).bind permute

/-- `fft::interpolate_poly(evaluations, inv_twiddles)` -/
def interpolatePoly (ops : Ops β α) (B : BaseOps β) (maxLoop : Nat) (v : Array α) (itw : Array β) :
    Option (Array α) :=
  match checkDomain B v.size with
  | none => none
  | some _ =>
    if v.size ≠ itw.size * 2 then none else
    -- assert!(evaluations.len() <= u32::MAX as usize)
    if v.size > 4294967295 then none else
    match B.inv (B.ofNat v.size) with
    | none => none
    | some invLen =>
      (fftTop ops maxLoop itw v).bind fun a => permute (shiftBy ops a invLen)

/-- `fft::interpolate_poly_with_offset(evaluations, inv_twiddles, domain_offset)` -/
def interpolatePolyWithOffset (ops : Ops β α) (B : BaseOps β) (maxLoop : Nat) (v : Array α) (itw : Array β)
    (domainOffset : β) : Option (Array α) :=
  match checkDomain B v.size with
  | none => none
  | some _ =>
    if v.size ≠ itw.size * 2 then none else
    if B.isZero domainOffset then none else
    if v.size > 4294967295 then none else
    ((fftTop ops maxLoop itw v).bind permute).bind fun a =>
      match B.inv domainOffset, B.inv (B.ofNat v.size) with
      | some offInv, some invLen => some (shiftBySeries ops B a invLen offInv)
      | _, _ => none

/-- `polynom::degree_of`: index of the last non-zero coefficient, 0 when there is none -/
def degreeOf (ops : Ops β α) (p : Array α) : Nat :=
  (List.range p.size).foldl (fun d i => match p[i]? with
    | some x => if ops.isZero x then d else i
    | none => d) 0

/-- `fft::infer_degree(evaluations, domain_offset)` -/
def inferDegree (ops : Ops β α) (B : BaseOps β) (maxLoop : Nat) (v : Array α) (domainOffset : β) :
    Option Nat :=
  match checkDomain B v.size with
  | none => none
  | some _ =>
    if B.isZero domainOffset then none else
    match getInvTwiddles B v.size with
    | none => none
    | some itw => (interpolatePolyWithOffset ops B maxLoop v itw domainOffset).map (degreeOf ops)

/-! ## the prover's segmented row-major LDE -/

/-- operations on rows `[B; N]` of a segment: the transform acts on all `N` slots at once -/
def rowOps (add sub mul : β → β → β) (isZero : β → Bool) : Ops β (Array β) where
  add := fun x y => Array.zipWith add x y
  sub := fun x y => Array.zipWith sub x y
  mulBase := fun x t => x.map (fun v => mul v t)
  isZero := fun x => x.all isZero

/-- `row_matrix::get_evaluation_offsets(poly_size, blowup_factor, domain_offset)` -/
def evaluationOffsets (B : BaseOps β) (polySize blowup : Nat) (domainOffset : β) : Option (Array β) :=
  match ilog2 (polySize * blowup) with
  | none => none
  | some k =>
    match B.rootOfUnity k with
    | none => none
    | some g =>
      -- `chunks_mut(poly_size)` panics on a zero chunk size
      if polySize = 0 then none else
      forRange (fun c (res : Array β) =>
        match permuteIndex blowup c with
        | none => none
        | some idx =>
          let off := B.mul (B.exp g idx) domainOffset
          some (res ++ (powersFrom B.mul off polySize B.one).toArray))
        0 blowup (Array.mkEmpty (polySize * blowup))

/-- `[f 0, …, f (n-1)]`; `none` as soon as one entry panics -/
def buildArr {γ : Type} (f : Nat → Option γ) : Nat → Option (Array γ)
  | 0 => some #[]
  | n + 1 => match buildArr f n with
    | none => none
    | some a => (f n).map a.push

/-- rows of chunk `c` of a segment before the transform (`copy_polys` / `copy_polys_partial`):
    `dest[row][i] = coeff(poly_offset + i, row) * offsets[row]` for the `numPolys` columns that exist, the
    remaining slots keep the `zero` the buffer was initialised with -/
def segmentChunk (mul : β → β → β) (zero : β) (N numPolys : Nat) (polys : Array (Array β))
    (polySize polyOffset : Nat) (offsets : Array β) (c : Nat) : Option (Array (Array β)) :=
  buildArr (fun row =>
    match offsets[c * polySize + row]? with
    | none => none
    | some off =>
      buildArr (fun i =>
        if i < numPolys then
          match polys[polyOffset + i]? with
          | some col => (col[row]?).map (fun coeff => mul coeff off)
          | none => none
        else some zero) N) polySize

/-- `Segment::new(polys, poly_offset, offsets, twiddles)` for segment width `N`; `polys` are the base-field
    columns (`get_base_element(col, row)`), `zero` fills the unused slots of a ragged last segment -/
def segmentNew (rops : Ops β (Array β)) (mul : β → β → β) (zero : β) (maxLoop N : Nat)
    (polys : Array (Array β)) (polySize polyOffset : Nat) (offsets tw : Array β) : Option (Array (Array β)) :=
  let domainSize := offsets.size
  if ¬ (isPow2 domainSize ∧ domainSize > polySize ∧ polySize = tw.size * 2 ∧ polyOffset < polys.size) then none else
  if polySize = 0 then none else
  let numPolys := min (polys.size - polyOffset) N
  (forRange (fun c (res : Array (Array β)) =>
      match segmentChunk mul zero N numPolys polys polySize polyOffset offsets c with
      | none => none
      | some ch => (fftTop rops maxLoop tw ch).map (res ++ ·))
    0 (domainSize / polySize) (Array.mkEmpty domainSize)).bind permute

/-- a row-major matrix: flat data, row width, accessible elements per row -/
structure RowMat (β : Type) where
  data : Array β
  rowWidth : Nat
  elementsPerRow : Nat

/-- `transpose(segments)`: one segment is returned as it is; otherwise
    `result[row * num_segs + j] = segments[j][row]` written into a buffer of `num_rows * num_segs` rows -/
def transposeSegments (segs : Array (Array (Array β))) (numRows : Nat) : Option (Array (Array β)) :=
  if segs.size = 1 then segs[0]? else
  forRange (fun i res =>
    forRange (fun j (res : Array (Array β)) =>
      match segs[j]? with
      | none => none
      | some seg =>
        match seg[i]? with
        | none => none
        | some cells =>
          if h : i * segs.size + j < res.size then some (res.set (i * segs.size + j) cells) else none)
      0 segs.size res)
    0 numRows (Array.replicate (numRows * segs.size) #[])

/-- `flatten_vector_elements`: the rows `[B; N]` one after the other -/
def flattenRows (rows : Array (Array β)) : Option (Array β) :=
  forRange (fun t (res : Array β) => (rows[t]?).map (res ++ ·)) 0 rows.size #[]

/-- `build_segments` + `RowMatrix::from_segments` (`transpose`, `flatten_vector_elements`) -/
def rowMatrixFromPolys (rops : Ops β (Array β)) (mul : β → β → β) (zero : β) (maxLoop N : Nat)
    (polys : Array (Array β)) (polySize : Nat) (offsets tw : Array β) : Option (RowMat β) :=
  if N = 0 then none else
  let baseCols := polys.size
  let numSegments := if baseCols % N = 0 then baseCols / N else baseCols / N + 1
  match buildArr (fun i => segmentNew rops mul zero maxLoop N polys polySize (i * N) offsets tw) numSegments with
  | none => none
  | some segs =>
    -- from_segments: `assert!(!segments.is_empty())`, `elements_per_row <= row_width`
    if segs.size = 0 then none else
    let rowWidth := segs.size * N
    if baseCols > rowWidth then none else
    match segs[0]? with
    | none => none
    | some s0 =>
      match (transposeSegments segs s0.size).bind flattenRows with
      | none => none
      | some d => some { data := d, rowWidth := rowWidth, elementsPerRow := baseCols }

/-- `StarkDomain::from_twiddles(trace_twiddles, blowup_factor, domain_offset)`: only its assertions and the
    quantities the matrices read back (`trace_to_lde_blowup = ce_domain_size * 1 / trace_length`) -/
def starkDomainBlowup (B : BaseOps β) (tw : Array β) (blowup : Nat) : Option Nat :=
  if ¬ (isPow2 tw.size ∧ isPow2 blowup) then none else
  let ce := tw.size * blowup * 2
  match ilog2 ce with
  | none => none
  | some k =>
    match B.rootOfUnity k with
    | none => none
    | some _ => some (ce / (tw.size * 2))

/-- `RowMatrix::evaluate_polys_over::<N>(polys, domain)` with `domain = from_twiddles(tw, blowup, offset)` -/
def evaluatePolysOver (rops : Ops β (Array β)) (B : BaseOps β) (zero : β) (maxLoop N : Nat)
    (polys : Array (Array β)) (polySize : Nat) (tw : Array β) (blowup : Nat) (domainOffset : β) :
    Option (RowMat β) :=
  if N = 0 then none else
  match starkDomainBlowup B tw blowup with
  | none => none
  | some b =>
    match evaluationOffsets B polySize b domainOffset with
    | none => none
    | some offsets => rowMatrixFromPolys rops B.mul zero maxLoop N polys polySize offsets tw

/-! ## caller-supplied storage: `Segment::new_with_buffer`, `RowMatrix::from_segments` -/

/-- rows of chunk `c` written into the caller's buffer `buf`: slots `i < numPolys` are overwritten with
    `coeff * offsets[row]` (zero coefficients included), the other slots keep what the buffer held -/
def segmentChunkBuf (mul : β → β → β) (N numPolys : Nat) (polys : Array (Array β))
    (polySize polyOffset : Nat) (offsets : Array β) (buf : Array (Array β)) (c : Nat) : Option (Array (Array β)) :=
  buildArr (fun row =>
    match offsets[c * polySize + row]?, buf[c * polySize + row]? with
    | some off, some old =>
      buildArr (fun i =>
        if i < numPolys then
          match polys[polyOffset + i]? with
          | some col => (col[row]?).map (fun coeff => mul coeff off)
          | none => none
        else old[i]?) N
    | _, _ => none) polySize

/-- `Segment::new_with_buffer(data_buffer, polys, poly_offset, offsets, twiddles)` -/
def segmentNewWithBuffer (rops : Ops β (Array β)) (mul : β → β → β) (maxLoop N : Nat)
    (buf : Array (Array β)) (polys : Array (Array β)) (polySize polyOffset : Nat) (offsets tw : Array β) :
    Option (Array (Array β)) :=
  let domainSize := offsets.size
  if ¬ (isPow2 domainSize ∧ domainSize > polySize ∧ polySize = tw.size * 2 ∧ polyOffset < polys.size
        ∧ buf.size = domainSize) then none else
  if polySize = 0 then none else
  let numPolys := min (polys.size - polyOffset) N
  (forRange (fun c (res : Array (Array β)) =>
      match segmentChunkBuf mul N numPolys polys polySize polyOffset offsets buf c with
      | none => none
      | some ch => (fftTop rops maxLoop tw ch).map (res ++ ·))
    0 (domainSize / polySize) (Array.mkEmpty domainSize)).bind permute

/-- `RowMatrix::from_segments::<N>(segments, elements_per_row)` -/
def rowMatrixFromSegments (N : Nat) (segs : Array (Array (Array β))) (elementsPerRow : Nat) : Option (RowMat β) :=
  if N = 0 then none else
  if segs.size = 0 then none else
  let rowWidth := segs.size * N
  if elementsPerRow > rowWidth then none else
  match segs[0]? with
  | none => none
  | some s0 =>
    match (transposeSegments segs s0.size).bind flattenRows with
    | none => none
    | some d => some { data := d, rowWidth := rowWidth, elementsPerRow := elementsPerRow }

/-! ## `StarkDomain::new(&air)`: a domain whose constraint-evaluation blowup differs from its LDE blowup -/

/-- `usize::next_power_of_two` (`0` and `1` give `1`) -/
def nextPow2 (x : Nat) : Nat := if x ≤ 1 then 1 else 2 ^ (Nat.log2 (x - 1) + 1)

/-- `TransitionConstraintDegree::new(deg).min_blowup_factor()` (no periodic columns): `none` = its assertion -/
def minBlowupFactor (deg : Nat) : Option Nat :=
  if deg = 0 then none else some (max (nextPow2 (deg - 1)) 2)

/-- the fields of `StarkDomain` (prover/src/domain.rs) -/
structure Domain (β : Type) where
  traceTwiddles : Array β
  ceDomainSize : Nat
  ceToLdeBlowup : Nat
  offset : β

def Domain.traceLength (d : Domain β) : Nat := d.traceTwiddles.size * 2
def Domain.ldeDomainSize (d : Domain β) : Nat := d.ceDomainSize * d.ceToLdeBlowup
/-- `lde_domain_size() / trace_length()`; `none` = division by zero -/
def Domain.traceToLdeBlowup (d : Domain β) : Option Nat :=
  if d.traceLength = 0 then none else some (d.ldeDomainSize / d.traceLength)
def Domain.traceToCeBlowup (d : Domain β) : Option Nat :=
  if d.traceLength = 0 then none else some (d.ceDomainSize / d.traceLength)

/-- `StarkDomain::new(&air)` for an AIR with trace length `n`, one transition constraint of degree `deg`,
    LDE blowup `lde` (`ProofOptions::blowup_factor`) and domain offset `offset`: the assertions of `TraceInfo::new`,
    `ProofOptions::new`, `AirContext::new` that concern these quantities, then the fields of the domain -/
def starkDomainNew (B : BaseOps β) (n lde deg : Nat) (offset : β) : Option (Domain β) :=
  -- TraceInfo: length ≥ 8, a power of two; ProofOptions: blowup a power of two in 2..128
  if ¬ (n ≥ 8 ∧ isPow2 n ∧ isPow2 lde ∧ 2 ≤ lde ∧ lde ≤ 128) then none else
  match minBlowupFactor deg with
  | none => none
  | some ce =>
    -- AirContext: `options.blowup_factor() >= ce_blowup_factor`; the generators of the trace and LDE domains
    if lde < ce then none else
    match ilog2 n, ilog2 (n * lde) with
    | some kn, some kl =>
      match B.rootOfUnity kn, B.rootOfUnity kl with
      | some _, some _ =>
        -- StarkDomain::new: twiddles, the constraint-evaluation domain
        match getTwiddles B n, ilog2 (n * ce) with
        | some tw, some kc =>
          match B.rootOfUnity kc with
          | some _ => some { traceTwiddles := tw, ceDomainSize := n * ce, ceToLdeBlowup := n * lde / (n * ce),
                             offset := offset }
          | none => none
        | _, _ => none
      | _, _ => none
    | _, _ => none

/-- `RowMatrix::evaluate_polys_over::<N>(polys, domain)` for a domain given by its fields -/
def evaluatePolysOverDomain (rops : Ops β (Array β)) (B : BaseOps β) (zero : β) (maxLoop N : Nat)
    (polys : Array (Array β)) (polySize : Nat) (dom : Domain β) : Option (RowMat β) :=
  if N = 0 then none else
  match dom.traceToLdeBlowup with
  | none => none
  | some b =>
    match evaluationOffsets B polySize b dom.offset with
    | none => none
    | some offsets => rowMatrixFromPolys rops B.mul zero maxLoop N polys polySize offsets dom.traceTwiddles

/-! ## the records the driver runs the model with: raw words of a base field -/

/-- base-field operations on raw words of the field implementation `I` (Winter/Model/Field.lean) -/
def BaseOps.ofImpl (I : Model.FieldImpl) : BaseOps Nat where
  one := I.new 1
  mul := I.mul
  exp := I.exp
  inv := fun x => match I.inv x with
    | .done r => some r
    | .out => none
  ofNat := I.new
  isZero := fun x => I.eq x (I.new 0)
  twoAdicity := I.twoAdicity
  rootOfUnity := I.rootOfUnity

/-- an element of extension degree `d` as the array of its `d` base coordinates (raw words): `+`, `-`,
    `mul_base` and multiplication by an embedded base element act coordinate-wise; also the rows `[B; N]` -/
def coordOps (I : Model.FieldImpl) : Ops Nat (Array Nat) :=
  rowOps I.add I.sub I.mul (fun x => I.eq x (I.new 0))

/-- `RowMatrix::row(row_idx)` as base-field cells -/
def RowMat.row (m : RowMat β) (r : Nat) : Option (Array β) :=
  if m.rowWidth = 0 then none else
  if r < m.data.size / m.rowWidth ∧ r * m.rowWidth + m.elementsPerRow ≤ m.data.size then
    some (m.data.extract (r * m.rowWidth) (r * m.rowWidth + m.elementsPerRow))
  else none

end Model.Fft
