-- Hand-written executable model of the constraint composition polynomial (property C17):
--   * the DEFINITION  C(x) = Σ_j α_j·T_j(frame(x)) / Z_T(x) + Σ_i β_i·(t_{col_i}(x) − v_i(x)) / Z_i(x)
--     over a data-driven AIR (constraints as expression trees mirroring harness/src/genair.rs `Expr`,
--     assertions as data);
--   * the verifier's expression (verifier/src/evaluator.rs `evaluate_constraints`,
--     air/src/air/transition/mod.rs `combine_evaluations`, air/src/air/boundary/constraint_group.rs
--     `evaluate_at`, air/src/air/boundary/mod.rs `group_constraints`) and the OOD recombination
--     `Σ z^(i·n) H_i(z)` of verifier/src/lib.rs;
--   * the prover's pipeline: prover/src/domain.rs (`get_ce_x_at`, `get_ce_x_power_at`),
--     prover/src/constraints/evaluator/boundary.rs (the three representations `SingleValue / SmallPoly /
--     LargePoly`, grouping with the aux-into-main merge), periodic_table.rs (`new`, `get_row`),
--     default.rs (`evaluate_fragment_main / _full`), evaluation_table.rs (`get_inv_evaluation`,
--     `acc_column`, `combine`), composition_poly.rs (`CompositionPoly::new`, `segment`, `evaluate_at`);
--   * the coefficient bookkeeping of air/src/air/mod.rs (`get_constraint_composition_coefficients`,
--     the main/aux `split_at`s) and `num_constraint_composition_columns` of air/src/air/context.rs.
-- Divisors, assertions and boundary-constraint value polynomials are those of Winter/Model/Divisor.lean
-- (property C16).  Everything is generic in a record `Ops α` of field operations: the driver
-- instantiates it with the raw-word operations of the base fields, the proofs with a Mathlib field.
-- FFT-based functions enter through their specification (`evaluate_poly_with_offset` = evaluation at
-- `offset·w^i`, `interpolate_poly(_with_offset)` = inverse DFT, the trace LDE = evaluation of the trace
-- polynomial over the LDE coset): that the FFTs compute them is property C09.
-- usize is Nat (sizes are far below 2^64); list indexing that the Rust code performs on validated
-- descriptions goes through `nth` (index ranges are validated before anything is evaluated; the driver
-- rejects other descriptions as `bad-op`); `Option` = a field division that does not return (C07) or a
-- missing root of unity.
import Winter.Model.Divisor

namespace Model.Composition
open Model.Divisor

variable {α : Type}

/-- `slice[i]` on a validated description -/
def nth (O : Ops α) (l : List α) (i : Nat) : α := l.getD i O.zero

def resOpt {β : Type} : Res β → Option β
  | .ok b => some b
  | .panic _ => none

-- ================================================================================ expressions
/-- constraint expressions (genair `Expr` without the division of generation rules) -/
inductive Expr where
  | const (v : Nat)
  | cur (i : Nat)
  | nxt (i : Nat)
  | per (i : Nat)
  | acur (i : Nat)
  | anxt (i : Nat)
  | rand (i : Nat)
  | pub (i : Nat)
  | pubSeq (i : Nat)
  | add (a b : Expr)
  | sub (a b : Expr)
  | mul (a b : Expr)
  | pow (a : Expr) (k : Nat)
  | neg (a : Expr)
  deriving Repr, Inhabited

/-- evaluation environment: current / next main cells, periodic values, current / next aux cells,
    aux random elements, public inputs -/
structure Env (α : Type) where
  cur : Nat → α
  nxt : Nat → α
  per : Nat → α
  acur : Nat → α
  anxt : Nat → α
  rand : Nat → α
  pub : Nat → α
  seq : Nat

def Expr.eval (O : Ops α) (env : Env α) : Expr → α
  | .const v => O.ofNat v
  | .cur i => env.cur i
  | .nxt i => env.nxt i
  | .per i => env.per i
  | .acur i => env.acur i
  | .anxt i => env.anxt i
  | .rand i => env.rand i
  | .pub i => env.pub i
  | .pubSeq i => env.pub (i + env.seq)
  | .add a b => O.add (a.eval O env) (b.eval O env)
  | .sub a b => O.sub (a.eval O env) (b.eval O env)
  | .mul a b => O.mul (a.eval O env) (b.eval O env)
  | .pow a k => O.pow (a.eval O env) k
  | .neg a => O.sub O.zero (a.eval O env)

-- ================================================================================ description
/-- one instance: shape, periodic columns (one cycle of values each), constraints with their
    declared degrees, assertions with their values (auxiliary ones already instantiated with the
    verifier's randomness) -/
structure Air (α : Type) where
  n : Nat
  e : Nat
  mainWidth : Nat
  auxWidth : Nat
  periodic : List (List α)
  mainCons : List Expr
  auxCons : List Expr
  mainDegs : List Degree
  auxDegs : List Degree
  mainAsserts : List (Assertion α)
  auxAsserts : List (Assertion α)

-- ================================================================================ divisors (total forms)
/-- `get_num_steps` of a validated assertion -/
def numSteps (a : Assertion α) (n : Nat) : Nat :=
  if a.isSingle then 1 else if a.isPeriodic then n / a.stride else a.values.length

/-- `ConstraintDivisor::from_assertion` of a validated assertion (`g` the trace-domain generator):
    `x^k − g^(k·first)`; equals `Divisor.fromAssertion` whenever that succeeds
    (WinterProofs.C17L.fromAssertion_eq) -/
def assertionDivisor (O : Ops α) (g : α) (a : Assertion α) (n : Nat) : Divisor α :=
  ⟨[(numSteps a n, if a.first = 0 then O.one else O.pow g (numSteps a n * a.first))], []⟩

/-- `ConstraintDivisor::from_transition(n, e)` for `e ≤ n` (WinterProofs.C17L.fromTransition_eq) -/
def transitionDivisor (O : Ops α) (g : α) (n e : Nat) : Divisor α :=
  ⟨[(n, O.one)], (List.range' (n - e) e).map (fun step => O.pow g step)⟩

-- ================================================================================ instantiation
/-- a boundary constraint together with the assertion it was built from -/
structure BC (α : Type) where
  a : Assertion α
  c : BConstraint α

/-- what `Air::get_periodic_column_polys` and `BoundaryConstraints::new` compute once per instance:
    the trace-domain generator and its inverse, the periodic column polynomials, the validated and
    sorted assertions (`prepare_assertions`) with their value polynomials -/
structure Prep (α : Type) where
  g : α
  invG : α
  perPolys : List (List α)
  main : List (BC α)
  aux : List (BC α)

def mkBC (O : Ops α) (invG : α) (a : Assertion α) : Option (BC α) :=
  (BConstraint.new O a invG).map (fun c => ⟨a, c⟩)

def prep (O : Ops α) (air : Air α) : Option (Prep α) := do
  let g ← O.root (Nat.log2 air.n)
  let invG ← O.div O.one g
  let pp ← air.periodic.mapM (interpolate O)
  let ms ← resOpt (prepareAssertions air.mainAsserts air.mainWidth air.n)
  let as ← resOpt (prepareAssertions air.auxAsserts air.auxWidth air.n)
  let mc ← ms.mapM (mkBC O invG)
  let ac ← as.mapM (mkBC O invG)
  pure ⟨g, invG, pp, mc, ac⟩

-- ================================================================================ frames
structure Frames (α : Type) where
  mainCur : Nat → α
  mainNxt : Nat → α
  auxCur : Nat → α
  auxNxt : Nat → α

/-- the trace column polynomials (coefficient lists) at `x` and `x·g` -/
def framesOf (O : Ops α) (mainPolys auxPolys : Nat → List α) (g x : α) : Frames α :=
  ⟨fun j => polyEval O (mainPolys j) x, fun j => polyEval O (mainPolys j) (O.mul x g),
   fun j => polyEval O (auxPolys j) x, fun j => polyEval O (auxPolys j) (O.mul x g)⟩

/-- value of periodic column `i` at `x`: its cycle polynomial at `x^(n/len)` -/
def periodicAt (O : Ops α) (n : Nat) (pp : List (List α)) (x : α) (i : Nat) : α :=
  match pp[i]? with
  | some p => polyEval O p (O.pow x (n / p.length))
  | none => O.zero

def mkEnv (O : Ops α) (fr : Frames α) (per rands : Nat → α) : Env α :=
  ⟨fr.mainCur, fr.mainNxt, per, fr.auxCur, fr.auxNxt, rands, fun _ => O.zero, 0⟩

/-- `Σ coef_i · value_i` (the `fold` of `combine_evaluations` / `evaluate_main_transition`) -/
def combine (O : Ops α) (coefs vals : List α) : α :=
  (coefs.zip vals).foldl (fun acc p => O.add acc (O.mul p.1 p.2)) O.zero

/-- `Σ f(b)` in the `Option` monad -/
def sumTerms {β : Type} (O : Ops α) (f : β → Option α) : List β → Option α
  | [] => some O.zero
  | b :: bs => do
    let v ← f b
    let r ← sumTerms O f bs
    pure (O.add v r)

-- ================================================================================ THE DEFINITION
/-- one boundary term `β·(t − v(x)) / Z(x)` -/
def boundaryTerm (O : Ops α) (P : Prep α) (n : Nat) (bc : BC α) (β t x : α) : Option α := do
  let z ← (assertionDivisor O P.g bc.a n).evalAt O x
  O.div (O.mul (bc.c.evalAt O x t) β) z

/-- C(x): every transition constraint on the trace polynomials' frame at `x`, combined with the
    transition coefficients and divided by the transition divisor, plus every boundary constraint
    divided by its own divisor; boundary coefficients go to the sorted assertions, main segment first -/
def defAt (O : Ops α) (air : Air α) (P : Prep α) (mainPolys auxPolys : Nat → List α) (rands : Nat → α)
    (tco bco : List α) (x : α) : Option α := do
  let fr := framesOf O mainPolys auxPolys P.g x
  let env := mkEnv O fr (periodicAt O air.n P.perPolys x) rands
  let zt ← (transitionDivisor O P.g air.n air.e).evalAt O x
  let t ← O.div (combine O tco ((air.mainCons ++ air.auxCons).map (fun c => c.eval O env))) zt
  let bm ← sumTerms O (fun (p : BC α × α) => boundaryTerm O P air.n p.1 p.2 (fr.mainCur p.1.c.column) x)
    (P.main.zip bco)
  let ba ← sumTerms O (fun (p : BC α × α) => boundaryTerm O P air.n p.1 p.2 (fr.auxCur p.1.c.column) x)
    (P.aux.zip (bco.drop P.main.length))
  pure (O.add (O.add t bm) ba)

-- ================================================================================ VERIFIER
/-- `air::BoundaryConstraintGroup`: constraints (with their coefficients) sharing a divisor -/
structure BGroup (α : Type) where
  stride : Nat
  first : Nat
  divisor : Divisor α
  items : List (BConstraint α × α)

/-- one step of `group_constraints`: the BTreeMap entry keyed by `(stride, first_step)`; the input
    is sorted by that key, so a new key goes to the end -/
def insertGroup (O : Ops α) (g : α) (n : Nat) (bc : BC α) (cc : α) : List (BGroup α) → List (BGroup α)
  | [] => [⟨bc.a.stride, bc.a.first, assertionDivisor O g bc.a n, [(bc.c, cc)]⟩]
  | grp :: rest =>
    if grp.stride == bc.a.stride && grp.first == bc.a.first then
      { grp with items := grp.items ++ [(bc.c, cc)] } :: rest
    else grp :: insertGroup O g n bc cc rest

def groupConstraintsCC (O : Ops α) (g : α) (n : Nat) (l : List (BC α × α)) : List (BGroup α) :=
  l.foldl (fun gs p => insertGroup O g n p.1 p.2 gs) []

/-- `BoundaryConstraintGroup::evaluate_at(state, x)` -/
def BGroup.evalAt (O : Ops α) (grp : BGroup α) (state : Nat → α) (x : α) : Option α := do
  let z ← grp.divisor.evalAt O x
  O.div (grp.items.foldl (fun num p => O.add num (O.mul (p.1.evalAt O x (state p.1.column)) p.2)) O.zero) z

/-- `evaluate_constraints(air, coefficients, main frame, aux frame, aux rands, x)` (without the
    Lagrange kernel part) -/
def evaluateConstraints (O : Ops α) (air : Air α) (P : Prep α) (fr : Frames α) (rands : Nat → α)
    (tco bco : List α) (x : α) : Option α := do
  let env := mkEnv O fr (periodicAt O air.n P.perPolys x) rands
  let t1 := air.mainCons.map (fun c => c.eval O env)
  let t2 := air.auxCons.map (fun c => c.eval O env)
  -- TransitionConstraints::new: split_at(#main constraints)
  let mc := tco.take air.mainCons.length
  let ac := tco.drop air.mainCons.length
  -- combine_evaluations
  let r := combine O mc t1
  let r := if ac.isEmpty then r else O.add r (combine O ac t2)
  let z ← (transitionDivisor O P.g air.n air.e).evalAt O x
  let result ← O.div r z
  -- BoundaryConstraints::new: split_at(#main assertions), group_constraints per segment
  let mg := groupConstraintsCC O P.g air.n (P.main.zip (bco.take P.main.length))
  let ag := groupConstraintsCC O P.g air.n (P.aux.zip (bco.drop P.main.length))
  let rm ← sumTerms O (fun grp => grp.evalAt O fr.mainCur x) mg
  let ra ← sumTerms O (fun grp => grp.evalAt O fr.auxCur x) ag
  pure (O.add (O.add result rm) ra)

/-- the OOD recombination of verifier/src/lib.rs: `Σ_i z^(i·n) · value_i` -/
def recombine (O : Ops α) (n : Nat) (z : α) (vals : List α) : α :=
  vals.zipIdx.foldl (fun acc p => O.add acc (O.mul (O.pow z (p.2 * n)) p.1)) O.zero

-- ================================================================================ coefficients
/-- `Air::get_constraint_composition_coefficients` on the sequence of elements the coin hands out:
    transition coefficients, then boundary coefficients (then the Lagrange kernel ones) -/
def drawCoefficients (draws : List α) (numTransition numAssertions : Nat) : List α × List α × List α :=
  (draws.take numTransition, (draws.drop numTransition).take numAssertions,
   draws.drop (numTransition + numAssertions))

/-- `TransitionConstraints::new`: main | aux -/
def splitTransition (tco : List α) (numMain : Nat) : List α × List α := (tco.take numMain, tco.drop numMain)

/-- `BoundaryConstraints::new`: main | aux (after sorting) -/
def splitBoundary (bco : List α) (numMain : Nat) : List α × List α := (bco.take numMain, bco.drop numMain)

/-- `AirContext::num_constraint_composition_columns` -/
def numCompColumns (degs : List Degree) (n e : Nat) : Nat :=
  let highest := degs.foldl (fun h d => if d.evalDegree n > h then d.evalDegree n else h) 0
  max ((highest - (n - e)) / n + 1) 1

-- ================================================================================ PROVER: domain
/-- `StarkDomain`: `wce` generates the constraint evaluation domain, `wlde` the LDE domain -/
structure Domain (α : Type) where
  n : Nat
  ceBlowup : Nat
  ldeBlowup : Nat
  offset : α
  wce : α
  wlde : α

def Domain.ceSize (D : Domain α) : Nat := D.n * D.ceBlowup
def Domain.ldeSize (D : Domain α) : Nat := D.n * D.ldeBlowup

def mkDomain (O : Ops α) (n ceBlowup ldeBlowup : Nat) (offset : α) : Option (Domain α) := do
  let wce ← O.root (Nat.log2 (n * ceBlowup))
  let wlde ← O.root (Nat.log2 (n * ldeBlowup))
  pure ⟨n, ceBlowup, ldeBlowup, offset, wce, wlde⟩

/-- `get_ce_x_at(step)` = `ce_domain[step] * offset` -/
def Domain.ceX (O : Ops α) (D : Domain α) (step : Nat) : α := O.mul (O.pow D.wce step) D.offset

/-- `get_ce_x_power_at(step, power, offset^power)` = `ce_domain[(step·power) mod ce] * offset^power` -/
def Domain.ceXPower (O : Ops α) (D : Domain α) (step power : Nat) : α :=
  O.mul (O.pow D.wce ((step * power) % D.ceSize)) (O.pow D.offset power)

/-- specification of `fft::evaluate_poly_with_offset(p, twiddles, offset, blowup)`:
    `p(offset · w^i)`, `i < len·blowup`, `w = get_root_of_unity(log2(len·blowup))` -/
def evalPolyWithOffset (O : Ops α) (p : List α) (offset : α) (blowup : Nat) : Option (List α) := do
  let w ← O.root (Nat.log2 (p.length * blowup))
  pure ((List.range (p.length * blowup)).map (fun i => polyEval O p (O.mul offset (O.pow w i))))

-- ================================================================================ PROVER: boundary representations
/-- the prover's specialised boundary constraints (without the composition coefficient) -/
inductive BRepr (α : Type) where
  | single (column : Nat) (value : α)
  | small (column : Nat) (poly : List α) (xOffset : α)
  | large (column : Nat) (values : List α) (stepOffset : Nat)

/-- `SMALL_POLY_DEGREE` -/
def smallPolyDegree : Nat := 63

/-- the choice of representation in `from_main_constraints` / `add_aux_constraints`;
    `threshold` is `SMALL_POLY_DEGREE` -/
def BRepr.ofConstraint (O : Ops α) (D : Domain α) (threshold : Nat) (c : BConstraint α) : Option (BRepr α) :=
  match c.poly with
  | [v] => some (.single c.column v)
  | p =>
    if p.length < threshold then some (.small c.column p c.offsetElem)
    else do
      -- LargePolyConstraint::new: all values over the constraint evaluation domain
      let values ← evalPolyWithOffset O p D.offset (D.ceSize / p.length)
      pure (.large c.column values (c.offsetSteps * D.ceBlowup))

/-- `evaluate(state, [x | ce_step])` without the coefficient: `state[column] − value` -/
def BRepr.evaluate (O : Ops α) (r : BRepr α) (state : Nat → α) (step : Nat) (x : α) : Option α :=
  match r with
  | .single column value => some (O.sub (state column) value)
  | .small column poly xOffset =>
    -- Horner evaluation at x * x_offset
    some (O.sub (state column) (polyEval O poly (O.mul x xOffset)))
  | .large column values stepOffset =>
    let idx :=
      if stepOffset > 0 then
        if stepOffset > step then values.length + step - stepOffset else step - stepOffset
      else step
    match values[idx]? with
    | some v => some (O.sub (state column) v)
    | none => none

/-- one specialised constraint of a prover group: the representation `r`, the coefficient `cc`, and
    (ghost, never used by the evaluation) the constraint `c` it was built from -/
structure PItem (α : Type) where
  c : BConstraint α
  r : BRepr α
  cc : α

/-- the prover's `BoundaryConstraintGroup`: main constraints, then auxiliary ones -/
structure PGroup (α : Type) where
  divisor : Divisor α
  mainItems : List (PItem α)
  auxItems : List (PItem α)

def toReprs (O : Ops α) (D : Domain α) (threshold : Nat) (items : List (BConstraint α × α)) :
    Option (List (PItem α)) :=
  items.mapM (fun p => (BRepr.ofConstraint O D threshold p.1).map (fun r => (⟨p.1, r, p.2⟩ : PItem α)))

/-- `ConstraintDivisor == ConstraintDivisor` (derived PartialEq) with the field's equality `beq` -/
def divisorEq (beq : α → α → Bool) (a b : Divisor α) : Bool :=
  a.numerator.length == b.numerator.length && a.exemptions.length == b.exemptions.length &&
  (a.numerator.zip b.numerator).all (fun p => p.1.1 == p.2.1 && beq p.1.2 p.2.2) &&
  (a.exemptions.zip b.exemptions).all (fun p => beq p.1 p.2)

/-- merge one auxiliary group: into the first group with the same divisor, else a new group -/
def mergeAux (beq : α → α → Bool) (d : Divisor α) (items : List (PItem α)) : List (PGroup α) → List (PGroup α)
  | [] => [⟨d, [], items⟩]
  | grp :: rest =>
    if divisorEq beq grp.divisor d then { grp with auxItems := grp.auxItems ++ items } :: rest
    else grp :: mergeAux beq d items rest

/-- prover-side `BoundaryConstraints::new` -/
def proverGroups (O : Ops α) (beq : α → α → Bool) (D : Domain α) (threshold : Nat)
    (mg ag : List (BGroup α)) : Option (List (PGroup α)) := do
  let main ← mg.mapM (fun grp => (toReprs O D threshold grp.items).map (fun rs => (⟨grp.divisor, rs, []⟩ : PGroup α)))
  ag.foldlM (fun acc grp => (toReprs O D threshold grp.items).map (fun rs => mergeAux beq grp.divisor rs acc)) main

/-- `evaluate_main` / `evaluate_all` of one group at one step -/
def PGroup.evaluate (O : Ops α) (grp : PGroup α) (mainState auxState : Nat → α) (step : Nat) (x : α) : Option α := do
  let m ← sumTerms O (fun (p : PItem α) => (p.r.evaluate O mainState step x).map (fun v => O.mul p.cc v)) grp.mainItems
  let a ← sumTerms O (fun (p : PItem α) => (p.r.evaluate O auxState step x).map (fun v => O.mul p.cc v)) grp.auxItems
  pure (O.add m a)

-- ================================================================================ PROVER: periodic table
/-- `PeriodicValueTable`: `rows[i]` holds the values of all periodic columns for step `i` of the
    longest expanded cycle (the flat `values[i·width + j]` layout is modelled as a list of rows) -/
structure PTable (α : Type) where
  rows : List (List α)
  length : Nat
  width : Nat

/-- `PeriodicValueTable::new` -/
def PTable.new (O : Ops α) (D : Domain α) (polys : List (List α)) : Option (PTable α) :=
  if polys.isEmpty then some ⟨[], 0, 0⟩
  else do
    let maxPolySize := polys.foldl (fun m p => if p.length > m then p.length else m) 0
    let evaluations ← polys.mapM (fun poly =>
      evalPolyWithOffset O poly (O.pow D.offset (D.n / poly.length)) D.ceBlowup)
    let columnLength := maxPolySize * D.ceBlowup
    pure ⟨(List.range columnLength).map (fun i => evaluations.map (fun column => nth O column (i % column.length))),
      columnLength, polys.length⟩

/-- `get_row(ce_step)` -/
def PTable.getRow (t : PTable α) (step : Nat) : List α :=
  if t.width = 0 then [] else (t.rows[step % t.length]?).getD []

-- ================================================================================ PROVER: rows
/-- specification of the trace LDE: value of a trace polynomial at LDE step `i` -/
def ldeAt (O : Ops α) (D : Domain α) (poly : List α) (i : Nat) : α :=
  polyEval O poly (O.mul D.offset (O.pow D.wlde i))

/-- the frames `read_main_trace_frame_into(step << lde_shift)` / `read_aux_trace_frame_into` deliver -/
def proverFrames (O : Ops α) (D : Domain α) (mainPolys auxPolys : Nat → List α) (step : Nat) : Frames α :=
  let i := step * (D.ldeBlowup / D.ceBlowup)
  let j := (i + D.ldeBlowup) % D.ldeSize
  ⟨fun c => ldeAt O D (mainPolys c) i, fun c => ldeAt O D (mainPolys c) j,
   fun c => ldeAt O D (auxPolys c) i, fun c => ldeAt O D (auxPolys c) j⟩

/-- one row of the evaluation table (`evaluate_fragment_main` / `_full`): the merged transition
    evaluations, then one merged value per boundary group -/
def proverRow (O : Ops α) (air : Air α) (D : Domain α) (table : PTable α) (groups : List (PGroup α))
    (mainPolys auxPolys : Nat → List α) (rands : Nat → α) (tco : List α) (step : Nat) : Option (List α) := do
  let fr := proverFrames O D mainPolys auxPolys step
  let env := mkEnv O fr (nth O (table.getRow step)) rands
  let mc := tco.take air.mainCons.length
  let ac := tco.drop air.mainCons.length
  let t := combine O mc (air.mainCons.map (fun c => c.eval O env))
  let t := if air.auxWidth = 0 then t else O.add t (combine O ac (air.auxCons.map (fun c => c.eval O env)))
  let x := D.ceX O step
  let bs ← groups.mapM (fun grp => grp.evaluate O fr.mainCur fr.auxCur step x)
  pure (t :: bs)

-- ================================================================================ PROVER: combine
/-- `get_inv_evaluation`: `1 / (x^a − b)` over the first `ce/a` points of the domain -/
def invEvaluations (O : Ops α) (D : Domain α) (d : Divisor α) : Option (List α) :=
  match d.numerator with
  | [(a, b)] =>
    if a = 0 then none
    else (List.range (D.ceSize / a)).mapM (fun i => O.div O.one (O.sub (D.ceXPower O i a) b))
  | _ => none

/-- `acc_column`: add `column / divisor` to the accumulator -/
def accColumn (O : Ops α) (D : Domain α) (column : List α) (d : Divisor α) (acc : List α) : Option (List α) := do
  let z ← invEvaluations O D d
  if z.isEmpty then none
  else
    pure (acc.zipIdx.map (fun p =>
      let i := p.2
      let zi := nth O z (i % z.length)
      let v := nth O column i
      if d.exemptions.isEmpty then O.add p.1 (O.mul v zi)
      else O.add p.1 (O.mul v (O.mul zi (d.evalExemptions O (D.ceX O i))))))

/-- `ConstraintEvaluationTable::combine` on the table given as rows -/
def combineTable (O : Ops α) (D : Domain α) (rows : List (List α)) (divisors : List (Divisor α)) : Option (List α) :=
  divisors.zipIdx.foldlM (fun acc p => accColumn O D (rows.map (fun r => nth O r p.2)) p.1 acc)
    (List.replicate D.ceSize O.zero)

/-- `DefaultConstraintEvaluator::evaluate`: the composition polynomial trace -/
def compositionTrace (O : Ops α) (beq : α → α → Bool) (air : Air α) (P : Prep α) (D : Domain α) (threshold : Nat)
    (mainPolys auxPolys : Nat → List α) (rands : Nat → α) (tco bco : List α) : Option (List α) := do
  let mg := groupConstraintsCC O P.g air.n (P.main.zip (bco.take P.main.length))
  let ag := groupConstraintsCC O P.g air.n (P.aux.zip (bco.drop P.main.length))
  let groups ← proverGroups O beq D threshold mg ag
  let table ← PTable.new O D P.perPolys
  let rows ← (List.range D.ceSize).mapM (proverRow O air D table groups mainPolys auxPolys rands tco)
  combineTable O D rows (transitionDivisor O P.g air.n air.e :: groups.map (fun grp => grp.divisor))

-- ================================================================================ PROVER: composition polynomial
/-- specification of `fft::interpolate_poly_with_offset`: inverse DFT, then `c_k / offset^k` -/
def interpolateWithOffset (O : Ops α) (evals : List α) (offset : α) : Option (List α) := do
  let c ← interpolate O evals
  let oinv ← O.div O.one offset
  pure (c.zipIdx.map (fun p => O.mul p.1 (O.pow oinv p.2)))

/-- `coefficients.chunks(n).take(k)` for a coefficient list of at least `n·k` entries -/
def chunks (n : Nat) : Nat → List α → List (List α)
  | 0, _ => []
  | k + 1, l => l.take n :: chunks n k (l.drop n)

/-- `CompositionPoly::new`: interpolate over the constraint evaluation coset, split into columns -/
def compositionPoly (O : Ops α) (D : Domain α) (trace : List α) (numCols : Nat) : Option (List (List α)) := do
  let c ← interpolateWithOffset O trace D.offset
  pure (chunks D.n numCols c)

/-- `CompositionPoly::evaluate_at` -/
def evaluateAt (O : Ops α) (cols : List (List α)) (z : α) : List α := cols.map (fun p => polyEval O p z)

end Model.Composition
