-- Hand-written executable model of the security estimate and of the acceptance policy (C18):
--   air/src/options.rs        ProofOptions::new (asserting constructor), FieldExtension::degree
--   air/src/proof/context.rs  Context::num_modulus_bits, Context::to_elements (modulus halves)
--   air/src/proof/mod.rs      get_conjectured_security, get_proven_security,
--                             proven_security_protocol_for_m, compute_upper_m, Proof::security_level
--   verifier/src/lib.rs       AcceptableOptions::validate, the top of verify()
--   verifier/src/channel.rs   the base-field check of VerifierChannel::new
-- Machine integers are naturals with every possible overflow / underflow an explicit `panic`
-- outcome (the harness links a build with overflow checks on).  The f64 code is modelled once,
-- generically over a carrier `R` with the float primitives as parameters (`FloatOps R`); the
-- instance `floatOps : FloatOps Float` is what the driver executes.
import Winter.Gen.Limits

namespace Model.Security
open Gen.Limits

/-- outcome of code that may panic -/
inductive Res (α : Type) where
  | ok (a : α)
  | panic (site : String)
  deriving Repr, DecidableEq

namespace Res
def bind {α β : Type} : Res α → (α → Res β) → Res β
  | ok a, f => f a
  | panic s, _ => panic s
instance : Monad Res where
  pure := ok
  bind := bind
def isOk {α : Type} : Res α → Bool
  | ok _ => true
  | panic _ => false
end Res

-- ------------------------------------------------------------------ checked machine arithmetic
def U32 : Nat := 4294967296
def USIZE : Nat := 18446744073709551616

def mulU32 (a b : Nat) : Res Nat := if a * b < U32 then .ok (a * b) else .panic "u32-mul-overflow"
def addU32 (a b : Nat) : Res Nat := if a + b < U32 then .ok (a + b) else .panic "u32-add-overflow"
def subU32 (a b : Nat) : Res Nat := if b ≤ a then .ok (a - b) else .panic "u32-sub-overflow"
def mulUsize (a b : Nat) : Res Nat := if a * b < USIZE then .ok (a * b) else .panic "usize-mul-overflow"
/-- `ilog2`: panics on zero -/
def ilog2 (x : Nat) : Res Nat := if x = 0 then .panic "ilog2-of-zero" else .ok x.log2

/-- `usize::is_power_of_two` -/
def isPow2 (x : Nat) : Bool := x != 0 && 2 ^ x.log2 == x

-- ------------------------------------------------------------------ options
/-- `FieldExtension` -/
inductive Ext where
  | none | quadratic | cubic
  deriving Repr, DecidableEq

def Ext.degree : Ext → Nat
  | .none => 1
  | .quadratic => 2
  | .cubic => 3

def Ext.ofNat? : Nat → Option Ext
  | 1 => some .none
  | 2 => some .quadratic
  | 3 => some .cubic
  | _ => Option.none

/-- `ProofOptions` (all six stored fields; equality of options is equality of all six) -/
structure Options where
  numQueries : Nat
  blowup : Nat
  grinding : Nat
  ext : Ext
  friFolding : Nat
  friRemainderMaxDegree : Nat
  deriving Repr, DecidableEq

/-- the conjunction of the assertions of `ProofOptions::new` -/
def Options.accepted (o : Options) : Bool :=
  decide (0 < o.numQueries) && decide (o.numQueries ≤ MAX_NUM_QUERIES)
  && isPow2 o.blowup && decide (MIN_BLOWUP_FACTOR ≤ o.blowup) && decide (o.blowup ≤ MAX_BLOWUP_FACTOR)
  && decide (o.grinding ≤ MAX_GRINDING_FACTOR)
  && isPow2 o.friFolding && decide (FRI_MIN_FOLDING_FACTOR ≤ o.friFolding)
  && decide (o.friFolding ≤ FRI_MAX_FOLDING_FACTOR)
  && isPow2 (o.friRemainderMaxDegree + 1) && decide (o.friRemainderMaxDegree ≤ FRI_MAX_REMAINDER_DEGREE)

/-- `ProofOptions::new` -/
def Options.new (q b g : Nat) (e : Ext) (ff fr : Nat) : Res Options :=
  let o : Options := ⟨q, b, g, e, ff, fr⟩
  if o.accepted then .ok o else .panic "ProofOptions::new assertion"

-- ------------------------------------------------------------------ Context
/-- the size limits of `Context::new` (assertions) and `Context::read_from` (errors): trace length
    and LDE domain size fit a `u32` -/
def contextAccepted (o : Options) (traceLen : Nat) : Bool :=
  decide (traceLen ≤ 4294967295) && decide (traceLen * o.blowup ≤ 4294967295)

-- ------------------------------------------------------------------ Context::num_modulus_bits
/-- `u8::leading_zeros` of a non-zero byte -/
def clz8 (b : Nat) : Nat := 7 - b.log2

/-- the loop of `num_modulus_bits` over the bytes in reverse order -/
def modBitsLoop : List Nat → Nat → Res Nat
  | [], _ => .ok 0
  | b :: rest, nb =>
    if b ≠ 0 then subU32 nb (clz8 b)
    else do
      let nb ← subU32 nb 8
      modBitsLoop rest nb

/-- `Context::num_modulus_bits` of little-endian modulus bytes -/
def numModulusBits (bytes : List Nat) : Res Nat := do
  let nb ← mulU32 bytes.length 8
  modBitsLoop bytes.reverse nb

-- ------------------------------------------------------------------ conjectured estimate
/-- `get_conjectured_security` -/
def conjectured (o : Options) (baseFieldBits traceLen cr : Nat) : Res Nat := do
  let fieldSize ← mulU32 baseFieldBits o.ext.degree
  let lde ← mulUsize traceLen o.blowup
  let l ← ilog2 lde
  let fieldSecurity ← subU32 fieldSize l
  let spq ← ilog2 o.blowup
  let qs ← mulU32 spq o.numQueries
  let qs ← if GRINDING_CONTRIBUTION_FLOOR ≤ qs then addU32 qs o.grinding else pure qs
  let m ← subU32 (min fieldSecurity qs) 1
  pure (min m cr)

-- ------------------------------------------------------------------ proven estimate (generic)
/-- the f64 primitives the estimate uses -/
class FloatOps (R : Type) where
  /-- `as f64` of an unsigned integer (also the integer literals 1.0, 2.0, 7.0) -/
  ofNat : Nat → R
  /-- the literals 0.5, 1.5, 0.25 -/
  c05 : R
  c15 : R
  c025 : R
  add : R → R → R
  sub : R → R → R
  mul : R → R → R
  div : R → R → R
  neg : R → R
  log2 : R → R
  sqrt : R → R
  ceil : R → R
  powf : R → R → R
  /-- `as u64`: truncating, saturating, NaN to 0 -/
  toU64 : R → Nat
  /-- `as u32` -/
  toU32 : R → Nat

section generic
variable {R : Type} [F : FloatOps R]

/-- `compute_upper_m` -/
@[specialize] def computeUpperM (h : Nat) : R :=
  let one := F.ofNat 1
  let hf := F.ofNat h
  let mMax := F.ceil (F.mul (F.mul F.c025 hf) (F.add one (F.sqrt (F.add one (F.div (F.ofNat 2) hf)))))
  F.ofNat (min (F.toU64 mMax) MAX_PROXIMITY_PARAMETER)

/-- the float intermediates of `proven_security_protocol_for_m` that do not depend on the number
    of queries, the grinding factor, the extension degree or the collision resistance -/
structure Mid (R : Type) where
  /-- `1.0 - theta_plus`, the base of the query-phase power -/
  base : R
  /-- the argument of `log2` in the commit-phase term -/
  commitArg : R
  lPlus : R
  /-- the argument of `log2` in the DEEP term -/
  deepArg : R

/-- everything in `proven_security_protocol_for_m` up to the error terms -/
@[specialize] def mid (blowup lde n m : Nat) : Mid R :=
  let one := F.ofNat 1
  let two := F.ofNat 2
  let m := F.ofNat m
  let rho := F.div one (F.ofNat blowup)
  let alpha := F.mul (F.add one (F.div F.c05 m)) (F.sqrt rho)
  let maxDeg := F.add (F.ofNat blowup) one
  let ldeF := F.ofNat lde
  let h := F.ofNat n
  let numOpenings := two
  let rhoPlus := F.div (F.add h numOpenings) ldeF
  let mPlus := F.ceil (F.div one (F.mul two (F.sub (F.div alpha (F.sqrt rhoPlus)) one)))
  let alphaPlus := F.mul (F.add one (F.div F.c05 mPlus)) (F.sqrt rhoPlus)
  let thetaPlus := F.sub one alphaPlus
  let commitArg :=
    F.mul (F.div (F.mul F.c05 (F.powf (F.add m F.c05) (F.ofNat 7))) (F.powf rho F.c15)) (F.powf ldeF two)
  let lPlus := F.div (F.add (F.mul two mPlus) one) (F.mul two (F.sqrt rhoPlus))
  let deepArg := F.mul lPlus (F.add (F.mul maxDeg (F.sub (F.add h numOpenings) one)) (F.sub h one))
  { base := F.sub one thetaPlus, commitArg := commitArg, lPlus := lPlus, deepArg := deepArg }

/-- the integer tail of `proven_security_protocol_for_m` -/
@[specialize] def provenTail (extBits numQueries grinding : Nat) (x : Mid R) : Nat :=
  let efb := F.ofNat extBits
  let friCommit := F.sub efb (F.log2 x.commitArg)
  let friQueries := F.sub (F.ofNat grinding) (F.log2 (F.powf x.base (F.ofNat numQueries)))
  let friErr := min (F.toU64 friCommit) (F.toU64 friQueries)
  if friErr < 1 then 0
  else
    let friErr := friErr - 1
    let ali := F.add (F.neg (F.log2 x.lPlus)) efb
    let deep := F.add (F.neg (F.log2 x.deepArg)) efb
    let mn := min (min friErr (F.toU64 ali)) (F.toU64 deep)
    if mn < 1 then 0 else mn - 1

/-- `proven_security_protocol_for_m` -/
@[specialize] def provenForM (o : Options) (baseFieldBits traceLen m : Nat) : Res Nat := do
  let extBits ← mulU32 baseFieldBits o.ext.degree
  let lde ← mulUsize traceLen o.blowup
  pure (provenTail (R := R) extBits o.numQueries o.grinding (mid o.blowup lde traceLen m))

/-- `Iterator::max_by_key` on (element, key) pairs: the last element with the largest key -/
def maxByKeyLast : List (Nat × Nat) → Option (Nat × Nat)
  | [] => none
  | x :: xs => some (xs.foldl (fun best y => if best.2 ≤ y.2 then y else best) x)

/-- the candidate proximity parameters `m_min as u32 .. m_max as u32` -/
@[specialize] def mRange (n : Nat) : List Nat :=
  let mMax := F.toU32 (computeUpperM (R := R) n)
  (List.range (mMax - 3)).map (· + 3)

/-- evaluation of the key closure of `max_by_key` over the candidates, in order (a panic of the
    closure propagates) -/
def keyAll (f : Nat → Res Nat) : List Nat → Res (List (Nat × Nat))
  | [] => .ok []
  | m :: ms =>
    match f m with
    | .panic s => .panic s
    | .ok k =>
      match keyAll f ms with
      | .panic s => .panic s
      | .ok rest => .ok ((m, k) :: rest)

/-- `get_proven_security` -/
@[specialize] def proven (o : Options) (baseFieldBits traceLen cr : Nat) : Res Nat :=
  match keyAll (fun m => provenForM (R := R) o baseFieldBits traceLen m) (mRange (R := R) traceLen) with
  | .panic s => .panic s
  | .ok keyed =>
    match maxByKeyLast keyed with
    | none => .panic "m range empty (expect)"
    | some (mOpt, _) =>
      match provenForM (R := R) o baseFieldBits traceLen mOpt with
      | .panic s => .panic s
      | .ok v => .ok (min v cr % U32)

end generic

/-- the executable instance over IEEE doubles (Lean `Float`, opaque to the kernel) -/
instance floatOps : FloatOps Float where
  ofNat := fun n => (UInt64.ofNat n).toFloat
  c05 := 0.5
  c15 := 1.5
  c025 := 0.25
  add := (· + ·)
  sub := (· - ·)
  mul := (· * ·)
  div := (· / ·)
  neg := fun x => -x
  log2 := Float.log2
  sqrt := Float.sqrt
  ceil := Float.ceil
  powf := Float.pow
  toU64 := fun x => x.toUInt64.toNat
  toU32 := fun x => x.toUInt32.toNat

/-- `Proof::security_level::<H>` for a context with the given modulus bytes -/
def securityLevel (o : Options) (modulusBytes : List Nat) (traceLen cr : Nat) (conj : Bool) : Res Nat := do
  let bits ← numModulusBits modulusBytes
  if conj then conjectured o bits traceLen cr else proven (R := Float) o bits traceLen cr

-- ------------------------------------------------------------------ acceptance policy
/-- `AcceptableOptions` -/
inductive Acceptable where
  | minConjectured (minimum : Nat)
  | minProven (minimum : Nat)
  | optionSet (set : List Options)
  deriving Repr

/-- the `VerifierError`s the top of `verify` can produce -/
inductive VErr where
  | inconsistentBaseField
  | unsupportedFieldExtension (degree : Nat)
  | insufficientConjecturedSecurity (minimum level : Nat)
  | insufficientProvenSecurity (minimum level : Nat)
  | unacceptableProofOptions
  deriving Repr, DecidableEq

/-- result of the top of `verify`: `pass` = control reaches `perform_verification` -/
inductive Out where
  | pass
  | reject (e : VErr)
  | panic (site : String)
  deriving Repr, DecidableEq

/-- `AcceptableOptions::validate`, given the two security levels of the proof -/
def validate (a : Acceptable) (o : Options) (level : Bool → Res Nat) : Out :=
  match a with
  | .minConjectured minimum =>
    match level true with
    | .panic s => .panic s
    | .ok l => if l < minimum then .reject (.insufficientConjecturedSecurity minimum l) else .pass
  | .minProven minimum =>
    match level false with
    | .panic s => .panic s
    | .ok l => if l < minimum then .reject (.insufficientProvenSecurity minimum l) else .pass
  | .optionSet set => if set.any (· == o) then .pass else .reject .unacceptableProofOptions

/-- what the top of `verify` reads from the proof -/
structure ProofHead where
  modulusBytes : List Nat
  options : Options
  traceLen : Nat
  deriving Repr

/-- what it knows about the AIR / hasher type parameters -/
structure VerifierSide where
  /-- `AIR::BaseField::get_modulus_le_bytes()` -/
  modulusBytes : List Nat
  /-- `AIR::BaseField::ELEMENT_BYTES` -/
  elementBytes : Nat
  /-- `is_supported()` of the quadratic / cubic extension of the AIR's field -/
  quadSupported : Bool
  cubeSupported : Bool
  /-- `HashFn::COLLISION_RESISTANCE` -/
  cr : Nat
  /-- does `AIR::new` return (it may assert on trace info / options) -/
  airNewReturns : Bool

/-- `Context::to_elements`: `from_bytes_with_padding` asserts `len < ELEMENT_BYTES` on both halves
    of the modulus bytes (the padded halves are always canonical for the three fields, their top
    byte being zero) -/
def contextToElements (modulusBytes : List Nat) (elementBytes : Nat) : Res Unit :=
  let n := modulusBytes.length
  let l1 := n / 2
  let l2 := n - n / 2
  if l1 < elementBytes ∧ l2 < elementBytes then .ok () else .panic "from_bytes_with_padding assertion"

def seqOut (a : Out) (b : Out) : Out :=
  match a with
  | .pass => b
  | x => x

def ofRes (r : Res Unit) : Out :=
  match r with
  | .ok _ => .pass
  | .panic s => .panic s

def fieldCheck (v : VerifierSide) (p : ProofHead) : Out :=
  if v.modulusBytes != p.modulusBytes then .reject .inconsistentBaseField else .pass

def extCheck (v : VerifierSide) (p : ProofHead) : Out :=
  match p.options.ext with
  | .none => .pass
  | .quadratic => if v.quadSupported then .pass else .reject (.unsupportedFieldExtension 2)
  | .cubic => if v.cubeSupported then .pass else .reject (.unsupportedFieldExtension 3)

def policyCheck (a : Acceptable) (v : VerifierSide) (p : ProofHead) : Out :=
  validate a p.options (securityLevel p.options p.modulusBytes p.traceLen v.cr)

/-- the query positions are drawn from the LDE domain: `num_queries >= lde_domain_size` is refused
    (`draw_integers` would assert) -/
def queriesCheck (p : ProofHead) : Out :=
  if p.traceLen * p.options.blowup ≤ p.options.numQueries then .reject .unacceptableProofOptions else .pass

/-- the top of `verify()` as in the snapshot the checks were first run on: policy, then
    `context.to_elements()`, `AIR::new`, extension support, and only then (inside
    `VerifierChannel::new`) the base-field comparison -/
def verifyTopOld (a : Acceptable) (v : VerifierSide) (p : ProofHead) : Out :=
  seqOut (policyCheck a v p) <|
  seqOut (ofRes (contextToElements p.modulusBytes v.elementBytes)) <|
  seqOut (if v.airNewReturns then .pass else .panic "AIR::new") <|
  seqOut (extCheck v p) <|
  fieldCheck v p

/-- the top of `verify()` as it is now: the base-field comparison comes first, then the policy, then
    the comparison of the number of queries with the LDE domain size -/
def verifyTop (a : Acceptable) (v : VerifierSide) (p : ProofHead) : Out :=
  seqOut (fieldCheck v p) <|
  seqOut (policyCheck a v p) <|
  seqOut (queriesCheck p) <|
  seqOut (ofRes (contextToElements p.modulusBytes v.elementBytes)) <|
  seqOut (if v.airNewReturns then .pass else .panic "AIR::new") <|
  seqOut (extCheck v p) <|
  fieldCheck v p

end Model.Security
