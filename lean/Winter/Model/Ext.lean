-- Hand-written executable model of `QuadExtension<B>` / `CubeExtension<B>`
-- (math/src/field/extensions/quadratic.rs, cubic.rs) on top of the `ExtensibleField<2>` / `<3>` formula bodies
-- generated from math/src/field/{f64,f62,f128}/mod.rs (Winter/Gen/F64|F62|F128.lean: ext2_*, ext3_*).
-- Everything is generic over the type `F` of base-field elements and a record of base-field operations, so that the
-- same definitions are (a) executed on raw words by the driver (`BOps.ofImpl`) and (b) reasoned about over an
-- arbitrary commutative ring / field in WinterProofs/C08.lean.
import Winter.Model.Field

namespace Model

/-- outcome of an operation that can panic (debug assertion, documented `assert!`) or — through the base field's
    inversion loop — fail to return -/
inductive Res (α : Type) where
  | ok (a : α)
  | panic
  | hang
  deriving Repr

namespace Res
def bind {α β : Type} : Res α → (α → Res β) → Res β
  | .ok a, f => f a
  | .panic, _ => .panic
  | .hang, _ => .hang
def map {α β : Type} (f : α → β) : Res α → Res β
  | .ok a => .ok (f a)
  | .panic => .panic
  | .hang => .hang
end Res

/-- base-field operations used by the extension code: the generated formulas' `FOps` plus constants, equality
    (`PartialEq`) and inversion (which may not return: `Fuel`) -/
structure BOps (F : Type) extends Gen.FOps F where
  zero : F
  one : F
  eq : F → F → Bool
  inv : F → Fuel F

/-- the operations of a concrete base field on raw words, exactly as the Rust code performs them
    (`square` is the default `self * self`, `Self::new(c)` for literals, ZERO = new(0), ONE = new(1)) -/
def BOps.ofImpl (I : FieldImpl) : BOps Nat where
  add := I.add
  sub := I.sub
  mul := I.mul
  neg := I.neg
  double := I.double
  square := fun x => I.mul x x
  ofNat := I.new
  zero := I.new 0
  one := I.new 1
  eq := I.eq
  inv := I.inv

/-- the four functions of `impl ExtensibleField<2> for BaseElement` -/
structure Ext2 (F : Type) where
  mul : F → F → F → F → F × F
  square : F → F → F × F
  mulBase : F → F → F → F × F
  frobenius : F → F → F × F

/-- the four functions of `impl ExtensibleField<3> for BaseElement` -/
structure Ext3 (F : Type) where
  mul : F → F → F → F → F → F → F × F × F
  square : F → F → F → F × F × F
  mulBase : F → F → F → F → F × F × F
  frobenius : F → F → F → F × F × F

/-- f64: all four are implemented explicitly -/
def Ext2.f64 {F : Type} (O : Gen.FOps F) : Ext2 F :=
  ⟨Gen.F64.ext2_mul O, Gen.F64.ext2_square O, Gen.F64.ext2_mul_base O, Gen.F64.ext2_frobenius O⟩
/-- f62: `square` is the trait default `mul(a, a)` -/
def Ext2.f62 {F : Type} (O : Gen.FOps F) : Ext2 F :=
  ⟨Gen.F62.ext2_mul O, fun a0 a1 => Gen.F62.ext2_mul O a0 a1 a0 a1, Gen.F62.ext2_mul_base O, Gen.F62.ext2_frobenius O⟩
/-- f128: `square` is the trait default `mul(a, a)` -/
def Ext2.f128 {F : Type} (O : Gen.FOps F) : Ext2 F :=
  ⟨Gen.F128.ext2_mul O, fun a0 a1 => Gen.F128.ext2_mul O a0 a1 a0 a1, Gen.F128.ext2_mul_base O, Gen.F128.ext2_frobenius O⟩
def Ext3.f64 {F : Type} (O : Gen.FOps F) : Ext3 F :=
  ⟨Gen.F64.ext3_mul O, Gen.F64.ext3_square O, Gen.F64.ext3_mul_base O, Gen.F64.ext3_frobenius O⟩
def Ext3.f62 {F : Type} (O : Gen.FOps F) : Ext3 F :=
  ⟨Gen.F62.ext3_mul O, fun a0 a1 a2 => Gen.F62.ext3_mul O a0 a1 a2 a0 a1 a2, Gen.F62.ext3_mul_base O,
   Gen.F62.ext3_frobenius O⟩

-- ------------------------------------------------------------------------------------------------
/-- `QuadExtension<B>(B, B)` -/
structure Quad (F : Type) where
  c0 : F
  c1 : F
  deriving Repr, DecidableEq

namespace Quad
variable {F : Type} (B : BOps F) (X : Ext2 F)

def ofPair (p : F × F) : Quad F := ⟨p.1, p.2⟩
def toList (a : Quad F) : List F := [a.c0, a.c1]

def zero : Quad F := ⟨B.zero, B.zero⟩
def one : Quad F := ⟨B.one, B.zero⟩
/-- `From<B>` -/
def ofBase (x : F) : Quad F := ⟨x, B.zero⟩
/-- derived `PartialEq` -/
def beq (a b : Quad F) : Bool := B.eq a.c0 b.c0 && B.eq a.c1 b.c1

def add (a b : Quad F) : Quad F := ⟨B.add a.c0 b.c0, B.add a.c1 b.c1⟩
def sub (a b : Quad F) : Quad F := ⟨B.sub a.c0 b.c0, B.sub a.c1 b.c1⟩
def neg (a : Quad F) : Quad F := ⟨B.neg a.c0, B.neg a.c1⟩
def double (a : Quad F) : Quad F := ⟨B.double a.c0, B.double a.c1⟩
def mul (a b : Quad F) : Quad F := ofPair (X.mul a.c0 a.c1 b.c0 b.c1)
def square (a : Quad F) : Quad F := ofPair (X.square a.c0 a.c1)
def mulBase (a : Quad F) (b : F) : Quad F := ofPair (X.mulBase a.c0 a.c1 b)
def conjugate (a : Quad F) : Quad F := ofPair (X.frobenius a.c0 a.c1)

/-- `FieldElement::inv`: zero is returned as it is; otherwise numerator = frobenius(x), norm = x * numerator,
    `debug_assert_eq!(norm[1], ZERO)`, result = numerator * norm[0].inv() coordinate-wise -/
def inv (a : Quad F) : Res (Quad F) :=
  if beq B a (zero B) then .ok a
  else
    let num := X.frobenius a.c0 a.c1
    let norm := X.mul a.c0 a.c1 num.1 num.2
    if !(B.eq norm.2 B.zero) then .panic
    else
      match B.inv norm.1 with
      | .out => .hang
      | .done d => .ok ⟨B.mul num.1 d, B.mul num.2 d⟩

/-- `Div`: `self * rhs.inv()` -/
def div (a b : Quad F) : Res (Quad F) := (inv B X b).map (mul X a)

/-- loop of `exp_vartime` -/
def expLoop (r b : Quad F) (p : Nat) : Quad F :=
  if h : p = 0 then r
  else expLoop (if p % 2 = 1 then mul X r b else r) (square X b) (p / 2)
termination_by p
decreasing_by omega

/-- `FieldElement::exp` = `exp_vartime` -/
def exp (a : Quad F) (p : Nat) : Quad F :=
  if p = 0 then one B
  else if beq B a (zero B) then zero B
  else expLoop X (one B) a p

/-- `base_element(i)`; `none` = the documented panic -/
def baseElement (a : Quad F) : Nat → Option F
  | 0 => some a.c0
  | 1 => some a.c1
  | _ => none

/-- `slice_as_base_elements`: the `repr(C)` reinterpretation, modelled as list flattening -/
def flatten : List (Quad F) → List F
  | [] => []
  | a :: rest => a.c0 :: a.c1 :: flatten rest

/-- `slice_from_base_elements`; `none` = the assertion "number of base elements must be divisible by 2" fails -/
def unflatten : List F → Option (List (Quad F))
  | [] => some []
  | [_] => none
  | x :: y :: rest => (unflatten rest).map (fun l => ⟨x, y⟩ :: l)

end Quad

-- ------------------------------------------------------------------------------------------------
/-- `CubeExtension<B>(B, B, B)` -/
structure Cube (F : Type) where
  c0 : F
  c1 : F
  c2 : F
  deriving Repr, DecidableEq

namespace Cube
variable {F : Type} (B : BOps F) (X : Ext3 F)

def ofTriple (p : F × F × F) : Cube F := ⟨p.1, p.2.1, p.2.2⟩
def toList (a : Cube F) : List F := [a.c0, a.c1, a.c2]

def zero : Cube F := ⟨B.zero, B.zero, B.zero⟩
def one : Cube F := ⟨B.one, B.zero, B.zero⟩
def ofBase (x : F) : Cube F := ⟨x, B.zero, B.zero⟩
def beq (a b : Cube F) : Bool := B.eq a.c0 b.c0 && B.eq a.c1 b.c1 && B.eq a.c2 b.c2

def add (a b : Cube F) : Cube F := ⟨B.add a.c0 b.c0, B.add a.c1 b.c1, B.add a.c2 b.c2⟩
def sub (a b : Cube F) : Cube F := ⟨B.sub a.c0 b.c0, B.sub a.c1 b.c1, B.sub a.c2 b.c2⟩
def neg (a : Cube F) : Cube F := ⟨B.neg a.c0, B.neg a.c1, B.neg a.c2⟩
def double (a : Cube F) : Cube F := ⟨B.double a.c0, B.double a.c1, B.double a.c2⟩
def mul (a b : Cube F) : Cube F := ofTriple (X.mul a.c0 a.c1 a.c2 b.c0 b.c1 b.c2)
def square (a : Cube F) : Cube F := ofTriple (X.square a.c0 a.c1 a.c2)
def mulBase (a : Cube F) (b : F) : Cube F := ofTriple (X.mulBase a.c0 a.c1 a.c2 b)
def conjugate (a : Cube F) : Cube F := ofTriple (X.frobenius a.c0 a.c1 a.c2)

/-- `FieldElement::inv`: c1 = frobenius(x), c2 = frobenius(c1), numerator = c1 * c2, norm = x * numerator,
    two debug assertions, result = numerator * norm[0].inv() coordinate-wise -/
def inv (a : Cube F) : Res (Cube F) :=
  if beq B a (zero B) then .ok a
  else
    let c1 := X.frobenius a.c0 a.c1 a.c2
    let c2 := X.frobenius c1.1 c1.2.1 c1.2.2
    let num := X.mul c1.1 c1.2.1 c1.2.2 c2.1 c2.2.1 c2.2.2
    let norm := X.mul a.c0 a.c1 a.c2 num.1 num.2.1 num.2.2
    if !(B.eq norm.2.1 B.zero) then .panic
    else if !(B.eq norm.2.2 B.zero) then .panic
    else
      match B.inv norm.1 with
      | .out => .hang
      | .done d => .ok ⟨B.mul num.1 d, B.mul num.2.1 d, B.mul num.2.2 d⟩

def div (a b : Cube F) : Res (Cube F) := (inv B X b).map (mul X a)

def expLoop (r b : Cube F) (p : Nat) : Cube F :=
  if h : p = 0 then r
  else expLoop (if p % 2 = 1 then mul X r b else r) (square X b) (p / 2)
termination_by p
decreasing_by omega

def exp (a : Cube F) (p : Nat) : Cube F :=
  if p = 0 then one B
  else if beq B a (zero B) then zero B
  else expLoop X (one B) a p

def baseElement (a : Cube F) : Nat → Option F
  | 0 => some a.c0
  | 1 => some a.c1
  | 2 => some a.c2
  | _ => none

def flatten : List (Cube F) → List F
  | [] => []
  | a :: rest => a.c0 :: a.c1 :: a.c2 :: flatten rest

def unflatten : List F → Option (List (Cube F))
  | [] => some []
  | [_] => none
  | [_, _] => none
  | x :: y :: z :: rest => (unflatten rest).map (fun l => ⟨x, y, z⟩ :: l)

end Cube

-- ------------------------------------------------------------------------------------------------
-- byte level (raw words of a concrete base field); an element is the list of its coordinates' raw words
namespace ExtBytes

/-- `Serializable::write_into`: the coordinates' canonical encodings in order -/
def toBytes (I : FieldImpl) (cs : List Nat) : List Nat :=
  cs.flatMap I.toBytes

/-- `AsBytes::as_bytes` / `elements_as_bytes`: the memory image, i.e. the raw words little-endian -/
def asBytes (I : FieldImpl) (cs : List Nat) : List Nat :=
  cs.flatMap (leBytes I.bytes)

/-- outcome of `Deserializable::read_from` -/
inductive Read where
  | ok (cs : List Nat) (rest : List Nat)
  | eof
  | err
  deriving Repr

/-- `read_from`: `n` successive `B::read_from(source)?` -/
def readFrom (I : FieldImpl) : Nat → List Nat → Read
  | 0, bs => .ok [] bs
  | n + 1, bs =>
    match I.readFrom bs with
    | none => .eof
    | some (.err, _) => .err
    | some (.ok c, rest) =>
      match readFrom I n rest with
      | .ok cs rest' => .ok (c :: cs) rest'
      | .eof => .eof
      | .err => .err

/-- `TryFrom<&[u8]>` (= `from_random_bytes`): exact length, then `read_from` -/
def tryFromBytes (I : FieldImpl) (n : Nat) (bs : List Nat) : Option (List Nat) :=
  if bs.length ≠ n * I.bytes then none
  else
    match readFrom I n bs with
    | .ok cs _ => some cs
    | _ => none

/-- split a byte list into words of `k` bytes (`none`: length not a multiple) -/
def words (k : Nat) : Nat → List Nat → Option (List Nat)
  | 0, bs => if bs.isEmpty then some [] else none
  | fuel + 1, bs =>
    if bs.isEmpty then some []
    else if bs.length < k then none
    else (words k fuel (bs.drop k)).map (fun l => ofLeBytes (bs.take k) :: l)

/-- `bytes_as_elements` followed by reading the raw words: the memory image reinterpreted (no validation);
    `none` = "number of bytes does not divide into whole number of field elements" -/
def bytesAsWords (I : FieldImpl) (n : Nat) (bs : List Nat) : Option (List Nat) :=
  if bs.length % (n * I.bytes) ≠ 0 then none else words I.bytes bs.length bs

end ExtBytes

end Model
