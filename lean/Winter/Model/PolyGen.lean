-- The operations record `Model.Poly.Ops` of the hand-written polynomial model as an operations record
-- `Gen.FOpsX` of the definitions regenerated from math/src/polynom/mod.rs and math/src/utils/mod.rs
-- (Winter/Gen/Polynom.lean, MathUtils.lean), so that both run on the same field: the driver of C20 evaluates
-- the model and the regenerated definition on every line (translation validation of tie T), and
-- WinterProofs/Lemmas/C20Gen.lean proves them equal for every `Ops`.
import Winter.Model.Poly
import Winter.Gen.Polynom
import Winter.Gen.MathUtils

namespace Model.Poly

variable {α : Type}

/-- `inv()` of an element on which it returns (`hang` is not an outcome of the regenerated definitions) -/
def Ops.invT (O : Ops α) (x : α) : α := (O.inv x).getD O.zero

def Ops.toX (O : Ops α) : Gen.FOpsX α where
  add := O.add
  sub := O.sub
  mul := O.mul
  neg := fun x => O.sub O.zero x
  double := fun x => O.add x x
  square := fun x => O.mul x x
  ofNat := fun n => if n = 0 then O.zero else O.one
  inv := O.invT
  div := fun x y => O.mul x (O.invT y)
  beq := fun _ _ => false
  isZero := O.isZero
  isOne := O.isOne
  pow := O.pow
  root := fun _ => O.zero
  rootOk := fun _ => false

end Model.Poly
