-- Hand-written executable model of crypto/src/merkle/{mod.rs, proofs.rs} over an abstract digest
-- type `D` with `merge : D → D → D`.
--
-- Conventions: `usize` is 64 bits; every Rust panic site (checked arithmetic of the debug build,
-- slice indexing, `unwrap`, `assert!`) is an explicit `Res.panic` outcome, errors are the kinds of
-- `MerkleTreeError`.  `BTreeMap<usize, _>` is a key-sorted association list (`SMap`), `BTreeSet` a
-- sorted duplicate-free list.  Loops of the form `while i < indexes.len() { … nodes[i] …
-- proof_pointers[i] … }` are rendered as lock-step recursion over the remaining suffixes of
-- `indexes`, `nodes` and `proof_pointers` (position `i` is the head of each suffix); running out of a
-- suffix is the index-out-of-bounds panic of the code.
namespace Model.Merkle

/-- kinds of `MerkleTreeError` -/
inductive Err where
  | fewLeaves | notPow2 | oob | dup | noIdx | manyIdx | invalid
  deriving DecidableEq, Repr

/-- outcome of a function that can return an error or panic -/
inductive Res (α : Type) where
  | ok (a : α)
  | err (e : Err)
  | panic (site : String)
  deriving Repr, DecidableEq

namespace Res
@[inline] def bind {α β : Type} (x : Res α) (f : α → Res β) : Res β :=
  match x with
  | .ok a => f a
  | .err e => .err e
  | .panic s => .panic s

instance : Monad Res where
  pure := .ok
  bind := Res.bind

@[simp] theorem ok_bind {α β} (a : α) (f : α → Res β) : (Res.ok a >>= f) = f a := rfl
@[simp] theorem err_bind {α β} (e : Err) (f : α → Res β) : ((Res.err e : Res α) >>= f) = .err e := rfl
@[simp] theorem panic_bind {α β} (s : String) (f : α → Res β) : ((Res.panic s : Res α) >>= f) = .panic s := rfl
@[simp] theorem pure_eq {α} (a : α) : (pure a : Res α) = .ok a := rfl

def isPanic {α} : Res α → Bool
  | .panic _ => true
  | _ => false
end Res

/-- the hash function as the Merkle code uses it -/
structure Hasher (D : Type) where
  merge : D → D → D
  /-- `H::Digest::default()` -/
  dflt : D

/-- number of values of `usize` -/
def usizeLim : Nat := 18446744073709551616
/-- `usize::BITS` -/
def usizeBits : Nat := 64
/-- `proofs::MAX_PATHS` -/
def maxPaths : Nat := 255

/-- `index ^ 1` -/
def xor1 (i : Nat) : Nat := if i % 2 = 0 then i + 1 else i - 1

/-- `2usize.pow(e)` of a build with overflow checks -/
def pow2 (e : Nat) : Res Nat :=
  if e < usizeBits then .ok (2 ^ e) else .panic "2usize.pow: overflow"

-- ---------------------------------------------------------------------------------------------
-- BTreeMap / BTreeSet

/-- `BTreeMap<usize, α>`: association list with strictly ascending keys -/
abbrev SMap (α : Type) := List (Nat × α)

namespace SMap
def insert {α} : SMap α → Nat → α → SMap α
  | [], k, a => [(k, a)]
  | (k', a') :: t, k, a =>
    if k < k' then (k, a) :: (k', a') :: t
    else if k = k' then (k, a) :: t
    else (k', a') :: insert t k a

def get {α} : SMap α → Nat → Option α
  | [], _ => none
  | (k', a') :: t, k => if k = k' then some a' else get t k

def keys {α} (m : SMap α) : List Nat := m.map Prod.fst
def values {α} (m : SMap α) : List α := m.map Prod.snd
end SMap

/-- `BTreeSet<usize>::insert` -/
def setInsert : List Nat → Nat → List Nat
  | [], k => [k]
  | k' :: t, k =>
    if k < k' then k :: k' :: t
    else if k = k' then k' :: t
    else k' :: setInsert t k

-- ---------------------------------------------------------------------------------------------
-- index validation (mod.rs: map_indexes, normalize_indexes)

def mapIndexesLoop (numLeaves : Nat) : List Nat → Nat → SMap Nat → Res (SMap Nat)
  | [], _, m => .ok m
  | index :: rest, i, m =>
    let m := m.insert index i
    if index ≥ numLeaves then .err .oob else mapIndexesLoop numLeaves rest (i + 1) m

/-- `map_indexes(indexes, tree_depth)` -/
def mapIndexes (indexes : List Nat) (treeDepth : Nat) : Res (SMap Nat) := do
  let numLeaves ← pow2 treeDepth
  let map ← mapIndexesLoop numLeaves indexes 0 []
  if indexes.length ≠ map.length then .err .dup else .ok map

/-- `normalize_indexes(indexes)` -/
def normalizeIndexes (indexes : List Nat) : List Nat :=
  indexes.foldl (fun s index => setInsert s (index - index % 2)) []

-- ---------------------------------------------------------------------------------------------
-- tree construction (mod.rs: MerkleTree::new, build_merkle_nodes)

structure Tree (D : Type) where
  nodes : List D
  leaves : List D
  deriving DecidableEq, Repr

/-- hash adjacent pairs (`two_leaves` / `two_nodes`) -/
def pairUp {D} (H : Hasher D) : List D → List D
  | a :: b :: rest => H.merge a b :: pairUp H rest
  | _ => []

/-- the rows of the heap above and including `row`, top row first: `nodes[1..]` -/
def heapRows {D} (H : Hasher D) : Nat → List D → List D
  | 0, row => row
  | f + 1, row => heapRows H f (pairUp H row) ++ row

/-- `build_merkle_nodes`: `nodes[0]` is the default digest, the root is `nodes[1]`, the children of
    `nodes[i]` are `nodes[2i]`, `nodes[2i+1]`; the last row holds the hashes of the leaf pairs -/
def buildNodes {D} (H : Hasher D) (leaves : List D) : List D :=
  H.dflt :: heapRows H (Nat.log2 leaves.length - 1) (pairUp H leaves)

def isPow2 (n : Nat) : Bool := n != 0 && 2 ^ Nat.log2 n == n

/-- `MerkleTree::new` -/
def Tree.new {D} (H : Hasher D) (leaves : List D) : Res (Tree D) :=
  if leaves.length < 2 then .err .fewLeaves
  else if !isPow2 leaves.length then .err .notPow2
  else .ok { nodes := buildNodes H leaves, leaves := leaves }

/-- `MerkleTree::depth` -/
def Tree.depth {D} (t : Tree D) : Nat := Nat.log2 t.leaves.length

/-- `MerkleTree::root` (`&self.nodes[1]`) -/
def Tree.root {D} (t : Tree D) : Res D :=
  match t.nodes[1]? with
  | some r => .ok r
  | none => .panic "root: nodes[1]"

-- ---------------------------------------------------------------------------------------------
-- single openings (mod.rs: prove, verify)

/-- `while index > 1 { proof.push(self.nodes[index ^ 1]); index >>= 1 }` -/
def proveLoop {D} (nodes : List D) : Nat → Nat → Res (List D)
  | 0, _ => .ok []
  | fuel + 1, index =>
    if index > 1 then
      match nodes[xor1 index]? with
      | some x => do
        let rest ← proveLoop nodes fuel (index / 2)
        .ok (x :: rest)
      | none => .panic "prove: nodes[index ^ 1]"
    else .ok []

/-- `MerkleTree::prove` -/
def prove {D} (t : Tree D) (index : Nat) : Res (List D) :=
  if index ≥ t.leaves.length then .err .oob
  else
    match t.leaves[index]?, t.leaves[xor1 index]? with
    | some a, some b => do
      let rest ← proveLoop t.nodes t.nodes.length ((index + t.nodes.length) / 2)
      .ok (a :: b :: rest)
    | _, _ => .panic "prove: leaves[index ^ 1]"

/-- the loop of `verify`: fold the remaining path elements into `v` -/
def climb {D} (H : Hasher D) : Nat → D → List D → D
  | _, v, [] => v
  | index, v, p :: ps =>
    climb H (index / 2) (if index % 2 = 0 then H.merge v p else H.merge p v) ps

/-- `a + b` on `usize` of a build with overflow checks -/
def addUsize (a b : Nat) : Res Nat :=
  if a + b < usizeLim then .ok (a + b) else .panic "usize add: overflow"

/-- `MerkleTree::verify` -/
def verify {D} [DecidableEq D] (H : Hasher D) (root : D) (index : Nat) (proof : List D) : Res Unit :=
  if proof.length < 2 ∨ proof.length > usizeBits then .err .invalid
  else do
    let numLeaves ← pow2 (proof.length - 1)
    if index ≥ numLeaves then .err .oob
    else
      let r := index % 2
      match proof[r]?, proof[1 - r]? with
      | some a, some b => do
        let v := H.merge a b
        let start ← addUsize index numLeaves
        let v := climb H (start / 2) v (proof.drop 2)
        if v = root then .ok () else .err .invalid
      | _, _ => .panic "verify: proof[r]"

-- ---------------------------------------------------------------------------------------------
-- batch openings

/-- `BatchMerkleProof` (`depth` is a `u8`) -/
structure BatchProof (D : Type) where
  leaves : List D
  nodes : List (List D)
  depth : Nat
  deriving DecidableEq, Repr

/-- `leaves[*idx] = v` when the position is a claimed one, otherwise the value is a missing node -/
def placeLeaf {D} (imap : SMap Nat) (i : Nat) (v : D) (leaves missing : List D) : Res (List D × List D) :=
  match imap.get i with
  | some idx => if idx < leaves.length then .ok (leaves.set idx v, missing) else .panic "prove_batch: leaves[*idx]"
  | none => .ok (leaves, missing ++ [v])

/-- first loop of `prove_batch`: for each normalized (even) position the two leaves are either
    claimed leaves (stored at their place in `leaves`) or go into the node row of the pair -/
def proveLeafLoop {D} (tleaves : List D) (imap : SMap Nat) (n : Nat) :
    List Nat → List D → Res (List D × List (List D) × List Nat)
  | [], leaves => .ok (leaves, [], [])
  | index :: rest, leaves =>
    match tleaves[index]?, tleaves[index + 1]? with
    | some v0, some v1 => do
      let (leaves, missing) ← placeLeaf imap index v0 leaves []
      let (leaves, missing) ← placeLeaf imap (index + 1) v1 leaves missing
      let (leaves, rows, next) ← proveLeafLoop tleaves imap n rest leaves
      .ok (leaves, missing :: rows, (index + n) / 2 :: next)
    | _, _ => .panic "prove_batch: leaves[i]"

/-- one level of the second loop of `prove_batch` (lock-step over `indexes[i..]`, `nodes[i..]`) -/
def proveLevel {D} (tnodes : List D) : List Nat → List (List D) → Res (List (List D) × List Nat)
  | [], rows => .ok (rows, [])
  | [k], rows =>
    match rows, tnodes[xor1 k]? with
    | row :: rows', some s => .ok ((row ++ [s]) :: rows', [xor1 k / 2])
    | _, _ => .panic "prove_batch: nodes[i] / self.nodes[sibling]"
  | k :: k' :: rest, rows =>
    if k' = xor1 k then
      match rows with
      | r0 :: r1 :: rows' => do
        let (rs, next) ← proveLevel tnodes rest rows'
        .ok (r0 :: r1 :: rs, xor1 k / 2 :: next)
      | _ => .panic "prove_batch: nodes[i]"
    else
      match rows, tnodes[xor1 k]? with
      | row :: rows', some s => do
        let (rs, next) ← proveLevel tnodes (k' :: rest) rows'
        .ok ((row ++ [s]) :: rs, xor1 k / 2 :: next)
      | _, _ => .panic "prove_batch: nodes[i] / self.nodes[sibling]"

/-- `for _ in 1..self.depth { … }` of `prove_batch` -/
def proveLevels {D} (tnodes : List D) : Nat → List Nat → List (List D) → Res (List (List D))
  | 0, _, rows => .ok rows
  | l + 1, indexes, rows => do
    let (rows, next) ← proveLevel tnodes indexes rows
    proveLevels tnodes l next rows

/-- `MerkleTree::prove_batch` -/
def proveBatch {D} (H : Hasher D) (t : Tree D) (indexes : List Nat) : Res (BatchProof D) :=
  if indexes.isEmpty then .err .noIdx
  else if indexes.length > maxPaths then .err .manyIdx
  else do
    let imap ← mapIndexes indexes t.depth
    let norm := normalizeIndexes indexes
    let (leaves, rows, next) ←
      proveLeafLoop t.leaves imap t.leaves.length norm (List.replicate imap.length H.dflt)
    let rows ← proveLevels t.nodes (t.depth - 1) next rows
    .ok { leaves := leaves, nodes := rows, depth := t.depth % 256 }

/-- result of the first loop of `get_root` / `into_paths` for one normalized position: the two
    sibling values and the initial proof pointer -/
def leafPair {D} (leaves : List D) (imap : SMap Nat) (index : Nat) (row : List D) : Res (D × D × Nat) :=
  match imap.get index with
  | some i1 =>
    match leaves[i1]? with
    | none => .err .invalid
    | some a =>
      match imap.get (index + 1) with
      | some i2 =>
        match leaves[i2]? with
        | none => .err .invalid
        | some b => .ok (a, b, 0)
      | none =>
        match row with
        | [] => .err .invalid
        | s :: _ => .ok (a, s, 1)
  | none =>
    match row with
    | [] => .err .invalid
    | s :: _ =>
      match imap.get (index + 1) with
      | some i2 =>
        match leaves[i2]? with
        | none => .err .invalid
        | some b => .ok (s, b, 1)
      | none => .err .invalid

/-- first loop of `get_root`: returns the map of hashed nodes, the proof pointers and the next indexes -/
def rootLeafLoop {D} (H : Hasher D) (leaves : List D) (imap : SMap Nat) (offset : Nat) :
    List Nat → List (List D) → SMap D → Res (SMap D × List Nat × List Nat)
  | [], _, v => .ok (v, [], [])
  | _ :: _, [], _ => .panic "get_root: nodes[i]"
  | index :: rest, row :: rows, v => do
    let (a, b, ptr) ← leafPair leaves imap index row
    let parent := H.merge a b
    let parentIndex := (offset + index) / 2
    let (v, ptrs, next) ← rootLeafLoop H leaves imap offset rest rows (v.insert parentIndex parent)
    .ok (v, ptr :: ptrs, parentIndex :: next)

/-- one level of the second loop of `get_root` (lock-step over `indexes[i..]`, `nodes[i..]`,
    `proof_pointers[i..]`); returns the map, the updated pointers and the next indexes -/
def rootLevel {D} (H : Hasher D) : List Nat → List (List D) → List Nat → SMap D →
    Res (SMap D × List Nat × List Nat)
  | [], _, ptrs, v => .ok (v, ptrs, [])
  | [k], rows, ptrs, v =>
    match rows, ptrs with
    | row :: _, ptr :: ptrs' =>
      match row[ptr]? with
      | none => .err .invalid
      | some sibling =>
        match v.get k with
        | none => .err .invalid
        | some node =>
          let parent := if k % 2 ≠ 0 then H.merge sibling node else H.merge node sibling
          .ok (v.insert (k / 2) parent, (ptr + 1) :: ptrs', [k / 2])
    | _, _ => .panic "get_root: nodes[i] / proof_pointers[i]"
  | k :: k' :: rest, rows, ptrs, v =>
    if k' = xor1 k then
      match v.get (xor1 k) with
      | none => .err .invalid
      | some sibling =>
        match v.get k with
        | none => .err .invalid
        | some node =>
          let parent := if k % 2 ≠ 0 then H.merge sibling node else H.merge node sibling
          match rows, ptrs with
          | _ :: _ :: rows', p0 :: p1 :: ptrs' => do
            let (v, ps, next) ← rootLevel H rest rows' ptrs' (v.insert (k / 2) parent)
            .ok (v, p0 :: p1 :: ps, k / 2 :: next)
          | _, _ => .panic "get_root: nodes[i] / proof_pointers[i]"
    else
      match rows, ptrs with
      | row :: rows', ptr :: ptrs' =>
        match row[ptr]? with
        | none => .err .invalid
        | some sibling =>
          match v.get k with
          | none => .err .invalid
          | some node =>
            let parent := if k % 2 ≠ 0 then H.merge sibling node else H.merge node sibling
            do
              let (v, ps, next) ← rootLevel H (k' :: rest) rows' ptrs' (v.insert (k / 2) parent)
              .ok (v, (ptr + 1) :: ps, k / 2 :: next)
      | _, _ => .panic "get_root: nodes[i] / proof_pointers[i]"

/-- `for _ in 1..self.depth { … }` of `get_root` -/
def rootLevels {D} (H : Hasher D) (rows : List (List D)) : Nat → List Nat → List Nat → SMap D →
    Res (SMap D × List Nat)
  | 0, _, ptrs, v => .ok (v, ptrs)
  | l + 1, indexes, ptrs, v => do
    let (v, ptrs, next) ← rootLevel H indexes rows ptrs v
    rootLevels H rows l next ptrs v

/-- `proof_pointers.iter().zip(self.nodes.iter()).any(|(&pointer, nodes)| pointer != nodes.len())` -/
def anyUnused {D} : List Nat → List (List D) → Bool
  | ptr :: ptrs, row :: rows => ptr != row.length || anyUnused ptrs rows
  | _, _ => false

/-- `BatchMerkleProof::get_root` -/
def getRoot {D} (H : Hasher D) (p : BatchProof D) (indexes : List Nat) : Res D :=
  if indexes.isEmpty then .err .noIdx
  else if indexes.length > maxPaths then .err .manyIdx
  else if indexes.length ≠ p.leaves.length then .err .invalid
  else if p.depth ≥ usizeBits then .err .invalid
  else do
    let imap ← mapIndexes indexes p.depth
    let norm := normalizeIndexes indexes
    if norm.length ≠ p.nodes.length then .err .invalid
    else do
      let offset ← pow2 p.depth
      let (v, ptrs, next) ← rootLeafLoop H p.leaves imap offset norm p.nodes []
      let (v, ptrs) ← rootLevels H p.nodes (p.depth - 1) next ptrs v
      if anyUnused ptrs p.nodes then .err .invalid
      else
        match v.get 1 with
        | some r => .ok r
        | none => .err .invalid

/-- `MerkleTree::verify_batch` -/
def verifyBatch {D} [DecidableEq D] (H : Hasher D) (root : D) (indexes : List Nat) (p : BatchProof D) :
    Res Unit := do
  let r ← getRoot H p indexes
  if root ≠ r then .err .invalid else .ok ()

-- ---------------------------------------------------------------------------------------------
-- decompression into individual paths (proofs.rs: into_paths, get_path)

/-- `1 << depth` of a build with overflow checks -/
def shl1 (e : Nat) : Res Nat :=
  if e < usizeBits then .ok (2 ^ e) else .panic "1 << depth: overflow"

/-- `get_path` loop -/
def getPathLoop {D} (tree : SMap D) : Nat → Nat → Res (List D)
  | 0, _ => .ok []
  | fuel + 1, index =>
    if index > 1 then
      match tree.get (xor1 index) with
      | none => .err .invalid
      | some x => do
        let rest ← getPathLoop tree fuel (index / 2)
        .ok (x :: rest)
    else .ok []

/-- `get_path(index, tree, depth)` -/
def getPath {D} (tree : SMap D) (index depth : Nat) : Res (List D) := do
  let o ← shl1 depth
  let index ← addUsize index o
  match tree.get index with
  | none => .err .invalid
  | some leaf => do
    let rest ← getPathLoop tree (depth + 1) index
    .ok (leaf :: rest)

/-- first loop of `into_paths`: as `rootLeafLoop`, also filling the partial tree -/
def pathsLeafLoop {D} (H : Hasher D) (leaves : List D) (imap : SMap Nat) (offset : Nat) :
    List Nat → List (List D) → SMap D → SMap D → Res (SMap D × SMap D × List Nat × List Nat)
  | [], _, v, pt => .ok (v, pt, [], [])
  | _ :: _, [], _, _ => .panic "into_paths: nodes[i]"
  | index :: rest, row :: rows, v, pt => do
    let (a, b, ptr) ← leafPair leaves imap index row
    let parent := H.merge a b
    let pt := pt.insert (offset + index) a
    let pt := pt.insert (xor1 (offset + index)) b
    let parentIndex := (offset + index) / 2
    let v := v.insert parentIndex parent
    let pt := pt.insert parentIndex parent
    let (v, pt, ptrs, next) ← pathsLeafLoop H leaves imap offset rest rows v pt
    .ok (v, pt, ptr :: ptrs, parentIndex :: next)

/-- one level of the second loop of `into_paths` -/
def pathsLevel {D} (H : Hasher D) : List Nat → List (List D) → List Nat → SMap D → SMap D →
    Res (SMap D × SMap D × List Nat × List Nat)
  | [], _, ptrs, v, pt => .ok (v, pt, ptrs, [])
  | [k], rows, ptrs, v, pt =>
    match rows, ptrs with
    | row :: _, ptr :: ptrs' =>
      match row[ptr]? with
      | none => .err .invalid
      | some sibling =>
        match v.get k with
        | none => .err .invalid
        | some node =>
          let pt := pt.insert (xor1 k) sibling
          let parent := if k % 2 ≠ 0 then H.merge sibling node else H.merge node sibling
          .ok (v.insert (k / 2) parent, pt.insert (k / 2) parent, (ptr + 1) :: ptrs', [k / 2])
    | _, _ => .panic "into_paths: nodes[i] / proof_pointers[i]"
  | k :: k' :: rest, rows, ptrs, v, pt =>
    if k' = xor1 k then
      match v.get (xor1 k) with
      | none => .err .invalid
      | some sibling =>
        match v.get k with
        | none => .err .invalid
        | some node =>
          let pt := pt.insert (xor1 k) sibling
          let parent := if k % 2 ≠ 0 then H.merge sibling node else H.merge node sibling
          match rows, ptrs with
          | _ :: _ :: rows', p0 :: p1 :: ptrs' => do
            let (v, pt, ps, next) ←
              pathsLevel H rest rows' ptrs' (v.insert (k / 2) parent) (pt.insert (k / 2) parent)
            .ok (v, pt, p0 :: p1 :: ps, k / 2 :: next)
          | _, _ => .panic "into_paths: nodes[i] / proof_pointers[i]"
    else
      match rows, ptrs with
      | row :: rows', ptr :: ptrs' =>
        match row[ptr]? with
        | none => .err .invalid
        | some sibling =>
          match v.get k with
          | none => .err .invalid
          | some node =>
            let pt := pt.insert (xor1 k) sibling
            let parent := if k % 2 ≠ 0 then H.merge sibling node else H.merge node sibling
            do
              let (v, pt, ps, next) ←
                pathsLevel H (k' :: rest) rows' ptrs' (v.insert (k / 2) parent) (pt.insert (k / 2) parent)
              .ok (v, pt, (ptr + 1) :: ps, k / 2 :: next)
      | _, _ => .panic "into_paths: nodes[i] / proof_pointers[i]"

def pathsLevels {D} (H : Hasher D) (rows : List (List D)) : Nat → List Nat → List Nat → SMap D → SMap D →
    Res (SMap D × SMap D × List Nat)
  | 0, _, ptrs, v, pt => .ok (v, pt, ptrs)
  | l + 1, indexes, ptrs, v, pt => do
    let (v, pt, ptrs, next) ← pathsLevel H indexes rows ptrs v pt
    pathsLevels H rows l next ptrs v pt

/-- `partial_tree_map.insert(i + (1 << self.depth), *leaf)` for the zipped positions and leaves -/
def pathsSeed {D} (depth : Nat) : List Nat → List D → SMap D → Res (SMap D)
  | i :: is, leaf :: ls, pt => do
    let o ← shl1 depth
    let k ← addUsize i o
    pathsSeed depth is ls (pt.insert k leaf)
  | _, _, pt => .ok pt

def collectPaths {D} (pt : SMap D) (depth : Nat) : List Nat → Res (List (List D))
  | [] => .ok []
  | i :: is => do
    let p ← getPath pt i depth
    let ps ← collectPaths pt depth is
    .ok (p :: ps)

/-- `BatchMerkleProof::into_paths` -/
def intoPaths {D} (H : Hasher D) (p : BatchProof D) (indexes : List Nat) : Res (List (List D)) :=
  if indexes.isEmpty then .err .noIdx
  else if indexes.length > maxPaths then .err .manyIdx
  else if indexes.length ≠ p.leaves.length then .err .invalid
  else if p.depth ≥ usizeBits then .err .invalid
  else do
    let imap ← mapIndexes indexes p.depth
    let pt ← pathsSeed p.depth indexes p.leaves []
    let norm := normalizeIndexes indexes
    if norm.length ≠ p.nodes.length then .err .invalid
    else do
      let offset ← pow2 p.depth
      let (v, pt, ptrs, next) ← pathsLeafLoop H p.leaves imap offset norm p.nodes [] pt
      let (_, pt, ptrs) ← pathsLevels H p.nodes (p.depth - 1) next ptrs v pt
      if anyUnused ptrs p.nodes then .err .invalid
      else collectPaths pt p.depth indexes

-- ---------------------------------------------------------------------------------------------
-- compression of individual paths (proofs.rs: from_paths)

/-- `are_siblings(left, right)` (`right - 1` is evaluated only for even `left`) -/
def areSiblings (left right : Nat) : Res Bool :=
  if left % 2 = 0 then
    (if right = 0 then .panic "are_siblings: right - 1" else .ok (right - 1 = left))
  else .ok false

/-- the zip loop of `from_paths`: every path has the length of the first one; builds the map of
    paths and the map of the positions of the indexes in the provided list -/
def fromPathsMap {D} (depth : Nat) : List Nat → List (List D) → Nat → SMap (List D) → SMap Nat →
    Res (SMap (List D) × SMap Nat)
  | index :: is, path :: ps, i, m, pm =>
    if depth ≠ path.length then .panic "from_paths: not all paths have the same length"
    else fromPathsMap depth is ps (i + 1) (m.insert index path) (pm.insert index i)
  | _, _, _, m, pm => .ok (m, pm)

/-- `leaves[positions[i]] = x` -/
def setLeaf {D} (leaves : List D) (pos : Nat) (x : D) : Res (List D) :=
  if pos < leaves.length then .ok (leaves.set pos x) else .panic "from_paths: leaves[positions[i]]"

/-- first loop of `from_paths` over the sorted (index, path) pairs and their positions -/
def fromLeafLoop {D} : SMap (List D) → List Nat → List D → Res (List D × List (List D) × SMap (List D))
  | [], _, leaves => .ok (leaves, [], [])
  | [(k, path)], positions, leaves =>
    match positions, path[0]?, path[1]? with
    | pos :: _, some l0, some l1 => do
      let leaves ← setLeaf leaves pos l0
      .ok (leaves, [[l1]], [(k / 2, path)])
    | _, _, _ => .panic "from_paths: positions[i] / paths[i][1]"
  | (k, path) :: (k', path') :: rest, positions, leaves =>
    match positions, path[0]?, path[1]? with
    | pos :: positions', some l0, some l1 => do
      let leaves ← setLeaf leaves pos l0
      let sib ← areSiblings k k'
      if sib then
        match positions' with
        | pos' :: positions'' => do
          let leaves ← setLeaf leaves pos' l1
          let (ls, rows, m) ← fromLeafLoop rest positions'' leaves
          .ok (ls, [] :: rows, SMap.insert m (k' / 2) path')
        | [] => .panic "from_paths: positions[i + 1]"
      else do
        let (ls, rows, m) ← fromLeafLoop ((k', path') :: rest) positions' leaves
        .ok (ls, [l1] :: rows, SMap.insert m (k / 2) path)
    | _, _, _ => .panic "from_paths: positions[i] / paths[i][1]"

/-- one level `d` of the second loop of `from_paths` (lock-step over the sorted map and `nodes[i..]`) -/
def fromLevel {D} (d : Nat) : SMap (List D) → List (List D) → Res (List (List D) × SMap (List D))
  | [], rows => .ok (rows, [])
  | [(k, path)], rows =>
    match rows, path[d]? with
    | row :: rows', some x => .ok ((row ++ [x]) :: rows', [(k / 2, path)])
    | _, _ => .panic "from_paths: nodes[i] / path[d]"
  | (k, path) :: (k', path') :: rest, rows => do
    let sib ← areSiblings k k'
    if sib then
      match rows with
      | r0 :: r1 :: rows' => do
        let (rs, m) ← fromLevel d rest rows'
        .ok (r0 :: r1 :: rs, SMap.insert m (k / 2) path)
      | _ => .panic "from_paths: nodes[i]"
    else
      match rows, path[d]? with
      | row :: rows', some x => do
        let (rs, m) ← fromLevel d ((k', path') :: rest) rows'
        .ok ((row ++ [x]) :: rs, SMap.insert m (k / 2) path)
      | _, _ => .panic "from_paths: nodes[i] / path[d]"

/-- `for d in 2..depth` of `from_paths` (`cnt` iterations starting at level `d`) -/
def fromLevels {D} : Nat → Nat → SMap (List D) → List (List D) → Res (List (List D))
  | 0, _, _, rows => .ok rows
  | cnt + 1, d, m, rows => do
    let (rows, m) ← fromLevel d m rows
    fromLevels cnt (d + 1) m rows

/-- `BatchMerkleProof::from_paths` -/
def fromPaths {D} (H : Hasher D) (paths : List (List D)) (indexes : List Nat) : Res (BatchProof D) :=
  match paths with
  | [] => .panic "from_paths: at least one path must be provided"
  | p0 :: _ =>
    if paths.length > maxPaths then .panic "from_paths: number of paths cannot exceed 255"
    else if paths.length ≠ indexes.length then .panic "from_paths: number of paths must equal number of indexes"
    else do
      let depth := p0.length
      let (m, pm) ← fromPathsMap depth indexes paths 0 [] []
      if paths.length ≠ m.length then .panic "from_paths: list of indexes contains duplicates"
      else do
        let (leaves, rows, m) ← fromLeafLoop m pm.values (List.replicate m.length H.dflt)
        let rows ← fromLevels (depth - 2) 2 m rows
        if depth = 0 then .panic "from_paths: depth - 1"
        else .ok { leaves := leaves, nodes := rows, depth := (depth - 1) % 256 }

-- ---------------------------------------------------------------------------------------------
-- serialization of the node rows (proofs.rs: serialize_nodes, deserialize)

/-- kinds of `DeserializationError` -/
inductive DeErr where
  | eof | invalid
  deriving DecidableEq, Repr

/-- how digests are written and read: `enc` is `Serializable::write_into`, `dec` is
    `Deserializable::read_from` on the unread bytes of a reader (the digest and the bytes left) -/
structure Codec (D : Type) where
  enc : D → List Nat
  dec : List Nat → Except DeErr (D × List Nat)

def encRow {D} (C : Codec D) : List D → List Nat
  | [] => []
  | d :: ds => C.enc d ++ encRow C ds

/-- the loop of `serialize_nodes` over the node vectors -/
def serRows {D} (C : Codec D) : List (List D) → Res (List Nat)
  | [] => .ok []
  | row :: rows =>
    if row.length > 255 then .panic "serialize_nodes: too many nodes"
    else do
      let rest ← serRows C rows
      .ok (row.length :: encRow C row ++ rest)

/-- `BatchMerkleProof::serialize_nodes` -/
def serializeNodes {D} (C : Codec D) (p : BatchProof D) : Res (List Nat) :=
  if p.nodes.length > 255 then .panic "serialize_nodes: too many paths"
  else do
    let rest ← serRows C p.nodes
    .ok (p.nodes.length :: rest)

/-- `ByteReader::read_many` -/
def readMany {D} (C : Codec D) : Nat → List Nat → Except DeErr (List D × List Nat)
  | 0, bytes => .ok ([], bytes)
  | n + 1, bytes =>
    match C.dec bytes with
    | .error e => .error e
    | .ok (d, bytes) =>
      match readMany C n bytes with
      | .error e => .error e
      | .ok (ds, bytes) => .ok (d :: ds, bytes)

/-- the loop of `deserialize` over the node vectors -/
def readRows {D} (C : Codec D) : Nat → List Nat → Except DeErr (List (List D) × List Nat)
  | 0, bytes => .ok ([], bytes)
  | n + 1, bytes =>
    match bytes with
    | [] => .error .eof
    | numDigests :: bytes =>
      match readMany C numDigests bytes with
      | .error e => .error e
      | .ok (row, bytes) =>
        match readRows C n bytes with
        | .error e => .error e
        | .ok (rows, bytes) => .ok (row :: rows, bytes)

/-- `BatchMerkleProof::deserialize`: the proof and the bytes left unread -/
def deserialize {D} (C : Codec D) (nodeBytes : List Nat) (leaves : List D) (depth : Nat) :
    Except DeErr (BatchProof D × List Nat) :=
  if depth = 0 then .error .invalid
  else if leaves.isEmpty then .error .invalid
  else if leaves.length > maxPaths then .error .invalid
  else
    match nodeBytes with
    | [] => .error .eof
    | numNodeVectors :: bytes =>
      match readRows C numNodeVectors bytes with
      | .error e => .error e
      | .ok (nodes, bytes) => .ok ({ leaves := leaves, nodes := nodes, depth := depth }, bytes)

end Model.Merkle
