-- Hand-written executable model of the control-heavy parts of the three base fields
-- (exponentiation, inversion, conversions, byte encodings), on top of the definitions
-- generated from the Rust sources (Winter/Gen/F64.lean, F62.lean, F128.lean).
-- A raw word is the content of `BaseElement.0`.
import Winter.Gen.F64
import Winter.Gen.F62
import Winter.Gen.F128

namespace Model

/-- little-endian bytes of `v`, exactly `n` of them (`to_le_bytes`) -/
def leBytes : Nat → Nat → List Nat
  | 0, _ => []
  | n + 1, v => (v % 256) :: leBytes n (v / 256)

/-- `from_le_bytes` -/
def ofLeBytes : List Nat → Nat
  | [] => 0
  | b :: bs => b + 256 * ofLeBytes bs

/-- outcome of a fallible conversion -/
inductive Conv where
  | ok (raw : Nat)
  | err
  deriving Repr, DecidableEq

/-- outcome of a computation that may not terminate in the implementation -/
inductive Fuel (α : Type) where
  | done (a : α)
  | out            -- fuel exhausted
  deriving Repr

/-- the operations of one base field as the code implements them, on raw words -/
structure FieldImpl where
  name : String
  M : Nat                       -- modulus
  bytes : Nat                   -- ELEMENT_BYTES
  wordBits : Nat                -- width of the raw word / of `PositiveInteger`
  new : Nat → Nat               -- BaseElement::new on a word
  add : Nat → Nat → Nat
  sub : Nat → Nat → Nat
  mul : Nat → Nat → Nat
  neg : Nat → Nat
  double : Nat → Nat
  asInt : Nat → Nat
  eq : Nat → Nat → Bool
  exp : Nat → Nat → Nat
  inv : Nat → Fuel Nat
  twoAdicity : Nat
  twoAdicRoot : Nat             -- canonical integer given to `new`
  generator : Nat               -- canonical integer given to `new`
  /-- representation invariant of raw words -/
  inv? : Nat → Bool

namespace F64
open Gen.F64

/-- `FieldElement::exp`: 64 squarings with a constant-time select of `r * self` -/
def expStep (x power : Nat) (r : Nat) (i : Nat) : Nat :=
  let r := mul r r
  let b := mul r x
  if power.testBit i then b else r

def exp (x power : Nat) : Nat :=
  (List.range 64).reverse.foldl (expStep x power) (new 1)

def square (x : Nat) : Nat := mul x x

/-- `n` successive squarings -/
def sqN : Nat → Nat → Nat
  | 0, x => x
  | n + 1, x => sqN n (square x)

/-- `exp_acc::<N>(base, tail)` -/
def expAcc (n : Nat) (base tail : Nat) : Nat :=
  mul (sqN n base) tail

/-- `FieldElement::inv`: the 72-multiplication addition chain for `x^(M-2)` -/
def inv (x : Nat) : Nat :=
  let t2 := mul (square x) x
  let t3 := mul (square t2) x
  let t6 := expAcc 3 t3 t3
  let t12 := expAcc 6 t6 t6
  let t24 := expAcc 12 t12 t12
  let t30 := expAcc 6 t24 t6
  let t31 := mul (square t30) x
  let t63 := expAcc 32 t31 t31
  mul (square t63) x

def impl : FieldImpl where
  name := "f64"
  M := M
  bytes := ELEMENT_BYTES
  wordBits := 64
  new := new
  add := add
  sub := sub
  mul := mul
  neg := neg
  double := double
  asInt := as_int
  eq := eq
  exp := exp
  inv := fun x => .done (inv x)
  twoAdicity := TWO_ADICITY
  twoAdicRoot := TWO_ADIC_ROOT_OF_UNITY
  generator := GENERATOR
  inv? := fun r => decide (r < M)

end F64

namespace F62
open Gen.F62

/-- `FieldElement::exp` of the 62-bit field (variable time, early exits) -/
def exp (x power : Nat) : Nat :=
  if power = 0 then new 1
  else if eq x (new 0) then new 0
  else
    let r0 := if power % 2 = 1 then x else new 1
    let n := Nat.log2 power + 1       -- 64 - leading_zeros
    let st := (List.range (n - 1)).foldl
      (fun (st : Nat × Nat) k =>
        let i := k + 1
        let b := mul st.1 st.1
        let r := if power.testBit i then mul st.2 b else st.2
        (b, r)) (x, r0)
    st.2

/-- innermost loops of `inv`: halve `u` (resp. `v`) while even, fixing `d` (resp. `a`) -/
def halve (fuel : Nat) (u d : Nat) : Fuel (Nat × Nat) :=
  match fuel with
  | 0 => .out
  | fuel + 1 =>
    if u % 2 = 0 then
      let d := if d % 2 = 1 then d + M else d
      halve fuel (u / 2) (d / 2)
    else .done (u, d)

/-- `while v < u { u -= v; d += a; halve u d }` -/
def reduceU (fuel : Nat) (u v a d : Nat) : Fuel (Nat × Nat) :=
  match fuel with
  | 0 => .out
  | fuel + 1 =>
    if v < u then
      match halve 200 (u - v) (d + a) with
      | .done (u', d') => reduceU fuel u' v a d'
      | .out => .out
    else .done (u, d)

/-- `while v != 1 { … }` -/
def outer (fuel : Nat) (a u v d : Nat) : Fuel Nat :=
  match fuel with
  | 0 => .out
  | fuel + 1 =>
    if v = 1 then .done a
    else
      match reduceU 400 u v a d with
      | .out => .out
      | .done (u, d) =>
        -- `v -= u` is a checked u128 subtraction; u ≤ v holds here
        match halve 200 (v - u) (a + d) with
        | .out => .out
        | .done (v', a') => outer fuel a' u v' d

/-- final `while a > M { a -= M }` -/
def reduceA (fuel : Nat) (a : Nat) : Fuel Nat :=
  match fuel with
  | 0 => .out
  | fuel + 1 => if a > M then reduceA fuel (a - M) else .done a

/-- `inv` of the 62-bit field: binary extended GCD; `.out` = the loop did not end within the fuel -/
def inv (x : Nat) : Fuel Nat :=
  if x = 0 ∨ x = M then .done 0
  else
    let u := if x % 2 = 1 then x else x + M
    match outer 400 0 u M (M - 1) with
    | .out => .out
    | .done a =>
      match reduceA 200 a with
      | .out => .out
      | .done a => .done (mul (a % 18446744073709551616) R3)

def impl : FieldImpl where
  name := "f62"
  M := M
  bytes := ELEMENT_BYTES
  wordBits := 64
  new := new
  add := add
  sub := sub
  mul := mul
  neg := neg
  double := double
  asInt := as_int
  eq := eq
  exp := exp
  inv := inv
  twoAdicity := TWO_ADICITY
  twoAdicRoot := TWO_ADIC_ROOT_OF_UNITY
  generator := GENERATOR
  inv? := fun r => decide (r < 2 * M)

end F62

namespace F128
open Gen.F128

/-- default `exp` = `exp_vartime` of the field trait -/
def expLoop : Nat → Nat → Nat → Nat → Nat
  | 0, r, _, _ => r
  | fuel + 1, r, b, p =>
    if p = 0 then r
    else
      let r := if p % 2 = 1 then mul r b else r
      expLoop fuel r (mul b b) (p / 2)

def exp (x power : Nat) : Nat :=
  if power = 0 then 1
  else if x = 0 then 0
  else expLoop 129 1 x power

def halve (fuel : Nat) (u d : Nat) : Fuel (Nat × Nat) :=
  match fuel with
  | 0 => .out
  | fuel + 1 =>
    if u % 2 = 0 then
      let d := if d % 2 = 1 then d + M else d
      halve fuel (u / 2) (d / 2)
    else .done (u, d)

def reduceU (fuel : Nat) (u v a d : Nat) : Fuel (Nat × Nat) :=
  match fuel with
  | 0 => .out
  | fuel + 1 =>
    if u > v then
      match halve 400 (u - v) (d + a) with
      | .done (u', d') => reduceU fuel u' v a d'
      | .out => .out
    else .done (u, d)

def outer (fuel : Nat) (a u v d : Nat) : Fuel Nat :=
  match fuel with
  | 0 => .out
  | fuel + 1 =>
    if v = 1 then .done a
    else
      match reduceU 800 u v a d with
      | .out => .out
      | .done (u, d) =>
        match halve 400 (v - u) (a + d) with
        | .out => .out
        | .done (v', a') => outer fuel a' u v' d

def reduceA (fuel : Nat) (a : Nat) : Fuel Nat :=
  match fuel with
  | 0 => .out
  | fuel + 1 => if a ≥ M then reduceA fuel (a - M) else .done a

/-- `inv` of the 128-bit field (192-bit limbs abstracted to naturals; the limb helpers are
    translated and proved separately) -/
def inv (x : Nat) : Fuel Nat :=
  if x = 0 then .done 0
  else
    let u := if x % 2 = 1 then x else x + M
    match outer 800 0 u M (M - 1) with
    | .out => .out
    | .done a => reduceA 200 a

def impl : FieldImpl where
  name := "f128"
  M := M
  bytes := ELEMENT_BYTES
  wordBits := 128
  new := new
  add := add
  sub := sub
  mul := mul
  neg := neg
  double := fun x => add x x
  asInt := fun x => x
  eq := fun a b => a == b
  exp := exp
  inv := inv
  twoAdicity := TWO_ADICITY
  twoAdicRoot := TWO_ADIC_ROOT_OF_UNITY
  generator := GENERATOR
  inv? := fun r => decide (r < M)

end F128

namespace FieldImpl

variable (F : FieldImpl)

/-- `TryFrom<u64/u128>`: rejects exactly the integers `≥ M` -/
def tryFrom (n : Nat) : Conv :=
  if n ≥ F.M then .err else .ok (F.new n)

/-- `TryFrom<&[u8]>` / `from_random_bytes`: exact length, little endian, `< M` -/
def tryFromBytes (bs : List Nat) : Conv :=
  if bs.length ≠ F.bytes then .err else F.tryFrom (ofLeBytes bs)

/-- `Serializable::write_into` / `to_bytes`: canonical little-endian bytes -/
def toBytes (raw : Nat) : List Nat := leBytes F.bytes (F.asInt raw)

/-- `Deserializable::read_from` on a byte list: (result, rest) -/
def readFrom (bs : List Nat) : Option (Conv × List Nat) :=
  if bs.length < F.bytes then none
  else some (F.tryFrom (ofLeBytes (bs.take F.bytes)), bs.drop F.bytes)

def div (a b : Nat) : Fuel Nat :=
  match F.inv b with
  | .done i => .done (F.mul a i)
  | .out => .out

def square (a : Nat) : Nat := F.mul a a

/-- `StarkField::get_root_of_unity(n)`; `none` = the documented assertion failures -/
def rootOfUnity (n : Nat) : Option Nat :=
  if n = 0 ∨ n > F.twoAdicity then none
  else some (F.exp (F.new F.twoAdicRoot) (2 ^ (F.twoAdicity - n)))

/-- public operations applied in sequence to an accumulator `acc` and a second operand `y`
    (the representation invariant must hold in every state reachable this way) -/
inductive SeqOp where
  | add | sub | mul | neg | dbl | sq | swap | inv | div
  | mulSmall (k : Nat)        -- 64-bit field only: `mul_small(k)`, k < 2^32
  deriving Repr, DecidableEq

/-- one step; `none` = the implementation does not return (fuel exhausted in an inversion) -/
def seqStep (mulSmall : Nat → Nat → Nat) (st : Option (Nat × Nat)) (op : SeqOp) : Option (Nat × Nat) :=
  match st with
  | none => none
  | some (acc, y) =>
    match op with
    | .add => some (F.add acc y, y)
    | .sub => some (F.sub acc y, y)
    | .mul => some (F.mul acc y, y)
    | .neg => some (F.neg acc, y)
    | .dbl => some (F.double acc, y)
    | .sq => some (F.mul acc acc, y)
    | .swap => some (y, acc)
    | .mulSmall k => some (mulSmall acc k, y)
    | .inv => match F.inv acc with
      | .done r => some (r, y)
      | .out => none
    | .div => match F.div acc y with
      | .done r => some (r, y)
      | .out => none

def runSeq (mulSmall : Nat → Nat → Nat) (a b : Nat) (ops : List SeqOp) : Option (Nat × Nat) :=
  ops.foldl (F.seqStep mulSmall) (some (F.new a, F.new b))

end FieldImpl

end Model
