-- Hand-written model of the Fiat–Shamir transcript (C04): the sequence of public-coin operations
-- performed by the prover and by the verifier, as two INDEPENDENT transcriptions of
--   prover side    prover/src/lib.rs (Prover::generate_proof), prover/src/channel.rs (ProverChannel),
--                  fri/src/prover/mod.rs (FriProver::build_layers / build_layer / set_remainder)
--   verifier side  verifier/src/lib.rs (verify, perform_verification), verifier/src/channel.rs,
--                  fri/src/verifier/mod.rs (FriVerifier::new, verify_generic), air/src/proof/commitments.rs
--   both sides     air/src/air/mod.rs (get_aux_rand_elements, get_constraint_composition_coefficients,
--                  get_deep_composition_coefficients — default methods of `Air`, the same code on both sides)
-- and the protocol's own order of messages and challenges (`protocol`, written from the description of
-- the STARK/FRI interaction, not from the code), against which both scripts are judged.
-- No Mathlib; only core.  The coin itself (what `reseed`, `draw`, `check_leading_zeros`,
-- `draw_integers` compute) is the model of C19 (Winter/Model/Coin.lean).
import Winter.Model.Coin

namespace Model.Transcript

-- ====================================================================================== vocabulary
/-- the two parts of the coin's initial seed: `context.to_elements()` and `pub_inputs.to_elements()` -/
inductive SeedPart where
  | context
  | pubInputs
  deriving Repr, DecidableEq

/-- prover messages absorbed by `RandomCoin::reseed` (a digest each) -/
inductive Msg where
  /-- root of the Merkle tree of the extended main trace segment (`commit_trace`) -/
  | mainTraceRoot
  /-- root of the auxiliary trace segment (the pinned tree supports at most one: `TraceInfo::num_segments` is 1 or 2) -/
  | auxTraceRoot
  /-- root of the constraint evaluation tree (`commit_constraints`) -/
  | constraintRoot
  /-- `H::hash_elements` of the out-of-domain trace states (current/next interleaved, then the Lagrange kernel frame) -/
  | oodTraceFrameHash
  /-- `H::hash_elements` of the out-of-domain constraint composition column evaluations -/
  | oodEvaluationsHash
  /-- root of the i-th FRI layer (`commit_fri_layer` from `build_layer`) -/
  | friLayerRoot (i : Nat)
  /-- `H::hash_elements` of the FRI remainder polynomial (`commit_fri_layer` from `set_remainder`) -/
  | remainderCommitment
  deriving Repr, DecidableEq

/-- what a field-element draw is used for -/
inductive Purpose where
  /-- Lagrange-kernel randomness drawn by the AIR's own GKR prover / verifier, which are handed the coin
      (`Prover::generate_gkr_proof`, `GkrVerifier::verify`): user code, not library code -/
  | gkr
  /-- `Air::get_aux_rand_elements` -/
  | auxRand
  /-- `Air::get_constraint_composition_coefficients` -/
  | compCoeffs
  /-- the out-of-domain point z -/
  | oodPoint
  /-- `Air::get_deep_composition_coefficients` -/
  | deepCoeffs
  /-- the folding challenge drawn after the i-th FRI commitment -/
  | friAlpha (i : Nat)
  deriving Repr, DecidableEq

/-- one call of the `RandomCoin` trait (a run of `count` consecutive `draw` calls is one `draw` op) -/
inductive CoinOp where
  /-- `RandomCoin::new(seed)`, the seed being the concatenation of the listed parts -/
  | new (parts : List SeedPart)
  /-- `reseed(digest of the message)` -/
  | reseed (m : Msg)
  /-- `count` calls of `draw::<E>()` -/
  | draw (p : Purpose) (count : Nat)
  /-- `check_leading_zeros(pow_nonce)`: trailing zeros of H(seed ‖ nonce); the state is not changed.
      On the prover side the op stands for the whole search of `grind_query_seed`, whose last call is
      the one with the nonce that goes into the proof -/
  | checkPow
  /-- first half of `draw_integers(n, domain, pow_nonce)`: seed := H(seed ‖ nonce), counter := 0 -/
  | reseedWithNonce
  /-- second half of `draw_integers(n, domain, pow_nonce)`: n integers below `domain` -/
  | drawInts (n domain : Nat)
  deriving Repr, DecidableEq

/-- the parameters the transcript depends on -/
structure Cfg where
  /-- `trace_info.is_multi_segment()` -/
  aux : Bool
  /-- `context.has_lagrange_kernel_aux_column()` -/
  lagrange : Bool
  /-- number of elements the AIR's GKR prover / verifier draws (user code) -/
  gkrDraws : Nat
  /-- `trace_info.get_num_aux_segment_rand_elements()` -/
  auxRands : Nat
  /-- `context.num_transition_constraints()` (main + auxiliary) -/
  nTrans : Nat
  /-- `context.num_assertions()` (main + auxiliary) -/
  nAssert : Nat
  /-- `context.trace_len().ilog2()` -/
  logLen : Nat
  /-- `trace_info.width()` (main + auxiliary columns) -/
  width : Nat
  /-- `context.num_constraint_composition_columns()` -/
  cols : Nat
  /-- `options.to_fri_options().num_fri_layers(lde_domain_size)` -/
  friLayers : Nat
  /-- `options.num_queries()` -/
  queries : Nat
  /-- `lde_domain_size` -/
  ldeSize : Nat
  /-- extension degree of the field E every element is drawn from (1, 2, 3) -/
  ext : Nat
  /-- `options.grinding_factor()` (the transcript does not depend on it) -/
  grinding : Nat
  deriving Repr, DecidableEq

-- ====================================================================================== shared Air code
/-- number of `draw` calls of `Air::get_constraint_composition_coefficients` -/
def compCount (cfg : Cfg) : Nat :=
  cfg.nTrans + cfg.nAssert + (if cfg.lagrange then cfg.logLen + 1 else 0)

/-- number of `draw` calls of `Air::get_deep_composition_coefficients` -/
def deepCount (cfg : Cfg) : Nat :=
  cfg.width + cfg.cols + (if cfg.lagrange then 1 else 0)

-- ====================================================================================== prover
/-- `FriProver::build_layers`: `for _ in 0..num_fri_layers { build_layer }` — `build_layer` commits to the
    layer (`commit_fri_layer` = `reseed`) and draws α (`draw_fri_alpha`); `i` is `self.layers.len()` -/
def friProverLayers : Nat → Nat → List CoinOp
  | _, 0 => []
  | i, k + 1 => .reseed (.friLayerRoot i) :: .draw (.friAlpha i) 1 :: friProverLayers (i + 1) k

/-- `FriProver::build_layers` followed by `set_remainder` (which commits to the remainder and draws nothing) -/
def friProver (layers : Nat) : List CoinOp :=
  friProverLayers 0 layers ++ [.reseed .remainderCommitment]

/-- the coin operations of `Prover::generate_proof`, in program order -/
def proverScript (cfg : Cfg) : List CoinOp :=
  -- ProverChannel::new: context.to_elements() ++ pub_inputs_elements
  [.new [.context, .pubInputs]]
  -- 1: commit_to_main_trace_segment -> channel.commit_trace(main_trace_root)
  ++ [.reseed .mainTraceRoot]
  -- `if air.trace_info().is_multi_segment()`
  ++ (if cfg.aux then
        -- `if air.context().has_lagrange_kernel_aux_column()`: generate_gkr_proof(&trace, channel.public_coin())
        (if cfg.lagrange then [.draw .gkr cfg.gkrDraws] else [])
        -- air.get_aux_rand_elements(channel.public_coin())
        ++ [.draw .auxRand cfg.auxRands]
        -- channel.commit_trace(aux_segment_root)
        ++ [.reseed .auxTraceRoot]
      else [])
  -- 2: channel.get_constraint_composition_coeffs()
  ++ [.draw .compCoeffs (compCount cfg)]
  -- 3: commit_to_constraint_evaluations -> channel.commit_constraints
  ++ [.reseed .constraintRoot]
  -- 4: z = channel.get_ood_point(); send_ood_trace_states; send_ood_constraint_evaluations; DEEP coefficients
  ++ [.draw .oodPoint 1]
  ++ [.reseed .oodTraceFrameHash]
  ++ [.reseed .oodEvaluationsHash]
  ++ [.draw .deepCoeffs (deepCount cfg)]
  -- 6: fri_prover.build_layers(&mut channel, deep_evaluations)
  ++ friProver cfg.friLayers
  -- 7: channel.grind_query_seed(); channel.get_query_positions()
  ++ [.checkPow, .reseedWithNonce, .drawInts cfg.queries cfg.ldeSize]

-- ====================================================================================== verifier
/-- `Commitments::parse(num_trace_segments, num_fri_layers)`: the digests after the constraint root are
    read as `num_fri_layers + 1` FRI commitments; the j-th (j < layers) is the root of layer j (the prover's
    j-th `commit_fri_layer`), the last one the remainder commitment -/
def friCommitmentsFrom : Nat → Nat → List Msg
  | _, 0 => [.remainderCommitment]
  | j, k + 1 => .friLayerRoot j :: friCommitmentsFrom (j + 1) k

def friCommitments (layers : Nat) : List Msg := friCommitmentsFrom 0 layers

/-- the loop of `FriVerifier::new`: `for (depth, commitment) in layer_commitments.iter().enumerate()
    { public_coin.reseed(*commitment); let alpha = public_coin.draw()?; layer_alphas.push(alpha); … }` -/
def friVerifierLoop : Nat → List Msg → List CoinOp
  | _, [] => []
  | depth, c :: cs => .reseed c :: .draw (.friAlpha depth) 1 :: friVerifierLoop (depth + 1) cs

/-- the α's the query phase reads: `verify_generic` uses `self.layer_alphas[depth]` for
    `depth in 0..self.options.num_fri_layers(self.domain_size)` and nothing else -/
def alphasUsed (cfg : Cfg) : List Purpose := (List.range cfg.friLayers).map .friAlpha

/-- the coin operations of `verify` / `perform_verification`, in program order -/
def verifierScript (cfg : Cfg) : List CoinOp :=
  -- public_coin_seed = proof.context.to_elements() ++ pub_inputs.to_elements(); RandCoin::new
  [.new [.context, .pubInputs]]
  -- 1: public_coin.reseed(trace_commitments[MAIN_TRACE_IDX])
  ++ [.reseed .mainTraceRoot]
  ++ (if cfg.aux then
        if cfg.lagrange then
          -- GkrVerifier::verify(gkr_proof, &mut public_coin); get_aux_rand_elements; reseed(trace_commitments[AUX_TRACE_IDX])
          [.draw .gkr cfg.gkrDraws, .draw .auxRand cfg.auxRands, .reseed .auxTraceRoot]
        else
          [.draw .auxRand cfg.auxRands, .reseed .auxTraceRoot]
      else [])
  ++ [.draw .compCoeffs (compCount cfg)]
  -- 2: reseed(constraint_commitment); z = draw
  ++ [.reseed .constraintRoot, .draw .oodPoint 1]
  -- 3: reseed(ood_trace_frame.hash()); reseed(hash_elements(ood_constraint_evaluations))
  ++ [.reseed .oodTraceFrameHash]
  ++ [.reseed .oodEvaluationsHash]
  -- 4: deep coefficients; FriVerifier::new
  ++ [.draw .deepCoeffs (deepCount cfg)]
  ++ friVerifierLoop 0 (friCommitments cfg.friLayers)
  -- 5: check_leading_zeros(pow_nonce); draw_integers(num_queries, lde_domain_size, pow_nonce)
  ++ [.checkPow, .reseedWithNonce, .drawInts cfg.queries cfg.ldeSize]

-- ====================================================================================== the protocol
/-- a challenge of the protocol -/
inductive Chal where
  | elems (p : Purpose)
  /-- the proof-of-work check on the query seed -/
  | pow
  /-- the query positions -/
  | queries
  deriving Repr, DecidableEq

/-- an event of the interaction -/
inductive Event where
  /-- a part of the statement enters the seed -/
  | seed (s : SeedPart)
  /-- the prover sends a message -/
  | msg (m : Msg)
  /-- the prover sends the proof-of-work nonce (absorbed by `draw_integers`, argument of the PoW check) -/
  | nonce
  /-- the verifier answers with a challenge -/
  | chal (c : Chal)
  deriving Repr, DecidableEq

/-- FRI commit phase of the protocol: the prover commits to layer i, the verifier answers with αᵢ -/
def protoFri : Nat → Nat → List Event
  | _, 0 => []
  | i, k + 1 => .msg (.friLayerRoot i) :: .chal (.elems (.friAlpha i)) :: protoFri (i + 1) k

/-- THE PROTOCOL ORDER (DEEP-ALI STARK with FRI, as in the documentation of the prover crate): statement;
    main trace commitment; [randomness for the auxiliary segment; auxiliary trace commitment;]
    composition coefficients; constraint commitment; out-of-domain point; out-of-domain trace frame and
    constraint evaluations; DEEP coefficients; per FRI layer: commitment, α; remainder commitment;
    proof of work on the query seed (the check is made on the state that has absorbed everything up to the
    remainder, together with the nonce); the nonce; query positions -/
def protocol (cfg : Cfg) : List Event :=
  [.seed .context, .seed .pubInputs, .msg .mainTraceRoot]
  ++ (if cfg.aux then
        (if cfg.lagrange then [.chal (.elems .gkr)] else [])
        ++ [.chal (.elems .auxRand), .msg .auxTraceRoot]
      else [])
  ++ [.chal (.elems .compCoeffs), .msg .constraintRoot, .chal (.elems .oodPoint),
      .msg .oodTraceFrameHash, .msg .oodEvaluationsHash, .chal (.elems .deepCoeffs)]
  ++ protoFri 0 cfg.friLayers
  ++ [.msg .remainderCommitment, .chal .pow, .nonce, .chal .queries]

/-- the events a coin operation stands for -/
def CoinOp.events : CoinOp → List Event
  | .new parts => parts.map .seed
  | .reseed m => [.msg m]
  | .draw p _ => [.chal (.elems p)]
  | .checkPow => [.chal .pow]
  | .reseedWithNonce => [.nonce]
  | .drawInts _ _ => [.chal .queries]

/-- the event sequence of a script -/
def events (s : List CoinOp) : List Event := s.flatMap CoinOp.events

/-- `x` is at a position of `l` strictly before a position of `y` -/
def Before (l : List Event) (x y : Event) : Prop :=
  ∃ pre post, l = pre ++ y :: post ∧ x ∈ pre

/-- what has to be absorbed: statement parts, messages, the nonce -/
def Event.isAbsorbed : Event → Bool
  | .seed _ => true
  | .msg _ => true
  | .nonce => true
  | .chal _ => false

/-- THE PROPERTY for one script: whenever the script reaches a challenge `c`, every statement part and
    every prover message that precedes `c` in protocol order has already been absorbed by the script -/
def Respects (proto script : List Event) : Prop :=
  ∀ (c : Chal) (x : Event), x.isAbsorbed = true → Before proto x (.chal c) →
    ∀ pre post, script = pre ++ .chal c :: post → x ∈ pre

-- ====================================================================================== unused draws
/-- the only draw whose value is never used: the α the verifier draws after the LAST commitment of
    `layer_commitments`, i.e. after the remainder commitment (`FriVerifier::new` draws one α per commitment,
    `verify_generic` reads `layer_alphas[depth]` for `depth < num_fri_layers` only, see `alphasUsed`) -/
def unusedDraw (cfg : Cfg) (op : CoinOp) : Bool :=
  op == .draw (.friAlpha cfg.friLayers) 1

def dropUnused (cfg : Cfg) (s : List CoinOp) : List CoinOp := s.filter (fun op => !unusedDraw cfg op)

-- ====================================================================================== provenance
/-- the parts of a proof the verifier's absorbed values are computed from; `D` digests, `E` elements -/
structure ProofData (D E : Type) where
  /-- `proof.commitments`, parsed into digests in the order they were written -/
  commitments : List D
  /-- the parsed out-of-domain trace states (current/next interleaved) followed by the Lagrange kernel frame -/
  oodTraceStates : List E
  /-- the parsed out-of-domain constraint evaluations -/
  oodEvaluations : List E
  /-- the parsed FRI remainder polynomial of `proof.fri_proof` -/
  friRemainder : List E
  /-- everything else in the proof (queries, openings, nonce, GKR proof, …) -/
  rest : Nat

/-- the proof field a message is carried in -/
inductive Field where
  | commitment (idx : Nat)
  | oodTraceStates
  | oodEvaluations
  deriving Repr, DecidableEq

/-- `TraceInfo::num_segments` -/
def numSegments (cfg : Cfg) : Nat := if cfg.aux then 2 else 1

/-- where the verifier takes the value it absorbs for a message from (`Commitments::parse`: trace roots,
    constraint root, FRI commitments; `read_ood_trace_frame().hash()`; `hash_elements(read_ood_constraint_evaluations())`) -/
def fieldOf (cfg : Cfg) : Msg → Field
  | .mainTraceRoot => .commitment 0
  | .auxTraceRoot => .commitment 1
  | .constraintRoot => .commitment (numSegments cfg)
  | .oodTraceFrameHash => .oodTraceStates
  | .oodEvaluationsHash => .oodEvaluations
  | .friLayerRoot i => .commitment (numSegments cfg + 1 + i)
  | .remainderCommitment => .commitment (numSegments cfg + 1 + cfg.friLayers)

/-- the content of a proof field: a digest, or the elements that get hashed -/
inductive Content (D E : Type) where
  | digest (d : D)
  | elems (es : List E)
  | missing

def ProofData.field {D E : Type} (p : ProofData D E) : Field → Content D E
  | .commitment i => match p.commitments[i]? with
    | some d => .digest d
    | none => .missing
  | .oodTraceStates => .elems p.oodTraceStates
  | .oodEvaluations => .elems p.oodEvaluations

/-- the value absorbed for a field's content (`hashElements` = `H::hash_elements`) -/
def absorbOf {D E : Type} (hashElements : List E → D) : Content D E → Option D
  | .digest d => some d
  | .elems es => some (hashElements es)
  | .missing => none

/-- the digest the verifier passes to `reseed` for message `m` -/
def verifierAbsorbs {D E : Type} (hashElements : List E → D) (cfg : Cfg) (p : ProofData D E) (m : Msg) : Option D :=
  absorbOf hashElements (p.field (fieldOf cfg m))

/-- the messages of a script, in order -/
def absorbedMsgs : List CoinOp → List Msg
  | [] => []
  | .reseed m :: s => m :: absorbedMsgs s
  | _ :: s => absorbedMsgs s

/-- the final check of `FriVerifier::verify_generic` on the remainder polynomial: it must be the polynomial
    whose commitment was absorbed before the query positions were drawn -/
def remainderBound {D E : Type} [DecidableEq D] (hashElements : List E → D) (cfg : Cfg) (p : ProofData D E) : Bool :=
  verifierAbsorbs hashElements cfg p .remainderCommitment == some (hashElements p.friRemainder)

-- ====================================================================================== running a script
/-- the concrete data of one run: statement, message digests, nonce, and the base field of the coin -/
structure Env (D : Type) where
  seed : SeedPart → List Nat
  msg : Msg → D
  nonce : Nat
  fd : Model.Coin.FieldDesc

/-- the `RandomCoin` calls (model of C19, Winter/Model/Coin.lean) a script operation stands for; the two
    halves of `draw_integers` are one call, `new` is the initial state (see `seedOf`) -/
def compileOp {D : Type} (env : Env D) (cfg : Cfg) : CoinOp → List (Model.Coin.Op D)
  | .new _ => []
  | .reseed m => [.reseed (env.msg m)]
  | .draw _ n => List.replicate n (.draw env.fd cfg.ext)
  | .checkPow => [.checkLeadingZeros env.nonce]
  | .reseedWithNonce => []
  | .drawInts n d => [.drawIntegers n d env.nonce]

def compile {D : Type} (env : Env D) (cfg : Cfg) (s : List CoinOp) : List (Model.Coin.Op D) :=
  s.flatMap (compileOp env cfg)

/-- the seed elements passed to `RandomCoin::new` -/
def seedOf {D : Type} (env : Env D) : List CoinOp → List Nat
  | .new parts :: _ => parts.flatMap env.seed
  | _ => []

/-- the outputs of all coin calls of a script (challenge values, PoW count, query positions), by the coin model of C19 -/
def runScript {D : Type} (H : Model.Coin.HashOps D) (env : Env D) (cfg : Cfg) (s : List CoinOp) : List Model.Coin.Out :=
  (Model.Coin.run H (seedOf env s) (compile env cfg s)).1

-- ====================================================================================== the context part of the seed
/-- the proof context (`air/src/proof/context.rs`: trace info, field modulus, proof options) as plain numbers -/
structure Ctx where
  mainWidth : Nat
  auxWidth : Nat
  auxRands : Nat
  traceLen : Nat
  /-- `TraceInfo::trace_meta`, bytes -/
  traceMeta : List Nat
  /-- the field: modulus and `ELEMENT_BYTES` (= number of bytes of `get_modulus_le_bytes`) -/
  modulus : Nat
  elemBytes : Nat
  queries : Nat
  blowup : Nat
  grinding : Nat
  /-- `FieldExtension as u8`: 1, 2, 3 -/
  ext : Nat
  folding : Nat
  remainder : Nat
  deriving Repr, DecidableEq

/-- `slice::chunks(n)` (fuel: the length of the list suffices) -/
def chunksOf (n : Nat) : Nat → List Nat → List (List Nat)
  | 0, _ => []
  | fuel + 1, bs => if bs.isEmpty then [] else bs.take n :: chunksOf n fuel (bs.drop n)

/-- `TraceInfo::to_elements`: widths / segment count / random element count packed into one element, the
    trace length (`as u32`), then the metadata in chunks of `ELEMENT_BYTES - 1` bytes, each zero-padded
    (`from_bytes_with_padding`: the little-endian value of the chunk) -/
def traceInfoElems (c : Ctx) : List Nat :=
  let buf := c.mainWidth * 256 + (if c.auxWidth > 0 then 1 else 0)
  let buf := if c.auxWidth > 0 then (buf * 256 + c.auxWidth) * 256 + c.auxRands else buf
  [buf, c.traceLen % 4294967296] ++ (chunksOf (c.elemBytes - 1) c.traceMeta.length c.traceMeta).map Model.Coin.leVal

/-- `Context::to_elements`: trace info, the two halves of the modulus bytes, `ProofOptions::to_elements` -/
def ctxElems (c : Ctx) : List Nat :=
  traceInfoElems c
    ++ [c.modulus % 2 ^ (8 * (c.elemBytes / 2)), c.modulus / 2 ^ (8 * (c.elemBytes / 2))]
    ++ [(c.ext * 256 + c.folding) * 256 + c.remainder, c.grinding, c.blowup, c.queries]

/-- what the constructors (`TraceInfo::new_multi_segment`, `Context::new`, `ProofOptions::new`) guarantee -/
def Ctx.valid (c : Ctx) : Prop :=
  1 ≤ c.mainWidth ∧ c.mainWidth + c.auxWidth ≤ 255 ∧ c.auxRands ≤ 255 ∧ (c.auxWidth = 0 → c.auxRands = 0) ∧
  c.traceLen < 4294967296 ∧ (∀ b ∈ c.traceMeta, b < 256) ∧ c.folding ≤ 255 ∧ c.remainder ≤ 255 ∧ 2 ≤ c.elemBytes ∧
  c.modulus < 2 ^ (8 * c.elemBytes) ∧ c.elemBytes % 2 = 0

-- ====================================================================================== canonical text
def Msg.tag : Msg → String
  | .mainTraceRoot => "main"
  | .auxTraceRoot => "aux"
  | .constraintRoot => "cons"
  | .oodTraceFrameHash => "oodt"
  | .oodEvaluationsHash => "oode"
  | .friLayerRoot i => "fri" ++ toString i
  | .remainderCommitment => "rem"

def SeedPart.tag : SeedPart → String
  | .context => "ctx"
  | .pubInputs => "pub"

/-- canonical text of a script as the recording coin of the harness observes it: consecutive draws are
    one group `d<ext>x<count>` (the coin does not see purposes), empty groups are not observable -/
def canonAux (ext : Nat) : Nat → List CoinOp → List String
  | pending, [] => if pending = 0 then [] else ["d" ++ toString ext ++ "x" ++ toString pending]
  | pending, .draw _ n :: s => canonAux ext (pending + n) s
  | pending, op :: s =>
    (if pending = 0 then [] else ["d" ++ toString ext ++ "x" ++ toString pending]) ++
    (match op with
      | .new parts => "new:" ++ "+".intercalate (parts.map SeedPart.tag)
      | .reseed m => "r:" ++ m.tag
      | .checkPow => "pow"
      | .reseedWithNonce => "nonce"
      | .drawInts n d => "ints:" ++ toString n ++ ":" ++ toString d
      | .draw _ _ => "") :: canonAux ext 0 s

def canon (cfg : Cfg) (s : List CoinOp) : String := ",".intercalate (canonAux cfg.ext 0 s)

end Model.Transcript
