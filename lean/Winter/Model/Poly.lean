-- Hand-written executable model of math/src/polynom/mod.rs and math/src/utils/mod.rs (property C20).
--
-- * A slice / Vec of field elements is a `List α`; coefficient `i` of a polynomial is element `i`.
-- * The model is generic over a type-class-free record `Ops α` of field operations *as the code uses
--   them* (`+ - * inv == ZERO == ONE exp`).  The driver (Winter/Drv/C20.lean) runs these definitions
--   with the raw-word operations of Winter/Model/Field.lean; WinterProofs/C20.lean reasons about the
--   very same definitions for any `Ops α` that is a field through a valuation `v : α → F`.
-- * Every way the Rust code can panic is an explicit outcome: `assert!`/`debug_assert!` (the harness
--   runs a debug build), index out of bounds on computed indices, `usize` underflow.  Reads `a[i]`
--   whose index is a loop variable ranging over `0..a.len()` are modelled by iterating over the
--   elements (`zipIdx`), all other reads and writes go through the checked `getAt`/`setAt`.
--   `hang` = a field inversion that does not return (see C07).
-- * No Mathlib here: the driver must link.
namespace Model.Poly

/-- outcome of a modelled function -/
inductive Res (α : Type) where
  | ok (a : α)
  | panic (site : String)
  | hang
  deriving Repr, DecidableEq

namespace Res

def bind {α β : Type} (x : Res α) (f : α → Res β) : Res β :=
  match x with
  | ok a => f a
  | panic s => panic s
  | hang => hang

def map {α β : Type} (f : α → β) (x : Res α) : Res β :=
  match x with
  | ok a => ok (f a)
  | panic s => panic s
  | hang => hang

def isPanic {α : Type} : Res α → Bool
  | panic _ => true
  | _ => false

end Res

/-- the field operations used by the modelled code -/
structure Ops (α : Type) where
  zero : α
  one : α
  add : α → α → α
  sub : α → α → α
  mul : α → α → α
  /-- `inv()`; `none` = the call does not return -/
  inv : α → Option α
  /-- `x == E::ZERO` -/
  isZero : α → Bool
  /-- `x == E::ONE` -/
  isOne : α → Bool
  /-- `exp(power)` -/
  pow : α → Nat → α

variable {α β : Type}

/-- `x / y` = `x * y.inv()` -/
def Ops.div (O : Ops α) (x y : α) : Res α :=
  match O.inv y with
  | some i => .ok (O.mul x i)
  | none => .hang

/-- `for i in idxs { st = body(st, i) }`, leaving at the first panic -/
def loopM {ι σ : Type} (idxs : List ι) (st : σ) (body : σ → ι → Res σ) : Res σ :=
  match idxs with
  | [] => .ok st
  | i :: rest =>
    match body st i with
    | .ok st' => loopM rest st' body
    | .panic s => .panic s
    | .hang => .hang

/-- `xs.iter().map(f).collect()` where `f` may panic -/
def mapM' {ι σ : Type} (f : ι → Res σ) : List ι → Res (List σ)
  | [] => .ok []
  | x :: xs =>
    match f x with
    | .ok y =>
      match mapM' f xs with
      | .ok ys => .ok (y :: ys)
      | .panic s => .panic s
      | .hang => .hang
    | .panic s => .panic s
    | .hang => .hang

/-- checked read `r[k]` -/
def getAt (r : List α) (k : Nat) : Res α :=
  match r[k]? with
  | some v => .ok v
  | none => .panic "index out of bounds"

/-- checked write `r[k] = v` -/
def setAt (r : List α) (k : Nat) (v : α) : Res (List α) :=
  if k < r.length then .ok (r.set k v) else .panic "index out of bounds"

/-- `r[k] = f(r[k])` (checked) -/
def updAt (r : List α) (k : Nat) (f : α → α) : Res (List α) :=
  match r[k]? with
  | some v => .ok (r.set k (f v))
  | none => .panic "index out of bounds"

-- ================================================================================ evaluation

/-- `polynom::eval` (Horner): `p.iter().rev().fold(ZERO, |acc, c| acc * x + E::from(c))` -/
def evalWith (O : Ops α) (cast : β → α) (p : List β) (x : α) : α :=
  p.reverse.foldl (fun acc c => O.add (O.mul acc x) (cast c)) O.zero

def eval (O : Ops α) (p : List α) (x : α) : α := evalWith O id p x

/-- `polynom::eval_many` -/
def evalMany (O : Ops α) (p : List α) (xs : List α) : List α := xs.map (eval O p)

-- ================================================================================ add / sub / scalar

/-- `if i < a.len() { a[i] } else { ZERO }` -/
def coeff (O : Ops α) (a : List α) (i : Nat) : α :=
  match a[i]? with
  | some c => c
  | none => O.zero

/-- `polynom::add` -/
def add (O : Ops α) (a b : List α) : List α :=
  (List.range (max a.length b.length)).map fun i => O.add (coeff O a i) (coeff O b i)

/-- `polynom::sub` -/
def sub (O : Ops α) (a b : List α) : List α :=
  (List.range (max a.length b.length)).map fun i => O.sub (coeff O a i) (coeff O b i)

/-- `polynom::mul_by_scalar` -/
def mulByScalar (O : Ops α) (p : List α) (k : α) : List α := p.map fun c => O.mul c k

-- ================================================================================ mul

/-- inner loop of `mul`: `for j in 0..b.len() { result[i + j] += a[i] * b[j] }` -/
def mulInner (O : Ops α) (ai : α) (i : Nat) (b : List α) (r : List α) : Res (List α) :=
  loopM b.zipIdx r fun r bj => updAt r (i + bj.2) fun v => O.add v (O.mul ai bj.1)

/-- `polynom::mul` (after fix 56f5e3a: `result_len = (a.len() + b.len()).saturating_sub(1)`) -/
def mul (O : Ops α) (a b : List α) : Res (List α) :=
  loopM a.zipIdx (List.replicate (a.length + b.length - 1) O.zero) fun r ai => mulInner O ai.1 ai.2 b r

-- ================================================================================ degree

/-- the coefficients from the top down to (and including) the first non-zero one, reversed:
    what the loops `for i in (0..len).rev() { if p[i] != ZERO { … } }` leave below the hit -/
def stripRev (O : Ops α) (p : List α) : List α := p.reverse.dropWhile O.isZero

/-- `polynom::degree_of`: index of the highest non-zero coefficient, `0` if there is none -/
def degreeOf (O : Ops α) (p : List α) : Nat :=
  match stripRev O p with
  | [] => 0
  | _ :: t => t.length

/-- `polynom::remove_leading_zeros` -/
def removeLeadingZeros (O : Ops α) (p : List α) : List α := (stripRev O p).reverse

-- ================================================================================ div

/-- `apos.wrapping_sub(1)` on a 64-bit `usize` -/
def wrappingPred (n : Nat) : Nat := if n = 0 then 18446744073709551615 else n - 1

/-- state of the division loop: the working copy of `a`, `result`, `apos` -/
structure DivSt (α : Type) where
  a : List α
  result : List α
  apos : Nat

/-- one iteration of the outer loop of `div` -/
def divStep (O : Ops α) (b : List α) (bpos : Nat) (st : DivSt α) (i : Nat) : Res (DivSt α) :=
  (getAt st.a st.apos).bind fun top =>
  (getAt b bpos).bind fun lead =>
  (O.div top lead).bind fun quot =>
  (setAt st.result i quot).bind fun result =>
  (loopM (b.take bpos).zipIdx.reverse st.a fun a bj => updAt a (i + bj.2) fun v => O.sub v (O.mul bj.1 quot)).bind fun a =>
  .ok { a := a, result := result, apos := wrappingPred st.apos }

/-- `b[0] == ZERO` for a non-empty `b` -/
def headIsZero (O : Ops α) : List α → Bool
  | [] => false
  | b0 :: _ => O.isZero b0

/-- `polynom::div` (after fix cc9bed5: an empty dividend gives the zero quotient) -/
def div (O : Ops α) (a b : List α) : Res (List α) :=
  let apos := degreeOf O a
  let bpos := degreeOf O b
  if apos < bpos then .panic "cannot divide by polynomial of higher degree"
  else if bpos = 0 ∧ b.isEmpty then .panic "cannot divide by empty polynomial"
  else if bpos = 0 ∧ headIsZero O b then .panic "cannot divide polynomial by zero"
  else if a.isEmpty then .ok [O.zero]
  else
    let n := apos - bpos + 1
    (loopM (List.range n).reverse { a := a, result := List.replicate n O.zero, apos := apos }
      (divStep O b bpos)).bind fun st => .ok st.result

-- ================================================================================ synthetic division

/-- `for coeff in p.iter_mut().rev() { *coeff += b * c; mem::swap(coeff, &mut c) }`, run on the
    reversed slice (head = highest coefficient); returns the new slice (reversed) and the final `c` -/
def synLoop (O : Ops α) (b : α) : List α → α → List α × α
  | [], c => ([], c)
  | coeff :: rest, c =>
    let r := synLoop O b rest (O.add coeff (O.mul b c))
    (c :: r.1, r.2)

/-- division by `x - b` in place; second component: the discarded remainder -/
def synDivLinear (O : Ops α) (p : List α) (b : α) : List α × α :=
  let r := synLoop O b p.reverse O.zero
  (r.1.reverse, r.2)

/-- `for i in (0..degree_offset).rev() { p[i] += p[i + a] * b }` (`p[i] += p[i + a]` when `b == ONE`) -/
def synGeneralLoop (O : Ops α) (p : List α) (a : Nat) (b : α) : Res (List α) :=
  loopM (List.range (p.length - a)).reverse p fun p i =>
    (getAt p (i + a)).bind fun hi =>
    updAt p i fun lo => O.add lo (if O.isOne b then hi else O.mul hi b)

/-- `polynom::syn_div_in_place` (and `syn_div`, which runs it on a copy): divide by `x^a - b` -/
def synDiv (O : Ops α) (p : List α) (a : Nat) (b : α) : Res (List α) :=
  if a = 0 then .panic "divisor degree cannot be zero"
  else if O.isZero b then .panic "constant cannot be zero"
  else if p.length ≤ a then .panic "divisor degree cannot be greater than dividend size"
  else if a = 1 then .ok (synDivLinear O p b).1
  else
    (synGeneralLoop O p a b).bind fun p' =>
      -- p.copy_within(a.., 0); p[degree_offset..].fill(ZERO)
      .ok (p'.drop a ++ List.replicate (p.length - (p.length - a)) O.zero)

/-- `polynom::syn_div_roots_in_place` -/
def synDivRoots (O : Ops α) (p : List α) (roots : List α) : Res (List α) :=
  if roots.isEmpty then .panic "divisor should contain at least one linear factor"
  else if p.length ≤ roots.length then .panic "divisor degree cannot be greater than dividend size"
  else .ok (roots.foldl (fun p r => (synDivLinear O p r).1) p)

-- ================================================================================ poly_from_roots

/-- state of `fill_zero_roots`: the output slice and `n` -/
structure RootSt (α : Type) where
  result : List α
  n : Nat

/-- one iteration of the outer loop of `fill_zero_roots` (`m` = `xs.len()`, `x` = `xs[i]`) -/
def fillStep (O : Ops α) (m : Nat) (st : RootSt α) (x : α) : Res (RootSt α) :=
  if st.n = 0 then .panic "attempt to subtract with overflow"
  else
    let n := st.n - 1
    (setAt st.result n O.zero).bind fun result =>
    (loopM (List.range' n (m - n)) result fun r j =>
      (getAt r j).bind fun lo =>
      (getAt r (j + 1)).bind fun hi =>
      setAt r j (O.sub lo (O.mul hi x))).bind fun result =>
    .ok { result := result, n := n }

/-- `fill_zero_roots(xs, result)`; `result` = the previous content of the output slice -/
def fillZeroRoots (O : Ops α) (xs : List α) (result : List α) : Res (List α) :=
  if result.length = 0 then .panic "attempt to subtract with overflow"
  else
    let n := result.length - 1
    (setAt result n O.one).bind fun result =>
    (loopM xs { result := result, n := n } (fillStep O xs.length)).bind fun st => .ok st.result

/-- `polynom::poly_from_roots`: the output vector has `xs.len() + 1` uninitialised cells (every cell is
    written before it is read — theorem `fillZeroRoots_eq`, so the content chosen here is irrelevant) -/
def polyFromRoots (O : Ops α) (xs : List α) : Res (List α) :=
  fillZeroRoots O xs (List.replicate (xs.length + 1) O.zero)

-- ================================================================================ utils

/-- `fill_power_series` (after fix 0ad475d: nothing to do for an empty slice):
    `result[0] = start; for i in 1..len { result[i] = result[i-1] * base }` -/
def fillPowerSeries (O : Ops α) (base : α) : Nat → α → List α
  | 0, _ => []
  | n + 1, start => start :: fillPowerSeries O base n (O.mul start base)

/-- `get_power_series` without the `concurrent` feature: one batch at offset 0 -/
def getPowerSeries (O : Ops α) (b : α) (n : Nat) : List α :=
  fillPowerSeries O b n (O.pow b 0)

/-- `get_power_series_with_offset` without the `concurrent` feature -/
def getPowerSeriesWithOffset (O : Ops α) (b s : α) (n : Nat) : List α :=
  fillPowerSeries O b n (O.mul s (O.pow b 0))

/-- `add_in_place` -/
def addInPlace (O : Ops α) (a b : List α) : Res (List α) :=
  if a.length ≠ b.length then .panic "number of values must be the same for both operands"
  else .ok (List.zipWith O.add a b)

/-- `mul_acc`: `a[i] += c.mul_base(b[i])` -/
def mulAcc (O : Ops α) (mulBase : α → β → α) (a : List α) (b : List β) (c : α) : Res (List α) :=
  if a.length ≠ b.length then .panic "number of values must be the same for both slices"
  else .ok (List.zipWith (fun x y => O.add x (mulBase c y)) a b)

/-- first loop of `serial_batch_inversion`: `*result = last; if value != ZERO { last *= value }`;
    returns the prefix products and the final `last` -/
def binvForward (O : Ops α) : List α → α → List α × α
  | [], last => ([], last)
  | v :: vs, last =>
    let r := binvForward O vs (if O.isZero v then last else O.mul last v)
    (last :: r.1, r.2)

/-- second loop of `serial_batch_inversion`, `for i in (0..n).rev()`, on the pairs
    `(values[i], result[i])`: the recursion reaches the highest index first; returns the new
    `result` and the final `last` -/
def binvBackward (O : Ops α) : List (α × α) → α → List α × α
  | [], last => ([], last)
  | (v, pre) :: rest, last =>
    let r := binvBackward O rest last
    if O.isZero v then (O.zero :: r.1, r.2) else (O.mul pre r.2 :: r.1, O.mul r.2 v)

/-- `serial_batch_inversion(values, result)` with `result.len() == values.len()` -/
def serialBatchInversion (O : Ops α) (values : List α) : Res (List α) :=
  let f := binvForward O values O.one
  match O.inv f.2 with
  | none => .hang
  | some li => .ok (binvBackward O (values.zip f.1) li).1

/-- `batch_inversion` without the `concurrent` feature: one batch -/
def batchInversion (O : Ops α) (values : List α) : Res (List α) := serialBatchInversion O values

-- ---- the `concurrent` variants (`batch_iter_mut!`): chunks of `batchSize` processed independently

/-- `usize::next_power_of_two` -/
def nextPow2 (n : Nat) : Nat := if n ≤ 1 then 1 else 2 ^ (Nat.log2 (n - 1) + 1)

/-- chunk lengths of `par_chunks_mut(bs)` on a slice of length `n`, with their offsets -/
def chunkSpans (bs : Nat) : Nat → Nat → Nat → List (Nat × Nat)
  | 0, _, _ => []
  | fuel + 1, off, n =>
    if n = 0 ∨ bs = 0 then []
    else if n ≤ bs then [(off, n)]
    else (off, bs) :: chunkSpans bs fuel (off + bs) (n - bs)

/-- `batch_iter_mut!(&mut result, 1024, closure)` with `threads` rayon threads: the closure is applied
    to (offset, length) of every batch; batches are disjoint, so the order is irrelevant -/
def batchSpans (threads n : Nat) : List (Nat × Nat) :=
  let bs := n / nextPow2 threads
  if bs < 1024 then [(0, n)] else chunkSpans bs n 0 n

/-- `get_power_series` with the `concurrent` feature -/
def getPowerSeriesConc (O : Ops α) (threads : Nat) (b : α) (n : Nat) : List α :=
  ((batchSpans threads n).map fun s => fillPowerSeries O b s.2 (O.pow b s.1)).flatten

/-- `get_power_series_with_offset` with the `concurrent` feature -/
def getPowerSeriesWithOffsetConc (O : Ops α) (threads : Nat) (b s : α) (n : Nat) : List α :=
  ((batchSpans threads n).map fun sp => fillPowerSeries O b sp.2 (O.mul s (O.pow b sp.1))).flatten

/-- `batch_inversion` with the `concurrent` feature -/
def batchInversionConc (O : Ops α) (threads : Nat) (values : List α) : Res (List α) :=
  (mapM' (fun s : Nat × Nat => serialBatchInversion O ((values.drop s.1).take s.2))
    (batchSpans threads values.length)).bind fun parts => .ok parts.flatten

-- ================================================================================ interpolation

/-- `result[j] += numerator[j] * y_slice` for every `j` (`numerators[i][j]` is a checked read) -/
def accumulate (O : Ops α) (num : List α) (ysl : α) (result : List α) : Res (List α) :=
  mapM' (fun rj : α × Nat => (getAt num rj.2).bind fun c => .ok (O.add rj.1 (O.mul c ysl))) result.zipIdx

/-- `polynom::interpolate` (after fix 8555b10: the numerators are computed with
    `syn_div_roots_in_place(&mut numerator, &[x])`); `debug_assert!` active (debug build) -/
def interpolate (O : Ops α) (xs ys : List α) (removeLeading : Bool) : Res (List α) :=
  if xs.length ≠ ys.length then .panic "number of X and Y coordinates must be the same"
  else
    (polyFromRoots O xs).bind fun roots =>
    (mapM' (fun x => synDivRoots O roots [x]) xs).bind fun numerators =>
    let denominators := (numerators.zip xs).map fun ex => eval O ex.1 ex.2
    (batchInversion O denominators).bind fun dinv =>
    (loopM (List.range xs.length) (List.replicate xs.length O.zero) fun result i =>
      (getAt ys i).bind fun y =>
      (getAt dinv i).bind fun d =>
      (getAt numerators i).bind fun num =>
      accumulate O num (O.mul y d) result).bind fun result =>
    .ok (if removeLeading then removeLeadingZeros O result else result)

/-- one iteration `equation[k] = roots[k+1] + equation[k+1] * x` of the inlined synthetic division of
    `interpolate_batch`; the state is `equation[k+1..]` (its head is `equation[k+1]`) -/
def batchEqStep (O : Ops α) (roots : List α) (x : α) (eq : List α) (k : Nat) : Res (List α) :=
  (getAt roots (k + 1)).bind fun r =>
  match eq with
  | e :: _ => .ok (O.add r (O.mul e x) :: eq)
  | [] => .panic "index out of bounds"

/-- the inlined synthetic division of `interpolate_batch`:
    `equation[N-1] = roots[N]; for k in (0..N-1).rev() { equation[k] = roots[k+1] + equation[k+1] * x }` -/
def batchEquation (O : Ops α) (N : Nat) (roots : List α) (x : α) : Res (List α) :=
  if N = 0 then .panic "attempt to subtract with overflow"
  else
    (getAt roots N).bind fun top =>
    loopM (List.range (N - 1)).reverse [top] (batchEqStep O roots x)

/-- state of the first loop of `interpolate_batch`: `roots` (reused between batches), the
    equations and the values to invert, both in order of `i * N + j` -/
structure BatchSt (α : Type) where
  roots : List α
  equations : List (List α)
  inverses : List α

/-- body of the first loop for one batch of X coordinates -/
def batchStep (O : Ops α) (N : Nat) (st : BatchSt α) (xs : List α) : Res (BatchSt α) :=
  (fillZeroRoots O xs st.roots).bind fun roots =>
  (mapM' (fun x => batchEquation O N roots x) xs).bind fun eqs =>
  .ok { roots := roots, equations := st.equations ++ eqs,
        inverses := st.inverses ++ (eqs.zip xs).map fun ex => eval O ex.1 ex.2 }

/-- `result[i][·] += equations[i][j][·] * (ys[i][j] * inverses[i][j])` for `j in 0..N` -/
def batchCombine (O : Ops α) (N : Nat) (equations : List (List α)) (inverses : List α)
    (i : Nat) (ys : List α) : Res (List α) :=
  loopM (List.range N) (List.replicate N O.zero) fun poly j =>
    (getAt ys j).bind fun y =>
    (getAt inverses (i * N + j)).bind fun d =>
    (getAt equations (i * N + j)).bind fun eq =>
    .ok (List.zipWith (fun res c => O.add res (O.mul c (O.mul y d))) poly eq)

/-- `polynom::interpolate_batch::<E, N>` on batches given as lists of length `N` (after fix c99bda7:
    `N == 0` returns one empty polynomial per batch); `debug_assert!` active -/
def interpolateBatch (O : Ops α) (N : Nat) (xs ys : List (List α)) : Res (List (List α)) :=
  if xs.length ≠ ys.length then
    .panic "number of X coordinate batches and Y coordinate batches must be the same"
  else if N = 0 then .ok (List.replicate xs.length [])
  else
    (loopM xs { roots := List.replicate (N + 1) O.zero, equations := [], inverses := [] }
      (batchStep O N)).bind fun st =>
    (batchInversion O st.inverses).bind fun inverses =>
    mapM' (fun iy : List α × Nat => batchCombine O N st.equations inverses iy.2 iy.1) ys.zipIdx

-- ================================================================================ generic exp

/-- `FieldElement::exp_vartime` (the default `exp` of extension fields) for powers below `2^fuel` -/
def expLoop (O : Ops α) : Nat → α → α → Nat → α
  | 0, r, _, _ => r
  | fuel + 1, r, b, p =>
    if p = 0 then r
    else expLoop O fuel (if p % 2 = 1 then O.mul r b else r) (O.mul b b) (p / 2)

def expVartime (O : Ops α) (x : α) (power : Nat) : α :=
  if power = 0 then O.one
  else if O.isZero x then O.zero
  else expLoop O 64 O.one x power

end Model.Poly
