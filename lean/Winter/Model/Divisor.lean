-- Hand-written executable model of the constraint divisors, assertions and boundary constraints
-- (air/src/air/divisor.rs, assertions/mod.rs, boundary/mod.rs, boundary/constraint.rs, and the
-- exemption bounds of context.rs).  The model is generic in the field: every field operation the
-- code performs goes through an `Ops α` record, which the driver instantiates with the raw-word
-- operations of the three base fields (Winter/Model/Field.lean) and the proofs with a Mathlib field.
-- Integers are `Nat` (usize without wrap; the sizes involved are trace lengths, far below 2^64);
-- every panic / error of the Rust code is an explicit outcome.
import Winter.Model.Field

namespace Model.Divisor

/-- outcome of a function that can panic (assert!, unwrap, debug_assert!, usize underflow) -/
inductive Res (α : Type) where
  | ok (a : α)
  | panic (site : String)
  deriving Repr

/-- the field operations used by the modelled code; `div` is `none` when the implementation's
    inversion does not return (see C07), `root k` is `get_root_of_unity(k)` (`none` = its asserts) -/
structure Ops (α : Type) where
  zero : α
  one : α
  add : α → α → α
  sub : α → α → α
  mul : α → α → α
  pow : α → Nat → α
  div : α → α → Option α
  ofNat : Nat → α
  root : Nat → Option α

/-- `usize::is_power_of_two` -/
def isPow2 (n : Nat) : Bool := n != 0 && 2 ^ Nat.log2 n == n

-- ================================================================================ divisor
/-- `ConstraintDivisor`: numerator terms `(degree, constant)` standing for `x^degree - constant`,
    and exemption points `e` standing for `(x - e)` in the denominator -/
structure Divisor (α : Type) where
  numerator : List (Nat × α)
  exemptions : List α

variable {α : Type}

/-- `get_trace_domain_value_at(trace_length, step)` = `g^step`, `g = get_root_of_unity(ilog2 n)`;
    the `debug_assert!(step < trace_length)` is active in the harness build -/
def traceDomainValueAt (O : Ops α) (n step : Nat) : Res α :=
  if step ≥ n then .panic "step must be in the trace domain"
  else match O.root (Nat.log2 n) with
    | none => .panic "get_root_of_unity"
    | some g => .ok (O.pow g step)

/-- `ConstraintDivisor::from_transition(n, e)`: numerator `[(n, 1)]`, exemptions `g^(n-e) … g^(n-1)` -/
def fromTransition (O : Ops α) (n e : Nat) : Res (Divisor α) :=
  if e > n then .panic "attempt to subtract with overflow"
  else if e = 0 then .ok ⟨[(n, O.one)], []⟩
  else match O.root (Nat.log2 n) with
    | none => .panic "get_root_of_unity"
    | some g => .ok ⟨[(n, O.one)], (List.range' (n - e) e).map (fun step => O.pow g step)⟩

/-- `ConstraintDivisor::degree` -/
def Divisor.degree (d : Divisor α) : Res Nat :=
  let num := d.numerator.foldl (fun acc t => acc + t.1) 0
  if num < d.exemptions.length then .panic "attempt to subtract with overflow"
  else .ok (num - d.exemptions.length)

/-- the numerator loop of `evaluate_at`: `∏ (x^degree - constant)` (degree passed as u64) -/
def Divisor.evalNumerator (O : Ops α) (d : Divisor α) (x : α) : α :=
  d.numerator.foldl (fun acc t => O.mul acc (O.sub (O.pow x t.1) t.2)) O.one

/-- `evaluate_exemptions_at`: `∏ (x - e)` -/
def Divisor.evalExemptions (O : Ops α) (d : Divisor α) (x : α) : α :=
  d.exemptions.foldl (fun r e => O.mul r (O.sub x e)) O.one

/-- `evaluate_at`: numerator / denominator (field division: `0⁻¹ = 0` in all three fields) -/
def Divisor.evalAt (O : Ops α) (d : Divisor α) (x : α) : Option α :=
  O.div (d.evalNumerator O x) (d.evalExemptions O x)

-- ================================================================================ assertions
/-- `Assertion`: `stride = 0` (NO_STRIDE) marks a single-step assertion -/
structure Assertion (α : Type) where
  column : Nat
  first : Nat
  stride : Nat
  values : List α

/-- `Assertion::single` (never fails) -/
def single (column step : Nat) (value : α) : Assertion α := ⟨column, step, 0, [value]⟩

/-- `validate_stride`: the three asserts, in order -/
def validateStride (stride first : Nat) : Option String :=
  if !isPow2 stride then some "stride must be a power of two"
  else if stride < 2 then some "stride must be at least 2"
  else if first ≥ stride then some "first step must be smaller than stride"
  else none

/-- `Assertion::periodic` -/
def periodic (column first stride : Nat) (value : α) : Res (Assertion α) :=
  match validateStride stride first with
  | some e => .panic e
  | none => .ok ⟨column, first, stride, [value]⟩

/-- `Assertion::sequence` (a one-value sequence is stored with NO_STRIDE) -/
def sequence (column first stride : Nat) (values : List α) : Res (Assertion α) :=
  match validateStride stride first with
  | some e => .panic e
  | none =>
    if values.isEmpty then .panic "number of asserted values must be greater than zero"
    else if !isPow2 values.length then .panic "number of asserted values must be a power of two"
    else .ok ⟨column, first, if values.length = 1 then 0 else stride, values⟩

def Assertion.isSingle (a : Assertion α) : Bool := a.stride == 0
def Assertion.isPeriodic (a : Assertion α) : Bool := a.stride != 0 && a.values.length == 1
def Assertion.isSequence (a : Assertion α) : Bool := a.values.length > 1

/-- `Assertion::overlaps_with`, branch for branch -/
def Assertion.overlapsWith (a b : Assertion α) : Bool :=
  if a.column != b.column then false
  else if a.first == b.first then true
  else if a.stride == b.stride then false
  else if a.first < b.first then
    if a.isSingle then false
    else if b.isSingle || a.stride < b.stride then (b.first - a.first) % a.stride == 0
    else false
  else
    if b.isSingle then false
    else if a.isSingle || b.stride < a.stride then (a.first - b.first) % b.stride == 0
    else false

/-- `validate_trace_width` -/
def Assertion.validateTraceWidth (a : Assertion α) (width : Nat) : Bool := a.column < width

inductive LenErr where
  | notPow2 | tooShort | notExact
  deriving Repr, DecidableEq

/-- `validate_trace_length` -/
def Assertion.validateTraceLength (a : Assertion α) (n : Nat) : Except LenErr Unit :=
  if !isPow2 n then .error .notPow2
  else if a.isSingle then
    if a.first ≥ n then .error .tooShort else .ok ()
  else if a.isPeriodic then
    if a.stride > n then .error .tooShort else .ok ()
  else
    if a.values.length * a.stride ≠ n then .error .notExact else .ok ()

/-- `get_num_steps` -/
def Assertion.getNumSteps (a : Assertion α) (n : Nat) : Res Nat :=
  match a.validateTraceLength n with
  | .error _ => .panic "invalid trace length"
  | .ok () =>
    if a.isSingle then .ok 1
    else if a.isPeriodic then .ok (n / a.stride)
    else .ok a.values.length

/-- the steps of `apply` after validation: `first + stride * i` -/
def Assertion.stepList (a : Assertion α) (n : Nat) : List Nat :=
  if a.isSingle then [a.first]
  else if a.isPeriodic then (List.range (n / a.stride)).map (fun i => a.first + a.stride * i)
  else (List.range a.values.length).map (fun i => a.first + a.stride * i)

/-- `apply`: the (step, value) pairs handed to the closure, in order -/
def Assertion.apply (a : Assertion α) (n : Nat) : Res (List (Nat × α)) :=
  match a.validateTraceLength n with
  | .error _ => .panic "invalid trace length"
  | .ok () =>
    if a.isSingle then
      match a.values with
      | v :: _ => .ok [(a.first, v)]
      | [] => .panic "index out of bounds"
    else if a.isPeriodic then
      match a.values with
      | v :: _ => .ok ((List.range (n / a.stride)).map (fun i => (a.first + a.stride * i, v)))
      | [] => .panic "index out of bounds"
    else .ok (a.values.zipIdx.map (fun (v, i) => (a.first + a.stride * i, v)))

/-- `ConstraintDivisor::from_assertion`: `x^k - g^(k * first)`, `k = get_num_steps` -/
def fromAssertion (O : Ops α) (a : Assertion α) (n : Nat) : Res (Divisor α) :=
  match a.getNumSteps n with
  | .panic s => .panic s
  | .ok k =>
    if a.first = 0 then .ok ⟨[(k, O.one)], []⟩
    else match traceDomainValueAt O n (k * a.first) with
      | .panic s => .panic s
      | .ok off => .ok ⟨[(k, off)], []⟩

-- ================================================================================ boundary constraints
/-- Horner evaluation, `polynom::eval` -/
def polyEval (O : Ops α) (p : List α) (x : α) : α :=
  p.foldr (fun c acc => O.add (O.mul acc x) c) O.zero

/-- specification-level model of `fft::interpolate_poly` over the subgroup generated by
    `w = get_root_of_unity(log2 m)`: the inverse DFT `c_k = (Σ_i v_i w^(-ik)) · m⁻¹`, with the one
    inversion `inv_length = inv(m)` the code performs (C09 ties the FFT to this);
    `none` when the root is missing or the inversion does not return -/
def interpolate (O : Ops α) (vs : List α) : Option (List α) :=
  let m := vs.length
  match O.root (Nat.log2 m), O.div O.one (O.ofNat m) with
  | some w, some minv =>
    some ((List.range m).map (fun k =>
      O.mul (vs.zipIdx.foldl (fun acc (v, i) => O.add acc (O.mul v (O.pow w ((m - (i * k) % m) % m)))) O.zero)
        minv))
  | _, _ => none

/-- `BoundaryConstraint` without the composition coefficient -/
structure BConstraint (α : Type) where
  column : Nat
  poly : List α
  offsetSteps : Nat
  offsetElem : α

/-- `BoundaryConstraint::new(assertion, inv_g, …)` -/
def BConstraint.new (O : Ops α) (a : Assertion α) (invG : α) : Option (BConstraint α) :=
  if a.values.length > 1 then
    match interpolate O a.values with
    | none => none
    | some poly =>
      if a.first ≠ 0 then some ⟨a.column, poly, a.first, O.pow invG a.first⟩
      else some ⟨a.column, poly, 0, O.one⟩
  else some ⟨a.column, a.values, 0, O.one⟩

/-- the value polynomial `b(x)` as `evaluate_at` computes it -/
def BConstraint.value (O : Ops α) (c : BConstraint α) (x : α) : α :=
  match c.poly with
  | [v] => v                                            -- `poly.len() == 1`
  | p => polyEval O p (O.mul x c.offsetElem)

/-- `BoundaryConstraint::evaluate_at(x, trace_value)` = `trace_value - b(x)` -/
def BConstraint.evalAt (O : Ops α) (c : BConstraint α) (x traceValue : α) : α :=
  O.sub traceValue (c.value O x)

-- ================================================================================ prepare + grouping
/-- `Ord for Assertion`: by stride, then first step, then column -/
def Assertion.le (a b : Assertion α) : Bool :=
  if a.stride == b.stride then
    if a.first == b.first then a.column ≤ b.column else a.first ≤ b.first
  else a.stride ≤ b.stride

def insertSorted (a : Assertion α) : List (Assertion α) → List (Assertion α)
  | [] => [a]
  | b :: rest => if a.le b then a :: b :: rest else b :: insertSorted a rest

/-- `prepare_assertions`: validate, reject overlaps, sort (BTreeSet order) -/
def prepareAssertions (as : List (Assertion α)) (width n : Nat) : Res (List (Assertion α)) :=
  as.foldl (fun acc a =>
    match acc with
    | .panic s => .panic s
    | .ok sorted =>
      if !a.validateTraceWidth width then .panic "assertion is invalid: width"
      else match a.validateTraceLength n with
        | .error _ => .panic "assertion is invalid: length"
        | .ok () =>
          if sorted.any (fun b => b.column == a.column && b.overlapsWith a) then .panic "overlaps"
          else .ok (insertSorted a sorted)) (.ok [])

/-- one boundary-constraint group: its divisor and the columns of its constraints, in order -/
structure Group (α : Type) where
  stride : Nat
  first : Nat
  divisor : Divisor α
  columns : List Nat

/-- `group_constraints` on the sorted assertions: groups keyed by `(stride, first_step)`, in key
    order (the input is sorted by the same key, so a new key always goes to the end) -/
def groupConstraints (O : Ops α) (sorted : List (Assertion α)) (n : Nat) : Res (List (Group α)) :=
  sorted.foldl (fun acc a =>
    match acc with
    | .panic s => .panic s
    | .ok groups =>
      if groups.any (fun g => g.stride == a.stride && g.first == a.first) then
        .ok (groups.map (fun g =>
          if g.stride == a.stride && g.first == a.first then { g with columns := g.columns ++ [a.column] } else g))
      else match fromAssertion O a n with
        | .panic s => .panic s
        | .ok d => .ok (groups ++ [⟨a.stride, a.first, d, [a.column]⟩])) (.ok [])

-- ================================================================================ exemption bounds
/-- `TransitionConstraintDegree` -/
structure Degree where
  base : Nat
  cycles : List Nat

/-- `usize::next_power_of_two` -/
def nextPow2 (n : Nat) : Nat := if n ≤ 1 then 1 else 2 ^ (Nat.log2 (n - 1) + 1)

/-- `get_evaluation_degree` -/
def Degree.evalDegree (d : Degree) (n : Nat) : Nat :=
  d.cycles.foldl (fun r c => r + (n / c) * (c - 1)) (d.base * (n - 1))

/-- `min_blowup_factor` -/
def Degree.minBlowup (d : Degree) : Nat := max (nextPow2 (d.base + d.cycles.length - 1)) 2

/-- `ce_blowup_factor` computed by `AirContext::new_multi_segment` -/
def ceBlowup (ds : List Degree) : Nat :=
  ds.foldl (fun r d => if d.minBlowup > r then d.minBlowup else r) 0

/-- `AirContext::set_num_transition_exemptions(e)` for trace length `n`: the new count or a panic -/
def setNumTransitionExemptions (n : Nat) (ds : List Degree) (e : Nat) : Res Nat :=
  if e = 0 then .panic "number of transition exemptions must be greater than zero"
  else if e > n / 2 + 1 then .panic "number of transition exemptions cannot exceed n/2+1"
  else
    let ce := n * ceBlowup ds
    if ds.any (fun d => ce - 1 + n < d.evalDegree n) then .panic "attempt to subtract with overflow"
    else if ds.any (fun d => e > ce - 1 + n - d.evalDegree n) then .panic "number of transition exemptions cannot exceed max"
    else .ok e

/-- `AirContext::num_constraint_composition_columns` for trace length `n` and `e` exemptions
    (usize subtraction: panics in the checked build when the divisor degree exceeds the highest
    evaluation degree) -/
def numCompositionColumns (n : Nat) (ds : List Degree) (e : Nat) : Res Nat :=
  let highest := ds.foldl (fun h d => if d.evalDegree n > h then d.evalDegree n else h) 0
  if e > n then .panic "attempt to subtract with overflow"
  else if highest < n - e then .panic "attempt to subtract with overflow"
  else .ok (max ((highest - (n - e)) / n + 1) 1)

-- ================================================================================ the three base fields
/-- the code's field operations on raw words (`BaseElement.0`) of one of the three base fields:
    what the driver executes and what WinterProofs/C16Inst.lean instantiates the theorems with -/
def rawOps (F : Model.FieldImpl) : Ops Nat where
  zero := F.new 0
  one := F.new 1
  add := F.add
  sub := F.sub
  mul := F.mul
  pow := F.exp
  div := fun a b => match F.div a b with
    | .done r => some r
    | .out => none
  ofNat := F.new
  root := F.rootOfUnity

end Model.Divisor
