-- Hand-written executable model of what the STARK verifier CHECKS (properties C02 and C03):
--   verifier/src/lib.rs        verify, perform_verification (the sequence of checks, the coin transcript)
--   verifier/src/channel.rs    VerifierChannel::new (how the proof's byte blocks are parsed), the readers
--   air/src/proof/*.rs         Commitments::parse, Queries::parse, OodFrame::parse
--   fri/src/proof.rs           FriProof::parse_layers / parse_remainder, FriProofLayer::parse
--   air/src/proof/context.rs, air/src/air/trace_info.rs, air/src/options.rs   to_elements (the coin seed)
--   harness/src/genair.rs      the data-driven computation descriptions and `check_main` (reference
--                              validity predicate of C02)
--
-- Four parts:
--   1. computation descriptions, the executable reference validity check `checkMain` and the
--      predicate `Valid` it decides (driver op `valid`, compared with `genair::is_valid`);
--   2. the coin seed of a proof context, `contextElements` (driver op `seed`, compared with
--      `Context::to_elements`);
--   3. the byte-level parse of the proof's sub-structures as `VerifierChannel::new` performs it
--      (driver op `chan`, compared with the real parsers);
--   4. the verifier's decision function over abstract oracles (coin, hashes, constraint evaluation,
--      DEEP composition, FRI folding arithmetic): which checks are made, in which order, on which
--      values, and what the coin had absorbed when each challenge was drawn.  Merkle verification is
--      the model of C10 (`Model.Merkle.verifyBatch`).
-- No Mathlib; everything in parts 1–3 is executable.
import Winter.Model.Serde
import Winter.Model.Merkle
import Winter.Model.Fri

namespace Model.VerifierChecks
open Model

/-! ## 1. Computation descriptions and the reference validity predicate -/

/-- constraint expressions of the main segment (prefix text form `k c n p + - * ^ ~`) -/
inductive Expr where
  | const (v : Nat)
  | cur (i : Nat)
  | nxt (i : Nat)
  | per (i : Nat)
  | add (x y : Expr)
  | sub (x y : Expr)
  | mul (x y : Expr)
  | pow (k : Nat) (x : Expr)
  | neg (x : Expr)
  deriving Repr

/-- value of an expression over the integers mod `M` on a frame of reduced cells;
    `none` = a cell index out of range (the Rust evaluator panics) -/
def Expr.eval (M : Nat) (cur nxt per : List Nat) : Expr → Option Nat
  | .const v => some (v % M)
  | .cur i => cur[i]?
  | .nxt i => nxt[i]?
  | .per i => per[i]?
  | .add x y =>
    match x.eval M cur nxt per, y.eval M cur nxt per with
    | some a, some b => some ((a + b) % M)
    | _, _ => none
  | .sub x y =>
    match x.eval M cur nxt per, y.eval M cur nxt per with
    | some a, some b => some ((a + (M - b % M)) % M)
    | _, _ => none
  | .mul x y =>
    match x.eval M cur nxt per, y.eval M cur nxt per with
    | some a, some b => some ((a * b) % M)
    | _, _ => none
  | .pow k x =>
    match x.eval M cur nxt per with
    | some a => some (a ^ k % M)
    | none => none
  | .neg x =>
    match x.eval M cur nxt per with
    | some a => some ((M - a % M) % M)
    | none => none

inductive AssertKind where
  | single | periodic | sequence
  deriving Repr, DecidableEq

structure AssertDesc where
  kind : AssertKind
  column : Nat
  first : Nat
  stride : Nat
  deriving Repr

/-- the steps an assertion names in a trace of length `n` -/
def AssertDesc.steps (a : AssertDesc) (n : Nat) : List Nat :=
  match a.kind with
  | .single => [a.first]
  | _ => (List.range (n / max a.stride 1)).map fun k => a.first + k * a.stride

/-- number of public values an assertion consumes -/
def AssertDesc.numValues (a : AssertDesc) (n : Nat) : Nat :=
  match a.kind with
  | .sequence => n / max a.stride 1
  | _ => 1

/-- the part of a description `check_main` reads -/
structure Air where
  width : Nat
  n : Nat
  exemptions : Nat
  periodic : List (List Nat)
  constraints : List Expr
  assertions : List AssertDesc
  deriving Repr

def Air.numPubInputs (A : Air) : Nat := (A.assertions.map fun a => a.numValues A.n).sum

/-- offset of the public values of assertion `k` -/
def Air.pubOffset (A : Air) (k : Nat) : Nat := ((A.assertions.take k).map fun a => a.numValues A.n).sum

inductive ViolKind where
  | shape | transition | assertion
  deriving Repr, DecidableEq

structure Violation where
  kind : ViolKind
  index : Nat
  step : Nat
  deriving Repr, DecidableEq

def usizeMax : Nat := 18446744073709551615

/-- row `step` of a column-major trace (`none`: a column is too short) -/
def rowAt (cols : List (List Nat)) (step : Nat) : Option (List Nat) := cols.mapM fun c => c[step]?

/-- the periodic values at `step` -/
def periodicRow (A : Air) (M step : Nat) : Option (List Nat) :=
  A.periodic.mapM fun p => if p.length = 0 then none else (p[step % p.length]?).map (· % M)

/-- assertion `k`, value index `i`: the named cell equals the public value -/
def assertionHolds (A : Air) (cols : List (List Nat)) (pubs : List Nat) (k i : Nat) : Bool :=
  match A.assertions[k]? with
  | none => false
  | some a =>
    match (a.steps A.n)[i]?, cols[a.column]? with
    | some s, some col =>
      let expected := if a.kind = .sequence then pubs[A.pubOffset k + i]? else pubs[A.pubOffset k]?
      (match col[s]?, expected with
       | some v, some e => v == e
       | _, _ => false)
    | _, _ => false

/-- transition constraint `k` evaluates to zero on the frame (`step`, `step + 1`) -/
def transitionHolds (A : Air) (M : Nat) (cols : List (List Nat)) (step k : Nat) : Bool :=
  match A.constraints[k]?, rowAt cols step, rowAt cols (step + 1), periodicRow A M step with
  | some c, some cur, some nxt, some per => c.eval M cur nxt per == some 0
  | _, _, _, _ => false

/-- all (assertion, value index) pairs in the order `check_main` visits them -/
def assertionIndex (A : Air) : List (Nat × Nat) :=
  (List.range A.assertions.length).flatMap fun k =>
    match A.assertions[k]? with
    | some a => (List.range (a.steps A.n).length).map fun i => (k, i)
    | none => []

/-- all (step, constraint) pairs in the order `check_main` visits them: every step
    `0 .. n - exemptions - 1`, every constraint -/
def transitionIndex (A : Air) : List (Nat × Nat) :=
  (List.range (A.n - A.exemptions)).flatMap fun s => (List.range A.constraints.length).map fun k => (s, k)

def shapeViolation (A : Air) (cols : List (List Nat)) (pubs : List Nat) : Option Violation :=
  if cols.length ≠ A.width then some ⟨.shape, cols.length, 0⟩
  else
    match (cols.zipIdx).find? (fun cj => cj.1.length ≠ A.n) with
    | some cj => some ⟨.shape, cj.2, cj.1.length⟩
    | none => if pubs.length ≠ A.numPubInputs then some ⟨.shape, usizeMax, pubs.length⟩ else none

/-- `genair::check_main` on cells and public values that are already reduced mod `M`:
    the first violation in the order shape, assertions, transitions; `none` = valid -/
def checkMain (A : Air) (M : Nat) (cols : List (List Nat)) (pubs : List Nat) : Option Violation :=
  match shapeViolation A cols pubs with
  | some v => some v
  | none =>
    match (assertionIndex A).find? (fun ki => !assertionHolds A cols pubs ki.1 ki.2) with
    | some ki =>
      some ⟨.assertion, ki.1, (((A.assertions[ki.1]?).map fun a => ((a.steps A.n)[ki.2]?).getD 0).getD 0)⟩
    | none =>
      match (transitionIndex A).find? (fun sk => !transitionHolds A M cols sk.1 sk.2) with
      | some sk => some ⟨.transition, sk.2, sk.1⟩
      | none => none

/-- **Reference validity predicate** (C02): the trace has the declared shape, every asserted cell
    carries its public value, and every transition constraint vanishes on every frame
    `(step, step + 1)` with `step < n - exemptions` — on exactly these steps. -/
def Valid (A : Air) (M : Nat) (cols : List (List Nat)) (pubs : List Nat) : Prop :=
  cols.length = A.width ∧ (∀ c ∈ cols, c.length = A.n) ∧ pubs.length = A.numPubInputs ∧
  (∀ k a, A.assertions[k]? = some a → ∀ i, i < (a.steps A.n).length → assertionHolds A cols pubs k i = true) ∧
  (∀ s, s < A.n - A.exemptions → ∀ k, k < A.constraints.length → transitionHolds A M cols s k = true)

-- ---- text form (one token, `;`-separated fields; see harness/src/genair.rs)

def isDigit (c : Char) : Bool := '0' ≤ c && c ≤ '9'

/-- leading decimal digits: value and rest; `none` when there is no digit -/
def parseNum (cs : List Char) : Option (Nat × List Char) :=
  let ds := cs.takeWhile isDigit
  if ds.isEmpty then none
  else some (ds.foldl (fun acc c => acc * 10 + (c.toNat - 48)) 0, cs.dropWhile isDigit)

def u128Lim : Nat := 340282366920938463463374607431768211456

/-- prefix expression parser (`parse_expr`); fuel = remaining nesting depth -/
def parseExpr : Nat → List Char → Option (Expr × List Char)
  | 0, _ => none
  | _ + 1, [] => none
  | fuel + 1, c :: rest =>
    let idx (mk : Nat → Expr) : Option (Expr × List Char) :=
      match parseNum rest with
      | some (v, r) => if v > 100000 then none else some (mk v, r)
      | none => none
    let bin (mk : Expr → Expr → Expr) : Option (Expr × List Char) :=
      match parseExpr fuel rest with
      | some (x, r1) =>
        match parseExpr fuel r1 with
        | some (y, r2) => some (mk x y, r2)
        | none => none
      | none => none
    if c = 'k' then
      match parseNum rest with
      | some (v, r) => if v < u128Lim then some (.const v, r) else none
      | none => none
    else if c = 'c' then idx .cur
    else if c = 'n' then idx .nxt
    else if c = 'p' then idx .per
    else if c = '+' then bin .add
    else if c = '-' then bin .sub
    else if c = '*' then bin .mul
    else if c = '^' then
      match parseNum rest with
      | some (k, r) =>
        if k > 64 then none
        else
          match parseExpr fuel r with
          | some (x, r2) => some (.pow k x, r2)
          | none => none
      | none => none
    else if c = '~' then
      match parseExpr fuel rest with
      | some (x, r) => some (.neg x, r)
      | none => none
    else none

def parseExprAll (s : String) : Option Expr :=
  match parseExpr 201 s.toList with
  | some (e, []) => some e
  | _ => none

def parseNat (s : String) : Option Nat :=
  match parseNum s.toList with
  | some (v, []) => some v
  | _ => none

def parseAssertion (s : String) : Option AssertDesc :=
  match s.toList with
  | [] => none
  | c :: rest =>
    match ((String.ofList rest).splitOn ".").mapM parseNat with
    | some [a, b] => if c = 's' then some ⟨.single, a, b, 0⟩ else none
    | some [a, b, d] =>
      if c = 'p' then some ⟨.periodic, a, b, d⟩ else if c = 'q' then some ⟨.sequence, a, b, d⟩ else none
    | _ => none

/-- `<degree>:<expr>` (the declared degree is not read by `check_main`) -/
def parseConstraint (s : String) : Option Expr :=
  match s.splitOn ":" with
  | [_, e] => parseExprAll e
  | _ => none

def nonEmpty (l : List String) : List String := l.filter (· ≠ "")

/-- the fields of a description line that `check_main` reads (`w l e p t a`); the generation rules
    and the auxiliary segment (`j g x h u b`) are skipped -/
def parseAir (line : String) : Option Air :=
  let step (acc : Option Air) (field : String) : Option Air :=
    match acc with
    | none => none
    | some A =>
      match field.splitOn "=" with
      | k :: v :: more =>
        let v := "=".intercalate (v :: more)
        if k = "w" then (parseNat v).map fun x => { A with width := x }
        else if k = "l" then (parseNat v).map fun x => { A with n := x }
        else if k = "e" then (parseNat v).map fun x => { A with exemptions := x }
        else if k = "p" then
          ((nonEmpty (v.splitOn "|")).mapM fun (col : String) => (col.splitOn ".").mapM parseNat).map fun x => { A with periodic := x }
        else if k = "t" then ((nonEmpty (v.splitOn ",")).mapM parseConstraint).map fun x => { A with constraints := x }
        else if k = "a" then ((nonEmpty (v.splitOn ",")).mapM parseAssertion).map fun x => { A with assertions := x }
        else if k = "j" ∨ k = "g" ∨ k = "x" ∨ k = "h" ∨ k = "u" ∨ k = "b" then some A
        else none
      | _ => none
  (nonEmpty (line.splitOn ";")).foldl step (some ⟨0, 0, 1, [], [], []⟩)

/-! ## 2. The coin seed of a proof context (`Context::to_elements`) -/

/-- `chunks(k)` of a byte list (`k > 0`) -/
def chunksAux (k : Nat) : Nat → List Nat → List (List Nat)
  | 0, _ => []
  | _, [] => []
  | fuel + 1, bs => bs.take k :: chunksAux k fuel (bs.drop k)

def chunks (k : Nat) (bs : List Nat) : List (List Nat) := if k = 0 then [] else chunksAux k bs.length bs

/-- `TraceInfo::to_elements` for a field with `elemBytes`-byte elements: canonical integers -/
def traceInfoElements (elemBytes : Nat) (t : Serde.TraceInfo) : List Nat :=
  let numAux := if t.aux > 0 then 1 else 0
  let buf := (t.main * 256 + numAux) % 4294967296
  let buf := if numAux = 1 then (((buf * 256 + t.aux) % 4294967296) * 256 + t.rands) % 4294967296 else buf
  [buf, t.length % 4294967296] ++ (chunks (elemBytes - 1) t.metadata).map ofLeBytes

/-- `ProofOptions::to_elements` -/
def optionsElements (o : Serde.ProofOptions) : List Nat :=
  [((o.fieldExt * 256 + o.folding) % 4294967296 * 256 + o.remDeg) % 4294967296, o.grinding, o.blowup, o.numQueries]

/-- `Context::to_elements`: trace info, the two halves of the modulus bytes, options -/
def contextElements (elemBytes : Nat) (c : Serde.Context) : List Nat :=
  let h := c.modulus.length / 2
  traceInfoElements elemBytes c.traceInfo ++ [ofLeBytes (c.modulus.take h), ofLeBytes (c.modulus.drop h)] ++
    optionsElements c.options

/-- the seed of the public coin: context elements followed by the public-input elements -/
def coinSeed (elemBytes : Nat) (c : Serde.Context) (pubElems : List Nat) : List Nat :=
  contextElements elemBytes c ++ pubElems


/-! ## 3. The byte-level parse of the proof's sub-structures (`VerifierChannel::new`)

`Proof::from_bytes` (model: `Serde.proof.dec`, property C12) only splits the proof into length-prefixed
byte blocks; the blocks are decoded here, with the parameters the AIR supplies. -/

open Serde in
/-- an element of the extension of degree `ext` as its `ext` base coordinates -/
def extElem (F : FieldImpl) (ext : Nat) : Codec (List Nat) := array ext (elem F)

/-- what `VerifierChannel::new` takes from the AIR -/
structure ChanCfg where
  F : FieldImpl
  ext : Nat
  digest : Serde.Codec (List Nat)
  numSegments : Nat
  mainWidth : Nat
  auxWidth : Nat
  constraintWidth : Nat
  /-- log2 of the LDE domain size -/
  ldeLog : Nat
  numFriLayers : Nat
  folding : Nat
  /-- log2 of the trace length when the AIR has a Lagrange kernel column -/
  lagrangeLog : Option Nat

/-- one parsed opening: the opened rows and the nodes of the batch Merkle proof (its leaves are the
    hashes of the rows: `Queries::parse` / `FriProofLayer::parse` recompute them) -/
structure ParsedOpening where
  rows : List (List (List Nat))
  nodes : List (List (List Nat))
  deriving Repr

structure ParsedChannel where
  traceRoots : List (List Nat)
  constraintRoot : List Nat
  friRoots : List (List Nat)
  traceOpenings : List ParsedOpening
  constraintOpening : ParsedOpening
  oodCurrent : List (List Nat)
  oodNext : List (List Nat)
  oodLagrange : Option (List (List Nat))
  oodEvals : List (List Nat)
  friLayers : List ParsedOpening
  remainder : List (List Nat)
  numPartitions : Nat
  powNonce : Nat
  gkr : Option Serde.Bytes
  deriving Repr

/-- outcome of the channel construction -/
inductive ChanRes where
  | ok (c : ParsedChannel)
  | err (stage : String)
  | panic
  deriving Repr

def log2Floor (n : Nat) : Nat := Nat.log2 n

open Serde in
/-- `FriProofLayer::parse(domain_size = 2^depth, folding_factor)` -/
def friLayerParse (e : Codec ε) (elemBytes : Nat) (d : Codec δ) (l : FriLayer) (depth folding : Nat) :
    Res (List (List ε) × List (List δ)) :=
  let nqb := elemBytes * folding
  if nqb = 0 then .panic
  else if l.values.length % nqb ≠ 0 then .err
  else if l.values.length / nqb = 0 then .err
  else
    match runAll (readMany (array folding e).dec (l.values.length / nqb)) l.values with
    | .ok rows =>
      if depth = 0 ∨ l.values.length / nqb > 255 then .err
      else
        match runAll (deserializeNodes d) l.paths with
        | .ok nodes => .ok (rows, nodes)
        | .err => .err
        | .eof => .eof
        | .panic => .panic
    | .err => .err
    | .eof => .eof
    | .panic => .panic

open Serde in
/-- `FriProof::parse_layers(domain_size = 2^ldeLog, folding_factor)`: layer `i` lives over the domain
    folded `i + 1` times; a domain that cannot be folded that often is an error -/
def friLayersParse (e : Codec ε) (elemBytes : Nat) (d : Codec δ) (folding : Nat) :
    List FriLayer → Nat → Res (List (List (List ε) × List (List δ)))
  | [], _ => .ok []
  | l :: ls, dom =>
    if dom / folding = 0 then .err
    else
      match friLayerParse e elemBytes d l (Nat.log2 (dom / folding)) folding with
      | .ok x =>
        match friLayersParse e elemBytes d folding ls (dom / folding) with
        | .ok xs => .ok (x :: xs)
        | .err => .err
        | .eof => .eof
        | .panic => .panic
      | .err => .err
      | .eof => .eof
      | .panic => .panic

open Serde in
/-- `FriProof::parse_remainder`: a power-of-two number of elements and no byte left over -/
def remainderParse (e : Codec ε) (elemBytes : Nat) (bytes : Bytes) : Res (List ε) :=
  if elemBytes = 0 then .panic
  else if !pow2 (bytes.length / elemBytes) then .err
  else runAll (readMany e.dec (bytes.length / elemBytes)) bytes

open Serde in
/-- `VerifierChannel::new` on a proof that `Proof::from_bytes` returned: the checks and parses in the
    order of the code (verifier/src/channel.rs), the stage of the first failure -/
def channelParse (cfg : ChanCfg) (p : Proof) : ChanRes :=
  let E := extElem cfg.F cfg.ext
  let B := extElem cfg.F 1
  let eb := cfg.F.bytes * cfg.ext
  match commitmentsParse cfg.digest p.commitments cfg.numSegments cfg.numFriLayers with
  | .panic => .panic
  | .err => .err "commitments"
  | .eof => .err "commitments"
  | .ok (troots, croot, froots) =>
    if p.numUniqueQueries = 0 then .err "queries"
    else if p.traceQueries.length ≠ cfg.numSegments then .panic
    else
      match p.traceQueries with
      | [] => .panic
      | mq :: restq =>
        match queriesParse B cfg.F.bytes cfg.digest mq cfg.ldeLog p.numUniqueQueries cfg.mainWidth with
        | .panic => .panic
        | .err => .err "trace-queries"
        | .eof => .err "trace-queries"
        | .ok (mrows, mnodes) =>
          let auxRes : Res (List ParsedOpening) :=
            match restq with
            | [] => .ok []
            | aq :: _ =>
              match queriesParse E eb cfg.digest aq cfg.ldeLog p.numUniqueQueries cfg.auxWidth with
              | .ok (arows, anodes) => .ok [⟨arows, anodes⟩]
              | .err => .err
              | .eof => .eof
              | .panic => .panic
          match auxRes with
          | .panic => .panic
          | .err => .err "aux-queries"
          | .eof => .err "aux-queries"
          | .ok auxOps =>
            match queriesParse E eb cfg.digest p.constraintQueries cfg.ldeLog p.numUniqueQueries cfg.constraintWidth with
            | .panic => .panic
            | .err => .err "constraint-queries"
            | .eof => .err "constraint-queries"
            | .ok (crows, cnodes) =>
              if p.friProof.layers.length ≠ cfg.numFriLayers then .err "fri-layer-count"
              else
                match remainderParse E eb p.friProof.remainder with
                | .panic => .panic
                | .err => .err "remainder"
                | .eof => .err "remainder"
                | .ok rem =>
                  match friLayersParse E eb cfg.digest cfg.folding p.friProof.layers (2 ^ cfg.ldeLog) with
                  | .panic => .panic
                  | .err => .err "fri-layers"
                  | .eof => .err "fri-layers"
                  | .ok layers =>
                    -- (bytes after the Lagrange frame are `UnconsumedBytes` since 247eff9)
                    match oodParse E p.oodFrame cfg.mainWidth cfg.auxWidth cfg.constraintWidth with
                    | .panic => .panic
                    | .err => .err "ood"
                    | .eof => .err "ood"
                    | .ok (cur, nxt, lag, evals) =>
                      if lag.map List.length ≠ cfg.lagrangeLog.map (· + 1) then .err "lagrange-rows"
                      else if p.gkrProof.isSome ∧ cfg.lagrangeLog.isNone then .err "gkr"
                      else
                        .ok {
                          traceRoots := troots, constraintRoot := croot, friRoots := froots,
                          traceOpenings := ⟨mrows, mnodes⟩ :: auxOps,
                          constraintOpening := ⟨crows, cnodes⟩,
                          oodCurrent := cur, oodNext := nxt, oodLagrange := lag, oodEvals := evals,
                          friLayers := layers.map fun l => ⟨l.1, l.2⟩,
                          remainder := rem, numPartitions := 2 ^ p.friProof.numPartitions,
                          powNonce := p.powNonce, gkr := p.gkrProof }

/-! ## 4. The verifier's decision function over abstract oracles

`V` = values (elements of the extension field), `D` = digests, `C` = coin states.  The arithmetic
that is the subject of other properties (constraint evaluation C16/C17, DEEP composition, the FRI
folding identity C15, the coin C19) enters as functions of the structure `AirInst`; what is modelled
exactly is WHICH checks are made, in which order, on which values, and what the coin had absorbed
when each challenge was drawn. -/

inductive VErr where
  | inconsistentBaseField | unacceptableOptions | unsupportedExtension | deserialization | gkrFailed
  | randomCoin | inconsistentOod | degreeTruncation (depth : Nat) | proofOfWork
  | traceQuery | constraintQuery | numPositionEvaluationMismatch
  | layerCommitmentMismatch (depth : Nat) | invalidLayerFolding (depth : Nat)
  | remainderCommitmentMismatch | remainderDegreeMismatch | invalidRemainderFolding
  | panic (site : String)
  deriving DecidableEq, Repr

/-- the public coin (`RandomCoin`) -/
structure CoinOps (C D V : Type) where
  new : List Nat → C
  reseed : C → D → C
  draw : C → Option (V × C)
  /-- `draw_integers(num_values, domain_size, nonce)` -/
  drawInts : C → Nat → Nat → Nat → Option (List Nat)
  /-- `check_leading_zeros(nonce)` -/
  leadingZeros : C → Nat → Nat

/-- `k` consecutive draws -/
def drawMany (K : CoinOps C D V) : Nat → C → Option (List V × C)
  | 0, c => some ([], c)
  | k + 1, c =>
    match K.draw c with
    | none => none
    | some (v, c') =>
      match drawMany K k c' with
      | none => none
      | some (vs, c'') => some (v :: vs, c'')

/-- the AIR instance `AIR::new(proof.trace_info(), pub_inputs, proof.options())` as the verifier uses it -/
structure AirInst (C D V : Type) where
  extSupported : Bool
  multiSegment : Bool
  lagrange : Bool
  numAuxRands : Nat
  numCoeffs : Nat
  numDeepCoeffs : Nat
  ldeSize : Nat
  numQueries : Nat
  grinding : Nat
  fri : Fri.Opts
  tracePolyDegree : Nat
  /-- the GKR verifier of the AIR: Lagrange random elements drawn from the coin -/
  gkrVerify : Serde.Bytes → C → Option (List V × C)
  /-- `evaluate_constraints(air, coefficients, OOD frames, aux randomness, z)` -/
  evalConstraints : (coeffs auxRands lagRands oodTrace : List V) → V → V
  /-- `Σ z^(i·n) · value_i` -/
  combineOod : V → List V → V
  /-- `DeepComposer`: the DEEP evaluations at the query positions -/
  deepCompose : List Nat → V → List V → List (List (List V)) → List (List V) → List V → List V → List V
  /-- value at `alpha` of the interpolant of one opened FRI row (layer `depth`, domain size, folded position) -/
  foldRow : Nat → Nat → Nat → List V → V → V
  /-- value of the remainder polynomial at the point of `position` in the last domain -/
  evalRemainder : List V → Nat → Nat → V

/-- the part of a parsed proof that the coin absorbs (or that seeds the position draw): everything
    `perform_verification` reads BEFORE the query positions are drawn -/
structure Committed (V D : Type) where
  traceRoots : List D
  constraintRoot : D
  /-- the OOD trace frame in hashing order (main and auxiliary frame interleaved, then the Lagrange frame) -/
  oodTrace : List V
  oodEvals : List V
  /-- FRI layer commitments followed by the remainder commitment -/
  friRoots : List D
  powNonce : Nat
  gkr : Option Serde.Bytes

/-- one opening: opened rows and the nodes of the batch proof; its leaves are recomputed -/
structure Opening (V D : Type) where
  rows : List (List V)
  nodes : List (List D)

/-- the part of a parsed proof read AFTER the query positions are drawn -/
structure Opened (V D : Type) where
  traceOpenings : List (Opening V D)
  constraintOpening : Opening V D
  friLayers : List (Opening V D)
  remainder : List V
  numPartitions : Nat

/-- what the verifier is instantiated with -/
structure Verifier (C D V : Type) where
  coin : CoinOps C D V
  merkle : Merkle.Hasher D
  /-- `hash_elements` (rows, OOD frames, remainder) -/
  hashElems : List V → D
  modulus : Serde.Bytes
  elemBytes : Nat
  pubElems : List Nat
  /-- `AcceptableOptions::validate` -/
  acceptable : Serde.Context → Bool
  air : Serde.Context → AirInst C D V
  /-- the remainder is compared with its commitment (true since 21c4b77; false = pinned tree) -/
  commitCheck : Bool

/-- what `perform_verification` has computed when it starts reading openings -/
structure Challenges (C D V : Type) where
  auxRands : List V
  lagRands : List V
  coeffs : List V
  z : V
  deep : List V
  alphas : List V
  /-- sorted, de-duplicated query positions -/
  positions : List Nat
  /-- the digests the coin absorbed, in order -/
  log : List D
  /-- the coin from which the positions were drawn -/
  coinAtQueries : C

def insertSortedDedup (x : Nat) : List Nat → List Nat
  | [] => [x]
  | y :: ys => if x < y then x :: y :: ys else if x = y then y :: ys else y :: insertSortedDedup x ys

/-- `sort_unstable(); dedup()` -/
def sortDedup (l : List Nat) : List Nat := l.foldr insertSortedDedup []

section decision
variable {C D V : Type} [DecidableEq D] [DecidableEq V]

/-- the auxiliary-segment phase: (aux randomness, Lagrange randomness, coin, absorbed digests) -/
def auxPhase (K : CoinOps C D V) (A : AirInst C D V) (cm : Committed V D) (c1 : C) (r0 : D) (rest : List D) :
    Except VErr (List V × List V × C × List D) :=
  if !A.multiSegment then .ok ([], [], c1, [r0])
  else
    match rest with
    | [] => .error (.panic "trace_commitments[1]")
    | r1 :: _ =>
      if A.lagrange then
        match cm.gkr with
        | none => .error .deserialization
        | some g =>
          match A.gkrVerify g c1 with
          | none => .error .gkrFailed
          | some (lag, c2) =>
            match drawMany K A.numAuxRands c2 with
            | none => .error (.panic "get_aux_rand_elements")
            | some (ar, c3) => .ok (ar, lag, K.reseed c3 r1, [r0, r1])
      else
        match drawMany K A.numAuxRands c1 with
        | none => .error (.panic "get_aux_rand_elements")
        | some (ar, c3) => .ok (ar, [], K.reseed c3 r1, [r0, r1])

/-- `FriVerifier::new`: one reseed and one draw per commitment, `DegreeTruncation` at every commitment
    but the last: (alphas, coin, absorbed digests) -/
def friNew (K : CoinOps C D V) (N total : Nat) : List D → Nat → Nat → C → Except VErr (List V × C × List D)
  | [], _, _, c => .ok ([], c, [])
  | r :: rs, depth, md, c =>
    match K.draw (K.reseed c r) with
    | none => .error .randomCoin
    | some (alpha, c') =>
      if depth ≠ total - 1 ∧ md % N ≠ 0 then .error (.degreeTruncation depth)
      else
        match friNew K N total rs (depth + 1) (md / N) c' with
        | .ok (as, c'', log) => .ok (alpha :: as, c'', r :: log)
        | .error e => .error e

/-- steps 1–5 of `perform_verification` up to the drawing of the query positions: a function of the
    statement and of the `Committed` part of the proof ONLY -/
def challenges (W : Verifier C D V) (ctx : Serde.Context) (cm : Committed V D) :
    Except VErr (Challenges C D V) :=
  let K := W.coin
  let A := W.air ctx
  match cm.traceRoots with
  | [] => .error (.panic "trace_commitments[0]")
  | r0 :: rest =>
    let c1 := K.reseed (K.new (coinSeed W.elemBytes ctx W.pubElems)) r0
    match auxPhase K A cm c1 r0 rest with
    | .error e => .error e
    | .ok (auxRands, lagRands, c2, log2) =>
      match drawMany K A.numCoeffs c2 with
      | none => .error .randomCoin
      | some (coeffs, c3) =>
        match K.draw (K.reseed c3 cm.constraintRoot) with
        | none => .error .randomCoin
        | some (z, c4) =>
          let ev1 := A.evalConstraints coeffs auxRands lagRands cm.oodTrace z
          let c5 := K.reseed c4 (W.hashElems cm.oodTrace)
          let ev2 := A.combineOod z cm.oodEvals
          let c6 := K.reseed c5 (W.hashElems cm.oodEvals)
          if ev1 ≠ ev2 then .error .inconsistentOod
          else
            match drawMany K A.numDeepCoeffs c6 with
            | none => .error .randomCoin
            | some (deep, c7) =>
              match friNew K A.fri.folding cm.friRoots.length cm.friRoots 0 (A.tracePolyDegree + 1) c7 with
              | .error e => .error e
              | .ok (alphas, c8, flog) =>
                if K.leadingZeros c8 cm.powNonce < A.grinding then .error .proofOfWork
                else
                  match K.drawInts c8 A.numQueries A.ldeSize cm.powNonce with
                  | none => .error .randomCoin
                  | some ps =>
                    .ok { auxRands := auxRands, lagRands := lagRands, coeffs := coeffs, z := z, deep := deep,
                          alphas := alphas, positions := sortDedup ps,
                          log := log2 ++ [cm.constraintRoot, W.hashElems cm.oodTrace, W.hashElems cm.oodEvals] ++ flog,
                          coinAtQueries := c8 }

/-- the batch proof the channel hands to `verify_batch`: leaves = hashes of the opened rows -/
def Opening.proof (W : Verifier C D V) (o : Opening V D) (depth : Nat) : Merkle.BatchProof D :=
  ⟨o.rows.map W.hashElems, o.nodes, depth⟩

/-- `MerkleTree::verify_batch(root, positions, proof)` succeeded -/
def openingOk (W : Verifier C D V) (root : D) (positions : List Nat) (o : Opening V D) (depth : Nat) : Bool :=
  Merkle.verifyBatch W.merkle root positions (o.proof W depth) == .ok ()

/-- the layer loop of `FriVerifier::verify_generic`: (positions, evaluations, domain size, degree bound + 1)
    after `count` layers -/
def friLayers (W : Verifier C D V) (A : AirInst C D V) (roots : List D) (layers : List (Opening V D))
    (alphas : List V) (np : Nat) :
    Nat → Nat → List Nat → List V → Nat → Nat → Except VErr (List Nat × List V × Nat × Nat)
  | 0, _, pos, ev, dom, md => .ok (pos, ev, dom, md)
  | count + 1, depth, pos, ev, dom, md =>
    let N := A.fri.folding
    match Fri.foldPositions pos dom N with
    | none => .error (.panic "fold_positions")
    | some folded =>
      match Fri.mapPositionsToIndexes folded dom N np with
      | none => .error (.panic "map_positions_to_indexes")
      | some idx =>
        match roots[depth]?, layers[depth]?, alphas[depth]? with
        | some root, some layer, some alpha =>
          if !openingOk W root idx layer (Nat.log2 (dom / N)) then .error (.layerCommitmentMismatch depth)
          else
            match Fri.getQueryValues layer.rows pos folded dom N with
            | none => .error (.panic "get_query_values")
            | some qv =>
              if ev ≠ qv then .error (.invalidLayerFolding depth)
              else if md % N ≠ 0 then .error (.degreeTruncation depth)
              else
                friLayers W A roots layers alphas np count (depth + 1) folded
                  ((folded.zip layer.rows).map fun ir => A.foldRow depth dom ir.1 ir.2 alpha) (dom / N) (md / N)
        | _, _, _ => .error (.panic "fri layer index")

/-- the remainder checks after the layer loop -/
def friRemainder (W : Verifier C D V) (A : AirInst C D V) (roots : List D) (remainder : List V)
    (numLayers : Nat) (pos : List Nat) (ev : List V) (dom md : Nat) : Except VErr Unit :=
  if W.commitCheck ∧ roots[numLayers]? ≠ some (W.hashElems remainder) then .error .remainderCommitmentMismatch
  else if remainder.length > md then .error .remainderDegreeMismatch
  else if (pos.zip ev).all (fun pe => A.evalRemainder remainder dom pe.1 == pe.2) then .ok ()
  else .error .invalidRemainderFolding

/-- `FriVerifier::verify` on the DEEP evaluations -/
def friVerify (W : Verifier C D V) (A : AirInst C D V) (cm : Committed V D) (op : Opened V D)
    (ch : Challenges C D V) (deepEvals : List V) : Except VErr Unit :=
  if deepEvals.length ≠ ch.positions.length then .error .numPositionEvaluationMismatch
  else
    let dom := Fri.nextPow2 (A.tracePolyDegree + 1) * A.fri.blowup
    let numLayers := Fri.numFriLayers A.fri dom
    match friLayers W A cm.friRoots op.friLayers ch.alphas op.numPartitions numLayers 0 ch.positions deepEvals dom
        (A.tracePolyDegree + 1) with
    | .error e => .error e
    | .ok (pos, ev, dom', md) => friRemainder W A cm.friRoots op.remainder numLayers pos ev dom' md

/-- steps 5–7 of `perform_verification`: the openings against their commitments, DEEP composition, FRI -/
def checkOpened (W : Verifier C D V) (ctx : Serde.Context) (cm : Committed V D) (op : Opened V D)
    (ch : Challenges C D V) : Except VErr Unit :=
  let A := W.air ctx
  let depth := Nat.log2 A.ldeSize
  if !((cm.traceRoots.zip op.traceOpenings).all fun ro => openingOk W ro.1 ch.positions ro.2 depth) then
    .error .traceQuery
  else if !openingOk W cm.constraintRoot ch.positions op.constraintOpening depth then .error .constraintQuery
  else
    let deepEvals := A.deepCompose ch.positions ch.z ch.deep (op.traceOpenings.map (·.rows))
      op.constraintOpening.rows cm.oodTrace cm.oodEvals
    friVerify W A cm op ch deepEvals

/-- `verify` on a parsed proof (`parsed = none`: `VerifierChannel::new` returned an error) -/
def verify (W : Verifier C D V) (ctx : Serde.Context) (parsed : Option (Committed V D × Opened V D)) :
    Except VErr Unit :=
  if W.modulus ≠ ctx.modulus then .error .inconsistentBaseField
  else if !W.acceptable ctx then .error .unacceptableOptions
  else if !(W.air ctx).extSupported then .error .unsupportedExtension
  else
    match parsed with
    | none => .error .deserialization
    | some (cm, op) =>
      match challenges W ctx cm with
      | .error e => .error e
      | .ok ch => checkOpened W ctx cm op ch

end decision

end Model.VerifierChecks
