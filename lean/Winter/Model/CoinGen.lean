-- `draw_integers` / `check_leading_zeros` of Winter/Model/Coin.lean with exactly their integer parts (the two
-- assertions, the mask `(domain_size - 1) as u64`, the masking of the first eight bytes, `trailing_zeros`)
-- replaced by the definitions regenerated from crypto/src/random/default.rs on this run
-- (Winter/Gen/Coin.lean).  WinterProofs/Lemmas/C19Gen.lean proves them equal to the model functions; the driver
-- of C19 evaluates both (translation validation of tie T).
import Winter.Model.Coin
import Winter.Gen.Coin

namespace Model.Coin
section coin
variable {D : Type} (H : HashOps D)

/-- `check_leading_zeros` over the regenerated `trailing_zeros` -/
def checkLeadingZerosG (c : Coin D) (value : Nat) : Nat :=
  Gen.Coin.check_leading_zeros_count (leVal ((H.asBytes (H.mergeWithInt c.seed value)).take 8))

/-- the loop of `draw_integers` over the regenerated masking expression -/
def intLoopG (mask n : Nat) : Nat → Coin D → List Nat → Option (List Nat × Coin D)
  | 0, c, acc => some (acc, c)
  | k + 1, c, acc =>
    match next H c with
    | none => none
    | some (v, c') =>
      let value := Gen.Coin.draw_integers_value (leVal ((H.asBytes v).take 8)) mask
      let acc := value :: acc
      if acc.length = n then some (acc, c') else intLoopG mask n k c' acc

/-- `draw_integers` over the regenerated assertions and mask -/
def drawIntegersG (n domainSize nonce : Nat) (c : Coin D) : Out × Coin D :=
  if ¬ Gen.Coin.draw_integers_assert0 n domainSize then (.panic "domain size must be a power of two", c)
  else if ¬ Gen.Coin.draw_integers_assert1 n domainSize then
    (.panic "number of values must be smaller than domain size", c)
  else
    let c1 : Coin D := ⟨H.mergeWithInt c.seed nonce, 0⟩
    match intLoopG H (Gen.Coin.draw_integers_mask domainSize) n MAX_TRIES c1 [] with
    | none => (.panic "counter overflow", c1)
    | some (acc, c2) => if acc.length < n then (.err, c2) else (.ints acc.reverse, c2)

end coin
end Model.Coin
