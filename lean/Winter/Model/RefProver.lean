-- EXECUTABLE REFERENCE PROVER: `winter_prover::Prover::prove` (prover/src/lib.rs `generate_proof`) for the
-- instantiations of the reference verifier (Winter/Model/RefVerifier.lean: an `Inst` record = base field with its
-- extension formulas, a Rescue Prime hasher, DefaultRandomCoin) and the data-driven AIR family of
-- harness/src/genair.rs WITHOUT auxiliary segment, down to the BYTES of the serialized `Proof`.
-- `refProve J d trace opts` mirrors, step by step (non-concurrent build, default features):
--     GenericProver::get_pub_inputs (asserted cells)             `pubInputs`
--     ProofOptions::new / TraceInfo::new / AIR::new / Context::new assertions   `Serde.*.wf`, `Parse.airNew`
--     ProverChannel::new (coin seeded with context and public inputs)   `VerifierChecks.coinSeed`, `Model.Coin`
--     DefaultTraceLde::new: interpolate_columns, evaluate_polys_over the LDE coset, hash_elements of every row,
--         MerkleTree::new, commit_trace (reseed)                `Divisor.interpolate`, `Divisor.polyEval` (the
--         specification values of the FFT code: C09), `Rescue.hashElementsExt`, `Merkle.Tree.new`
--     Trace::validate of a debug build (the reference predicate)   `VerifierChecks.checkMain`
--     get_constraint_composition_coeffs, DefaultConstraintEvaluator::evaluate, CompositionPoly::new
--                                                              `Composition.compositionTrace / compositionPoly` (C17)
--     build_constraint_commitment (LDE of the columns, row hashes, tree), commit_constraints
--     get_ood_point, TracePolyTable::get_ood_frame (z and z·g), send_ood_trace_states (hash of the interleaved
--         frame), CompositionPoly::evaluate_at, send_ood_constraint_evaluations
--     get_deep_composition_coeffs, DeepCompositionPoly::{add_trace_polys, add_composition_poly, evaluate}
--         (prover/src/composer/mod.rs: acc_trace_poly, syn_div_in_place by x − z and x − z·g, mul_acc, the degree
--         assertions)                                            `deepPoly` (written here)
--     FriProver::build_layers (transpose, hash rows, tree, commit_fri_layer, draw_fri_alpha, apply_drp; set_remainder)
--                                                              `Fri.transpose / applyDrp / setRemainder` (C15)
--     grind_query_seed (first nonce 1, 2, .. reaching the grinding factor)   `Coin.grind` (C19)
--     get_query_positions (draw_integers, sort, dedup)           `VerifierChecks.sortDedup`
--     FriProver::build_proof (fold_positions, prove_batch, rows), TraceLde::query, ConstraintCommitment::query
--                                                              `Fri.foldPositions`, `Merkle.proveBatch` (C10)
--     ProverChannel::build_proof, Proof::to_bytes                `Serde.proof.enc` and the constructors of the
--                                                              blocks (`queriesNew`, `commitmentsNew`, ... : C12)
-- A panic of the real code (an assertion of a constructor, an invalid trace in a debug build, a degree assertion,
-- an ill-formed FRI schedule) is `Except.error <site>`.  Elements are coordinate lists of raw words (`El`); main
-- trace cells are base elements `[c]`.  FFT-based steps are modelled by their values (evaluation / interpolation on
-- the coset), as in Model.Composition and Model.Fri.
-- AUXILIARY SEGMENT (no Lagrange kernel column): after the main commitment `get_aux_rand_elements` draws the
-- random elements, the family's `build_aux_trace` (harness/src/genair.rs `build_aux_columns`: pointwise columns
-- `F:` and accumulators `A<init>:<step>` evaluated row by row, generation rules may divide) fills the columns,
-- `set_aux_trace` interpolates / extends / commits them (second trace commitment, reseed), the auxiliary
-- transition constraints and boundary assertions enter the composition (Model.Composition), the auxiliary columns
-- follow the main ones in the OOD frame and in the DEEP composition, and are opened by a second batch opening
-- (`phase1Aux`).
-- Not modelled: Lagrange kernel column / GKR prover; the validation of the auxiliary segment by the debug-build
-- `Trace::validate` (the family's auxiliary columns satisfy their constraints by construction); the debug-only
-- `validate_transition_degrees` (declared degree below the actual one) and `infer_degree` assertions.
-- No Mathlib.  Tied to the real prover by the `refp` op of harness/src/bin/c01.rs: IDENTICAL proof bytes.
import Winter.Model.RefVerifier
import Winter.Model.Fri
import Winter.Model.Merkle

namespace Model.RefProver
open Model Model.RefVerifier

abbrev CoinSt := Coin.Coin Dg

/-- outcome: a value, or the site of a panic of the real prover -/
abbrev PRes := Except String

def ofOpt {α : Type} (site : String) : Option α → PRes α
  | some a => .ok a
  | none => .error site

def ofMerkle {α : Type} (site : String) : Merkle.Res α → PRes α
  | .ok a => .ok a
  | _ => .error site

def ofFri {α : Type} (site : String) : Fri.Res α → PRes α
  | .ok a => .ok a
  | _ => .error site

/-! ## 1. Public inputs and trace -/

/-- `GenTrace::new`: cells `B::from_word(v % MOD)`, as base elements -/
def traceCells (J : Inst) (trace : List (List Nat)) : List (List El) :=
  trace.map fun col => col.map fun v => [J.norm (J.I.new (v % J.I.M))]

/-- `genair::asserted_values` on the canonical cells: the public inputs (`none` = an index out of range) -/
def pubInputs (d : Desc) (M : Nat) (trace : List (List Nat)) : Option (List Nat) :=
  (d.air.assertions.mapM fun (a : VerifierChecks.AssertDesc) =>
    match trace[a.column]? with
    | none => none
    | some col =>
      match a.kind with
      | VerifierChecks.AssertKind.sequence => (a.steps d.air.n).mapM fun s => (col[s]?).map (· % M)
      | _ => (col[a.first]?).map fun v => [v % M]).map List.flatten

/-! ## 2. Polynomials over `E` -/

def isZeroEl (E : EOps) (x : El) : Bool := x.all fun c => E.I.eq c (E.I.new 0)

/-- `polynom::degree_of` -/
def degreeOf (E : EOps) (p : List El) : Nat := (p.reverse.dropWhile (isZeroEl E)).length - 1

/-- `polynom::syn_div_in_place(p, 1, b)`: quotient by `x − b`, same length, top coefficient zero -/
def synDivLinear (E : EOps) (p : List El) (b : El) : List El :=
  (p.reverse.foldl (fun (st : List El × El) coeff => (st.2 :: st.1, E.add coeff (E.mul b st.2))) ([], E.zero)).1

/-- `acc_trace_poly`: `acc += poly · k; acc[0] −= value · k` -/
def accTracePoly (E : EOps) (acc poly : List El) (value k : El) : List El :=
  match List.zipWith (fun a b => E.add a (E.mul k b)) acc poly with
  | a0 :: rest => E.sub a0 (E.mul value k) :: rest
  | [] => []

/-- `mul_acc(a, b, c)`: `a[i] += c · b[i]` -/
def mulAcc (E : EOps) (a b : List El) (c : El) : List El := List.zipWith (fun x y => E.add x (E.mul c y)) a b

/-- `DeepCompositionPoly::add_trace_polys` followed by `add_composition_poly` (no auxiliary segment): the
    coefficients of the DEEP composition polynomial; an error is one of the assertions -/
def deepPoly (E : EOps) (n : Nat) (z zg : El) (polys : List (List El)) (oodCur oodNxt : List El)
    (cols : List (List El)) (oodEvals : List El) (ccTrace ccCons : List El) : PRes (List El) :=
  let zero := List.replicate n E.zero
  let items := (polys.zip (oodCur.zip oodNxt)).zip ccTrace
  let t1 := items.foldl (fun acc it => accTracePoly E acc it.1.1 it.1.2.1 it.2) zero
  let t2 := items.foldl (fun acc it => accTracePoly E acc it.1.1 it.1.2.2 it.2) zero
  -- syn_div_in_place asserts a non-zero constant
  if isZeroEl E z ∨ isZeroEl E zg then .error "syn_div_in_place: constant cannot be zero"
  else
    let tp := List.zipWith E.add (synDivLinear E t1 z) (synDivLinear E t2 zg)
    if degreeOf E tp > n - 2 then .error "add_trace_polys: degree"
    else
      let quot := (cols.zip oodEvals).map fun cv =>
        match cv.1 with
        | c0 :: rest => synDivLinear E (E.sub c0 cv.2 :: rest) z
        | [] => []
      let res := (quot.zip ccCons).foldl (fun acc qc => mulAcc E acc qc.1 qc.2) tp
      if degreeOf E res > n - 2 then .error "add_composition_poly: degree" else .ok res

/-! ## 3. Commitments -/

/-- one committed matrix: its rows over the LDE domain and the Merkle tree over the row hashes -/
structure Commit where
  rows : List (List El)
  tree : Merkle.Tree Dg

/-- `RowMatrix::commit_to_rows` -/
def commitRows (J : Inst) (rows : List (List El)) : PRes Commit :=
  match Merkle.Tree.new (merkleH J) (rows.map (hashEls J)) with
  | .ok t => .ok ⟨rows, t⟩
  | _ => .error "MerkleTree::new"

def Commit.root (c : Commit) : PRes Dg := ofMerkle "MerkleTree::root" c.tree.root

/-- the opening of a committed matrix at the given (distinct) positions: `prove_batch` and the rows -/
def Commit.openAt (J : Inst) (c : Commit) (positions : List Nat) : PRes (VerifierChecks.Opening El Dg) :=
  match Merkle.proveBatch (merkleH J) c.tree positions, positions.mapM fun p => c.rows[p]? with
  | .ok bp, some rows => .ok ⟨rows, bp.nodes⟩
  | _, _ => .error "prove_batch"

/-- values of the polynomials `polys` (coefficients over `E`) at the points `xs`: one row per point -/
def evalRows (E : EOps) (polys : List (List El)) (xs : List El) : List (List El) :=
  xs.map fun x => polys.map fun p => Divisor.polyEval E.div p x

/-! ## 4. FRI commit and query phases -/

structure FriState where
  layers : List Commit
  roots : List Dg
  alphas : List El
  evals : List El
  coin : CoinSt

/-- the loop of `FriProver::build_layers`: per layer transpose, hash the rows, build the tree, commit (reseed), draw
    alpha, apply the degree-respecting projection -/
def friBuildLayers (J : Inst) (E : EOps) (N : Nat) : Nat → List El → CoinSt → PRes FriState
  | 0, evals, c => .ok ⟨[], [], [], evals, c⟩
  | k + 1, evals, c =>
    match Fri.transpose N evals with
    | none => .error "transpose_slice"
    | some rows =>
      match commitRows J rows with
      | .error e => .error e
      | .ok cm =>
        match cm.root with
        | .error e => .error e
        | .ok root =>
          match (coinOps J E).draw ((coinOps J E).reseed c root) with
          | none => .error "draw_fri_alpha"
          | some (alpha, c') =>
            match ofFri "apply_drp" (Fri.applyDrp E.fri N rows alpha) with
            | .error e => .error e
            | .ok evals' =>
              match friBuildLayers J E N k evals' c' with
              | .ok st => .ok { st with layers := cm :: st.layers, roots := root :: st.roots, alphas := alpha :: st.alphas }
              | .error e => .error e

/-- the loop of `FriProver::build_proof`: fold the positions, open the layer at the folded positions -/
def friQueryLayers (J : Inst) (N : Nat) : List Commit → List Nat → Nat → PRes (List (VerifierChecks.Opening El Dg))
  | [], _, _ => .ok []
  | l :: ls, positions, dom =>
    match Fri.foldPositions positions dom N with
    | none => .error "fold_positions"
    | some folded =>
      match l.openAt J folded with
      | .error e => .error e
      | .ok o =>
        match friQueryLayers J N ls folded (dom / N) with
        | .ok os => .ok (o :: os)
        | .error e => .error e

/-! ## 4b. The auxiliary segment of the family: generation rules and `build_aux_trace` -/

/-- generation expressions (genair `Expr`, including the division generation rules may use) -/
inductive GExpr where
  | const (v : Nat) | cur (i : Nat) | nxt (i : Nat) | per (i : Nat) | acur (i : Nat) | anxt (i : Nat)
  | rand (i : Nat) | pub (i : Nat) | pubSeq (i : Nat)
  | add (a b : GExpr) | sub (a b : GExpr) | mul (a b : GExpr) | div (a b : GExpr) | pow (a : GExpr) (k : Nat)
  | neg (a : GExpr)
  deriving Repr, Inhabited

/-- prefix parser of genair's `parse_expr` (all atoms and operators); fuel = remaining nesting depth -/
def parseGExpr : Nat → List Char → Option (GExpr × List Char)
  | 0, _ => none
  | _ + 1, [] => none
  | fuel + 1, c :: rest =>
    let idx (mk : Nat → GExpr) : Option (GExpr × List Char) :=
      match VerifierChecks.parseNum rest with
      | some (v, r) => if v > 100000 then none else some (mk v, r)
      | none => none
    let bin (mk : GExpr → GExpr → GExpr) : Option (GExpr × List Char) :=
      match parseGExpr fuel rest with
      | some (x, r1) =>
        match parseGExpr fuel r1 with
        | some (y, r2) => some (mk x y, r2)
        | none => none
      | none => none
    if c = 'k' then
      match VerifierChecks.parseNum rest with
      | some (v, r) => if v < VerifierChecks.u128Lim then some (.const v, r) else none
      | none => none
    else if c = 'c' then idx .cur
    else if c = 'n' then idx .nxt
    else if c = 'p' then idx .per
    else if c = 'a' then idx .acur
    else if c = 'b' then idx .anxt
    else if c = 'r' then idx .rand
    else if c = 'v' then idx .pub
    else if c = 'w' then idx .pubSeq
    else if c = '+' then bin .add
    else if c = '-' then bin .sub
    else if c = '*' then bin .mul
    else if c = '/' then bin .div
    else if c = '^' then
      match VerifierChecks.parseNum rest with
      | some (k, r) =>
        if k > 64 then none
        else
          match parseGExpr fuel r with
          | some (x, r2) => some (.pow x k, r2)
          | none => none
      | none => none
    else if c = '~' then
      match parseGExpr fuel rest with
      | some (x, r) => some (.neg x, r)
      | none => none
    else none

/-- how the family's prover fills an auxiliary column (`AuxGen`) -/
inductive AuxGen where
  | fn (e : GExpr)
  | acc (init step : GExpr)
  deriving Repr

/-- `F:<expr>` | `A<init>:<step>` -/
def parseAuxGen (s : String) : Option AuxGen :=
  match s.toList with
  | 'F' :: ':' :: rest =>
    (match parseGExpr 202 rest with
     | some (e, []) => some (.fn e)
     | _ => none)
  | 'A' :: rest =>
    (match parseGExpr 202 rest with
     | some (i, ':' :: rest2) =>
       (match parseGExpr 202 rest2 with
        | some (st, []) => some (.acc i st)
        | _ => none)
     | _ => none)
  | _ => none

/-- the `h=` field of a description line: the generation rules of the auxiliary columns (`[]` without it) -/
def parseAuxGens (line : String) : Option (List AuxGen) :=
  match (VerifierChecks.nonEmpty (line.splitOn ";")).filter (·.startsWith "h=") with
  | [] => some []
  | [h] => (VerifierChecks.nonEmpty ((h.drop 2).toString.splitOn ",")).mapM parseAuxGen
  | _ => none

/-- the slices of genair's `Env`; an index out of range is a panic (`none`) -/
structure GEnv where
  cur : List El
  nxt : List El
  per : List El
  acur : List El
  anxt : List El
  rand : List El

/-- `Expr::eval` (public inputs are the empty slice in `build_aux_columns`: they read as zero) -/
def GExpr.eval (E : EOps) (env : GEnv) : GExpr → Option El
  | .const v => some (embedInt E v)
  | .cur i => env.cur[i]?
  | .nxt i => env.nxt[i]?
  | .per i => env.per[i]?
  | .acur i => env.acur[i]?
  | .anxt i => env.anxt[i]?
  | .rand i => env.rand[i]?
  | .pub _ => some E.zero
  | .pubSeq _ => some E.zero
  | .add a b => match a.eval E env, b.eval E env with | some x, some y => some (E.add x y) | _, _ => none
  | .sub a b => match a.eval E env, b.eval E env with | some x, some y => some (E.sub x y) | _, _ => none
  | .mul a b => match a.eval E env, b.eval E env with | some x, some y => some (E.mul x y) | _, _ => none
  | .div a b => match a.eval E env, b.eval E env with | some x, some y => some (E.mul x (E.inv y)) | _, _ => none
  | .pow a k => (a.eval E env).map fun x => E.pow x k
  | .neg a => (a.eval E env).map fun x => E.sub E.zero x

/-- one row of `build_aux_columns`: the columns in order, each seeing the cells of this row filled so far (the others
    zero); `before` = the previous auxiliary row (`none` for row 0) -/
def auxRow (E : EOps) (gens : List AuxGen) (rands cur nxt per prev pper : List El) (before : Option (List El)) :
    Option (List El) :=
  (List.range gens.length).foldlM (fun (here : List El) j =>
    match gens[j]? with
    | none => none
    | some g =>
      let v := match g with
        | .fn e => e.eval E ⟨cur, nxt, per, here, [], rands⟩
        | .acc init step =>
          match before with
          | none => init.eval E ⟨[], [], [], [], [], rands⟩
          | some b => step.eval E ⟨prev, cur, pper, b, here, rands⟩
      v.map fun x => here.set j x) (List.replicate gens.length E.zero)

/-- `build_aux_columns` (without Lagrange kernel column): the auxiliary columns, row by row; `mainRows` are the rows
    of the main segment embedded into `E`, `perRows` the periodic values per step -/
def buildAux (E : EOps) (gens : List AuxGen) (rands : List El) (mainRows perRows : List (List El)) :
    Option (List (List El)) :=
  let n := mainRows.length
  let rows := (List.range n).foldlM (fun (acc : List (List El)) r =>
    let cur := (mainRows[r]?).getD []
    let nxt := (mainRows[(r + 1) % n]?).getD []
    let per := (perRows[r]?).getD []
    let prev := if r = 0 then [] else (mainRows[r - 1]?).getD []
    let pper := if r = 0 then [] else (perRows[r - 1]?).getD []
    let before := if r = 0 then none else acc[r - 1]?
    (auxRow E gens rands cur nxt per prev pper before).map fun row => acc ++ [row]) []
  rows.map fun rs => (List.range gens.length).map fun j => rs.map fun row => (row[j]?).getD E.zero

/-! ## 5. The run of the prover: everything the proof is made of, as values

`generate_proof` is split into three phases (commitments up to the DEEP evaluations; FRI commit phase; proof of
work, query positions, openings); every intermediate value — in particular every state of the public coin — is
kept in the phase records, so that the theorems of WinterProofs/C01Prover.lean can speak about them. -/

/-- the LDE domain `offset · g^i` as base elements -/
def ldePoints (J : Inst) (lde : Nat) : List El := xCoordinates (baseOps J.I J.norm) lde (List.range lde)

/-- `Context::new` for a single-segment trace of the description's shape -/
def contextOf (J : Inst) (d : Desc) (o : Serde.ProofOptions) : Serde.Context :=
  ⟨⟨d.air.width, 0, 0, d.air.n, []⟩, (frontAir J d).modulusBytes, o⟩

/-- `Context::new` for the two-segment trace of a description with an auxiliary segment -/
def contextAux (J : Inst) (d : Desc) (x : AuxDesc) (o : Serde.ProofOptions) : Serde.Context :=
  ⟨⟨d.air.width, x.width, x.numRands, d.air.n, []⟩, (frontAir J d).modulusBytes, o⟩

/-- steps 0–5 of `generate_proof`: what exists when the FRI prover is started -/
structure Phase1 where
  ctx : Serde.Context
  pubs : List Nat
  ncols : Nat
  /-- trace polynomials, embedded into `E` -/
  polys : List (List El)
  traceCommit : Commit
  troot : Dg
  /-- coin after the trace commitment -/
  c1 : CoinSt
  coeffs : List El
  c3 : CoinSt
  compTrace : List El
  compCols : List (List El)
  consCommit : Commit
  croot : Dg
  z : El
  c4 : CoinSt
  oodTrace : List El
  oodEvals : List El
  /-- coin after both OOD reseeds -/
  c6 : CoinSt
  deep : List El
  c7 : CoinSt
  deepCoeffs : List El
  deepEvals : List El
  /-- the auxiliary segment, if there is one: random elements, commitment and its root -/
  auxRands : List El := []
  auxCommit : Option Commit := none
  auxRoot : Option Dg := none

/-- steps 0–5 of `Prover::generate_proof::<E>` -/
def phase1 (J : Inst) (E : EOps) (d : Desc) (trace : List (List Nat)) (o : Serde.ProofOptions) : PRes Phase1 :=
  let K := coinOps J E
  let B := baseOps J.I J.norm
  let n := d.air.n
  let lde := n * o.blowup
  let ctx := contextOf J d o
  let ti := ctx.traceInfo
  -- GenTrace::new asserts the shape; the constructors of options, trace info, context
  if trace.length ≠ d.air.width ∨ trace.any (fun c => c.length ≠ n) then .error "GenTrace::new"
  else if d.aux.isSome then .error "auxiliary segment: not modelled"
  else if !ctx.wf then .error "ProofOptions::new / TraceInfo::new / Context::new"
  else
    match pubInputs d J.I.M trace, Parse.airNew (frontAir J d) ti o with
    | none, _ => .error "get_pub_inputs"
    | _, none => .error "AIR::new"
    | some pubs, some ncols =>
      -- 1. trace polynomials, LDE, commitment
      match (traceCells J trace).mapM (Divisor.interpolate B.div) with
      | none => .error "interpolate_columns"
      | some polysB =>
        let xsB := ldePoints J lde
        if xsB.length ≠ lde then .error "StarkDomain::new" else
        match commitRows J (evalRows B polysB xsB) with
        | .error e => .error e
        | .ok tc =>
        match tc.root with
        | .error e => .error e
        | .ok troot =>
        let c1 := K.reseed (K.new (VerifierChecks.coinSeed J.I.bytes ctx (pubs.map (· % J.I.M)))) troot
        -- Trace::validate (debug build)
        if (VerifierChecks.checkMain d.air J.I.M (trace.map (·.map (· % J.I.M))) pubs).isSome then .error "Trace::validate"
        else
        -- 2. constraint evaluations
        let nT := d.air.constraints.length
        let nA := d.air.assertions.length
        match VerifierChecks.drawMany K (nT + nA) c1 with
        | none => .error "get_constraint_composition_coeffs"
        | some (coeffs, c3) =>
        let polys := polysB.map (·.map (embedCell E))
        let offset := E.ofBase (J.I.new J.I.generator)
        match prepOf E d pubs ti [], Composition.mkDomain E.div n (Protocol.ceBlowup d.degs) o.blowup offset with
        | none, _ => .error "BoundaryConstraints::new"
        | _, none => .error "StarkDomain::new"
        | some (air, P), some D =>
        match Composition.compositionTrace E.div (fun a b => a == b) air P D Composition.smallPolyDegree
            (fun j => (polys[j]?).getD []) (fun _ => []) (cell E []) (coeffs.take nT) ((coeffs.drop nT).take nA) with
        | none => .error "ConstraintEvaluator::evaluate"
        | some compTrace =>
        -- 3. composition polynomial columns, their LDE, commitment
        match Composition.compositionPoly E.div D compTrace ncols with
        | none => .error "CompositionPoly::new"
        | some cols =>
        let xs := xsB.map (embedCell E)
        match commitRows J (evalRows E cols xs) with
        | .error e => .error e
        | .ok cc =>
        match cc.root with
        | .error e => .error e
        | .ok croot =>
        -- 4. OOD point and frame, DEEP composition polynomial
        match K.draw (K.reseed c3 croot) with
        | none => .error "get_ood_point"
        | some (z, c4) =>
        match rootRaw J.I (Nat.log2 n) with
        | none => .error "get_root_of_unity"
        | some g =>
        let zg := E.mul z (E.ofBase g)
        let oodCur := polys.map fun p => Divisor.polyEval E.div p z
        let oodNxt := polys.map fun p => Divisor.polyEval E.div p zg
        let oodTrace := Serde.interleave oodCur oodNxt
        let oodEvals := Composition.evaluateAt E.div cols z
        let c6 := K.reseed (K.reseed c4 (hashEls J oodTrace)) (hashEls J oodEvals)
        match VerifierChecks.drawMany K (ti.main + ncols) c6 with
        | none => .error "get_deep_composition_coeffs"
        | some (deep, c7) =>
        match deepPoly E n z zg polys oodCur oodNxt cols oodEvals (deep.take ti.main) (deep.drop ti.main) with
        | .error e => .error e
        | .ok dp =>
          -- 5. DEEP evaluations over the LDE domain
          .ok { ctx := ctx, pubs := pubs, ncols := ncols, polys := polys, traceCommit := tc, troot := troot, c1 := c1,
                coeffs := coeffs, c3 := c3, compTrace := compTrace, compCols := cols, consCommit := cc, croot := croot,
                z := z, c4 := c4, oodTrace := oodTrace, oodEvals := oodEvals, c6 := c6, deep := deep, c7 := c7,
                deepCoeffs := dp, deepEvals := xs.map fun x => Divisor.polyEval E.div dp x }

/-- steps 0–5 of `generate_proof::<E>` for a description with an auxiliary segment `x` (no Lagrange kernel column)
    whose columns follow the generation rules `gens` -/
def phase1Aux (J : Inst) (E : EOps) (d : Desc) (x : AuxDesc) (gens : List AuxGen) (trace : List (List Nat))
    (o : Serde.ProofOptions) : PRes Phase1 :=
  let K := coinOps J E
  let B := baseOps J.I J.norm
  let n := d.air.n
  let lde := n * o.blowup
  let ctx := contextAux J d x o
  let ti := ctx.traceInfo
  if trace.length ≠ d.air.width ∨ trace.any (fun c => c.length ≠ n) then .error "GenTrace::new"
  else if x.lagrange then .error "Lagrange kernel column: not modelled"
  else if gens.length ≠ x.width then .error "auxiliary generation rules"
  else if !ctx.wf then .error "ProofOptions::new / TraceInfo::new / Context::new"
  else
    match pubInputs d J.I.M trace, Parse.airNew (frontAir J d) ti o with
    | none, _ => .error "get_pub_inputs"
    | _, none => .error "AIR::new"
    | some pubs, some ncols =>
      let cells := traceCells J trace
      match cells.mapM (Divisor.interpolate B.div) with
      | none => .error "interpolate_columns"
      | some polysB =>
        let xsB := ldePoints J lde
        if xsB.length ≠ lde then .error "StarkDomain::new" else
        match commitRows J (evalRows B polysB xsB) with
        | .error e => .error e
        | .ok tc =>
        match tc.root with
        | .error e => .error e
        | .ok troot =>
        let c1 := K.reseed (K.new (VerifierChecks.coinSeed J.I.bytes ctx (pubs.map (· % J.I.M)))) troot
        -- the auxiliary segment: random elements, columns, polynomials, LDE, commitment
        match VerifierChecks.drawMany K x.numRands c1 with
        | none => .error "get_aux_rand_elements"
        | some (rands, c1a) =>
        let mainRows := (List.range n).map fun r => cells.map fun col => embedCell E ((col[r]?).getD [])
        let perRows := (List.range n).map fun r => d.air.periodic.map fun pc => embedInt E ((pc[r % pc.length]?).getD 0)
        match buildAux E gens rands mainRows perRows with
        | none => .error "build_aux_trace"
        | some auxCols =>
        match auxCols.mapM (Divisor.interpolate E.div) with
        | none => .error "interpolate_columns"
        | some auxPolys =>
        let xs := xsB.map (embedCell E)
        match commitRows J (evalRows E auxPolys xs) with
        | .error e => .error e
        | .ok ac =>
        match ac.root with
        | .error e => .error e
        | .ok aroot =>
        let c2 := K.reseed c1a aroot
        if (VerifierChecks.checkMain d.air J.I.M (trace.map (·.map (· % J.I.M))) pubs).isSome then .error "Trace::validate"
        else
        let nT := d.air.constraints.length + x.cons.length
        let nA := d.air.assertions.length + x.asserts.length
        match VerifierChecks.drawMany K (nT + nA) c2 with
        | none => .error "get_constraint_composition_coeffs"
        | some (coeffs, c3) =>
        let mainPolys := polysB.map (·.map (embedCell E))
        let offset := E.ofBase (J.I.new J.I.generator)
        match prepOf E d pubs ti rands, Composition.mkDomain E.div n (Protocol.ceBlowup (d.degs ++ x.degs)) o.blowup offset with
        | none, _ => .error "BoundaryConstraints::new"
        | _, none => .error "StarkDomain::new"
        | some (air, P), some D =>
        match Composition.compositionTrace E.div (fun a b => a == b) air P D Composition.smallPolyDegree
            (fun j => (mainPolys[j]?).getD []) (fun j => (auxPolys[j]?).getD []) (cell E rands) (coeffs.take nT)
            ((coeffs.drop nT).take nA) with
        | none => .error "ConstraintEvaluator::evaluate"
        | some compTrace =>
        match Composition.compositionPoly E.div D compTrace ncols with
        | none => .error "CompositionPoly::new"
        | some cols =>
        match commitRows J (evalRows E cols xs) with
        | .error e => .error e
        | .ok cc =>
        match cc.root with
        | .error e => .error e
        | .ok croot =>
        match K.draw (K.reseed c3 croot) with
        | none => .error "get_ood_point"
        | some (z, c4) =>
        match rootRaw J.I (Nat.log2 n) with
        | none => .error "get_root_of_unity"
        | some g =>
        let polys := mainPolys ++ auxPolys
        let zg := E.mul z (E.ofBase g)
        let oodCur := polys.map fun p => Divisor.polyEval E.div p z
        let oodNxt := polys.map fun p => Divisor.polyEval E.div p zg
        let oodTrace := Serde.interleave oodCur oodNxt
        let oodEvals := Composition.evaluateAt E.div cols z
        let c6 := K.reseed (K.reseed c4 (hashEls J oodTrace)) (hashEls J oodEvals)
        match VerifierChecks.drawMany K (ti.main + ti.aux + ncols) c6 with
        | none => .error "get_deep_composition_coeffs"
        | some (deep, c7) =>
        match deepPoly E n z zg polys oodCur oodNxt cols oodEvals (deep.take (ti.main + ti.aux)) (deep.drop (ti.main + ti.aux)) with
        | .error e => .error e
        | .ok dp =>
          .ok { ctx := ctx, pubs := pubs, ncols := ncols, polys := polys, traceCommit := tc, troot := troot, c1 := c1,
                coeffs := coeffs, c3 := c3, compTrace := compTrace, compCols := cols, consCommit := cc, croot := croot,
                z := z, c4 := c4, oodTrace := oodTrace, oodEvals := oodEvals, c6 := c6, deep := deep, c7 := c7,
                deepCoeffs := dp, deepEvals := xs.map fun x => Divisor.polyEval E.div dp x,
                auxRands := rands, auxCommit := some ac, auxRoot := some aroot }

/-- step 6: what the FRI commit phase leaves behind -/
structure Phase2 where
  fri : FriState
  remainder : List El
  remRoot : Dg
  /-- coin after the remainder commitment: the one the nonce is searched for and the positions are drawn from -/
  c8 : CoinSt

/-- step 6 of `generate_proof`: `FriProver::build_layers` (layers, then `set_remainder`) -/
def phase2 (J : Inst) (E : EOps) (o : Serde.ProofOptions) (lde : Nat) (deepEvals : List El) (c7 : CoinSt) : PRes Phase2 :=
  let fo := friOpts o
  match friBuildLayers J E fo.folding (Fri.numFriLayers fo lde) deepEvals c7 with
  | .error e => .error e
  | .ok fs =>
    match ofFri "set_remainder" (Fri.setRemainder E.fri fo fs.evals) with
    | .error e => .error e
    | .ok rem => .ok ⟨fs, rem, hashEls J rem, (coinOps J E).reseed fs.coin (hashEls J rem)⟩

/-- steps 7–8: proof of work, query positions, openings -/
structure Phase3 where
  nonce : Nat
  drawn : List Nat
  positions : List Nat
  traceOpen : VerifierChecks.Opening El Dg
  consOpen : VerifierChecks.Opening El Dg
  friOpen : List (VerifierChecks.Opening El Dg)

/-- steps 7–8 of `generate_proof`: `grind_query_seed`, `get_query_positions`, `FriProver::build_proof`,
    `TraceLde::query`, `ConstraintCommitment::query`, and the assertions of `FriProof::new` / `build_proof` -/
def phase3 (J : Inst) (E : EOps) (o : Serde.ProofOptions) (lde : Nat) (p1 : Phase1) (p2 : Phase2) : PRes Phase3 :=
  match Coin.grind (hashOps J) p2.c8 o.grinding (2 ^ (o.grinding + 16)) 1 with
  | none => .error "grind_query_seed"
  | some nonce =>
    match (coinOps J E).drawInts p2.c8 o.numQueries lde nonce with
    | none => .error "get_query_positions"
    | some ps =>
      let positions := VerifierChecks.sortDedup ps
      match friQueryLayers J (friOpts o).folding p2.fri.layers positions lde, p1.traceCommit.openAt J positions,
          p1.consCommit.openAt J positions with
      | .ok friOpen, .ok topen, .ok copen =>
        if p2.remainder.isEmpty ∨ 2 ^ Nat.log2 p2.remainder.length ≠ p2.remainder.length then .error "FriProof::new"
        else if positions.length > 255 then .error "build_proof: num_query_positions"
        else .ok ⟨nonce, ps, positions, topen, copen, friOpen⟩
      | .error e, _, _ => .error e
      | _, .error e, _ => .error e
      | _, _, .error e => .error e

/-- what `generate_proof` has computed when it builds the proof object -/
structure Run where
  p1 : Phase1
  p2 : Phase2
  p3 : Phase3
  /-- the opening of the auxiliary segment at the query positions, if there is one -/
  auxOpen : Option (VerifierChecks.Opening El Dg) := none

def Run.ctx (r : Run) : Serde.Context := r.p1.ctx
def Run.pubs (r : Run) : List Nat := r.p1.pubs
def Run.positions (r : Run) : List Nat := r.p3.positions

/-- the part of the proof the verifier reads before it draws the query positions -/
def Run.cm (r : Run) : VerifierChecks.Committed El Dg where
  traceRoots := r.p1.troot :: r.p1.auxRoot.toList
  constraintRoot := r.p1.croot
  oodTrace := r.p1.oodTrace
  oodEvals := r.p1.oodEvals
  friRoots := r.p2.fri.roots ++ [r.p2.remRoot]
  powNonce := r.p3.nonce
  gkr := none

/-- the part it reads afterwards -/
def Run.op (r : Run) : VerifierChecks.Opened El Dg where
  traceOpenings := r.p3.traceOpen :: r.auxOpen.toList
  constraintOpening := r.p3.consOpen
  friLayers := r.p3.friOpen
  remainder := r.p2.remainder
  numPartitions := 1

/-- `Prover::generate_proof::<E>`; `gens` = the generation rules of the auxiliary columns (the family's
    `build_aux_trace`), unused without an auxiliary segment -/
def proveRun (J : Inst) (E : EOps) (d : Desc) (trace : List (List Nat)) (o : Serde.ProofOptions)
    (gens : List AuxGen := []) : PRes Run :=
  match (match d.aux with
         | none => phase1 J E d trace o
         | some x => phase1Aux J E d x gens trace o) with
  | .error e => .error e
  | .ok p1 =>
    match phase2 J E o (d.air.n * o.blowup) p1.deepEvals p1.c7 with
    | .error e => .error e
    | .ok p2 =>
      match phase3 J E o (d.air.n * o.blowup) p1 p2 with
      | .error e => .error e
      | .ok p3 =>
        match p1.auxCommit with
        | none => .ok ⟨p1, p2, p3, none⟩
        | some ac =>
          match ac.openAt J p3.positions with
          | .ok ao => .ok ⟨p1, p2, p3, some ao⟩
          | .error e => .error e

/-! ## 6. Serialization -/

/-- canonical coordinates of an element / a digest (`as_int` of every coordinate) -/
def canon (J : Inst) (x : List Nat) : List Nat := x.map J.I.asInt

/-- `Queries::new(batch proof, rows)` -/
def queriesOf (J : Inst) (deg : Nat) (o : VerifierChecks.Opening El Dg) : PRes Serde.Queries :=
  ofOpt "Queries::new"
    (Serde.queriesNew (VerifierChecks.extElem J.I deg) J.digest (o.nodes.map (·.map (canon J))) (o.rows.map (·.map (canon J))))

/-- `FriProofLayer::new(rows, batch proof)` -/
def friLayerOf (J : Inst) (deg : Nat) (o : VerifierChecks.Opening El Dg) : PRes Serde.FriLayer :=
  if o.rows.isEmpty then .error "FriProofLayer::new"
  else
    match Serde.serializeNodes J.digest (o.nodes.map (·.map (canon J))) with
    | none => .error "serialize_nodes"
    | some paths =>
      .ok ⟨(o.rows.map fun r => Serde.encMany (VerifierChecks.extElem J.I deg) (r.map (canon J))).flatten, paths⟩

/-- `ProverChannel::build_proof`: the `Proof` object -/
def proofOf (J : Inst) (r : Run) : PRes Serde.Proof :=
  let deg := r.ctx.options.fieldExt
  let e := VerifierChecks.extElem J.I deg
  let cdeint := Serde.deinterleave r.cm.oodTrace
  match (r.op.traceOpenings.zipIdx.mapM fun oi => queriesOf J (if oi.2 = 0 then 1 else deg) oi.1),
      queriesOf J deg r.op.constraintOpening,
      r.op.friLayers.mapM (friLayerOf J deg),
      Serde.oodSetTraceStates e (cdeint.1.map (canon J)) (cdeint.2.map (canon J)) none,
      Serde.oodSetEvaluations e (r.cm.oodEvals.map (canon J)) with
  | .ok tq, .ok cq, .ok fl, some (ts, lag), some ev =>
    let remBytes := Serde.encMany e (r.op.remainder.map (canon J))
    if remBytes.length > 65535 then .error "FriProof::new: remainder bytes"
    else
      .ok { context := r.ctx, numUniqueQueries := r.positions.length,
            commitments := Serde.commitmentsNew J.digest (r.cm.traceRoots.map (canon J)) (canon J r.cm.constraintRoot)
              (r.cm.friRoots.map (canon J)),
            traceQueries := tq, constraintQueries := cq, oodFrame := ⟨ts, lag, ev⟩,
            friProof := ⟨fl, remBytes, 0⟩, powNonce := r.cm.powNonce, gkrProof := none }
  | .error e, _, _, _, _ => .error e
  | _, .error e, _, _, _ => .error e
  | _, _, .error e, _, _ => .error e
  | _, _, _, _, _ => .error "OodFrame"

/-! ## 7. The reference prover -/

/-- `Prover::prove`: dispatch on the field extension of the options (`UnsupportedFieldExtension` is the only
    `ProverError` this can return; all three instances support both extensions) -/
def refProveRun (J : Inst) (d : Desc) (trace : List (List Nat)) (o : Serde.ProofOptions)
    (gens : List AuxGen := []) : PRes Run :=
  match extOps J o.fieldExt with
  | none => .error "FieldExtension"
  | some E => proveRun J E d trace o gens

/-- **the reference prover**: the proof object -/
def refProveProof (J : Inst) (d : Desc) (trace : List (List Nat)) (o : Serde.ProofOptions)
    (gens : List AuxGen := []) : PRes Serde.Proof :=
  match refProveRun J d trace o gens with
  | .ok r => proofOf J r
  | .error e => .error e

/-- **the reference prover**: `prove(trace).to_bytes()` -/
def refProve (J : Inst) (d : Desc) (trace : List (List Nat)) (o : Serde.ProofOptions)
    (gens : List AuxGen := []) : PRes (List Nat) :=
  match refProveProof J d trace o gens with
  | .ok p => if Serde.proof.wpanic p then .error "Proof::write_into" else .ok (Serde.proof.enc p)
  | .error e => .error e

/-- the public inputs the verifier is given for a proof of `trace` -/
def refPubInputs (J : Inst) (d : Desc) (trace : List (List Nat)) : List Nat :=
  (pubInputs d J.I.M trace).getD []

end Model.RefProver
