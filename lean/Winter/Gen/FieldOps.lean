-- GENERATED operations record of the field-generic modules -- do not edit
import Winter.Gen.Prelude
namespace Gen
/-- the field operations of the generic polynomial, divisor and FRI code (`E: FieldElement`): `FOps` and
    `inv()`, `/`, `==`, `exp(n)` -/
structure FOpsX (F : Type) extends FOps F where
  inv : F → F
  div : F → F → F
  beq : F → F → Bool
  /-- `x == E::ZERO`, `x == E::ONE` -/
  isZero : F → Bool
  isOne : F → Bool
  pow : F → Nat → F
  /-- `get_root_of_unity(k)` and the condition under which its assertions hold -/
  root : Nat → F
  rootOk : Nat → Bool

end Gen
