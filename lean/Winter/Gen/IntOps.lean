-- GENERATED primitives of the integer-logic modules -- do not edit
namespace Gen
/-- `is_power_of_two` -/
def isPow2 (x : Nat) : Bool := x != 0 && 2 ^ x.log2 == x

/-- `next_power_of_two`, unbounded (the `_ok` condition of the caller states that it fits the type) -/
def nextPow2 (x : Nat) : Nat := if x ≤ 1 then 1 else 2 ^ ((x - 1).log2 + 1)

/-- number of significant bits -/
def bitLen (x : Nat) : Nat := if x = 0 then 0 else x.log2 + 1

/-- `leading_zeros` of a `w`-bit word -/
def clz (w x : Nat) : Nat := w - bitLen x

/-- `trailing_zeros` of a `w`-bit word (`w` for zero) -/
def ctz : Nat → Nat → Nat
  | 0, _ => 0
  | w + 1, x => if x % 2 = 1 then 0 else ctz w (x / 2) + 1

/-- `reverse_bits` of a `w`-bit word -/
def revBits : Nat → Nat → Nat
  | 0, _ => 0
  | w + 1, x => (x % 2) * 2 ^ w + revBits w (x / 2)

end Gen
