-- GENERATED prelude -- do not edit
namespace Gen
/-- two's-complement reinterpretation of an unsigned `w`-bit word as a signed integer -/
def toSigned (w : Nat) (x : Nat) : Int :=
  if x % 2 ^ w < 2 ^ (w - 1) then Int.ofNat (x % 2 ^ w) else Int.ofNat (x % 2 ^ w) - Int.ofNat (2 ^ w)

/-- the base-field operations an `ExtensibleField` formula is written against -/
structure FOps (F : Type) where
  add : F → F → F
  sub : F → F → F
  mul : F → F → F
  neg : F → F
  double : F → F
  square : F → F
  ofNat : Nat → F

end Gen
