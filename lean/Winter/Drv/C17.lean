-- line-protocol handler of property C17 (constraint composition polynomial); op lines mirror
-- harness/src/bin/c17.rs.  Modelled: `def` ops with explicit data over the base fields and their
-- quadratic / cubic extensions, without a Lagrange kernel column (definition, prover pipeline, verifier
-- expression); everything else is `-`.
import Std.Data.HashMap
import Winter.Drv.Util
import Winter.Model.Field
import Winter.Model.Ext
import Winter.Model.Divisor
import Winter.Model.Composition

namespace Drv.C17
open Model Model.Divisor Model.Composition

def field? : String → Option FieldImpl
  | "f64" => some F64.impl
  | "f62" => some F62.impl
  | "f128" => some F128.impl
  | _ => none

/-- square-and-multiply over the field's own multiplication (exponents below 2^130); the same field
    value as the code's `exp` / repeated multiplication (outputs are canonical integers) -/
def powLoop {ε : Type} (mul : ε → ε → ε) : Nat → ε → ε → Nat → ε
  | 0, r, _, _ => r
  | fuel + 1, r, b, e =>
    if e = 0 then r else powLoop mul fuel (if e % 2 = 1 then mul r b else r) (mul b b) (e / 2)

/-- powers of the root of unity `W` of order `N` (the LDE domain size) and the discrete logarithms
    of its powers, keyed by canonical value: every root of unity the instance uses is a power of `W`,
    and the inverse DFTs of the model raise them to O(N²) exponents -/
structure PowTable where
  N : Nat
  pows : Array Nat
  logs : Std.HashMap Nat Nat

def mkPowTable (F : FieldImpl) (N : Nat) : PowTable :=
  match F.rootOfUnity (Nat.log2 N) with
  | none => ⟨0, #[], {}⟩
  | some W =>
    let st := (List.range N).foldl (fun (st : Nat × Array Nat × Std.HashMap Nat Nat) i =>
      (F.mul st.1 W, st.2.1.push st.1, st.2.2.insert (F.asInt st.1) i)) (F.new 1, #[], {})
    ⟨N, st.2.1, st.2.2⟩

/-- one field of the protocol (a base field or an extension of it) for the driver: the model's
    operation record on the code's raw representation, conversions from / to canonical coordinates -/
structure ElemImpl (ε : Type) where
  k : Nat
  O : Ops ε
  ofCanon : List Nat → ε
  canon : ε → List Nat
  beq : ε → ε → Bool

/-- `x^e`: by table when `x` is (the embedding of) a power of `W`, else square-and-multiply over the
    field's own multiplication (the same field value; outputs are canonical integers) -/
def tpow {ε : Type} (T : PowTable) (canon : ε → List Nat) (ofBaseRaw : Nat → ε) (mul : ε → ε → ε) (one : ε)
    (x : ε) (e : Nat) : ε :=
  match canon x with
  | c0 :: rest =>
    if rest.all (· == 0) then
      match T.logs.get? c0 with
      | some j => ofBaseRaw (T.pows.getD ((j * e) % T.N) 0)
      | none => powLoop mul 130 one x e
    else powLoop mul 130 one x e
  | [] => powLoop mul 130 one x e

/-- the base field: the code's operations on raw words -/
def baseImpl (F : FieldImpl) (T : PowTable) : ElemImpl Nat where
  k := 1
  O := {
    zero := F.new 0
    one := F.new 1
    add := F.add
    sub := F.sub
    mul := F.mul
    pow := tpow T (fun x => [F.asInt x]) id F.mul (F.new 1)
    div := fun a b => match F.div a b with
      | .done r => some r
      | .out => none
    ofNat := fun v => F.new (v % F.M)
    root := F.rootOfUnity }
  ofCanon := fun l => F.new (l.headD 0)
  canon := fun x => [F.asInt x]
  beq := F.eq

def ext2? (F : FieldImpl) : Option (Ext2 Nat) :=
  let B := (BOps.ofImpl F).toFOps
  if F.name == "f64" then some (Ext2.f64 B) else if F.name == "f62" then some (Ext2.f62 B)
  else if F.name == "f128" then some (Ext2.f128 B) else none

def ext3? (F : FieldImpl) : Option (Ext3 Nat) :=
  let B := (BOps.ofImpl F).toFOps
  if F.name == "f64" then some (Ext3.f64 B) else if F.name == "f62" then some (Ext3.f62 B) else none

/-- `QuadExtension<B>`: the code's operations (Winter/Model/Ext.lean) on pairs of raw words -/
def quadImpl (F : FieldImpl) (X : Ext2 Nat) (T : PowTable) : ElemImpl (Quad Nat) :=
  let B := BOps.ofImpl F
  let canon : Quad Nat → List Nat := fun x => [F.asInt x.c0, F.asInt x.c1]
  { k := 2
    O := {
      zero := Quad.zero B
      one := Quad.one B
      add := Quad.add B
      sub := Quad.sub B
      mul := Quad.mul X
      pow := tpow T canon (Quad.ofBase B) (Quad.mul X) (Quad.one B)
      div := fun a b => match Quad.div B X a b with
        | .ok r => some r
        | _ => none
      ofNat := fun v => Quad.ofBase B (F.new (v % F.M))
      root := fun k => (F.rootOfUnity k).map (Quad.ofBase B) }
    ofCanon := fun l => ⟨F.new (l.getD 0 0), F.new (l.getD 1 0)⟩
    canon := canon
    beq := Quad.beq B }

/-- `CubeExtension<B>` -/
def cubeImpl (F : FieldImpl) (X : Ext3 Nat) (T : PowTable) : ElemImpl (Cube Nat) :=
  let B := BOps.ofImpl F
  let canon : Cube Nat → List Nat := fun x => [F.asInt x.c0, F.asInt x.c1, F.asInt x.c2]
  { k := 3
    O := {
      zero := Cube.zero B
      one := Cube.one B
      add := Cube.add B
      sub := Cube.sub B
      mul := Cube.mul X
      pow := tpow T canon (Cube.ofBase B) (Cube.mul X) (Cube.one B)
      div := fun a b => match Cube.div B X a b with
        | .ok r => some r
        | _ => none
      ofNat := fun v => Cube.ofBase B (F.new (v % F.M))
      root := fun k => (F.rootOfUnity k).map (Cube.ofBase B) }
    ofCanon := fun l => ⟨F.new (l.getD 0 0), F.new (l.getD 1 0), F.new (l.getD 2 0)⟩
    canon := canon
    beq := Cube.beq B }

-- ------------------------------------------------------------------------------------ parsing
def digits? (cs : List Char) : Option Nat :=
  if cs.isEmpty then none
  else cs.foldl (fun acc c => match acc with
    | none => none
    | some v => if '0' ≤ c ∧ c ≤ '9' then some (v * 10 + (c.toNat - 48)) else none) (some 0)

def nat? (s : String) : Option Nat := digits? s.toList

/-- leading decimal number of a character list -/
def takeNum (cs : List Char) : Option (Nat × List Char) :=
  let ds := cs.takeWhile (fun c => '0' ≤ c ∧ c ≤ '9')
  match digits? ds with
  | some v => some (v, cs.drop ds.length)
  | none => none

/-- prefix-notation expression (genair `Expr::parse`); `/` (generation rules only) is rejected -/
def parseExpr : Nat → List Char → Option (Expr × List Char)
  | 0, _ => none
  | _ + 1, [] => none
  | fuel + 1, c :: rest =>
    let atom (mk : Nat → Expr) : Option (Expr × List Char) :=
      match takeNum rest with
      | some (v, r) => some (mk v, r)
      | none => none
    let bin (mk : Expr → Expr → Expr) : Option (Expr × List Char) :=
      match parseExpr fuel rest with
      | some (a, r1) =>
        match parseExpr fuel r1 with
        | some (b, r2) => some (mk a b, r2)
        | none => none
      | none => none
    if c = 'k' then atom .const
    else if c = 'c' then atom .cur
    else if c = 'n' then atom .nxt
    else if c = 'p' then atom .per
    else if c = 'a' then atom .acur
    else if c = 'b' then atom .anxt
    else if c = 'r' then atom .rand
    else if c = 'v' then atom .pub
    else if c = 'w' then atom .pubSeq
    else if c = '+' then bin .add
    else if c = '-' then bin .sub
    else if c = '*' then bin .mul
    else if c = '^' then
      match takeNum rest with
      | some (k, r) =>
        match parseExpr fuel r with
        | some (a, r2) => some (.pow a k, r2)
        | none => none
      | none => none
    else if c = '~' then
      match parseExpr fuel rest with
      | some (a, r) => some (.neg a, r)
      | none => none
    else none

def expr? (s : String) : Option Expr :=
  let cs := s.toList
  match parseExpr (cs.length + 1) cs with
  | some (e, []) => some e
  | _ => none

/-- `<base>[.<cycle>]*:<expr>` -/
def constraint? (s : String) : Option (Degree × Expr) :=
  match s.splitOn ":" with
  | [d, e] =>
    match (d.splitOn ".").mapM nat?, expr? e with
    | some (b :: cs), some e => some (⟨b, cs⟩, e)
    | _, _ => none
  | _ => none

def listOf {β : Type} (f : String → Option β) (s : String) (sep : String) : Option (List β) :=
  if s.isEmpty then some [] else (s.splitOn sep).mapM f

/-- assertion shape: kind, column, first step, stride -/
structure AShape where
  kind : Char
  column : Nat
  first : Nat
  stride : Nat

def ashape? (s : String) : Option AShape :=
  match s.toList with
  | k :: rest =>
    match ((String.ofList rest).splitOn ".").mapM nat? with
    | some [c, st] => if k = 's' then some ⟨k, c, st, 0⟩ else none
    | some [c, f, st] => if k = 'p' ∨ k = 'q' then some ⟨k, c, f, st⟩ else none
    | _ => none
  | [] => none

def auxAssert? (s : String) : Option (AShape × Expr) :=
  match s.splitOn "=" with
  | [a, e] =>
    match ashape? a, expr? e with
    | some a, some e => some (a, e)
    | _, _ => none
  | _ => none

structure Desc where
  width : Nat := 0
  n : Nat := 0
  e : Nat := 1
  periodic : List (List Nat) := []
  cons : List (Degree × Expr) := []
  asserts : List AShape := []
  hasAux : Bool := false
  auxWidth : Nat := 0
  numRands : Nat := 0
  lagrange : Bool := false
  auxCons : List (Degree × Expr) := []
  auxAsserts : List (AShape × Expr) := []

def descField (d : Desc) (k v : String) : Option Desc :=
  if k = "w" then (nat? v).map (fun x => { d with width := x })
  else if k = "l" then (nat? v).map (fun x => { d with n := x })
  else if k = "e" then (nat? v).map (fun x => { d with e := x })
  else if k = "j" ∨ k = "g" ∨ k = "h" then some d
  else if k = "p" then (listOf (fun c => listOf nat? c ".") v "|").map (fun x => { d with periodic := x })
  else if k = "t" then (listOf constraint? v ",").map (fun x => { d with cons := x })
  else if k = "a" then (listOf ashape? v ",").map (fun x => { d with asserts := x })
  else if k = "x" then
    match (v.splitOn ".").mapM nat? with
    | some [w, r, l] => some { d with hasAux := true, auxWidth := w, numRands := r, lagrange := l != 0 }
    | _ => none
  else if k = "u" then (listOf constraint? v ",").map (fun x => { d with auxCons := x })
  else if k = "b" then (listOf auxAssert? v ",").map (fun x => { d with auxAsserts := x })
  else none

def desc? (s : String) : Option Desc :=
  (s.splitOn ";").foldl (fun acc field =>
    match acc with
    | none => none
    | some d =>
      if field.isEmpty then some d
      else match field.splitOn "=" with
        | k :: v :: more => descField d k ("=".intercalate (v :: more))
        | _ => none) (some {})

/-- index ranges of all atoms (descriptions are validated before anything is evaluated) -/
def exprOk (w np aw nr npub : Nat) (main value : Bool) : Expr → Bool
  | .const _ => true
  | .cur i | .nxt i => !value && i < w
  | .per i => !value && i < np
  | .acur i | .anxt i => !main && !value && i < aw
  | .rand i => !main && i < nr
  | .pub i | .pubSeq i => value && i < npub
  | .add a b | .sub a b | .mul a b => exprOk w np aw nr npub main value a && exprOk w np aw nr npub main value b
  | .pow a k => k ≤ 64 && exprOk w np aw nr npub main value a
  | .neg a => exprOk w np aw nr npub main value a

def shapeOk (n width : Nat) (a : AShape) : Bool :=
  a.column < width &&
  (if a.kind = 's' then a.first < n
   else a.stride ≥ 2 && isPow2 a.stride && a.stride ≤ n && a.first < a.stride)

def numValues (n : Nat) (a : AShape) : Nat := if a.kind = 'q' then n / a.stride else 1

def Desc.numPubs (d : Desc) : Nat := (d.asserts.map (numValues d.n)).sum

def Desc.ok (d : Desc) : Bool :=
  let np := d.periodic.length
  let regular := d.auxWidth - (if d.lagrange then 1 else 0)
  d.width ≥ 1 && d.width + d.auxWidth ≤ 255 && d.n ≥ 8 && isPow2 d.n && d.n ≤ 4096 &&
  d.periodic.all (fun p => p.length ≥ 2 && isPow2 p.length && p.length ≤ d.n) &&
  !d.cons.isEmpty && !d.asserts.isEmpty &&
  d.cons.all (fun c => c.1.base ≥ 1 && c.1.cycles.all (fun cy => cy ≥ 2 && isPow2 cy) &&
    exprOk d.width np 0 0 0 true false c.2) &&
  d.asserts.all (shapeOk d.n d.width) &&
  (!d.hasAux ||
    (d.auxWidth ≥ 1 && !d.auxCons.isEmpty && !d.auxAsserts.isEmpty &&
     d.auxCons.all (fun c => c.1.base ≥ 1 && c.1.cycles.all (fun cy => cy ≥ 2 && isPow2 cy) &&
       exprOk d.width np d.auxWidth d.numRands 0 false false c.2) &&
     d.auxAsserts.all (fun a => shapeOk d.n regular a.1 &&
       exprOk 0 0 0 d.numRands d.numPubs false true a.2)))

-- ------------------------------------------------------------------------------------ data token
structure Data where
  main : List (List Nat)
  aux : List (List (List Nat))
  rands : List (List Nat)
  lagr : List (List Nat)
  coeffs : List (List Nat)
  points : List (List Nat)

def section? (tag : Char) (s : String) : Option String :=
  match s.toList with
  | c :: rest => if c = tag then some (String.ofList rest) else none
  | [] => none

/-- one element: its canonical coordinates separated by `:` -/
def elem? (s : String) : Option (List Nat) := listOf nat? s ":"

def data? (s : String) : Option Data :=
  match s.toList with
  | 'x' :: rest =>
    match (String.ofList rest).splitOn "/" with
    | [t, a, r, l, c, p] =>
      match section? 'T' t, section? 'A' a, section? 'R' r, section? 'L' l, section? 'C' c, section? 'P' p with
      | some t, some a, some r, some l, some c, some p =>
        match listOf (fun col => listOf nat? col ",") t "|", listOf (fun col => listOf elem? col ",") a "|",
              listOf elem? r ",", listOf elem? l ",", listOf elem? c ",", listOf elem? p "," with
        | some t, some a, some r, some l, some c, some p => some ⟨t, a, r, l, c, p⟩
        | _, _, _, _, _, _ => none
      | _, _, _, _, _, _ => none
    | _ => none
  | _ => none

-- ------------------------------------------------------------------------------------ the instance
section Run
variable {ε : Type}

def fnOf (O : Ops ε) (l : List ε) : Nat → ε := fun i => l.getD i O.zero
def colFn (cols : List (List ε)) : Nat → List ε := fun j => cols.getD j []

def buildAssertion (O : Ops ε) (a : AShape) (values : List ε) : Option (Assertion ε) :=
  if a.kind = 's' then some (single a.column a.first (values.headD O.zero))
  else if a.kind = 'p' then resOpt (periodic a.column a.first a.stride (values.headD O.zero))
  else resOpt (sequence a.column a.first a.stride values)

/-- the steps an assertion covers -/
def stepsOf (n : Nat) (a : AShape) : List Nat :=
  if a.kind = 's' then [a.first] else (List.range (n / a.stride)).map (fun k => a.first + k * a.stride)

/-- the asserted values of the main segment read off the trace, in assertion order -/
def pubsOf (O : Ops ε) (d : Desc) (main : List (List ε)) : List ε :=
  d.asserts.flatMap (fun a =>
    let col := main.getD a.column []
    if a.kind = 'q' then (stepsOf d.n a).map (fun s => col.getD s O.zero) else [col.getD a.first O.zero])

/-- the main assertions with their values -/
def mainAssertions (O : Ops ε) (d : Desc) (pubs : List ε) : Option (List (Assertion ε)) :=
  (d.asserts.foldl (fun (st : Option (List (Assertion ε)) × Nat) a =>
    let k := numValues d.n a
    match st.1, buildAssertion O a ((pubs.drop st.2).take k) with
    | some l, some x => (some (l ++ [x]), st.2 + k)
    | _, _ => (none, st.2 + k)) (some [], 0)).1

def valueEnv (O : Ops ε) (rands pubs : List ε) (seq : Nat) : Env ε :=
  ⟨fun _ => O.zero, fun _ => O.zero, fun _ => O.zero, fun _ => O.zero, fun _ => O.zero,
   fnOf O rands, fnOf O pubs, seq⟩

def auxAssertions (O : Ops ε) (d : Desc) (rands pubs : List ε) : Option (List (Assertion ε)) :=
  d.auxAsserts.mapM (fun p =>
    let k := numValues d.n p.1
    buildAssertion O p.1 ((List.range k).map (fun j => p.2.eval O (valueEnv O rands pubs j))))

/-- reference validity: every constraint on the steps `0 .. n-e-1`, every auxiliary assertion -/
def valid (E : ElemImpl ε) (d : Desc) (main aux : List (List ε)) (rands pubs : List ε) : Bool :=
  let O := E.O
  let isZero (v : ε) : Bool := (E.canon v).all (· == 0)
  let cell (cols : List (List ε)) (s : Nat) : Nat → ε := fun j => (cols.getD j []).getD s O.zero
  (List.range (d.n - d.e)).all (fun s =>
    let per : Nat → ε := fun i => let p := d.periodic.getD i []; O.ofNat (p.getD (s % p.length) 0)
    let env : Env ε := ⟨cell main s, cell main (s + 1), per, cell aux s, cell aux (s + 1),
      fnOf O rands, fun _ => O.zero, 0⟩
    d.cons.all (fun c => isZero (c.2.eval O env)) && d.auxCons.all (fun c => isZero (c.2.eval O env))) &&
  d.auxAsserts.all (fun p =>
    (stepsOf d.n p.1).zipIdx.all (fun sj =>
      let j := if p.1.kind = 'q' then sj.2 else 0
      E.canon ((aux.getD p.1.column []).getD sj.1 O.zero) == E.canon (p.2.eval O (valueEnv O rands pubs j))))

def fmtElem (E : ElemImpl ε) (v : ε) : String := ":".intercalate ((E.canon v).map toString)

def fmtList (E : ElemImpl ε) (l : List ε) : String := ",".intercalate (l.map (fmtElem E))

def optStr (E : ElemImpl ε) : Option ε → String
  | some v => fmtElem E v
  | none => "none"

def runDef (tw : Bool) (M : Nat) (offset : Nat) (E : ElemImpl ε) (ldeBlowup : Nat) (d : Desc) (dt : Data) : String :=
  let O := E.O
  let n := d.n
  let (nt, nb) := (d.cons.length + d.auxCons.length, d.asserts.length + d.auxAsserts.length)
  let elems := dt.aux.flatten ++ dt.rands ++ dt.coeffs ++ dt.points
  if !d.ok || dt.main.length != d.width || dt.main.any (fun c => c.length != n)
      || dt.aux.length != d.auxWidth || dt.aux.any (fun c => c.length != n)
      || dt.rands.length != d.numRands || !dt.lagr.isEmpty || dt.coeffs.length != nt + nb
      || dt.main.any (fun c => c.any (fun v => v ≥ M))
      || elems.any (fun e => e.length != E.k || e.any (fun v => v ≥ M)) then "bad-op"
  else
    let degs := d.cons.map (·.1) ++ d.auxCons.map (·.1)
    let ceB := ceBlowup degs
    if !(isPow2 ldeBlowup && 2 ≤ ldeBlowup && ldeBlowup ≤ 128 && ceB ≤ ldeBlowup) || (tw && ceB != ldeBlowup) then "bad-op"
    else match setNumTransitionExemptions n degs d.e with
    | .panic _ => "bad-op"
    | .ok _ =>
      let emb (v : Nat) : ε := E.ofCanon (v :: List.replicate (E.k - 1) 0)
      let main := dt.main.map (fun c => c.map emb)
      let aux := dt.aux.map (fun c => c.map E.ofCanon)
      let randsL := dt.rands.map E.ofCanon
      let coeffs := dt.coeffs.map E.ofCanon
      let points := dt.points.map E.ofCanon
      let pubs := pubsOf O d main
      let rands := fnOf O randsL
      match mainAssertions O d pubs, auxAssertions O d randsL pubs with
      | some ma, some aa =>
        if !valid E d main aux randsL pubs then "invalid"
        else
          let air : Air ε := ⟨n, d.e, d.width, d.auxWidth, d.periodic.map (fun p => p.map O.ofNat),
            d.cons.map (·.2), d.auxCons.map (·.2), d.cons.map (·.1), d.auxCons.map (·.1), ma, aa⟩
          let (tco, bco, _) := drawCoefficients coeffs nt nb
          let k := numCompColumns degs n d.e
          match prep O air, main.mapM (interpolate O), aux.mapM (interpolate O),
                mkDomain O n ceB ldeBlowup (emb offset) with
          | some P, some mp, some ap, some D =>
            let mainPolys := colFn mp
            let auxPolys := colFn ap
            let cols :=
              match compositionTrace O E.beq air P D smallPolyDegree mainPolys auxPolys rands tco bco with
              | some tr => compositionPoly O D tr k
              | none => none
            let pts := points.map (fun x =>
              if E.canon (O.pow x n) == E.canon O.one then "dom"
              else
                let h := match cols with
                  | some cols => fmtList E (evaluateAt O cols x)
                  | none => "none"
                let c := defAt O air P mainPolys auxPolys rands tco bco x
                let v := evaluateConstraints O air P (framesOf O mainPolys auxPolys P.g x) rands tco bco x
                s!"{h};{optStr E c};{optStr E v}")
            s!"k={k}" ++ String.join (pts.map (fun p => " " ++ p))
          | _, _, _, _ => "bad-op"
      | _, _ => "bad-op"

end Run

def handleDef (tw : Bool) (f ext blowup data desc : String) : String :=
    match field? f, nat? ext, nat? blowup with
    | some F, some x, some b =>
      match data.toList with
      | 'x' :: _ =>
        match desc? desc, data? data with
        | some d, some dt =>
          if d.lagrange then "-"
          else
            let T := mkPowTable F (if d.n ≤ 4096 ∧ b ≤ 128 then d.n * b else 1)
            let g := F.generator
            if x = 1 then runDef tw F.M g (baseImpl F T) b d dt
            else if x = 2 then
              match ext2? F with
              | some X => runDef tw F.M g (quadImpl F X T) b d dt
              | none => "-"
            else if x = 3 then
              match ext3? F with
              | some X => runDef tw F.M g (cubeImpl F X T) b d dt
              | none => "-"
            else "-"
        | _, _ => "bad-op"
      | _ => "-"
    | _, _, _ => "-"

/-- `deft` differs from `def` only in the constructor of the prover's domain (same values) -/
def handle : List String → String
  | ["def", f, ext, blowup, data, desc] => handleDef false f ext blowup data desc
  | ["deft", f, ext, blowup, data, desc] => handleDef true f ext blowup data desc
  | _ => "-"

end Drv.C17

def main : IO Unit := Drv.runLoop Drv.C17.handle
