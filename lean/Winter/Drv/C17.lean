-- line-protocol handler of property C17 (stub: nothing modelled yet)
import Winter.Drv.Util

namespace Drv.C17

def handle (_toks : List String) : String := "-"

end Drv.C17

def main : IO Unit := Drv.runLoop Drv.C17.handle
