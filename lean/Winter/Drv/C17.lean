-- line-protocol handler of property C17 (constraint composition polynomial); op lines mirror
-- harness/src/bin/c17.rs.  Modelled: `def` ops with explicit data over the base fields without a
-- Lagrange kernel column (definition, prover pipeline, verifier expression); everything else is `-`.
import Std.Data.HashMap
import Winter.Drv.Util
import Winter.Model.Field
import Winter.Model.Divisor
import Winter.Model.Composition

namespace Drv.C17
open Model Model.Divisor Model.Composition

def field? : String → Option FieldImpl
  | "f64" => some F64.impl
  | "f62" => some F62.impl
  | "f128" => some F128.impl
  | _ => none

/-- square-and-multiply over the field's own multiplication (exponents below 2^130); the same field
    value as the code's `exp` / repeated multiplication (outputs are canonical integers) -/
def powLoop (mul : Nat → Nat → Nat) : Nat → Nat → Nat → Nat → Nat
  | 0, r, _, _ => r
  | fuel + 1, r, b, e =>
    if e = 0 then r else powLoop mul fuel (if e % 2 = 1 then mul r b else r) (mul b b) (e / 2)

/-- powers of the root of unity `W` of order `N` (the LDE domain size) and the discrete logarithms
    of its powers, keyed by canonical value: every root of unity the instance uses is a power of `W`,
    and the inverse DFTs of the model raise them to O(N²) exponents -/
structure PowTable where
  N : Nat
  pows : Array Nat
  logs : Std.HashMap Nat Nat

def mkPowTable (F : FieldImpl) (N : Nat) : PowTable :=
  match F.rootOfUnity (Nat.log2 N) with
  | none => ⟨0, #[], {}⟩
  | some W =>
    let st := (List.range N).foldl (fun (st : Nat × Array Nat × Std.HashMap Nat Nat) i =>
      (F.mul st.1 W, st.2.1.push st.1, st.2.2.insert (F.asInt st.1) i)) (F.new 1, #[], {})
    ⟨N, st.2.1, st.2.2⟩

/-- `x^e`: by table when `x` is a power of `W`, else square-and-multiply (the same field value) -/
def tpow (F : FieldImpl) (T : PowTable) (x e : Nat) : Nat :=
  match T.logs.get? (F.asInt x) with
  | some j => T.pows.getD ((j * e) % T.N) (F.new 1)
  | none => powLoop F.mul 130 (F.new 1) x e

/-- the code's field operations on raw words -/
def ops (F : FieldImpl) (T : PowTable) : Ops Nat where
  zero := F.new 0
  one := F.new 1
  add := F.add
  sub := F.sub
  mul := F.mul
  pow := tpow F T
  div := fun a b => match F.div a b with
    | .done r => some r
    | .out => none
  ofNat := fun v => F.new (v % F.M)
  root := F.rootOfUnity

-- ------------------------------------------------------------------------------------ parsing
def digits? (cs : List Char) : Option Nat :=
  if cs.isEmpty then none
  else cs.foldl (fun acc c => match acc with
    | none => none
    | some v => if '0' ≤ c ∧ c ≤ '9' then some (v * 10 + (c.toNat - 48)) else none) (some 0)

def nat? (s : String) : Option Nat := digits? s.toList

/-- leading decimal number of a character list -/
def takeNum (cs : List Char) : Option (Nat × List Char) :=
  let ds := cs.takeWhile (fun c => '0' ≤ c ∧ c ≤ '9')
  match digits? ds with
  | some v => some (v, cs.drop ds.length)
  | none => none

/-- prefix-notation expression (genair `Expr::parse`); `/` (generation rules only) is rejected -/
def parseExpr : Nat → List Char → Option (Expr × List Char)
  | 0, _ => none
  | _ + 1, [] => none
  | fuel + 1, c :: rest =>
    let atom (mk : Nat → Expr) : Option (Expr × List Char) :=
      match takeNum rest with
      | some (v, r) => some (mk v, r)
      | none => none
    let bin (mk : Expr → Expr → Expr) : Option (Expr × List Char) :=
      match parseExpr fuel rest with
      | some (a, r1) =>
        match parseExpr fuel r1 with
        | some (b, r2) => some (mk a b, r2)
        | none => none
      | none => none
    if c = 'k' then atom .const
    else if c = 'c' then atom .cur
    else if c = 'n' then atom .nxt
    else if c = 'p' then atom .per
    else if c = 'a' then atom .acur
    else if c = 'b' then atom .anxt
    else if c = 'r' then atom .rand
    else if c = 'v' then atom .pub
    else if c = 'w' then atom .pubSeq
    else if c = '+' then bin .add
    else if c = '-' then bin .sub
    else if c = '*' then bin .mul
    else if c = '^' then
      match takeNum rest with
      | some (k, r) =>
        match parseExpr fuel r with
        | some (a, r2) => some (.pow a k, r2)
        | none => none
      | none => none
    else if c = '~' then
      match parseExpr fuel rest with
      | some (a, r) => some (.neg a, r)
      | none => none
    else none

def expr? (s : String) : Option Expr :=
  let cs := s.toList
  match parseExpr (cs.length + 1) cs with
  | some (e, []) => some e
  | _ => none

/-- `<base>[.<cycle>]*:<expr>` -/
def constraint? (s : String) : Option (Degree × Expr) :=
  match s.splitOn ":" with
  | [d, e] =>
    match (d.splitOn ".").mapM nat?, expr? e with
    | some (b :: cs), some e => some (⟨b, cs⟩, e)
    | _, _ => none
  | _ => none

def listOf {β : Type} (f : String → Option β) (s : String) (sep : String) : Option (List β) :=
  if s.isEmpty then some [] else (s.splitOn sep).mapM f

/-- assertion shape: kind, column, first step, stride -/
structure AShape where
  kind : Char
  column : Nat
  first : Nat
  stride : Nat

def ashape? (s : String) : Option AShape :=
  match s.toList with
  | k :: rest =>
    match ((String.ofList rest).splitOn ".").mapM nat? with
    | some [c, st] => if k = 's' then some ⟨k, c, st, 0⟩ else none
    | some [c, f, st] => if k = 'p' ∨ k = 'q' then some ⟨k, c, f, st⟩ else none
    | _ => none
  | [] => none

def auxAssert? (s : String) : Option (AShape × Expr) :=
  match s.splitOn "=" with
  | [a, e] =>
    match ashape? a, expr? e with
    | some a, some e => some (a, e)
    | _, _ => none
  | _ => none

structure Desc where
  width : Nat := 0
  n : Nat := 0
  e : Nat := 1
  periodic : List (List Nat) := []
  cons : List (Degree × Expr) := []
  asserts : List AShape := []
  hasAux : Bool := false
  auxWidth : Nat := 0
  numRands : Nat := 0
  lagrange : Bool := false
  auxCons : List (Degree × Expr) := []
  auxAsserts : List (AShape × Expr) := []

def descField (d : Desc) (k v : String) : Option Desc :=
  if k = "w" then (nat? v).map (fun x => { d with width := x })
  else if k = "l" then (nat? v).map (fun x => { d with n := x })
  else if k = "e" then (nat? v).map (fun x => { d with e := x })
  else if k = "j" ∨ k = "g" ∨ k = "h" then some d
  else if k = "p" then (listOf (fun c => listOf nat? c ".") v "|").map (fun x => { d with periodic := x })
  else if k = "t" then (listOf constraint? v ",").map (fun x => { d with cons := x })
  else if k = "a" then (listOf ashape? v ",").map (fun x => { d with asserts := x })
  else if k = "x" then
    match (v.splitOn ".").mapM nat? with
    | some [w, r, l] => some { d with hasAux := true, auxWidth := w, numRands := r, lagrange := l != 0 }
    | _ => none
  else if k = "u" then (listOf constraint? v ",").map (fun x => { d with auxCons := x })
  else if k = "b" then (listOf auxAssert? v ",").map (fun x => { d with auxAsserts := x })
  else none

def desc? (s : String) : Option Desc :=
  (s.splitOn ";").foldl (fun acc field =>
    match acc with
    | none => none
    | some d =>
      if field.isEmpty then some d
      else match field.splitOn "=" with
        | k :: v :: more => descField d k ("=".intercalate (v :: more))
        | _ => none) (some {})

/-- index ranges of all atoms (descriptions are validated before anything is evaluated) -/
def exprOk (w np aw nr npub : Nat) (main value : Bool) : Expr → Bool
  | .const _ => true
  | .cur i | .nxt i => !value && i < w
  | .per i => !value && i < np
  | .acur i | .anxt i => !main && !value && i < aw
  | .rand i => !main && i < nr
  | .pub i | .pubSeq i => value && i < npub
  | .add a b | .sub a b | .mul a b => exprOk w np aw nr npub main value a && exprOk w np aw nr npub main value b
  | .pow a k => k ≤ 64 && exprOk w np aw nr npub main value a
  | .neg a => exprOk w np aw nr npub main value a

def shapeOk (n width : Nat) (a : AShape) : Bool :=
  a.column < width &&
  (if a.kind = 's' then a.first < n
   else a.stride ≥ 2 && isPow2 a.stride && a.stride ≤ n && a.first < a.stride)

def numValues (n : Nat) (a : AShape) : Nat := if a.kind = 'q' then n / a.stride else 1

def Desc.numPubs (d : Desc) : Nat := (d.asserts.map (numValues d.n)).sum

def Desc.ok (d : Desc) : Bool :=
  let np := d.periodic.length
  let regular := d.auxWidth - (if d.lagrange then 1 else 0)
  d.width ≥ 1 && d.width + d.auxWidth ≤ 255 && d.n ≥ 8 && isPow2 d.n && d.n ≤ 4096 &&
  d.periodic.all (fun p => p.length ≥ 2 && isPow2 p.length && p.length ≤ d.n) &&
  !d.cons.isEmpty && !d.asserts.isEmpty &&
  d.cons.all (fun c => c.1.base ≥ 1 && c.1.cycles.all (fun cy => cy ≥ 2 && isPow2 cy) &&
    exprOk d.width np 0 0 0 true false c.2) &&
  d.asserts.all (shapeOk d.n d.width) &&
  (!d.hasAux ||
    (d.auxWidth ≥ 1 && !d.auxCons.isEmpty && !d.auxAsserts.isEmpty &&
     d.auxCons.all (fun c => c.1.base ≥ 1 && c.1.cycles.all (fun cy => cy ≥ 2 && isPow2 cy) &&
       exprOk d.width np d.auxWidth d.numRands 0 false false c.2) &&
     d.auxAsserts.all (fun a => shapeOk d.n regular a.1 &&
       exprOk 0 0 0 d.numRands d.numPubs false true a.2)))

-- ------------------------------------------------------------------------------------ data token
structure Data where
  main : List (List Nat)
  aux : List (List Nat)
  rands : List Nat
  lagr : List Nat
  coeffs : List Nat
  points : List Nat

def section? (tag : Char) (s : String) : Option String :=
  match s.toList with
  | c :: rest => if c = tag then some (String.ofList rest) else none
  | [] => none

def data? (s : String) : Option Data :=
  match s.toList with
  | 'x' :: rest =>
    match (String.ofList rest).splitOn "/" with
    | [t, a, r, l, c, p] =>
      match section? 'T' t, section? 'A' a, section? 'R' r, section? 'L' l, section? 'C' c, section? 'P' p with
      | some t, some a, some r, some l, some c, some p =>
        match listOf (fun col => listOf nat? col ",") t "|", listOf (fun col => listOf nat? col ",") a "|",
              listOf nat? r ",", listOf nat? l ",", listOf nat? c ",", listOf nat? p "," with
        | some t, some a, some r, some l, some c, some p => some ⟨t, a, r, l, c, p⟩
        | _, _, _, _, _, _ => none
      | _, _, _, _, _, _ => none
    | _ => none
  | _ => none

-- ------------------------------------------------------------------------------------ the instance
def fnOf (O : Ops Nat) (l : List Nat) : Nat → Nat := fun i => l.getD i O.zero
def colFn (cols : List (List Nat)) : Nat → List Nat := fun j => cols.getD j []

def buildAssertion (a : AShape) (values : List Nat) : Option (Assertion Nat) :=
  if a.kind = 's' then some (single a.column a.first (values.headD 0))
  else if a.kind = 'p' then resOpt (periodic a.column a.first a.stride (values.headD 0))
  else resOpt (sequence a.column a.first a.stride values)

/-- the steps an assertion covers -/
def stepsOf (n : Nat) (a : AShape) : List Nat :=
  if a.kind = 's' then [a.first] else (List.range (n / a.stride)).map (fun k => a.first + k * a.stride)

/-- the asserted values of the main segment read off the trace, in assertion order -/
def pubsOf (d : Desc) (main : List (List Nat)) : List Nat :=
  d.asserts.flatMap (fun a =>
    let col := main.getD a.column []
    if a.kind = 'q' then (stepsOf d.n a).map (fun s => col.getD s 0) else [col.getD a.first 0])

/-- the main assertions with their values -/
def mainAssertions (d : Desc) (pubs : List Nat) : Option (List (Assertion Nat)) :=
  (d.asserts.foldl (fun (st : Option (List (Assertion Nat)) × Nat) a =>
    let k := numValues d.n a
    match st.1, buildAssertion a ((pubs.drop st.2).take k) with
    | some l, some x => (some (l ++ [x]), st.2 + k)
    | _, _ => (none, st.2 + k)) (some [], 0)).1

def valueEnv (O : Ops Nat) (rands pubs : List Nat) (seq : Nat) : Env Nat :=
  ⟨fun _ => O.zero, fun _ => O.zero, fun _ => O.zero, fun _ => O.zero, fun _ => O.zero,
   fnOf O rands, fnOf O pubs, seq⟩

def auxAssertions (O : Ops Nat) (d : Desc) (rands pubs : List Nat) : Option (List (Assertion Nat)) :=
  d.auxAsserts.mapM (fun p =>
    let k := numValues d.n p.1
    buildAssertion p.1 ((List.range k).map (fun j => p.2.eval O (valueEnv O rands pubs j))))

/-- reference validity: every constraint on the steps `0 .. n-e-1`, every auxiliary assertion -/
def valid (F : FieldImpl) (O : Ops Nat) (d : Desc) (dt : Data) (rands pubs : List Nat) : Bool :=
  let isZero (v : Nat) : Bool := F.asInt v == 0
  let cell (cols : List (List Nat)) (s : Nat) : Nat → Nat := fun j => (cols.getD j []).getD s O.zero
  (List.range (d.n - d.e)).all (fun s =>
    let per : Nat → Nat := fun i => let p := d.periodic.getD i []; O.ofNat (p.getD (s % p.length) 0)
    let env : Env Nat := ⟨cell dt.main s, cell dt.main (s + 1), per, cell dt.aux s, cell dt.aux (s + 1),
      fnOf O rands, fun _ => O.zero, 0⟩
    d.cons.all (fun c => isZero (c.2.eval O env)) && d.auxCons.all (fun c => isZero (c.2.eval O env))) &&
  d.auxAsserts.all (fun p =>
    (stepsOf d.n p.1).zipIdx.all (fun sj =>
      let j := if p.1.kind = 'q' then sj.2 else 0
      F.asInt ((dt.aux.getD p.1.column []).getD sj.1 O.zero) == F.asInt (p.2.eval O (valueEnv O rands pubs j))))

def fmtList (F : FieldImpl) (l : List Nat) : String := ",".intercalate (l.map (fun v => toString (F.asInt v)))

def optStr (F : FieldImpl) : Option Nat → String
  | some v => toString (F.asInt v)
  | none => "none"

def runDef (F : FieldImpl) (ldeBlowup : Nat) (d : Desc) (dt : Data) : String :=
  let O := ops F (mkPowTable F (if d.n ≤ 4096 ∧ ldeBlowup ≤ 128 then d.n * ldeBlowup else 1))
  let n := d.n
  let (nt, nb) := (d.cons.length + d.auxCons.length, d.asserts.length + d.auxAsserts.length)
  if !d.ok || dt.main.length != d.width || dt.main.any (fun c => c.length != n)
      || dt.aux.length != d.auxWidth || dt.aux.any (fun c => c.length != n)
      || dt.rands.length != d.numRands || !dt.lagr.isEmpty || dt.coeffs.length != nt + nb
      || (dt.main ++ dt.aux ++ [dt.rands, dt.coeffs, dt.points]).any (fun c => c.any (fun v => v ≥ F.M)) then "bad-op"
  else
    let degs := d.cons.map (·.1) ++ d.auxCons.map (·.1)
    let ceB := ceBlowup degs
    if !(isPow2 ldeBlowup && 2 ≤ ldeBlowup && ldeBlowup ≤ 128 && ceB ≤ ldeBlowup) then "bad-op"
    else match setNumTransitionExemptions n degs d.e with
    | .panic _ => "bad-op"
    | .ok _ =>
      let raw (l : List Nat) : List Nat := l.map F.new
      let dt : Data := ⟨dt.main.map raw, dt.aux.map raw, raw dt.rands, [], raw dt.coeffs, raw dt.points⟩
      let pubs := pubsOf d dt.main
      let rands := fnOf O dt.rands
      match mainAssertions d pubs, auxAssertions O d dt.rands pubs with
      | some ma, some aa =>
        if !valid F O d dt dt.rands pubs then "invalid"
        else
          let air : Air Nat := ⟨n, d.e, d.width, d.auxWidth, d.periodic.map (fun p => p.map O.ofNat),
            d.cons.map (·.2), d.auxCons.map (·.2), d.cons.map (·.1), d.auxCons.map (·.1), ma, aa⟩
          let (tco, bco, _) := drawCoefficients dt.coeffs nt nb
          let k := numCompositionColumns degs n d.e
          match prep O air, dt.main.mapM (interpolate O), dt.aux.mapM (interpolate O),
                mkDomain O n ceB ldeBlowup (F.new F.generator) with
          | some P, some mp, some ap, some D =>
            let mainPolys := colFn mp
            let auxPolys := colFn ap
            let cols :=
              match compositionTrace O F.eq air P D smallPolyDegree mainPolys auxPolys rands tco bco with
              | some tr => compositionPoly O D tr k
              | none => none
            let pts := dt.points.map (fun x =>
              if F.asInt (O.pow x n) == 1 then "dom"
              else
                let h := match cols with
                  | some cols => fmtList F (evaluateAt O cols x)
                  | none => "none"
                let c := defAt O air P mainPolys auxPolys rands tco bco x
                let v := evaluateConstraints O air P (framesOf O mainPolys auxPolys P.g x) rands tco bco x
                s!"{h};{optStr F c};{optStr F v}")
            s!"k={k}" ++ String.join (pts.map (fun p => " " ++ p))
          | _, _, _, _ => "none"
      | _, _ => "bad-op"

def handle : List String → String
  | ["def", f, ext, blowup, data, desc] =>
    match field? f, nat? ext, nat? blowup with
    | some F, some 1, some b =>
      match data.toList with
      | 'x' :: _ =>
        match desc? desc, data? data with
        | some d, some dt => if d.lagrange then "-" else runDef F b d dt
        | _, _ => "bad-op"
      | _ => "-"
    | _, _, _ => "-"
  | _ => "-"

end Drv.C17

def main : IO Unit := Drv.runLoop Drv.C17.handle
