-- line-protocol handler of property C09 (stub: nothing modelled yet)
import Winter.Drv.Util

namespace Drv.C09

def handle (_toks : List String) : String := "-"

end Drv.C09

def main : IO Unit := Drv.runLoop Drv.C09.handle
