-- line-protocol handler of property C09 (FFT, interpolation, LDE); mirrors harness/src/bin/c09.rs
import Winter.Drv.Util
import Winter.Model.Field
import Winter.Model.Fft
import Winter.Gen.Fft

namespace Drv.C09
open Model Model.Fft

def field? : String → Option FieldImpl
  | "f64" => some F64.impl
  | "f62" => some F62.impl
  | "f128" => some F128.impl
  | _ => none

/-- the code's `MAX_LOOP` (math/src/fft/fft_inputs.rs) -/
def maxLoop : Nat := 256

/-! ### SplitMix64 and the output fold (same as the harness) -/

def mask64 : Nat := 18446744073709551615

def smNext (s : Nat) : Nat × Nat :=
  let s := (s + 0x9E3779B97F4A7C15) % 18446744073709551616
  let z := s
  let z := ((z ^^^ (z >>> 30)) * 0xBF58476D1CE4E5B9) % 18446744073709551616
  let z := ((z ^^^ (z >>> 27)) * 0x94D049BB133111EB) % 18446744073709551616
  (z ^^^ (z >>> 31), s)

def fold (h v : Nat) : Nat :=
  let h := ((h ^^^ (v % 18446744073709551616)) * 0x100000001b3) % 18446744073709551616
  ((h ^^^ (v / 18446744073709551616 % 18446744073709551616)) * 0x100000001b3) % 18446744073709551616

def fold0 : Nat := 0xcbf29ce484222325

/-- one base-field word: one draw for the 64-bit fields, two (hi, lo) for the 128-bit field -/
def draw (F : FieldImpl) (s : Nat) : Nat × Nat :=
  if F.wordBits == 128 then
    let (hi, s) := smNext s
    let (lo, s) := smNext s
    (hi * 18446744073709551616 + lo, s)
  else smNext s

inductive Deg where
  | rand
  | zero
  | exact (k : Nat)
  | mono (k : Nat)
  | allEq
  | single (k : Nat)
  | alt
  | top
  | holes
  | zeroAt (k : Nat)

def parseDeg (s : String) : Option Deg :=
  match s with
  | "r" => some .rand
  | "z" => some .zero
  | "a" => some .allEq
  | "t" => some .alt
  | "b" => some .top
  | "i" => some .holes
  | _ =>
    if s.startsWith "m" then (s.drop 1).toString.toNat?.map .mono
    else if s.startsWith "h" then (s.drop 1).toString.toNat?.map .zeroAt
    else if s.startsWith "s" then (s.drop 1).toString.toNat?.map .single
    else s.toNat?.map .exact

/-- canonical coordinates of `n` elements of extension degree `d`, element-major (same shapes as the harness) -/
def genCoords (F : FieldImpl) (seed n d : Nat) (deg : Deg) : Array Nat :=
  let v : Array Nat := ((List.range (n * d)).foldl (fun (st : Array Nat × Nat) _ =>
    let (w, s) := draw F st.2
    (st.1.push (w % F.M), s)) (Array.mkEmpty (n * d), seed)).1
  let fixTop (v : Array Nat) (k : Nat) : Array Nat :=
    if k < n ∧ (List.range d).all (fun c => v.getD (k * d + c) 0 == 0) then v.setIfInBounds (k * d) 1 else v
  match deg with
  | .rand => v
  | .zero => v.map (fun _ => 0)
  | .exact k => fixTop (v.mapIdx (fun i x => if i ≥ (k + 1) * d then 0 else x)) k
  | .mono k => if k < n then (v.map (fun _ => 0)).setIfInBounds (k * d) 1 else v.map (fun _ => 0)
  | .allEq => v.mapIdx (fun i _ => v.getD (i % d) 0)
  | .single k => fixTop (v.mapIdx (fun i x => if i / d ≠ k then 0 else x)) k
  | .alt => v.mapIdx (fun i _ => v.getD ((i / d % 2) * d + i % d) 0)
  | .top => v.map (fun _ => F.M - 1)
  | .holes => v.mapIdx (fun i x => if i / d % 3 = 1 then 0 else x)
  | .zeroAt k => v.mapIdx (fun i x => if i / d = k then 0 else x)

/-- shape of column `c` of a generated matrix -/
def colShape (c n : Nat) : Deg :=
  match c % 5 with
  | 1 => .zero
  | 3 => .exact (c % (max n 1))
  | 4 => .allEq
  | _ => .rand

/-- elements as arrays of `d` raw words -/
def toElems (F : FieldImpl) (d : Nat) (coords : Array Nat) : Array (Array Nat) :=
  (List.range (coords.size / d)).toArray.map fun i =>
    (List.range d).toArray.map fun c => F.new (coords.getD (i * d + c) 0)

def coordsOf (F : FieldImpl) (v : Array (Array Nat)) : Array Nat :=
  v.foldl (fun acc e => acc ++ e.map F.asInt) (Array.mkEmpty (v.size * 3))

def summary (coords : Array Nat) (d : Nat) : String :=
  let n := coords.size / (max d 1)
  let h := coords.foldl fold fold0
  let head := s!"{n} {h}"
  if n = 0 then head
  else
    let idx := [0, 1 % n, n / 2, n - 1]
    idx.foldl (fun s i => (List.range d).foldl (fun s c => s ++ s!" {coords.getD (i * d + c) 0}") s) head

/-! ### operation records on raw words -/

def baseOps (F : FieldImpl) : BaseOps Nat := BaseOps.ofImpl F

/-- an element of extension degree `d` is the array of its `d` base coordinates: `+`, `-`, `mul_base`
    and multiplication by an embedded base element act coordinate-wise -/
def elemOps (F : FieldImpl) : Ops Nat (Array Nat) := coordOps F

def parseOff (F : FieldImpl) (s : String) : Option Nat :=
  if s == "g" || s == "g!" then some F.generator else s.toNat?

def res (F : FieldImpl) (d : Nat) : Option (Array (Array Nat)) → String
  | none => "panic"
  | some v => summary (coordsOf F v) d

/-- sizes above which the model is not run (`-`): the quadratic-free model is still much slower than Rust -/
def tooBig (n blowup cols : Nat) : Bool := n > 1024 || n * blowup * cols > 4096

def interp (F : FieldImpl) (d : Nat) (n twn seed sh : String) : String :=
  match n.toNat?, twn.toNat?, seed.toNat?, parseDeg sh with
  | some n, some twn, some seed, some sh =>
    if tooBig n 1 d || twn > 2048 then "-" else
    let v := toElems F d (genCoords F seed n d sh)
    match getInvTwiddles (baseOps F) twn with
    | none => "panic"
    | some itw => res F d (interpolatePoly (elemOps F) (baseOps F) maxLoop v itw)
  | _, _, _, _ => "bad-op"

def interpo (F : FieldImpl) (d : Nat) (n twn seed off sh : String) : String :=
  match n.toNat?, twn.toNat?, seed.toNat?, parseOff F off, parseDeg sh with
  | some n, some twn, some seed, some off, some sh =>
    if tooBig n 1 d || twn > 2048 then "-" else
    let v := toElems F d (genCoords F seed n d sh)
    match getInvTwiddles (baseOps F) twn with
    | none => "panic"
    | some itw => res F d (interpolatePolyWithOffset (elemOps F) (baseOps F) maxLoop v itw (F.new off))
  | _, _, _, _, _ => "bad-op"

/-- container widths the harness instantiates (`0` = a plain slice of elements) -/
def fiWidth (w : Nat) : Bool := w == 0 || w == 1 || w == 2 || w == 3 || w == 4 || w == 8

/-- `n` rows of `w` elements of extension degree `d` (raw words), generated like the harness does -/
def fiRows (F : FieldImpl) (d w n seed : Nat) : Array (Array Nat) :=
  let coords := genCoords F seed (n * w) d .rand
  (List.range n).toArray.map fun r =>
    (List.range (w * d)).toArray.map fun k => F.new (coords.getD (r * w * d + k) 0)

def handleF (F : FieldImpl) (d : Nat) : List String → String
  | ["eval", n, twn, seed, deg] =>
    match n.toNat?, twn.toNat?, seed.toNat?, parseDeg deg with
    | some n, some twn, some seed, some deg =>
      if tooBig n 1 d || twn > 2048 then "-" else
      let p := toElems F d (genCoords F seed n d deg)
      match getTwiddles (baseOps F) twn with
      | none => "panic"
      | some tw => res F d (evaluatePoly (elemOps F) (baseOps F) maxLoop p tw)
    | _, _, _, _ => "bad-op"
  | ["evalo", n, twn, seed, deg, blowup, off] =>
    match n.toNat?, twn.toNat?, seed.toNat?, parseDeg deg, blowup.toNat?, parseOff F off with
    | some n, some twn, some seed, some deg, some blowup, some off =>
      if tooBig n blowup d || twn > 2048 then "-" else
      let p := toElems F d (genCoords F seed n d deg)
      match getTwiddles (baseOps F) twn with
      | none => "panic"
      | some tw => res F d (evaluatePolyWithOffset (elemOps F) (baseOps F) maxLoop p tw (F.new off) blowup)
    | _, _, _, _, _, _ => "bad-op"
  | ["interp", n, twn, seed] => interp F d n twn seed "r"
  | ["interp", n, twn, seed, sh] => interp F d n twn seed sh
  | ["interpo", n, twn, seed, off] => interpo F d n twn seed off "r"
  | ["interpo", n, twn, seed, off, sh] => interpo F d n twn seed off sh
  | ["rt", n, seed, deg, off] =>
    match n.toNat?, seed.toNat?, parseDeg deg, parseOff F off with
    | some n, some seed, some deg, some off =>
      if tooBig n 2 d then "-" else
      let p := toElems F d (genCoords F seed n d deg)
      match getTwiddles (baseOps F) n, getInvTwiddles (baseOps F) n with
      | some tw, some itw =>
        res F d ((evaluatePolyWithOffset (elemOps F) (baseOps F) maxLoop p tw (F.new off) 1).bind fun ev =>
          interpolatePolyWithOffset (elemOps F) (baseOps F) maxLoop ev itw (F.new off))
      | _, _ => "panic"
    | _, _, _, _ => "bad-op"
  | ["deg", n, seed, deg, off] =>
    match n.toNat?, seed.toNat?, parseDeg deg, parseOff F off with
    | some n, some seed, some deg, some off =>
      if tooBig n 2 d then "-" else
      let p := toElems F d (genCoords F seed n d deg)
      match getTwiddles (baseOps F) n with
      | none => "panic"
      | some tw =>
        match (evaluatePolyWithOffset (elemOps F) (baseOps F) maxLoop p tw (F.new off) 1).bind fun ev =>
          inferDegree (elemOps F) (baseOps F) maxLoop ev (F.new off) with
        | none => "panic"
        | some k => toString k
    | _, _, _, _ => "bad-op"
  | ["fft", n, twn, seed] =>
    match n.toNat?, twn.toNat?, seed.toNat? with
    | some n, some twn, some seed =>
      if tooBig n 1 d || twn > 2048 then "-" else
      let p := toElems F d (genCoords F seed n d .rand)
      match getTwiddles (baseOps F) twn with
      | none => "panic"
      | some tw => res F d (fftTop (elemOps F) maxLoop tw p)
    | _, _, _ => "bad-op"
  | ["fftraw", n, seed, count, stride, offset] =>
    match n.toNat?, seed.toNat?, count.toNat?, stride.toNat?, offset.toNat? with
    | some n, some seed, some count, some stride, some offset =>
      if tooBig n 1 d then "-" else
      let p := toElems F d (genCoords F seed n d .rand)
      match getTwiddles (baseOps F) n with
      | none => "panic"
      | some tw => res F d (fftInPlace (elemOps F) maxLoop tw (n + 1) count stride offset p)
    | _, _, _, _, _ => "bad-op"
  | ["perm", n, seed] =>
    match n.toNat?, seed.toNat? with
    | some n, some seed =>
      if tooBig n 1 d then "-" else
      let p := toElems F d (genCoords F seed n d .rand)
      -- the harness permutes twice (involution check); a panic of either call is the outcome
      match permute p with
      | none => "panic"
      | some once => match permute once with
        | none => "panic"
        | some _ => res F d (some once)
    | _, _ => "bad-op"
  | ["tw", n] =>
    match n.toNat? with
    | some n =>
      if n > 4096 ∧ isPow2 n ∧ Nat.log2 n ≤ F.twoAdicity then "-" else
      match getTwiddles (baseOps F) n, getInvTwiddles (baseOps F) n with
      | some tw, some itw => s!"{summary (tw.map F.asInt) 1} {summary (itw.map F.asInt) 1}"
      | _, _ => "panic"
    | _ => "bad-op"
  | ["rowmat", n, cols, seed, blowup, off, w] =>
    match n.toNat?, cols.toNat?, seed.toNat?, blowup.toNat?, parseOff F off, w.toNat? with
    | some n, some cols, some seed, some blowup, some offv, some w =>
      if tooBig n blowup (cols * d) then "-" else
      -- ColMatrix::new: at least one column, more than one row, a power of two
      if cols = 0 ∨ n ≤ 1 ∨ !isPow2 n then "panic" else
      -- base-field columns of the column-major matrix: column c, coordinate e ↦ base column c*d + e
      let baseCols : Array (Array Nat) := (List.range (cols * d)).toArray.map fun bc =>
        let coords := genCoords F ((seed + bc / d) % 18446744073709551616) n d (colShape (bc / d) n)
        (List.range n).toArray.map fun r => F.new (coords.getD (r * d + bc % d) 0)
      let B := baseOps F
      let rm : Option (RowMat Nat) :=
        if off == "g!" then
          -- RowMatrix::evaluate_polys::<N>(polys, blowup): offsets first, then the twiddles
          match evaluationOffsets B n blowup (F.new F.generator) with
          | none => none
          | some offsets =>
            match getTwiddles B n with
            | none => none
            | some tw => rowMatrixFromPolys (elemOps F) F.mul (F.new 0) maxLoop w baseCols n offsets tw
        else
          match getTwiddles B n with
          | none => none
          | some tw => evaluatePolysOver (elemOps F) B (F.new 0) maxLoop w baseCols n tw blowup (F.new offv)
      match rm with
      | none => "panic"
      | some rm =>
        let rows := rm.data.size / rm.rowWidth
        let cells : Option (Array Nat) := (List.range rows).foldl (fun acc r =>
          match acc, rm.row r with
          | some acc, some row => some (acc ++ row.map F.asInt)
          | _, _ => none) (some (Array.mkEmpty (rows * cols * d)))
        match cells with
        | none => "panic"
        | some cells =>
          s!"{rows} {rm.elementsPerRow / d} {summary cells d} {summary (rm.data.map F.asInt) 1}"
    | _, _, _, _, _, _ => "bad-op"
  | ["segbuf", n, cols, seed, blowup, off, w, fill, sh] =>
    match n.toNat?, cols.toNat?, seed.toNat?, blowup.toNat?, parseOff F off, w.toNat?, fill.toNat?, parseDeg sh with
    | some n, some cols, some seed, some blowup, some offv, some w, some fill, some sh =>
      if tooBig n blowup (cols * d) then "-" else
      if cols = 0 ∨ n ≤ 1 ∨ !isPow2 n ∨ fill > 2 ∨ w = 0 then "panic" else
      let B := baseOps F
      let baseColsOf (sd : Nat) (shape : Nat → Deg) : Array (Array Nat) := (List.range (cols * d)).toArray.map fun bc =>
        let coords := genCoords F ((sd + bc / d) % 18446744073709551616) n d (shape (bc / d))
        (List.range n).toArray.map fun r => F.new (coords.getD (r * d + bc % d) 0)
      let polys := baseColsOf seed (fun _ => sh)
      let other := baseColsOf ((seed + 7777) % 18446744073709551616) (fun _ => .rand)
      match evaluationOffsets B n blowup (F.new offv), getTwiddles B n with
      | some offsets, some tw =>
        let nseg := (cols * d + w - 1) / w
        -- the storage left over from a previous call: a segment of another matrix (Segment::new)
        match segmentNew (elemOps F) F.mul (F.new 0) maxLoop w other n 0 offsets tw with
        | none => "panic"
        | some prev0 =>
          let step (st : Option (Array (Array Nat) × Array (Array (Array Nat)))) (i : Nat) :=
            match st with
            | none => none
            | some (prev, segs) =>
              let buffer : Array (Array Nat) :=
                if fill = 0 then Array.replicate (n * blowup) (Array.replicate w (F.new 0))
                else if fill = 1 then (List.range (n * blowup)).toArray.map fun r =>
                  (List.range w).toArray.map fun s => F.new (((r * w + s + 1) * 2654435761) % 18446744073709551616)
                else prev
              match segmentNewWithBuffer (elemOps F) F.mul maxLoop w buffer polys n (i * w) offsets tw with
              | none => none
              | some seg => some (seg, segs.push seg)
          match (List.range nseg).foldl step (some (prev0, #[])) with
          | none => "panic"
          | some (_, segs) =>
            match rowMatrixFromSegments w segs (cols * d) with
            | none => "panic"
            | some rm =>
              let rows := rm.data.size / rm.rowWidth
              let cells : Option (Array Nat) := (List.range rows).foldl (fun acc r =>
                match acc, rm.row r with
                | some acc, some row => some (acc ++ row.map F.asInt)
                | _, _ => none) (some (Array.mkEmpty (rows * cols * d)))
              match cells with
              | none => "panic"
              | some cells => s!"{rows} {rm.elementsPerRow / d} {summary cells d} {summary (rm.data.map F.asInt) 1}"
      | _, _ => "panic"
    | _, _, _, _, _, _, _, _ => "bad-op"
  | ["airdom", n, cols, seed, lde, deg, w] =>
    match n.toNat?, cols.toNat?, seed.toNat?, lde.toNat?, deg.toNat?, w.toNat? with
    | some n, some cols, some seed, some lde, some deg, some w =>
      if tooBig n lde (cols * d) then "-" else
      let B := baseOps F
      -- TransitionConstraintDegree::new, ProofOptions::new, TraceInfo::new, AirContext::new, StarkDomain::new
      match starkDomainNew B n lde deg (F.new F.generator) with
      | none => "panic"
      | some dom =>
        -- ColMatrix::new: at least one column
        if cols = 0 then "panic" else
        match dom.traceToLdeBlowup, dom.traceToCeBlowup with
        | some t2l, some t2c =>
          let columns : Array (Array (Array Nat)) := (List.range cols).toArray.map fun c =>
            toElems F d (genCoords F ((seed + c) % 18446744073709551616) n d (colShape c n))
          -- evaluate_columns_over: trace twiddles, offset and trace_to_lde_blowup of the domain
          match columns.mapM (fun p => evaluatePolyWithOffset (elemOps F) B maxLoop p dom.traceTwiddles dom.offset t2l) with
          | none => "panic"
          | some lde_cols =>
            let baseCols : Array (Array Nat) := (List.range (cols * d)).toArray.map fun bc =>
              let coords := genCoords F ((seed + bc / d) % 18446744073709551616) n d (colShape (bc / d) n)
              (List.range n).toArray.map fun r => F.new (coords.getD (r * d + bc % d) 0)
            match evaluatePolysOverDomain (elemOps F) B (F.new 0) maxLoop w baseCols n dom with
            | none => "panic"
            | some rm =>
              let rows := rm.data.size / rm.rowWidth
              let cells : Option (Array Nat) := (List.range rows).foldl (fun acc r =>
                match acc, rm.row r with
                | some acc, some row => some (acc ++ row.map F.asInt)
                | _, _ => none) (some (Array.mkEmpty (rows * cols * d)))
              match cells with
              | none => "panic"
              | some cells =>
                let flatL := lde_cols.foldl (fun acc c => acc ++ coordsOf F c) #[]
                let acc := s!"{dom.traceLength} {dom.ldeDomainSize} {dom.ceDomainSize} {t2l} {t2c} {dom.ceToLdeBlowup} {F.asInt dom.offset} {summary (dom.traceTwiddles.map F.asInt) 1}"
                s!"{acc} | {n * t2l} {cols} {summary flatL d} | {rows} {rm.elementsPerRow / d} {summary cells d} {summary (rm.data.map F.asInt) 1}"
        | _, _ => "panic"
    | _, _, _, _, _, _ => "bad-op"
  -- the building blocks of `FftInputs` on a slice (w = 0) or on rows `[E; w]`: a row is the array of its w*d
  -- base coordinates and every operation acts coordinate-wise
  | ["bfly", n, seed, i, stride, tw, w] =>
    match n.toNat?, seed.toNat?, i.toNat?, stride.toNat?, tw.toNat?, w.toNat? with
    | some n, some seed, some i, some stride, some tw, some w =>
      if !(fiWidth w) then "bad-op" else
      if tooBig n 1 (max w 1 * d) then "-" else
      let a := fiRows F d (max w 1) n seed
      match butterfly (elemOps F) a i stride, butterflyTw (elemOps F) (F.new tw) a i stride with
      | some x, some y => s!"{res F d (some x)} {res F d (some y)}"
      | _, _ => "panic"
    | _, _, _, _, _, _ => "bad-op"
  | ["shift", n, seed, off, inc, w] =>
    match n.toNat?, seed.toNat?, parseOff F off, parseOff F inc, w.toNat? with
    | some n, some seed, some off, some inc, some w =>
      if !(fiWidth w) then "bad-op" else
      if tooBig n 1 (max w 1 * d) then "-" else
      let a := fiRows F d (max w 1) n seed
      s!"{res F d (some (shiftBy (elemOps F) a (F.new off)))} {res F d (some (shiftBySeries (elemOps F) (baseOps F) a (F.new off) (F.new inc)))}"
    | _, _, _, _, _ => "bad-op"
  | ["fftn", n, seed, w] =>
    match n.toNat?, seed.toNat?, w.toNat? with
    | some n, some seed, some w =>
      if !(fiWidth w) || w = 0 then "bad-op" else
      if tooBig n 1 (w * d) then "-" else
      let a := fiRows F d w n seed
      match getTwiddles (baseOps F) n with
      | none => "panic"
      | some tw => res F d ((fftTop (elemOps F) maxLoop tw a).bind permute)
    | _, _, _ => "bad-op"
  | ["colmat", n, cols, seed, blowup, off] =>
    match n.toNat?, cols.toNat?, seed.toNat?, blowup.toNat?, parseOff F off with
    | some n, some cols, some seed, some blowup, some off =>
      if tooBig n blowup (cols * d) then "-" else
      if cols = 0 ∨ n ≤ 1 ∨ !isPow2 n then "panic" else
      let B := baseOps F
      let columns : Array (Array (Array Nat)) := (List.range cols).toArray.map fun c =>
        toElems F d (genCoords F ((seed + c) % 18446744073709551616) n d (colShape c n))
      -- interpolate_columns: inverse twiddles once, then every column
      match getInvTwiddles B n with
      | none => "panic"
      | some itw =>
        match columns.mapM (fun col => interpolatePoly (elemOps F) B maxLoop col itw) with
        | none => "panic"
        | some polys =>
          -- StarkDomain::from_twiddles(get_twiddles(n), blowup, off); evaluate_columns_over
          match getTwiddles B n with
          | none => "panic"
          | some tw =>
            match starkDomainBlowup B tw blowup with
            | none => "panic"
            | some b =>
              match polys.mapM (fun p => evaluatePolyWithOffset (elemOps F) B maxLoop p tw (F.new off) b) with
              | none => "panic"
              | some lde =>
                let flatP := polys.foldl (fun acc c => acc ++ coordsOf F c) #[]
                let flatL := lde.foldl (fun acc c => acc ++ coordsOf F c) #[]
                s!"{n * b} {cols} {summary flatP d} {summary flatL d}"
    | _, _, _, _, _ => "bad-op"
  | _ => "bad-op"

def handleU : List String → String
  | ["permidx", size, index] =>
    match size.toNat?, index.toNat? with
    | some size, some index =>
      -- the model, and `permute_index` as regenerated from math/src/fft/mod.rs on this run (tie T: a
      -- difference between the two shows up as a disagreement with the compiled code)
      let m := match permuteIndex size index with
        | some j => toString j
        | none => "panic"
      let g := if Gen.Fft.permute_index_ok size index then toString (Gen.Fft.permute_index size index) else "panic"
      if m == g then m else s!"{m} gen={g}"
    | _, _ => "bad-op"
  | ["selfcheck", _] => "-"
  | _ => "bad-op"

def handle : List String → String
  | "u" :: rest => handleU rest
  | f :: d :: rest =>
    match field? f, d.toNat? with
    | some F, some d =>
      if d = 0 ∨ d > 3 ∨ (F.name == "f128" ∧ d = 3) then "bad-op" else handleF F d rest
    | _, _ => "bad-op"
  | _ => "bad-op"

end Drv.C09

def main : IO Unit := Drv.runLoop Drv.C09.handle
