-- line-protocol handler of property C05 (FRI soundness: the verifier's decision)
--   vfy <tag> <fld> <hasher> <N> <remdeg> <logb> <maxdeg> <parts> <ncommit> <alphas> <positions> <evals> <rem> <crem> <layers>
--       FriVerifier::new + verify on abstract channel data: `ncommit` commitments of which the last one commits to
--       the remainder `crem`, the α's drawn for them, the query positions and claimed evaluations, the remainder
--       `rem` the channel presents, and per layer `<merkle flag>/<rows>` (layers separated by '|', rows by ';').
--   prt …   partition counts / Merkle error kinds, end to end (not modelled: real Merkle verification)
--   adv …   adversarial end-to-end runs with the default channels (not modelled: α's and positions depend on the hash)
import Winter.Drv.FriUtil

namespace Drv.C05
open Model Model.Fri Drv.Fri

/-- `true` = the model of the repaired verifier (remainder compared with its commitment) -/
def commitCheck : Bool := true

def parseLayer {α : Type} (fld : Fld α) (s : String) : Option (Opening α) :=
  match s.splitOn "/" with
  | [flag, rows] =>
    match parseRows fld.parse rows with
    | some rs => some ⟨flag == "1", rs⟩
    | none => none
  | _ => none

def parseLayers {α : Type} (fld : Fld α) (s : String) : Option (List (Opening α)) :=
  if s == "-" then some [] else (s.splitOn "|").mapM (parseLayer fld)

def vfy {α : Type} (fld : Fld α) (N r logb maxdeg parts ncommit : Nat)
    (alphas positions evals rem crem layers : String) : String :=
  match Opts.new? (2 ^ logb) N r, parseList fld.parse alphas, parseList (fun s => s.toNat?) positions,
      parseList fld.parse evals, parseList fld.parse rem, parseList fld.parse crem, parseLayers fld layers with
  | some o, some als, some ps, some evs, some rm, some crm, some ls =>
    let F := fld.ops
    let commitments : List (Option (List α)) :=
      if ncommit = 0 then [] else List.replicate (ncommit - 1) none ++ [some crm]
    let inp : VInput α (Option (List α)) := {
      maxPolyDegree := maxdeg
      numPartitions := parts
      commitments := commitments
      alphas := als
      layers := ls
      remainder := rm
      positions := ps
      evaluations := evs }
    let _ : BEq (Option (List α)) := ⟨fun a b =>
      match a, b with
      | some x, some y => beqList F x y
      | none, none => true
      | _, _ => false⟩
    verdictStr (verify F commitCheck some o inp)
  | _, _, _, _, _, _, _ => "bad-op"

def withFld (name : String) (k : {α : Type} → Fld α → String) : String :=
  match name with
  | "f64" => k (baseFld F64.impl)
  | "f62" => k (baseFld F62.impl)
  | "f128" => k (baseFld F128.impl)
  | "q64" => k quadFld
  | _ => "bad-op"

def handle : List String → String
  | ["vfy", _tag, f, _hasher, n, r, logb, maxdeg, parts, ncommit, alphas, positions, evals, rem, crem, layers] =>
    match n.toNat?, r.toNat?, logb.toNat?, maxdeg.toNat?, parts.toNat?, ncommit.toNat? with
    | some n, some r, some logb, some maxdeg, some parts, some ncommit =>
      withFld f fun fld => vfy fld n r logb maxdeg parts ncommit alphas positions evals rem crem layers
    | _, _, _, _, _, _ => "bad-op"
  | "adv" :: _ => "-"
  -- partition count / verify_batch error kinds with the default channel and real Merkle trees: the model's Merkle
  -- check is a flag, so these lines are judged by the harness oracle only
  | "prt" :: _ => "-"
  | _ => "bad-op"

end Drv.C05

def main : IO Unit := Drv.runLoop Drv.C05.handle
