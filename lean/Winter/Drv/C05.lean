-- line-protocol handler of property C05 (stub: nothing modelled yet)
import Winter.Drv.Util

namespace Drv.C05

def handle (_toks : List String) : String := "-"

end Drv.C05

def main : IO Unit := Drv.runLoop Drv.C05.handle
