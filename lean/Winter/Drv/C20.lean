-- line-protocol handler of property C20 (polynomial arithmetic and batch utilities):
-- runs the definitions of Winter/Model/Poly.lean with the raw-word field operations of
-- Winter/Model/Field.lean and the generated `ExtensibleField<2>` / `<3>` formulas of the base fields
import Winter.Drv.Util
import Winter.Model.Field
import Winter.Model.Poly
import Winter.Model.PolyGen

namespace Drv.C20
open Model Model.Poly

/-- the operations of a base field on raw words, as used by the polynomial code -/
def opsOf (F : FieldImpl) : Ops Nat where
  zero := F.new 0
  one := F.new 1
  add := F.add
  sub := F.sub
  mul := F.mul
  inv := fun x => match F.inv x with
    | .done r => some r
    | .out => none
  isZero := fun x => F.eq x (F.new 0)
  isOne := fun x => F.eq x (F.new 1)
  pow := F.exp

/-- base-field operations the generated extension formulas are written against -/
def fopsOf (F : FieldImpl) : Gen.FOps Nat where
  add := F.add
  sub := F.sub
  mul := F.mul
  neg := F.neg
  double := F.double
  square := fun x => F.mul x x
  ofNat := F.new

/-- `impl ExtensibleField<2>` of a base field (generated formula bodies) -/
structure X2 where
  mul : Nat → Nat → Nat → Nat → Nat × Nat
  mulBase : Nat → Nat → Nat → Nat × Nat
  frobenius : Nat → Nat → Nat × Nat

/-- `impl ExtensibleField<3>` of a base field (generated formula bodies) -/
structure X3 where
  mul : Nat → Nat → Nat → Nat → Nat → Nat → Nat × Nat × Nat
  mulBase : Nat → Nat → Nat → Nat → Nat × Nat × Nat
  frobenius : Nat → Nat → Nat → Nat × Nat × Nat

def x2f64 : X2 := ⟨Gen.F64.ext2_mul (fopsOf F64.impl), Gen.F64.ext2_mul_base (fopsOf F64.impl),
  Gen.F64.ext2_frobenius (fopsOf F64.impl)⟩
def x2f62 : X2 := ⟨Gen.F62.ext2_mul (fopsOf F62.impl), Gen.F62.ext2_mul_base (fopsOf F62.impl),
  Gen.F62.ext2_frobenius (fopsOf F62.impl)⟩
def x2f128 : X2 := ⟨Gen.F128.ext2_mul (fopsOf F128.impl), Gen.F128.ext2_mul_base (fopsOf F128.impl),
  Gen.F128.ext2_frobenius (fopsOf F128.impl)⟩
def x3f64 : X3 := ⟨Gen.F64.ext3_mul (fopsOf F64.impl), Gen.F64.ext3_mul_base (fopsOf F64.impl),
  Gen.F64.ext3_frobenius (fopsOf F64.impl)⟩
def x3f62 : X3 := ⟨Gen.F62.ext3_mul (fopsOf F62.impl), Gen.F62.ext3_mul_base (fopsOf F62.impl),
  Gen.F62.ext3_frobenius (fopsOf F62.impl)⟩

def isZ (F : FieldImpl) (x : Nat) : Bool := F.eq x (F.new 0)

/-- `QuadExtension::<B>::inv` -/
def quadInv (F : FieldImpl) (X : X2) (x : Nat × Nat) : Option (Nat × Nat) :=
  if isZ F x.1 && isZ F x.2 then some x
  else
    let num := X.frobenius x.1 x.2
    let norm := X.mul x.1 x.2 num.1 num.2
    if !(isZ F norm.2) then none   -- debug_assert_eq!(norm[1], ZERO): would show as a disagreement
    else
      match F.inv norm.1 with
      | .done di => some (F.mul num.1 di, F.mul num.2 di)
      | .out => none

def quadMulOps (F : FieldImpl) (X : X2) (pow : Nat × Nat → Nat → Nat × Nat) : Ops (Nat × Nat) where
  zero := (F.new 0, F.new 0)
  one := (F.new 1, F.new 0)
  add := fun a b => (F.add a.1 b.1, F.add a.2 b.2)
  sub := fun a b => (F.sub a.1 b.1, F.sub a.2 b.2)
  mul := fun a b => X.mul a.1 a.2 b.1 b.2
  inv := quadInv F X
  isZero := fun x => isZ F x.1 && isZ F x.2
  isOne := fun x => F.eq x.1 (F.new 1) && isZ F x.2
  pow := pow

/-- a quadratic extension; `exp` is the trait's default `exp_vartime` -/
def quadOps (F : FieldImpl) (X : X2) : Ops (Nat × Nat) :=
  quadMulOps F X fun x p => expVartime (quadMulOps F X fun _ _ => (F.new 0, F.new 0)) x p

/-- `CubeExtension::<B>::inv` -/
def cubeInv (F : FieldImpl) (X : X3) (x : Nat × Nat × Nat) : Option (Nat × Nat × Nat) :=
  if isZ F x.1 && isZ F x.2.1 && isZ F x.2.2 then some x
  else
    let c1 := X.frobenius x.1 x.2.1 x.2.2
    let c2 := X.frobenius c1.1 c1.2.1 c1.2.2
    let num := X.mul c1.1 c1.2.1 c1.2.2 c2.1 c2.2.1 c2.2.2
    let norm := X.mul x.1 x.2.1 x.2.2 num.1 num.2.1 num.2.2
    if !(isZ F norm.2.1) || !(isZ F norm.2.2) then none   -- the two debug assertions
    else
      match F.inv norm.1 with
      | .done di => some (F.mul num.1 di, F.mul num.2.1 di, F.mul num.2.2 di)
      | .out => none

def cubeMulOps (F : FieldImpl) (X : X3) (pow : Nat × Nat × Nat → Nat → Nat × Nat × Nat) :
    Ops (Nat × Nat × Nat) where
  zero := (F.new 0, F.new 0, F.new 0)
  one := (F.new 1, F.new 0, F.new 0)
  add := fun a b => (F.add a.1 b.1, F.add a.2.1 b.2.1, F.add a.2.2 b.2.2)
  sub := fun a b => (F.sub a.1 b.1, F.sub a.2.1 b.2.1, F.sub a.2.2 b.2.2)
  mul := fun a b => X.mul a.1 a.2.1 a.2.2 b.1 b.2.1 b.2.2
  inv := cubeInv F X
  isZero := fun x => isZ F x.1 && isZ F x.2.1 && isZ F x.2.2
  isOne := fun x => F.eq x.1 (F.new 1) && isZ F x.2.1 && isZ F x.2.2
  pow := pow

def cubeOps (F : FieldImpl) (X : X3) : Ops (Nat × Nat × Nat) :=
  cubeMulOps F X fun x p => expVartime (cubeMulOps F X fun _ _ => (F.new 0, F.new 0, F.new 0)) x p

/-- everything the handler needs to know about one field: `α` its elements, `β` the elements of the
    field whose elements are the `b` of `mul_acc` / the coefficients of `evalb` -/
structure Dr (α β : Type) where
  ops : Ops α
  parse : String → Option α
  parseSub : String → Option β
  cast : β → α            -- `E::from(b)`
  mulBase : α → β → α     -- `c.mul_base(b)`
  render : α → String

def parseWord (F : FieldImpl) (s : String) : Option Nat :=
  if s.length > 39 then none
  else match s.toNat? with
    | some v => if v < 2 ^ F.wordBits then some (F.new v) else none
    | none => none

def baseDr (F : FieldImpl) : Dr Nat Nat where
  ops := opsOf F
  parse := parseWord F
  parseSub := parseWord F
  cast := id
  mulBase := F.mul
  render := fun x => toString (F.asInt x)

def quadDr (F : FieldImpl) (X : X2) : Dr (Nat × Nat) Nat where
  ops := quadOps F X
  parse := fun s => match s.splitOn ":" with
    | [a, b] => match parseWord F a, parseWord F b with
      | some x, some y => some (x, y)
      | _, _ => none
    | _ => none
  parseSub := parseWord F
  cast := fun b => (b, F.new 0)
  mulBase := fun c b => X.mulBase c.1 c.2 b
  render := fun x => s!"{F.asInt x.1}:{F.asInt x.2}"

def cubeDr (F : FieldImpl) (X : X3) : Dr (Nat × Nat × Nat) Nat where
  ops := cubeOps F X
  parse := fun s => match s.splitOn ":" with
    | [a, b, c] => match parseWord F a, parseWord F b, parseWord F c with
      | some x, some y, some z => some (x, y, z)
      | _, _, _ => none
    | _ => none
  parseSub := parseWord F
  cast := fun b => (b, F.new 0, F.new 0)
  mulBase := fun c b => X.mulBase c.1 c.2.1 c.2.2 b
  render := fun x => s!"{F.asInt x.1}:{F.asInt x.2.1}:{F.asInt x.2.2}"

variable {α β : Type}

def parseList (p : String → Option α) (s : String) : Option (List α) :=
  if s == "-" then some [] else (s.splitOn ",").mapM p

def renderList (D : Dr α β) (xs : List α) : String :=
  if xs.isEmpty then "[]" else ",".intercalate (xs.map D.render)

def resList (D : Dr α β) : Res (List α) → String
  | .ok xs => renderList D xs
  | .panic _ => "panic"
  | .hang => "hang"

def parseNum (s : String) (max : Nat) : Option Nat :=
  if s.length > 19 then none
  else match s.toNat? with
    | some v => if v ≤ max then some v else none
    | none => none

/-- split a flat list into `k` consecutive batches of `n` elements -/
def batches (n : Nat) : Nat → List α → List (List α)
  | 0, _ => []
  | k + 1, xs => xs.take n :: batches n k (xs.drop n)

/-- tie T: the model's answer, with the answer of the definition regenerated from the Rust source on this run
    appended when it differs (so that a difference shows up as a disagreement with the compiled code) -/
def chk (m g : String) : String := if m == g ∨ m == "hang" ∨ g == "skip" then m else s!"{m} gen={g}"

def genList (D : Dr α β) (ok : Bool) (xs : List α) : String := if ok then renderList D xs else "panic"

/-- the regenerated definitions index lists (quadratic cost): they are evaluated on inputs of at most 256 elements -/
def small (n : Nat) (g : Unit → String) : String := if n ≤ 256 then g () else "skip"

def handleF (D : Dr α β) : List String → String
  | ["eval", p, x] =>
    match parseList D.parse p, D.parse x with
    | some p, some x => chk (D.render (eval D.ops p x)) (small p.length fun _ => D.render (Gen.Polynom.eval D.ops.toX p x))
    | _, _ => "bad-op"
  | ["evalb", p, x] =>
    match parseList D.parseSub p, D.parse x with
    | some p, some x => D.render (evalWith D.ops D.cast p x)
    | _, _ => "bad-op"
  | ["evalmany", p, xs] =>
    match parseList D.parse p, parseList D.parse xs with
    | some p, some xs => renderList D (evalMany D.ops p xs)
    | _, _ => "bad-op"
  | ["add", a, b] =>
    match parseList D.parse a, parseList D.parse b with
    | some a, some b => chk (renderList D (add D.ops a b))
        (small (a.length + b.length) fun _ => genList D (Gen.Polynom.add_ok D.ops.toX a b) (Gen.Polynom.add D.ops.toX a b))
    | _, _ => "bad-op"
  | ["sub", a, b] =>
    match parseList D.parse a, parseList D.parse b with
    | some a, some b => chk (renderList D (sub D.ops a b))
        (small (a.length + b.length) fun _ => genList D (Gen.Polynom.sub_ok D.ops.toX a b) (Gen.Polynom.sub D.ops.toX a b))
    | _, _ => "bad-op"
  | ["mul", a, b] =>
    match parseList D.parse a, parseList D.parse b with
    | some a, some b => chk (resList D (mul D.ops a b))
        (small (a.length * b.length / 8) fun _ => genList D (Gen.Polynom.mul_ok D.ops.toX a b) (Gen.Polynom.mul D.ops.toX a b))
    | _, _ => "bad-op"
  | ["scal", p, k] =>
    match parseList D.parse p, D.parse k with
    | some p, some k => chk (renderList D (mulByScalar D.ops p k))
        (small p.length fun _ => genList D (Gen.Polynom.mul_by_scalar_ok D.ops.toX p k) (Gen.Polynom.mul_by_scalar D.ops.toX p k))
    | _, _ => "bad-op"
  | ["div", a, b] =>
    match parseList D.parse a, parseList D.parse b with
    | some a, some b => chk (resList D (div D.ops a b))
        (small (a.length * (b.length + 1) / 8) fun _ => genList D (Gen.Polynom.div_ok D.ops.toX a b) (Gen.Polynom.div D.ops.toX a b))
    | _, _ => "bad-op"
  | ["syndiv", p, a, b] =>
    match parseList D.parse p, parseNum a 100000, D.parse b with
    | some p, some a, some b => chk (resList D (synDiv D.ops p a b))
        (small p.length fun _ => genList D (Gen.Polynom.syn_div_ok D.ops.toX p a b) (Gen.Polynom.syn_div D.ops.toX p a b))
    | _, _, _ => "bad-op"
  | ["syndivroots", p, roots] =>
    match parseList D.parse p, parseList D.parse roots with
    | some p, some roots => chk (resList D (synDivRoots D.ops p roots))
        (small (p.length * roots.length / 8) fun _ => genList D (Gen.Polynom.syn_div_roots_in_place_ok D.ops.toX p roots)
          (Gen.Polynom.syn_div_roots_in_place D.ops.toX p roots))
    | _, _ => "bad-op"
  | ["roots", xs] =>
    match parseList D.parse xs with
    | some xs => chk (resList D (polyFromRoots D.ops xs))
        (small (xs.length * xs.length / 8) fun _ => genList D (Gen.Polynom.poly_from_roots_ok D.ops.toX xs) (Gen.Polynom.poly_from_roots D.ops.toX xs))
    | _ => "bad-op"
  | ["interp", xs, ys, rlz] =>
    match parseList D.parse xs, parseList D.parse ys with
    | some xs, some ys =>
      if rlz == "0" then resList D (interpolate D.ops xs ys false)
      else if rlz == "1" then resList D (interpolate D.ops xs ys true)
      else "bad-op"
    | _, _ => "bad-op"
  | ["interpb", n, nx, ny, xs, ys] =>
    match parseNum n 8, parseNum nx 4096, parseNum ny 4096, parseList D.parse xs, parseList D.parse ys with
    | some n, some nx, some ny, some xs, some ys =>
      if xs.length ≠ nx * n ∨ ys.length ≠ ny * n then "bad-op"
      else
        match interpolateBatch D.ops n (batches n nx xs) (batches n ny ys) with
        | .ok polys => renderList D polys.flatten
        | .panic _ => "panic"
        | .hang => "hang"
    | _, _, _, _, _ => "bad-op"
  | ["deg", p] =>
    match parseList D.parse p with
    | some p => chk (toString (degreeOf D.ops p))
        (small p.length fun _ => if Gen.Polynom.degree_of_ok D.ops.toX p then toString (Gen.Polynom.degree_of D.ops.toX p) else "panic")
    | _ => "bad-op"
  | ["rlz", p] =>
    match parseList D.parse p with
    | some p => chk (renderList D (removeLeadingZeros D.ops p))
        (small p.length fun _ => genList D (Gen.Polynom.remove_leading_zeros_ok D.ops.toX p) (Gen.Polynom.remove_leading_zeros D.ops.toX p))
    | _ => "bad-op"
  | ["pser", b, n] =>
    match D.parse b, parseNum n 1048576 with
    | some b, some n =>
      -- serial path: `fill_power_series(result, b, b.exp(0))` on the whole (zero-initialised) vector
      let z := List.replicate n D.ops.zero
      chk (renderList D (getPowerSeries D.ops b n))
        (small n fun _ => genList D (Gen.MathUtils.fill_power_series_ok D.ops.toX z b D.ops.one)
          (Gen.MathUtils.fill_power_series D.ops.toX z b D.ops.one))
    | _, _ => "bad-op"
  | ["psero", b, s, n] =>
    match D.parse b, D.parse s, parseNum n 1048576 with
    | some b, some s, some n =>
      let z := List.replicate n D.ops.zero
      chk (renderList D (getPowerSeriesWithOffset D.ops b s n))
        (small n fun _ => genList D (Gen.MathUtils.fill_power_series_ok D.ops.toX z b s) (Gen.MathUtils.fill_power_series D.ops.toX z b s))
    | _, _, _ => "bad-op"
  | ["addip", a, b] =>
    match parseList D.parse a, parseList D.parse b with
    | some a, some b => resList D (addInPlace D.ops a b)
    | _, _ => "bad-op"
  | ["mulacc", a, b, c] =>
    match parseList D.parse a, parseList D.parseSub b, D.parse c with
    | some a, some b, some c => resList D (mulAcc D.ops D.mulBase a b c)
    | _, _, _ => "bad-op"
  | ["binv", xs] =>
    match parseList D.parse xs with
    | some xs =>
      let z := List.replicate xs.length D.ops.zero
      chk (resList D (batchInversion D.ops xs))
        (small xs.length fun _ => genList D (Gen.MathUtils.serial_batch_inversion_ok D.ops.toX xs z)
          (Gen.MathUtils.serial_batch_inversion D.ops.toX xs z))
    | _ => "bad-op"
  | _ => "bad-op"

def handle : List String → String
  | "f64" :: rest => handleF (baseDr F64.impl) rest
  | "f62" :: rest => handleF (baseDr F62.impl) rest
  | "f128" :: rest => handleF (baseDr F128.impl) rest
  | "q64" :: rest => handleF (quadDr F64.impl x2f64) rest
  | "q62" :: rest => handleF (quadDr F62.impl x2f62) rest
  | "q128" :: rest => handleF (quadDr F128.impl x2f128) rest
  | "c64" :: rest => handleF (cubeDr F64.impl x3f64) rest
  | "c62" :: rest => handleF (cubeDr F62.impl x3f62) rest
  | _ => "bad-op"

end Drv.C20

def main : IO Unit := Drv.runLoop Drv.C20.handle
