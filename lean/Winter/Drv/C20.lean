-- line-protocol handler of property C20 (stub: nothing modelled yet)
import Winter.Drv.Util

namespace Drv.C20

def handle (_toks : List String) : String := "-"

end Drv.C20

def main : IO Unit := Drv.runLoop Drv.C20.handle
