-- line-protocol handler of property C12 (serialization round trip); op lines mirror harness/src/bin/c12.rs
import Winter.Drv.Util
import Winter.Model.Serde
import Winter.Model.SerdeGen

namespace Drv.C12
open Model Model.Serde

-- ------------------------------------------------------------------------------------------------
-- value text parser

inductive PR (α : Type) where
  | ok (a : α) (rest : List Char)
  | reject      -- the constructor refuses the value
  | bad         -- syntax error
  | skip        -- not modelled (needs the prover / a hash function)

abbrev Parser (α : Type) := List Char → PR α

def Parser.pure (a : α) : Parser α := fun cs => .ok a cs
def Parser.bind (p : Parser α) (f : α → Parser β) : Parser β := fun cs =>
  match p cs with
  | .ok a r => f a r
  | .reject => .reject
  | .bad => .bad
  | .skip => .skip
instance : Monad Parser where
  pure := Parser.pure
  bind := Parser.bind

def pReject : Parser α := fun _ => .reject
def pBad : Parser α := fun _ => .bad
def pSkip : Parser α := fun _ => .skip

def pChar (c : Char) : Parser Unit
  | d :: r => if c = d then .ok () r else .bad
  | [] => .bad

def pPeek : Parser (Option Char)
  | [] => .ok none []
  | c :: r => .ok (some c) (c :: r)

def digitsAux : List Char → Nat → Nat → Nat × Nat × List Char
  | c :: r, acc, k => if c.isDigit then digitsAux r (acc * 10 + (c.toNat - 48)) (k + 1) else (acc, k, c :: r)
  | [], acc, k => (acc, k, [])

def pNum : Parser Nat := fun cs =>
  let (v, k, r) := digitsAux cs 0 0
  if k = 0 then .bad else .ok v r

/-- a number that must fit the given number of bits (the harness rejects others) -/
def pNumBits (bits : Nat) : Parser Nat := do
  let v ← pNum
  if v < 2 ^ bits then pure v else pReject

def wordAux : List Char → List Char → List Char × List Char
  | c :: r, acc => if c.isAlphanum then wordAux r (c :: acc) else (acc.reverse, c :: r)
  | [], acc => (acc.reverse, [])

def pWord : Parser String := fun cs =>
  let (w, r) := wordAux cs []
  .ok (String.ofList w) r

def hexAux : List Char → List Nat → Option (List Nat × List Char)
  | a :: b :: r, acc =>
    match hexVal a, hexVal b with
    | some x, some y => hexAux r ((16 * x + y) :: acc)
    | some _, none => none
    | none, _ => some (acc.reverse, a :: b :: r)
  | [a], acc => if (hexVal a).isSome then none else some (acc.reverse, [a])
  | [], acc => some (acc.reverse, [])

/-- `x<hex>` -/
def pXBytes : Parser Bytes := do
  pChar 'x'
  fun cs => match hexAux cs [] with
    | some (bs, r) => .ok bs r
    | none => .bad

def pListAux (p : Parser α) : Nat → List α → Parser (List α)
  | 0, _ => pBad
  | fuel + 1, acc => do
    let x ← p
    let c ← pPeek
    if c = some ']' then do pChar ']'; pure (x :: acc).reverse
    else do pChar ','; pListAux p fuel (x :: acc)

/-- `[a,b,c]` -/
def pList (p : Parser α) : Parser (List α) := fun cs =>
  match cs with
  | '[' :: ']' :: r => .ok [] r
  | '[' :: r => pListAux p (r.length + 1) [] r
  | _ => .bad

/-- `N` | `S<v>` -/
def pOpt (p : Parser α) : Parser (Option α) := fun cs =>
  match cs with
  | 'N' :: r => .ok none r
  | 'S' :: r => (do let x ← p; pure (some x)) r
  | _ => .bad

def xhex (bs : Bytes) : String := "x" ++ String.join (bs.map hexByte)

def showList (f : α → String) (xs : List α) : String := "[" ++ ",".intercalate (xs.map f) ++ "]"

def showOpt (f : α → String) : Option α → String
  | none => "N"
  | some x => "S" ++ f x

-- ------------------------------------------------------------------------------------------------
-- a type of the menu: codec + text syntax + equality + the model of `Ord`

structure AnyCodec where
  α : Type
  c : Codec α
  parse : Parser α
  shw : α → String
  beq : α → α → Bool
  cmp : α → α → Ordering := fun _ _ => .eq
  field : Option FieldImpl := none

def acUint (n : Nat) : AnyCodec where
  α := Nat
  c := uint n
  parse := pNumBits (8 * n)
  shw := toString
  beq := fun a b => a == b
  cmp := natCmp

def acUsize : AnyCodec := { acUint 8 with c := usize }

def acBool : AnyCodec where
  α := Bool
  c := Serde.bool
  parse := fun cs => match cs with
    | 'T' :: r => .ok true r
    | 'F' :: r => .ok false r
    | _ => .bad
  shw := fun b => if b then "T" else "F"
  beq := fun a b => a == b
  cmp := cmpBool

def acUnit : AnyCodec where
  α := Unit
  c := Serde.unit
  parse := pChar 'U'
  shw := fun _ => "U"
  beq := fun _ _ => true

def acStr : AnyCodec where
  α := Bytes
  c := str
  parse := do
    let bs ← pXBytes
    if validUtf8 bs then pure bs else pReject
  shw := xhex
  beq := fun a b => a == b
  cmp := cmpList natCmp

def acBytes : AnyCodec where
  α := Bytes
  c := vec (uint 1)
  parse := pXBytes
  shw := xhex
  beq := fun a b => a == b
  cmp := cmpList natCmp

def acOpt (A : AnyCodec) : AnyCodec where
  α := Option A.α
  c := option A.c
  parse := pOpt A.parse
  shw := showOpt A.shw
  beq := fun a b => match a, b with
    | none, none => true
    | some x, some y => A.beq x y
    | _, _ => false
  cmp := cmpOption A.cmp

def listBeq (f : α → α → Bool) : List α → List α → Bool
  | [], [] => true
  | a :: as, b :: bs => f a b && listBeq f as bs
  | _, _ => false

def acVec (A : AnyCodec) : AnyCodec where
  α := List A.α
  c := vec A.c
  parse := pList A.parse
  shw := showList A.shw
  beq := listBeq A.beq
  cmp := cmpList A.cmp

def acArr (n : Nat) (A : AnyCodec) : AnyCodec where
  α := List A.α
  c := array n A.c
  parse := do
    let l ← pList A.parse
    if l.length = n then pure l else pReject
  shw := showList A.shw
  beq := listBeq A.beq
  cmp := cmpList A.cmp

/-- `a,b` (no parentheses) -/
def acSeq (A B : AnyCodec) : AnyCodec where
  α := A.α × B.α
  c := pair A.c B.c
  parse := do
    let x ← A.parse
    pChar ','
    let y ← B.parse
    pure (x, y)
  shw := fun p => A.shw p.1 ++ "," ++ B.shw p.2
  beq := fun p q => A.beq p.1 q.1 && B.beq p.2 q.2
  cmp := cmpPair A.cmp B.cmp

def acParen (A : AnyCodec) : AnyCodec :=
  { A with
    parse := do pChar '('; let x ← A.parse; pChar ')'; pure x
    shw := fun x => "(" ++ A.shw x ++ ")" }

def acTup : List AnyCodec → Option AnyCodec
  | [] => none
  | [A] => some A
  | A :: rest => (acTup rest).map (acSeq A)

def acMap (K V : AnyCodec) : AnyCodec where
  α := List (K.α × V.α)
  c := btreeMap K.cmp K.c V.c
  parse := fun cs =>
    let entry : Parser (K.α × V.α) := do
      let k ← K.parse
      pChar ':'
      let v ← V.parse
      pure (k, v)
    match cs with
    | '{' :: '}' :: r => .ok [] r
    | '{' :: r =>
      -- same shape as a list, with braces
      let rec go : Nat → List (K.α × V.α) → Parser (List (K.α × V.α))
        | 0, _ => pBad
        | fuel + 1, acc => do
          let x ← entry
          let c ← pPeek
          if c = some '}' then do pChar '}'; pure (x :: acc).reverse
          else do pChar ','; go fuel (x :: acc)
      match go (r.length + 1) [] r with
      | .ok l r => .ok (mapFromList K.cmp l) r
      | .reject => .reject
      | .bad => .bad
      | .skip => .skip
    | _ => .bad
  shw := fun m => "{" ++ ",".intercalate (m.map (fun kv => K.shw kv.1 ++ ":" ++ V.shw kv.2)) ++ "}"
  beq := listBeq (fun p q => K.beq p.1 q.1 && V.beq p.2 q.2)
  cmp := cmpList (cmpPair K.cmp V.cmp)

def acSet (K : AnyCodec) : AnyCodec where
  α := List K.α
  c := btreeSet K.cmp K.c
  parse := do
    let l ← pList K.parse
    pure (setFromList K.cmp l)
  shw := showList K.shw
  beq := listBeq K.beq
  cmp := cmpList K.cmp

-- field elements: the text is an integer of the word size, `BaseElement::new` reduces it
def acElem (F : FieldImpl) : AnyCodec where
  α := Nat
  c := elem F
  parse := do
    let v ← pNumBits F.wordBits
    pure (v % F.M)
  shw := toString
  beq := fun a b => a == b
  field := some F

def acQuad (F : FieldImpl) : AnyCodec := acParen (acSeq (acElem F) (acElem F))
def acCube (F : FieldImpl) : AnyCodec := acParen (acSeq (acElem F) (acSeq (acElem F) (acElem F)))

def acByteDigest (n : Nat) : AnyCodec where
  α := Bytes
  c := byteDigest n
  parse := do
    let bs ← pXBytes
    if bs.length = n then pure bs else pReject
  shw := xhex
  beq := fun a b => a == b

def acElemDigest (F : FieldImpl) (c : Codec (List Nat)) : AnyCodec where
  α := List Nat
  c := c
  parse := (acArr 4 (acElem F)).parse
  shw := showList toString
  beq := fun a b => a == b

def elemKind : String → Option (AnyCodec × Nat)
  | "f64" => some (acElem F64.impl, 8)
  | "f62" => some (acElem F62.impl, 8)
  | "f128" => some (acElem F128.impl, 16)
  | "q64" => some (acQuad F64.impl, 16)
  | "c64" => some (acCube F64.impl, 24)
  | "q62" => some (acQuad F62.impl, 16)
  | "c62" => some (acCube F62.impl, 24)
  | "q128" => some (acQuad F128.impl, 32)
  | _ => none

def digestKind : String → Option AnyCodec
  | "b32" => some (acByteDigest 32)
  | "b24" => some (acByteDigest 24)
  | "e64" => some (acElemDigest F64.impl elemDigest64)
  | "e62" => some (acElemDigest F62.impl elemDigest62)
  | _ => none

-- ------------------------------------------------------------------------------------------------
-- the proof format

def showOptions (o : ProofOptions) : String :=
  s!"({o.numQueries},{o.blowup},{o.grinding},{o.fieldExt},{o.folding},{o.remDeg})"

def pFext : Parser Nat := do
  let v ← pNum
  if v = 1 ∨ v = 2 ∨ v = 3 then pure v else pReject

def pOptions : Parser ProofOptions := do
  pChar '('
  let nq ← pNumBits 64
  pChar ','
  let bl ← pNumBits 64
  pChar ','
  let gr ← pNumBits 32
  pChar ','
  let fe ← pFext
  pChar ','
  let ff ← pNumBits 64
  pChar ','
  let rd ← pNumBits 64
  pChar ')'
  let o : ProofOptions := ⟨nq, bl, gr, fe, ff, rd⟩
  if o.wf then pure o else pReject

def acFext : AnyCodec where
  α := Nat
  c := fext
  parse := pFext
  shw := toString
  beq := fun a b => a == b

def acOptions : AnyCodec where
  α := ProofOptions
  c := proofOptions
  parse := pOptions
  shw := showOptions
  beq := fun a b => a == b

def showTraceInfo (t : TraceInfo) : String :=
  s!"({t.main},{t.aux},{t.rands},{t.length},{xhex t.metadata})"

def pTraceInfoFull : Parser TraceInfo := do
  pChar '('
  let m ← pNumBits 64
  pChar ','
  let a ← pNumBits 64
  pChar ','
  let r ← pNumBits 64
  pChar ','
  let l ← pNumBits 64
  pChar ','
  let md ← pXBytes
  pChar ')'
  let t : TraceInfo := ⟨m, a, r, l, md⟩
  if t.wf then pure t else pReject

/-- `n(width,length)` = `TraceInfo::new`, `m(width,length,xmeta)` = `TraceInfo::with_meta` (both assert a
    non-zero width and call `new_multi_segment`) -/
def pTraceInfo : Parser TraceInfo := fun cs =>
  match cs with
  | 'n' :: r => (do
    pChar '('
    let w ← pNumBits 64
    pChar ','
    let l ← pNumBits 64
    pChar ')'
    let t : TraceInfo := ⟨w, 0, 0, l, []⟩
    if w > 0 && t.wf then pure t else pReject) r
  | 'm' :: r => (do
    pChar '('
    let w ← pNumBits 64
    pChar ','
    let l ← pNumBits 64
    pChar ','
    let md ← pXBytes
    pChar ')'
    let t : TraceInfo := ⟨w, 0, 0, l, md⟩
    if w > 0 && t.wf then pure t else pReject) r
  | _ => pTraceInfoFull cs

def acTraceInfo : AnyCodec where
  α := TraceInfo
  c := traceInfo
  parse := pTraceInfo
  shw := showTraceInfo
  beq := fun a b => a == b

def showContext (c : Context) : String :=
  s!"({showTraceInfo c.traceInfo},{xhex c.modulus},{showOptions c.options})"

def pContext : Parser Context := do
  pChar '('
  let f ← pWord
  pChar ','
  let ti ← pTraceInfo
  pChar ','
  let o ← pOptions
  pChar ')'
  let F? : Option FieldImpl := match f with
    | "f64" => some F64.impl
    | "f62" => some F62.impl
    | "f128" => some F128.impl
    | _ => none
  match F? with
  | none => pBad
  | some F =>
    let c : Context := ⟨ti, leBytes F.bytes F.M, o⟩
    if c.wf then pure c else pReject

def acContext : AnyCodec where
  α := Context
  c := context
  parse := pContext
  shw := showContext
  beq := fun a b => a == b

def pCommitments : Parser Bytes := fun cs =>
  match cs with
  | 'D' :: r => .ok [] r
  | _ => (do
    pChar '('
    let k ← pWord
    pChar ','
    match digestKind k with
    | none => pBad
    | some D => do
      let t ← pList D.parse
      pChar ','
      let c ← D.parse
      pChar ','
      let f ← pList D.parse
      let c0 ← pPeek
      let added ← (if c0 = some ',' then do pChar ','; pList D.parse else pure [])
      pChar ')'
      -- `Commitments::add` appends the serialized digest
      pure (commitmentsNew D.c t c f ++ encMany D.c added)) cs

def acCommitments : AnyCodec where
  α := Bytes
  c := commitments
  parse := pCommitments
  shw := xhex
  beq := fun a b => a == b

def showQueries (q : Queries) : String := s!"({xhex q.values},{xhex q.paths})"

def pQueries : Parser Queries := do
  pChar '('
  let ek ← pWord
  pChar ','
  let dk ← pWord
  pChar ','
  let _depth ← pNumBits 8
  pChar ','
  match digestKind dk, elemKind ek with
  | some D, some (E, _) => do
    let nodes ← pList (pList D.parse)
    pChar ','
    let values ← pList (pList E.parse)
    pChar ')'
    match queriesNew E.c D.c nodes values with
    | some q => pure q
    | none => pReject
  | _, _ => pBad

def acQueries : AnyCodec where
  α := Queries
  c := queries
  parse := pQueries
  shw := showQueries
  beq := fun a b => a == b

def showOodFrame (f : OodFrame) : String := s!"({xhex f.traceStates},{xhex f.lagrange},{xhex f.evaluations})"

def pOodFrame : Parser OodFrame := fun cs =>
  match cs with
  | 'D' :: r => .ok ⟨[], [], []⟩ r
  | _ => (do
    pChar '('
    let ek ← pWord
    pChar ','
    match elemKind ek with
    | none => pBad
    | some (E, _) => do
      let ts ← pOpt (do
        pChar '('
        let _w ← pNumBits 64
        pChar ','
        let cur ← pList E.parse
        pChar ','
        let next ← pList E.parse
        pChar ','
        let lag ← pOpt (pList E.parse)
        pChar ')'
        if cur.length = next.length then pure (cur, next, lag) else pReject)
      pChar ','
      let ev ← pOpt (pList E.parse)
      pChar ')'
      let st : Option (Bytes × Bytes) ← (match ts with
        | none => pure (some ([], []))
        | some (cur, next, lag) => pure (oodSetTraceStates E.c cur next lag))
      match st with
      | none => pReject
      | some (t, l) =>
        match ev with
        | none => pure (⟨t, l, []⟩ : OodFrame)
        | some e =>
          match oodSetEvaluations E.c e with
          | none => pReject
          | some eb => pure (⟨t, l, eb⟩ : OodFrame)) cs

def acOodFrame : AnyCodec where
  α := OodFrame
  c := oodFrame
  parse := pOodFrame
  shw := showOodFrame
  beq := fun a b => a == b

def showFriProof (p : FriProof) : String :=
  let ls := showList (fun (l : FriLayer) => s!"({xhex l.values},{xhex l.paths})") p.layers
  s!"({ls},{xhex p.remainder},{p.numPartitions})"

def pFriProof : Parser FriProof := fun cs =>
  match cs with
  | 'D' :: r => .ok ⟨[], [], 0⟩ r
  | 'x' :: _ => (do
    let bs ← pXBytes
    match friProof.dec bs with
    | .ok (p, _) => pure p
    | _ => pReject) cs
  | _ => .skip   -- built by the FRI prover

def acFriProof : AnyCodec where
  α := FriProof
  c := friProof
  parse := pFriProof
  shw := showFriProof
  beq := fun a b => a == b

def showProof (p : Proof) : String :=
  s!"({showContext p.context},{p.numUniqueQueries},{xhex p.commitments},{showList showQueries p.traceQueries}," ++
  s!"{showQueries p.constraintQueries},{showOodFrame p.oodFrame},{showFriProof p.friProof},{p.powNonce}," ++
  s!"{showOpt xhex p.gkrProof})"

/-- `Proof::new_dummy()` -/
def dummyProof : Proof where
  context := ⟨⟨1, 0, 0, 8, []⟩, leBytes 8 F64.impl.M, ⟨1, 2, 2, 1, 8, 1⟩⟩
  numUniqueQueries := 0
  commitments := []
  traceQueries := [⟨leBytes 8 1, [0]⟩]
  constraintQueries := ⟨leBytes 8 1, [0]⟩
  oodFrame := ⟨[], [], []⟩
  friProof := ⟨[], [], 0⟩
  powNonce := 0
  gkrProof := none

def pProof : Parser Proof := fun cs =>
  match cs with
  | 'D' :: r => .ok dummyProof r
  | 'x' :: _ => (do
    let bs ← pXBytes
    match proof.dec bs with
    | .ok (p, _) => pure p
    | _ => pReject) cs
  | _ => (do
    pChar '('
    let c ← pContext
    pChar ','
    let nuq ← pNumBits 8
    pChar ','
    let cm ← pCommitments
    pChar ','
    let tq ← pList pQueries
    pChar ','
    let cq ← pQueries
    pChar ','
    let ood ← pOodFrame
    pChar ','
    let fri ← pFriProof
    pChar ','
    let nonce ← pNumBits 64
    pChar ','
    let gkr ← pOpt pXBytes
    pChar ')'
    pure (⟨c, nuq, cm, tq, cq, ood, fri, nonce, gkr⟩ : Proof)) cs

def acProof : AnyCodec where
  α := Proof
  c := proof
  parse := pProof
  shw := showProof
  beq := fun a b => a == b

-- ------------------------------------------------------------------------------------------------
-- type expressions: `vec(opt(u16))`, `map(u32,str)`, `tup(u8,u64,bool)`, `arr3(u16)`, ...

def atom : String → Option AnyCodec
  | "u8" => some (acUint 1)
  | "u16" => some (acUint 2)
  | "u32" => some (acUint 4)
  | "u64" => some (acUint 8)
  | "u128" => some (acUint 16)
  | "usize" => some acUsize
  | "bool" => some acBool
  | "unit" => some acUnit
  | "str" => some acStr
  | "strref" => some acStr
  | "bytes" => some acBytes
  | "f64" => some (acElem F64.impl)
  | "f62" => some (acElem F62.impl)
  | "f128" => some (acElem F128.impl)
  | "b32" => some (acByteDigest 32)
  | "b24" => some (acByteDigest 24)
  | "e64" => some (acElemDigest F64.impl elemDigest64)
  | "e62" => some (acElemDigest F62.impl elemDigest62)
  | "fext" => some acFext
  | "options" => some acOptions
  | "traceinfo" => some acTraceInfo
  | "context" => some acContext
  | "commitments" => some acCommitments
  | "queries" => some acQueries
  | "oodframe" => some acOodFrame
  | "friproof" => some acFriProof
  | "proof" => some acProof
  | _ => none

def fieldOf : String → Option FieldImpl
  | "f64" => some F64.impl
  | "f62" => some F62.impl
  | "f128" => some F128.impl
  | _ => none

mutual
def parseTy : Nat → List Char → Option (AnyCodec × List Char)
  | 0, _ => none
  | fuel + 1, cs =>
    let (w, r) := wordAux cs []
    let name := String.ofList w
    match r with
    | '(' :: r =>
      match parseTys fuel r with
      | some (args, r) =>
        let res : Option AnyCodec :=
          match name, args with
          | "opt", [A] => some (acOpt A)
          | "vec", [A] => some (acVec A)
          | "slice", [A] => some (acVec A)
          | "set", [A] => some (acSet A)
          | "map", [K, V] => some (acMap K V)
          | "tup", args => (acTup args).map acParen
          | "q", [A] => A.field.map acQuad
          | "c", [A] => A.field.map acCube
          | _, [A] =>
            if name.startsWith "arr" then (name.drop 3).toNat?.map (fun n => acArr n A) else none
          | _, _ => none
        res.map (fun a => (a, r))
      | none => none
    | _ => (atom name).map (fun a => (a, r))
def parseTys : Nat → List Char → Option (List AnyCodec × List Char)
  | 0, _ => none
  | fuel + 1, cs =>
    match parseTy fuel cs with
    | some (a, ',' :: r) =>
      match parseTys fuel r with
      | some (as, r) => some (a :: as, r)
      | none => none
    | some (a, ')' :: r) => some ([a], r)
    | _ => none
end

/-- `q(f64)` and `c(f64)` are handled before the generic grammar -/
def typeOf (s : String) : Option AnyCodec :=
  match s with
  | "q(f64)" => some (acQuad F64.impl)
  | "q(f62)" => some (acQuad F62.impl)
  | "q(f128)" => some (acQuad F128.impl)
  | "c(f64)" => some (acCube F64.impl)
  | "c(f62)" => some (acCube F62.impl)
  | _ =>
    match parseTy (s.length + 1) s.toList with
    | some (a, []) => some a
    | _ => none

-- ------------------------------------------------------------------------------------------------
-- operations

def suffix : Bytes := [165, 1, 128]

def opEnc (A : AnyCodec) (text : String) : String :=
  match A.parse text.toList with
  | .bad => "bad-op"
  | .reject => "reject"
  | .skip => "-"
  | .ok _ (_ :: _) => "bad-op"
  | .ok x [] =>
    if A.c.wpanic x then "wpanic"
    else
      let bytes := A.c.enc x
      let h := hexOf bytes
      match A.c.dec (bytes ++ suffix) with
      | .ok (y, rest) =>
        if A.beq y x && rest == suffix then s!"{h} rt" else s!"{h} ne {A.shw y} {rest.length}"
      | .err => s!"{h} err"
      | .eof => s!"{h} eof"
      | .panic => s!"{h} panic"

def opDec (A : AnyCodec) (h : String) : String :=
  match unhex h with
  | none => "bad-op"
  | some bs =>
    match A.c.dec bs with
    | .ok (x, rest) =>
      let re := if A.c.wpanic x then "wpanic" else hexOf (A.c.enc x)
      s!"ok {A.shw x} {rest.length} {re}"
    | .err => "err"
    | .eof => "eof"
    | .panic => "panic"

/-- tie T: the decoders of `TraceInfo`, `ProofOptions`, `Context` over the guards regenerated from the three
    `read_from` functions on this run (Winter/Model/SerdeGen.lean) must answer like the model's decoders; a
    difference is appended and so shows up as a disagreement with the compiled code -/
def genDecDiff (ty h : String) : String :=
  let kind {α : Type} [BEq α] (m g : Res (α × Bytes)) : String :=
    match m, g with
    | .ok (x, r), .ok (y, r') => if x == y && r == r' then "" else " gen=ok-other"
    | .err, .err => ""
    | .eof, .eof => ""
    | .panic, .panic => ""
    | _, .ok _ => " gen=ok"
    | _, .err => " gen=err"
    | _, .eof => " gen=eof"
    | _, .panic => " gen=panic"
  match unhex h with
  | none => ""
  | some bs =>
    if ty == "traceinfo" then kind (traceInfo.dec bs) (traceInfoDecG bs)
    else if ty == "options" then kind (proofOptions.dec bs) (proofOptionsDecG bs)
    else if ty == "context" then kind (context.dec bs) (contextDecG bs)
    else ""

def opVint (v : Nat) : String :=
  let b := writeUsize v
  -- tie T: the same through the integer logic regenerated from the Rust source on this run (a difference
  -- between model and regenerated definitions shows up as a disagreement with the compiled code)
  let bg := writeUsizeG v
  let rt := match readUsizeG bg with
    | .ok (x, []) => x == v % 18446744073709551616
    | _ => false
  s!"{hexOf b} {b.length}" ++ (if bg == b && rt then "" else s!" gen={hexOf bg} {rt}")

/-- `qparse <queries text>` -/
def opQparse (text : String) : String :=
  let p : Parser String := do
    pChar '('
    let ek ← pWord
    pChar ','
    let dk ← pWord
    pChar ','
    let depth ← pNumBits 8
    pChar ','
    if depth = 0 ∨ depth > 40 then pBad
    else
      let ok := dk = "b32" ∨ dk = "b24" ∨ (dk = "e64" ∧ (ek = "f64" ∨ ek = "q64" ∨ ek = "c64"))
      match (if ok then digestKind dk else none), elemKind ek with
      | some D, some (E, eb) => do
        let nodes ← pList (pList D.parse)
        pChar ','
        let values ← pList (pList E.parse)
        pChar ')'
        match queriesNew E.c D.c nodes values with
        | none => pReject
        | some q =>
          let rows := values.length
          let cols := (values.headD []).length
          match queriesParse E.c eb D.c q depth rows cols with
          | .ok (t, ns) => pure s!"ok {showList (showList E.shw) t} {showList (showList D.shw) ns}"
          | .err => pure "err"
          | .eof => pure "eof"
          | .panic => pure "panic"
      | _, _ => pBad
  match p text.toList with
  | .ok s [] => s
  | .ok _ _ => "bad-op"
  | .bad => "bad-op"
  | .reject => "reject"
  | .skip => "-"

/-- `cparse <commitments text>` -/
def opCparse (text : String) : String :=
  let p : Parser String := do
    pChar '('
    let k ← pWord
    pChar ','
    match digestKind k with
    | none => pBad
    | some D => do
      let t ← pList D.parse
      pChar ','
      let c ← D.parse
      pChar ','
      let f ← pList D.parse
      pChar ')'
      if f.isEmpty then pBad
      else
        let bytes := commitmentsNew D.c t c f
        if commitments.wpanic bytes then pure "wpanic"
        else
          match commitmentsParse D.c bytes t.length (f.length - 1) with
          | .ok (t', c', f') => pure s!"ok {showList D.shw t'} {D.shw c'} {showList D.shw f'}"
          | .err => pure "err"
          | .eof => pure "eof"
          | .panic => pure "panic"
  match p text.toList with
  | .ok s [] => s
  | .ok _ _ => "bad-op"
  | .bad => "bad-op"
  | .reject => "reject"
  | .skip => "-"

/-- `oparse <oodframe text>` (trace states and evaluations both set) -/
def opOparse (text : String) : String :=
  let p : Parser String := do
    pChar '('
    let ek ← pWord
    pChar ','
    match elemKind ek with
    | none => pBad
    | some (E, _) => do
      pChar 'S'
      pChar '('
      let w ← pNumBits 64
      pChar ','
      let cur ← pList E.parse
      pChar ','
      let next ← pList E.parse
      pChar ','
      let lag ← pOpt (pList E.parse)
      pChar ')'
      pChar ','
      pChar 'S'
      let ev ← pList E.parse
      pChar ')'
      if cur.length ≠ next.length then pReject
      else
        match oodSetTraceStates E.c cur next lag, oodSetEvaluations E.c ev with
        | some (ts, l), some eb =>
          if w = 0 ∨ w > cur.length then pBad
          else
            let hasLag := match lag with
              | some (_ :: _) => true
              | _ => false
            let aux := cur.length - w + (if hasLag then 1 else 0)
            match oodParse E.c ⟨ts, l, eb⟩ w aux ev.length with
            | .ok (c, n, lg, e) =>
              pure s!"ok {showList E.shw c} {showList E.shw n} {showOpt (showList E.shw) lg} {showList E.shw e}"
            | .err => pure "err"
            | .eof => pure "eof"
            | .panic => pure "panic"
        | _, _ => pReject
  match p text.toList with
  | .ok s [] => s
  | .ok _ _ => "bad-op"
  | .bad => "bad-op"
  | .reject => "reject"
  | .skip => "-"

/-- `seq <ty1;ty2;...> <hex>`: the types one after the other on the same reader -/
def opSeq (types : String) (h : String) : String :=
  match unhex h with
  | none => "bad-op"
  | some bs =>
    let rec go : List String → Bytes → List String → String
      | [], rest, acc =>
        "|".intercalate (acc.reverse ++ [s!"more={if rest.isEmpty then "false" else "true"} rest={rest.length}"])
      | t :: ts, rest, acc =>
        match typeOf t with
        | none => "|".intercalate (acc.reverse ++ ["bad-op"])
        | some A =>
          match A.c.dec rest with
          | .ok (x, rest') => go ts rest' (s!"ok {A.shw x}" :: acc)
          | .err => "|".intercalate (acc.reverse ++ ["err"])
          | .eof => "|".intercalate (acc.reverse ++ ["eof"])
          | .panic => "|".intercalate (acc.reverse ++ ["panic"])
    go (types.splitOn ";") bs []

/-- `rstr <n> <hex>`: `read_string(n)` = `read_vec(n)` then `String::from_utf8` -/
def opRstr (n : Nat) (h : String) : String :=
  match unhex h with
  | none => "bad-op"
  | some bs =>
    match readSlice n bs with
    | .ok (s, rest) => if validUtf8 s then s!"ok {xhex s} {rest.length}" else "err"
    | .err => "err"
    | .eof => "eof"
    | .panic => "panic"

def handle : List String → String
  | ["enc", ty, text] =>
    match typeOf ty with
    | some A => opEnc A text
    | none => "-"
  | ["dec", ty, h] =>
    match typeOf ty with
    | some A => opDec A h ++ genDecDiff ty h
    | none => "-"
  | ["vint", v] =>
    match v.toNat? with
    | some v => opVint v
    | none => "bad-op"
  | ["qparse", text] => opQparse text
  | ["seq", types, h] => opSeq types h
  | ["rstr", n, h] =>
    match n.toNat? with
    | some n => opRstr n h
    | none => "bad-op"
  | ["cparse", text] => opCparse text
  | ["oparse", text] => opOparse text
  | _ => "-"

end Drv.C12

def main : IO Unit := Drv.runLoop Drv.C12.handle
