-- line-protocol handler of property C12 (stub: nothing modelled yet)
import Winter.Drv.Util

namespace Drv.C12

def handle (_toks : List String) : String := "-"

end Drv.C12

def main : IO Unit := Drv.runLoop Drv.C12.handle
