-- line-protocol handler of property C13 (stub: nothing modelled yet)
import Winter.Drv.Util

namespace Drv.C13

def handle (_toks : List String) : String := "-"

end Drv.C13

def main : IO Unit := Drv.runLoop Drv.C13.handle
