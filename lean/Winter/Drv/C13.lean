-- line-protocol handler of property C13 (streaming byte reader): runs the ReadAdapter model of
-- Winter/Model/Reader.lean on one history `<hex stream> <chunking> <op;op;…>` (see harness/src/bin/c13.rs)
import Winter.Drv.Util
import Winter.Model.Reader

namespace Drv.C13
open Model.Reader

/-- what the harness's `ChunkSrc` would return if it were offered an unbounded buffer: sizes are used
    cyclically, a size 0 is an `Ok(0)` read, the list ends when the data is exhausted. The 256-byte
    `BufReader` in front of it is `Model.Reader.capSplit 256`. -/
def rawChunks (sizes : Array Nat) : Nat → List Nat → Nat → List (List Nat)
  | 0, _, _ => []
  | fuel + 1, data, idx =>
    if data.isEmpty then []
    else
      let s := sizes[idx % sizes.size]!
      if s = 0 then [] :: rawChunks sizes fuel data (idx + 1)
      else data.take s :: rawChunks sizes fuel (data.drop s) (idx + 1)

def parseChunks (spec : String) : Option (Array Nat) :=
  let body : Option (List String) :=
    if spec.startsWith "c" then some [(spec.drop 1).toString]
    else if spec.startsWith "l:" then some ((spec.drop 2).toString.splitOn ",")
    else none
  match body with
  | none => none
  | some xs =>
    match natList xs with
    | some v => if v.isEmpty || v.all (· == 0) then none else some v.toArray
    | none => none

inductive DOp where
  | op (o : Op)
  | drain

def arraySizes : List Nat :=
  [0, 1, 2, 3, 4, 5, 6, 7, 8, 9, 15, 16, 17, 31, 32, 33, 64, 100, 255, 256, 257, 258, 300, 512, 513, 600]

def parseElem : String → Option Elem
  | "u8" => some .u8
  | "u16" => some .u16
  | "u32" => some .u32
  | "u64" => some .u64
  | "u128" => some .u128
  | "us" => some .usize
  | "unit" => some .unit
  | "opt" => some .optU8
  | "pair" => some .pairU8U16
  | _ => none

def parseOp (s : String) : Option DOp :=
  match s with
  | "u8" => some (.op .readU8)
  | "pk" => some (.op .peekU8)
  | "b" => some (.op .readBool)
  | "u16" => some (.op .readU16)
  | "u32" => some (.op .readU32)
  | "u64" => some (.op .readU64)
  | "u128" => some (.op .readU128)
  | "us" => some (.op .readUsize)
  | "h" => some (.op .hasMore)
  | "d" => some .drain
  | _ =>
    let rest := (s.drop 1).toString
    if s.startsWith "r" then
      -- `read::<D>()` is `D::read_from`: one element
      match parseElem rest with
      | some e => some (.op (.readMany e 1))
      | none => none
    else if s.startsWith "m" then
      match rest.splitOn ":" with
      | [ty, n] =>
        match parseElem ty, n.toNat? with
        | some e, some n => some (.op (.readMany e n))
        | _, _ => none
      | _ => none
    else
      match rest.toNat? with
      | none => none
      | some n =>
        if s.startsWith "s" then some (.op (.readSlice n))
        else if s.startsWith "a" then (if arraySizes.contains n then some (.op (.readArray n)) else none)
        else if s.startsWith "v" then some (.op (.readVec n))
        else if s.startsWith "t" then some (.op (.readString n))
        else if s.startsWith "e" then some (.op (.checkEor n))
        else none

def natsStr (vs : List Nat) : String :=
  if vs.isEmpty then "-" else ",".intercalate (vs.map toString)

def showRes (_op : Op) : Res Val → String
  | .eof => "eof"
  | .invalid => "err"
  | .panic => "panic"
  | .ok v =>
    match v with
    | .nat n => toString n
    | .bool b => if b then "true" else "false"
    | .bytes bs => hexOf bs
    | .nats vs => natsStr vs
    | .unit => "ok"

/-- `d`: read_u8 until the first error, at most `limit` times -/
def drain : Nat → St → List Nat → List Nat × St
  | 0, s, acc => (acc.reverse, s)
  | k + 1, s, acc =>
    match St.pop s with
    | (.ok b, s') => drain k s' (b :: acc)
    | (_, s') => (acc.reverse, s')

/-- run the history; a panic ends it -/
def runOps (limit : Nat) : List DOp → St → List String → List String
  | [], _, acc => acc.reverse
  | .drain :: ops, s, acc =>
    let r := drain limit s []
    runOps limit ops r.2 (hexOf r.1 :: acc)
  | .op o :: ops, s, acc =>
    let r := step St.reader o s
    match r.1 with
    | .panic => ("panic" :: acc).reverse
    | x => runOps limit ops r.2 (showRes o x :: acc)

def handle (toks : List String) : String :=
  match toks with
  | [h, ch, opsS] =>
    match unhex h, parseChunks ch, (opsS.splitOn ";").mapM parseOp with
    | some data, some sizes, some ops =>
      let src := capSplit 256 (rawChunks sizes ((data.length + 1) * (sizes.size + 1) + 1) data 0)
      let limit := data.length + 8
      -- the answers of `has_remaining_capacity` are not modelled: run with "never" and with "always" and
      -- insist that no return value depends on them
      let a := runOps limit ops (St.new src []) []
      let b := runOps limit ops (St.new src (List.replicate ops.length true)) []
      if a == b then (let r := ";".intercalate a; if r == "-" then "-;" else r) else "capacity-dependent " ++ ";".intercalate a ++ " | " ++ ";".intercalate b
    | _, _, _ => "bad-op"
  | _ => "bad-op"

end Drv.C13

def main : IO Unit := Drv.runLoop Drv.C13.handle
