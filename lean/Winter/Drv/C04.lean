-- line-protocol handler of property C04 (Fiat–Shamir transcript): prints the prover and the verifier
-- script of Winter/Model/Transcript.lean for the configuration of an op line
--   run <aux> <lagrange> <gkr draws> <aux rands> <transition constraints> <assertions> <log2 trace length>
--       <trace width> <composition columns> <FRI layers> <queries> <lde size> <extension degree> <grinding>
--       … (the rest of the line — field, hasher, options, trace seed, AIR description — is for the harness)
-- in the canonical text form the recording coin of harness/src/bin/c04.rs produces.
import Winter.Drv.Util
import Winter.Model.Transcript

namespace Drv.C04
open Model.Transcript

def parseCfg (t : List String) : Option Cfg :=
  match natList (t.take 14) with
  | some [aux, lag, gkr, ar, nt, na, ll, w, cols, layers, q, lde, ext, g] =>
    if aux ≤ 1 ∧ lag ≤ 1 ∧ 1 ≤ ext ∧ ext ≤ 3 ∧ t.length = 19 then
      some { aux := aux == 1, lagrange := lag == 1, gkrDraws := gkr, auxRands := ar, nTrans := nt, nAssert := na,
             logLen := ll, width := w, cols := cols, friLayers := layers, queries := q, ldeSize := lde,
             ext := ext, grinding := g }
    else none
  | _ => none

def handle (toks : List String) : String :=
  match toks with
  | "run" :: rest =>
    match parseCfg rest with
    | some cfg => "P " ++ canon cfg (proverScript cfg) ++ " V " ++ canon cfg (verifierScript cfg)
    | none => "-"
  | _ => "-"

end Drv.C04

def main : IO Unit := Drv.runLoop Drv.C04.handle
