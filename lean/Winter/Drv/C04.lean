-- line-protocol handler of property C04 (Fiat–Shamir transcript): prints the prover and the verifier
-- script of Winter/Model/Transcript.lean for the configuration of an op line
--   run <aux> <lagrange> <gkr draws> <aux rands> <transition constraints> <assertions> <log2 trace length>
--       <trace width> <composition columns> <FRI layers> <queries> <lde size> <extension degree> <grinding>
--       … (the rest of the line — field, hasher, options, trace seed, AIR description — is for the harness)
-- in the canonical text form the recording coin of harness/src/bin/c04.rs produces, and
--   fri <layers> <ext> <queries> <domain> …   the FRI commit phase alone (`friProver`, `friVerifierLoop`)
--   ctx <field> <A> <B>     (A, B = mw.aw.ar.log2len.meta.q.b.g.x.f.r) the seed elements `Context::to_elements`
--       of two proof contexts as the model computes them (`ctxElems`).
import Winter.Drv.Util
import Winter.Model.Transcript

namespace Drv.C04
open Model.Transcript

def parseCfg (t : List String) : Option Cfg :=
  match natList (t.take 14) with
  | some [aux, lag, gkr, ar, nt, na, ll, w, cols, layers, q, lde, ext, g] =>
    if aux ≤ 1 ∧ lag ≤ 1 ∧ 1 ≤ ext ∧ ext ≤ 3 ∧ t.length = 19 then
      some { aux := aux == 1, lagrange := lag == 1, gkrDraws := gkr, auxRands := ar, nTrans := nt, nAssert := na,
             logLen := ll, width := w, cols := cols, friLayers := layers, queries := q, ldeSize := lde,
             ext := ext, grinding := g }
    else none
  | _ => none

def fieldOfName : String → Option (Nat × Nat)
  | "f62" => some (4611624995532046337, 8)
  | "f64" => some (18446744069414584321, 8)
  | "f128" => some (340282366920938463463374557953744961537, 16)
  | _ => none

def isPow2 (x : Nat) : Bool := x != 0 && 2 ^ x.log2 == x

/-- `mw.aw.ar.log2len.meta.q.b.g.x.f.r` (meta: hex or `-`); only tuples the constructors accept -/
def parseCtx (fld : Nat × Nat) (s : String) : Option Ctx :=
  match s.splitOn "." with
  | [mw, aw, ar, ll, md, q, b, g, x, f, r] =>
    match natList [mw, aw, ar, ll, q, b, g, x, f, r], unhex md with
    | some [mw, aw, ar, ll, q, b, g, x, f, r], some md =>
      if 1 ≤ mw ∧ mw + aw ≤ 255 ∧ ar ≤ 255 ∧ (aw = 0 → ar = 0) ∧ 3 ≤ ll ∧ ll ≤ 31 ∧ md.length ≤ 200 ∧
         1 ≤ q ∧ q ≤ 255 ∧ isPow2 b ∧ 2 ≤ b ∧ b ≤ 128 ∧ 2 ^ ll * b < 4294967296 ∧ g ≤ 32 ∧ 1 ≤ x ∧ x ≤ 3 ∧
         (f = 2 ∨ f = 4 ∨ f = 8 ∨ f = 16) ∧ r ≤ 255 ∧ isPow2 (r + 1) then
        some { mainWidth := mw, auxWidth := aw, auxRands := ar, traceLen := 2 ^ ll, traceMeta := md,
               modulus := fld.1, elemBytes := fld.2, queries := q, blowup := b, grinding := g, ext := x,
               folding := f, remainder := r }
      else none
    | _, _ => none
  | _ => none

def showElems (xs : List Nat) : String := ",".intercalate (xs.map toString)

def handle (toks : List String) : String :=
  match toks with
  | "run" :: rest =>
    match parseCfg rest with
    | some cfg => "P " ++ canon cfg (proverScript cfg) ++ " V " ++ canon cfg (verifierScript cfg)
    | none => "-"
  | "fri" :: rest =>
    -- fri <layers> <ext> <queries> <domain> …: the FRI commit phase alone (FriProver::build_layers over the FRI
    -- crate's DefaultProverChannel, FriVerifier::new over DefaultVerifierChannel), coin created from an empty seed
    match natList (rest.take 4) with
    | some [layers, ext, q, dom] =>
      if 1 ≤ ext ∧ ext ≤ 3 ∧ rest.length = 10 then
        let cfg : Cfg := { aux := false, lagrange := false, gkrDraws := 0, auxRands := 0, nTrans := 0, nAssert := 0,
                           logLen := 0, width := 0, cols := 0, friLayers := layers, queries := q, ldeSize := dom,
                           ext := ext, grinding := 0 }
        let tail : List CoinOp := [.reseedWithNonce, .drawInts q dom]
        "P " ++ canon cfg ([.new []] ++ friProver layers ++ tail)
          ++ " V " ++ canon cfg ([.new []] ++ friVerifierLoop 0 (friCommitments layers) ++ tail)
      else "-"
    | _ => "-"
  | ["ctx", fld, a, b] =>
    match fieldOfName fld with
    | some fd =>
      match parseCtx fd a, parseCtx fd b with
      | some ca, some cb => showElems (ctxElems ca) ++ " " ++ showElems (ctxElems cb)
      | _, _ => "-"
    | none => "-"
  | _ => "-"

end Drv.C04

def main : IO Unit := Drv.runLoop Drv.C04.handle
