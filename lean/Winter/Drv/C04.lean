-- line-protocol handler of property C04 (stub: nothing modelled yet)
import Winter.Drv.Util

namespace Drv.C04

def handle (_toks : List String) : String := "-"

end Drv.C04

def main : IO Unit := Drv.runLoop Drv.C04.handle
