-- line-protocol handler of property C14: the partition arithmetic of the concurrent routines
-- (Winter/Model/Parallel.lean) for the `part …` lines of harness/src/bin/c14.rs; every other line is `-`
-- (results of the two builds are compared with each other by the harness, not with the model).
import Winter.Drv.Util
import Winter.Model.Parallel

namespace Drv.C14
open Model.Parallel

def pairs (l : List (Nat × Nat)) : String :=
  " ".intercalate (l.map (fun p => s!"{p.1}:{p.2}"))

def batchLine (len : Nat) (min : Option Nat) (t : Nat) : String :=
  match batchIterMut len min t with
  | none => "panic"
  | some l => pairs l

def fragLine (len fragLen : Nat) : String :=
  match traceFragments len fragLen with
  | none => "panic"
  | some l => " ".intercalate (l.map (fun p => s!"{p.1}:{p.2.1}:{p.2.2}"))

/-- maximal runs `k, k-1, k-2, …` of a list of written nodes as (lowest node, length), in list order — the harness
    recovers the same runs from the observed order of the writes of one task -/
def descRuns : List Nat → List (Nat × Nat) → List (Nat × Nat)
  | [], acc => acc.reverse
  | k :: rest, [] => descRuns rest [(k, 1)]
  | k :: rest, (lo, len) :: acc => if k + 1 = lo then descRuns rest ((k, len + 1) :: acc) else descRuns rest ((k, 1) :: (lo, len) :: acc)

def merkleLine (leaves t : Nat) : String :=
  let n := leaves / 2
  let S := merkleSubtrees n t
  let tasks := (List.range S).map (fun i => descRuns (merkleTaskWrites n S i) [])
  let written := (List.range S).foldl (fun acc i => acc + (merkleTaskWrites n S i).length) 0
  let merges := n + written + (merkleTip S).length
  let tasksTxt :=
    if n ≥ 4 * S then
      ";".intercalate (tasks.map (fun lv => ",".intercalate (lv.map (fun p => s!"{p.1}+{p.2}"))))
    else "-"
  let tip := merkleTip S
  let tipTxt := if tip.isEmpty then "-" else ",".intercalate (tip.map toString)
  s!"S={S} merges={merges} tasks={tasksTxt} tip={tipTxt}"

def isPow2Nat (n : Nat) : Bool := Model.Fft.isPow2 n

def handle (toks : List String) : String :=
  match toks with
  | ["part", "batch", len, min, t] =>
    match len.toNat?, t.toNat? with
    | some len, some t =>
      if len > 2 ^ 26 ∨ t = 0 ∨ t > 4096 then "-"
      else if min == "-" then batchLine len none t
      else match min.toNat? with
        | some m => if m > 2 ^ 26 then "-" else batchLine len (some m) t
        | none => "-"
    | _, _ => "-"
  | ["part", "frag", len, fl, t] =>
    match len.toNat?, fl.toNat?, t.toNat? with
    | some len, some fl, some t => if len > 2 ^ 26 ∨ fl > 2 ^ 26 ∨ t = 0 ∨ t > 4096 then "-" else fragLine len fl
    | _, _, _ => "-"
  | ["part", "merkle", leaves, t] =>
    match leaves.toNat?, t.toNat? with
    | some leaves, some t =>
      if leaves < 2 ∨ leaves > 2 ^ 26 ∨ !isPow2Nat leaves ∨ t = 0 ∨ t > 4096 then "-" else merkleLine leaves t
    | _, _ => "-"
  | _ => "-"

end Drv.C14

def main : IO Unit := Drv.runLoop Drv.C14.handle
