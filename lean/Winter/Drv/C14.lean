-- line-protocol handler of property C14 (stub: nothing modelled yet)
import Winter.Drv.Util

namespace Drv.C14

def handle (_toks : List String) : String := "-"

end Drv.C14

def main : IO Unit := Drv.runLoop Drv.C14.handle
