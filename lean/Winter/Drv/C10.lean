-- line-protocol handler of property C10 (Merkle openings); mirrors harness/src/bin/c10.rs for the
-- `toy` hasher (lines for the real hashers are judged by the harness oracle only: "-")
import Winter.Drv.Util
import Winter.Model.Merkle

namespace Drv.C10
open Model.Merkle

def M64 : Nat := 18446744073709551616

/-- the toy 64-bit mixing function of the harness (`mix` in c10.rs) -/
def mix (a b : Nat) : Nat :=
  let rot := (b * 2147483648) % M64 + b / 8589934592
  let x := (a * 0x9E3779B97F4A7C15 + rot * 0xBF58476D1CE4E5B9 + 0x94D049BB133111EB) % M64
  let x := x ^^^ (x / 536870912)
  let x := (x * 0xD6E8FEB86659FD93) % M64
  x ^^^ (x / 4294967296)

def toy : Hasher Nat := { merge := mix, dflt := 0 }

def leafOf (seed i : Nat) : Nat := mix ((seed + 1) % M64) i
def tweak (d : Nat) : Nat := (d + 1) % M64
def extra : Nat := 0x5a5a5a5a5a5a5a5a

def cks0 : Nat := 14695981039346656037
def cks (h d : Nat) : Nat := (h * 1099511628211 + d) % M64
def cksList (h : Nat) (ds : List Nat) : Nat := ds.foldl cks h

def kindStr : Err → String
  | .fewLeaves => "few-leaves"
  | .notPow2 => "not-pow2"
  | .oob => "oob"
  | .dup => "dup"
  | .noIdx => "no-idx"
  | .manyIdx => "many-idx"
  | .invalid => "invalid"

def unitStr : Res Unit → String
  | .ok _ => "ok"
  | .err e => "err:" ++ kindStr e
  | .panic _ => "panic"

def digStr : Res Nat → String
  | .ok d => toString d
  | .err e => "err:" ++ kindStr e
  | .panic _ => "panic"

def u64? (s : String) : Option Nat :=
  match s.toNat? with
  | some n => if n < M64 then some n else none
  | none => none

def idxs? (s : String) : Option (List Nat) :=
  if s == "-" then some [] else (s.splitOn ",").mapM u64?

def lensStr (rows : List (List Nat)) : String :=
  ".".intercalate (rows.map (fun r => toString r.length))

def proofCks (leaves : List Nat) (rows : List (List Nat)) : Nat :=
  rows.foldl cksList (cksList cks0 leaves)

structure Opening where
  idxs : List Nat
  leaves : List Nat
  nodes : List (List Nat)
  depth : Nat

def Opening.proof (o : Opening) : BatchProof Nat := { leaves := o.leaves, nodes := o.nodes, depth := o.depth }

def swapAt {α} (l : List α) (a b : Nat) : List α :=
  match l[a]?, l[b]? with
  | some x, some y => (l.set a y).set b x
  | _, _ => l

/-- `c` surplus positions: unused in-range positions first, then out-of-range ones (`addidxn` in c10.rs) -/
def surplus (used : List Nat) (n : Nat) : Nat → Nat → Nat → List Nat
  | 0, _, _ => []
  | _, _, 0 => []
  | c + 1, cand, fuel + 1 =>
    if cand < n ∧ used.contains cand then surplus used n (c + 1) (cand + 1) fuel
    else cand :: surplus used n c (cand + 1) fuel

/-- the mutations of `apply` in c10.rs; `none` = not applicable (`bad-op`) -/
def applyMut (o : Opening) (m : List String) : Option Opening :=
  match m with
  | ["none"] => some o
  | ["leaf", k] => do
    let k ← u64? k
    let d ← o.leaves[k]?
    some { o with leaves := o.leaves.set k (tweak d) }
  | ["node", r, c] => do
    let r ← u64? r
    let c ← u64? c
    let row ← o.nodes[r]?
    let d ← row[c]?
    some { o with nodes := o.nodes.set r (row.set c (tweak d)) }
  | ["idx", k, v] => do
    let k ← u64? k
    let v ← u64? v
    let old ← o.idxs[k]?
    if old = v then none else some { o with idxs := o.idxs.set k v }
  | ["depth", d] => do
    let d ← u64? d
    if d < 256 ∧ d ≠ o.depth then some { o with depth := d } else none
  | ["dropnode", r] => do
    let r ← u64? r
    let row ← o.nodes[r]?
    if row.isEmpty then none else some { o with nodes := o.nodes.set r row.dropLast }
  | ["addnode", r] => do
    let r ← u64? r
    let row ← o.nodes[r]?
    some { o with nodes := o.nodes.set r (row ++ [extra]) }
  | ["addnode", r, c] => do
    let r ← u64? r
    let c ← u64? c
    let row ← o.nodes[r]?
    if c ≥ 1 ∧ c ≤ 70000 then some { o with nodes := o.nodes.set r (row ++ List.replicate c extra) } else none
  | ["dropnode", r, c] => do
    let r ← u64? r
    let c ← u64? c
    let row ← o.nodes[r]?
    if c ≥ 1 ∧ c ≤ row.length then some { o with nodes := o.nodes.set r (row.take (row.length - c)) } else none
  | ["addleaf", c] => do
    let c ← u64? c
    if c ≥ 1 ∧ c ≤ 70000 then some { o with leaves := o.leaves ++ List.replicate c extra } else none
  | ["addidxn", c] => do
    let c ← u64? c
    if c ≥ 1 ∧ c ≤ 70000 then
      let n := 2 ^ (min o.depth 20)
      some { o with idxs := o.idxs ++ surplus o.idxs n c 0 (c + o.idxs.length + 1) }
    else none
  | ["dropidxn", c] => do
    let c ← u64? c
    if c ≥ 1 ∧ c ≤ o.idxs.length then some { o with idxs := o.idxs.take (o.idxs.length - c) } else none
  | ["droprow", r] => do
    let r ← u64? r
    let _ ← o.nodes[r]?
    some { o with nodes := o.nodes.eraseIdx r }
  | ["addrow", e] =>
    if e == "0" then some { o with nodes := o.nodes ++ [[]] }
    else if e == "1" then some { o with nodes := o.nodes ++ [[extra]] }
    else none
  | ["dropleaf", k] => do
    let k ← u64? k
    let _ ← o.leaves[k]?
    some { o with leaves := o.leaves.eraseIdx k }
  | ["addleaf"] => some { o with leaves := o.leaves ++ [extra] }
  | ["dropidx", k] => do
    let k ← u64? k
    let _ ← o.idxs[k]?
    some { o with idxs := o.idxs.eraseIdx k }
  | ["addidx", v] => do
    let v ← u64? v
    some { o with idxs := o.idxs ++ [v] }
  | ["swapidx", a, b] => do
    let a ← u64? a
    let b ← u64? b
    let x ← o.idxs[a]?
    let y ← o.idxs[b]?
    if x = y then none else some { o with idxs := swapAt o.idxs a b }
  | ["swapleaf", a, b] => do
    let a ← u64? a
    let b ← u64? b
    let x ← o.leaves[a]?
    let y ← o.leaves[b]?
    if x = y then none else some { o with leaves := swapAt o.leaves a b }
  | _ => none

/-- seed token: `<seed>` or `<seed>:<pattern>` (`Sd` in c10.rs) -/
def sd? (s : String) : Option (Nat × String) :=
  match s.splitOn ":" with
  | [a] => (u64? a).map (fun n => (n, ""))
  | a :: rest => (u64? a).map (fun n => (n, ":".intercalate rest))
  | [] => none

/-- the label of position `i` under a leaf pattern (`label` in c10.rs) -/
def label? (pat : String) (i n : Nat) : Option Nat :=
  match pat.splitOn "." with
  | [""] => some i
  | ["d"] => some i
  | ["node"] => some i
  | ["eq"] => some 0
  | ["alt"] => some (i % 2)
  | ["alt2"] => some (i / 2 % 2)
  | ["half"] => some (i % (max (n / 2) 1))
  | ["one", k] => do
    let k ← u64? k
    if k ≥ n then none else some (if i = k then 1 else 0)
  | ["run", s0, l] => do
    let s0 ← u64? s0
    let l ← u64? l
    if l < 2 ∨ s0 + l > n then none else some (if i ≥ s0 ∧ i < s0 + l then s0 else i)
  | _ => none

/-- the leaves of an op line (`leaves_of` in c10.rs) -/
def leavesOf (n : Nat) (sd : Nat × String) : Option (List Nat) := do
  let v ← (List.range n).mapM (fun i => (label? sd.2 i n).map (leafOf sd.1))
  if sd.2 == "node" then
    let v := if n ≥ 4 then
        let x := mix (v.getD 0 0) (v.getD 1 0)
        (v.set 2 x).set 3 x
      else v
    let v := if n ≥ 8 then v.set 5 (mix (v.getD 2 0) (v.getD 3 0)) else v
    let v := if n = 2 then v.set 1 (mix (v.getD 0 0) (v.getD 0 0)) else v
    some v
  else some v

/-- depth and seed token of a tree op (`head` in c10.rs) -/
def head? (t : List String) : Option (Nat × (Nat × String)) :=
  match t with
  | d :: s :: _ => do
    let d ← u64? d
    let s ← sd? s
    if d = 0 ∨ d > 13 ∨ d ≥ 4294967296 then none else some (d, s)
  | _ => none

def mkTree (depth : Nat) (sd : Nat × String) : Res (Tree Nat) :=
  match leavesOf (2 ^ depth) sd with
  | some leaves => Tree.new toy leaves
  | none => .panic "bad pattern"

def handleNew (t : List String) : String :=
  match t with
  | n :: s :: _ =>
    match u64? n, sd? s with
    | some n, some s =>
      if n > 8192 then "bad-op"
      else
        match leavesOf n s with
        | none => "bad-op"
        | some leaves =>
          match Tree.new toy leaves with
          | .ok tr => s!"ok root={digStr tr.root} depth={tr.depth}"
          | .err e => "err:" ++ kindStr e
          | .panic _ => "panic"
    | _, _ => "bad-op"
  | _ => "bad-op"

/-- `MerkleTree::from_raw_parts` on the nodes `build_merkle_nodes` computes, one dropped (`short`) or one
    added (`long`): the two refusals first, then the documented assertion on the lengths -/
def handleRaw (t : List String) : String :=
  match t with
  | [n, s, mode] =>
    match u64? n, sd? s with
    | some n, some s =>
      if n > 8192 ∨ !(["ok", "short", "long"].contains mode) then "bad-op"
      else
        match leavesOf n s with
        | none => "bad-op"
        | some leaves =>
          match Tree.new toy leaves with
          | .ok tr => if mode == "ok" then s!"ok root={digStr tr.root} depth={tr.depth}" else "panic"
          | .err e => "err:" ++ kindStr e
          | .panic _ => "panic"
    | _, _ => "bad-op"
  | _ => "bad-op"

/-- `tree`: the root and the checksum of the paths of all (or 256 evenly spaced) positions -/
def handleTree (t : List String) : String :=
  match head? t with
  | none => "bad-op"
  | some (depth, sd) =>
    match mkTree depth sd with
    | .ok tr =>
      let n := 2 ^ depth
      let step := if n ≤ 256 then 1 else n / 256
      let idxs := (List.range (n / step)).map (· * step)
      let h := idxs.foldl (fun h i =>
        match prove tr i with
        | .ok path => cksList h path
        | _ => h) cks0
      s!"root={digStr tr.root} h={h}"
    | _ => "bad-op"

def handleSingle (t : List String) : String :=
  match head? t, t with
  | some (depth, seed), _ :: _ :: i :: m =>
    match u64? i, mkTree depth seed with
    | some idx, .ok tr =>
      match prove tr idx with
      | .panic _ => "prove=panic"
      | .err e => "prove=err:" ++ kindStr e
      | .ok path =>
        let mutated : Option (Nat × List Nat) :=
          match m with
          | ["none"] => some (idx, path)
          | ["node", k] => do
            let k ← u64? k
            let d ← path[k]?
            some (idx, path.set k (tweak d))
          | ["idx", v] => do
            let v ← u64? v
            if v = idx then none else some (v, path)
          | ["trunc", k] => do
            let k ← u64? k
            if k < path.length then some (idx, path.take k) else none
          | ["ext", k] => do
            let k ← u64? k
            if k > path.length ∧ k ≤ 300 then some (idx, path ++ List.replicate (k - path.length) extra) else none
          | _ => none
        match mutated, tr.root with
        | some (vi, vp), .ok root =>
          s!"prove=ok len={path.length} h={cksList cks0 path} verify={unitStr (verify toy root vi vp)}"
        | none, _ => "bad-op"
        | _, _ => "panic"
    | _, _ => "bad-op"
  | _, _ => "bad-op"

/-- common prefix of the batch ops: the tree, its root and the opening produced by the prover -/
def openBatch (t : List String) : Except String (Nat × Opening × List String) :=
  match head? t, t with
  | some (depth, seed), _ :: _ :: is :: m =>
    match idxs? is, mkTree depth seed with
    | some idxs, .ok tr =>
      match proveBatch toy tr idxs, tr.root with
      | .panic _, _ => .error "prove=panic"
      | .err e, _ => .error ("prove=err:" ++ kindStr e)
      | .ok p, .ok root => .ok (root, { idxs := idxs, leaves := p.leaves, nodes := p.nodes, depth := p.depth }, m)
      | _, _ => .error "panic"
    | _, _ => .error "bad-op"
  | _, _ => .error "bad-op"

def handleBatch (t : List String) : String :=
  match openBatch t with
  | .error s => s
  | .ok (root, op, m) =>
    let shape := s!"lens={lensStr op.nodes} h={proofCks op.leaves op.nodes}"
    match applyMut op m with
    | none => "bad-op"
    | some op' =>
      let r1 := getRoot toy op'.proof op'.idxs
      let r2 := verifyBatch toy root op'.idxs op'.proof
      s!"prove=ok {shape} root={digStr r1} verify={unitStr r2}"

def handlePaths (t : List String) : String :=
  match openBatch t with
  | .error s => s
  | .ok (root, op, m) =>
    match applyMut op m with
    | none => "bad-op"
    | some op' =>
      match intoPaths toy op'.proof op'.idxs with
      | .panic _ => "prove=ok into=panic from=skip"
      | .err e => s!"prove=ok into=err:{kindStr e} from=skip"
      | .ok paths =>
        let total := (paths.map List.length).foldl (· + ·) 0
        let into := s!"into=ok n={paths.length} t={total} h={paths.foldl cksList cks0}"
        match fromPaths toy paths op'.idxs with
        | .panic _ => s!"prove=ok {into} from=panic"
        | .err _ => s!"prove=ok {into} from=err"
        | .ok p2 =>
          let same := decide (p2 = op'.proof)
          let r2 := verifyBatch toy root op'.idxs p2
          s!"prove=ok {into} from=ok same={boolStr same} lens={lensStr p2.nodes} d={p2.depth} h={proofCks p2.leaves p2.nodes} verify={unitStr r2}"

/-- the toy digest is written as 8 little-endian bytes -/
def leBytes8 (v : Nat) : List Nat := (List.range 8).map (fun i => v / 256 ^ i % 256)
def ofLeBytes (bs : List Nat) : Nat := bs.foldr (fun b acc => b + 256 * acc) 0

def toyCodec : Codec Nat :=
  { enc := leBytes8,
    dec := fun bytes => if bytes.length < 8 then .error .eof else .ok (ofLeBytes (bytes.take 8), bytes.drop 8) }

def resizeTo {α} (l : List α) (n : Nat) (x : α) : List α :=
  if n ≤ l.length then l.take n else l ++ List.replicate (n - l.length) x

def handleSer (t : List String) : String :=
  match openBatch t with
  | .error s => s
  | .ok (_, op, m) =>
    -- structural mutants: (nodes to serialize, leaves and depth given to deserialize)
    let st : Option (List (List Nat) × List Nat × Nat) :=
      match m with
      | ["none"] => some (op.nodes, op.leaves, op.depth)
      | ["cut", _] => some (op.nodes, op.leaves, op.depth)
      | ["extra"] => some (op.nodes, op.leaves, op.depth)
      | ["ff"] => some (op.nodes, op.leaves, op.depth)
      | ["depth0"] => some (op.nodes, op.leaves, 0)
      | ["noleaves"] => some (op.nodes, [], op.depth)
      | ["leaves", n] => do
        let n ← u64? n
        if n ≤ 70000 then some (op.nodes, resizeTo op.leaves n extra, op.depth) else none
      | ["rows", n] => do
        let n ← u64? n
        if n ≥ op.nodes.length ∧ n ≤ 70000 then some (resizeTo op.nodes n [], op.leaves, op.depth) else none
      | ["rowlen", r, n] => do
        let r ← u64? r
        let n ← u64? n
        let row ← op.nodes[r]?
        if n ≥ row.length ∧ n ≤ 70000 then some (op.nodes.set r (resizeTo row n extra), op.leaves, op.depth) else none
      | ["droprowc"] => if op.nodes.isEmpty then none else some (op.nodes.dropLast, op.leaves, op.depth)
      | ["dropnodec", r] => do
        let r ← u64? r
        let row ← op.nodes[r]?
        if row.isEmpty then none else some (op.nodes.set r row.dropLast, op.leaves, op.depth)
      | _ => none
    match st with
    | none => "bad-op"
    | some (nodes, dl, dd) =>
      match serializeNodes toyCodec { leaves := op.leaves, nodes := nodes, depth := op.depth } with
      | .panic _ => "ser=panic"
      | .err _ => "ser=panic"
      | .ok bytes =>
        let full := bytes.length
        let mutated : Option (List Nat) :=
          match m with
          | ["extra"] => some (bytes ++ [7])
          | ["cut", k] =>
            match u64? k with
            | some k => if k < full then some (bytes.take k) else none
            | none => none
          | ["ff"] =>
            match nodes with
            | (_ :: _) :: _ => some (bytes.take 2 ++ List.replicate 8 255 ++ bytes.drop 10)
            | _ => none
          | _ => some bytes
        match mutated with
        | none => "bad-op"
        | some bs =>
          match deserialize toyCodec bs dl dd with
          | .error _ => s!"len={full} de=err"
          | .ok (p2, rest) =>
            let same := decide (p2 = ({ leaves := dl, nodes := nodes, depth := dd } : BatchProof Nat))
            s!"len={full} de=ok same={boolStr same} rest={boolStr (!rest.isEmpty)}"

/-- `from`: `from_paths` on the paths `prove` produces, with malformed inputs -/
def handleFrom (t : List String) : String :=
  match head? t, t with
  | some (depth, sd), _ :: _ :: is :: m =>
    match idxs? is, mkTree depth sd with
    | some idxs, .ok tr =>
      match idxs.mapM (fun i => match prove tr i with | .ok p => some p | _ => none) with
      | none => "prove=err"
      | some paths =>
        let st : Option (List (List Nat) × List Nat) :=
          match m with
          | ["none"] => some (paths, idxs)
          | ["droppath"] => if paths.isEmpty then none else some (paths.dropLast, idxs)
          | ["addpath"] => paths.getLast?.map (fun x => (paths ++ [x], idxs))
          | ["dupidx"] =>
            if idxs.length < 2 then none else some (paths, idxs.set (idxs.length - 1) (idxs.getD 0 0))
          | ["short", k] => do
            let k ← u64? k
            let q ← paths[k]?
            some (paths.set k (q.take 1), idxs)
          | ["long", k] => do
            let k ← u64? k
            let q ← paths[k]?
            some (paths.set k (q ++ [extra]), idxs)
          | ["alllen", l] => do
            let l ← u64? l
            if l ≤ 600 then some (paths.map (fun q => resizeTo q l extra), idxs) else none
          | ["nopaths"] => some ([], [])
          | ["many", c] => do
            let c ← u64? c
            let x ← paths.head?
            if c ≤ 600 then some (List.replicate c x, List.range c) else none
          | _ => none
        match st with
        | none => "bad-op"
        | some (ps, is) =>
          match fromPaths toy ps is with
          | .ok p2 => s!"from=ok lens={lensStr p2.nodes} d={p2.depth} n={p2.leaves.length} h={proofCks p2.leaves p2.nodes}"
          | _ => "from=panic"
    | _, _ => "bad-op"
  | _, _ => "bad-op"

def realHashers : List String :=
  ["blake3_256", "blake3_192", "sha3_256", "rp64_256", "rpjive64_256", "rp62_248"]

def handle (toks : List String) : String :=
  match toks with
  | op :: h :: rest =>
    if realHashers.contains h then "-"
    else if h != "toy" then "bad-op"
    else
      match op with
      | "new" => handleNew rest
      | "raw" => handleRaw rest
      | "single" => handleSingle rest
      | "batch" => handleBatch rest
      | "paths" => handlePaths rest
      | "ser" => handleSer rest
      | "tree" => handleTree rest
      | "from" => handleFrom rest
      | _ => "bad-op"
  | _ => "bad-op"

end Drv.C10

def main : IO Unit := Drv.runLoop Drv.C10.handle
