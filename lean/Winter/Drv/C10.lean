-- line-protocol handler of property C10 (stub: nothing modelled yet)
import Winter.Drv.Util

namespace Drv.C10

def handle (_toks : List String) : String := "-"

end Drv.C10

def main : IO Unit := Drv.runLoop Drv.C10.handle
