-- line-protocol handler of property C08 (stub: nothing modelled yet)
import Winter.Drv.Util

namespace Drv.C08

def handle (_toks : List String) : String := "-"

end Drv.C08

def main : IO Unit := Drv.runLoop Drv.C08.handle
