-- line-protocol handler of property C08 (extension fields); mirrors harness/src/bin/c08.rs
import Winter.Drv.Util
import Winter.Model.Ext

namespace Drv.C08
open Model

/-- uniform view of the five extensions for the handler: an element is the list of its coordinates' raw words -/
structure EOps where
  I : FieldImpl
  n : Nat
  canonical : Bool
  add : List Nat → List Nat → List Nat
  sub : List Nat → List Nat → List Nat
  mul : List Nat → List Nat → List Nat
  neg : List Nat → List Nat
  dbl : List Nat → List Nat
  sq : List Nat → List Nat
  conj : List Nat → List Nat
  mulBase : List Nat → Nat → List Nat
  inv : List Nat → Res (List Nat)
  div : List Nat → List Nat → Res (List Nat)
  exp : List Nat → Nat → List Nat
  beq : List Nat → List Nat → Bool
  zero : List Nat
  one : List Nat
  ofBase : Nat → List Nat
  baseElement : List Nat → Nat → Option Nat
  /-- slice_from_base_elements followed by slice_as_base_elements per element -/
  unflatten : List Nat → Option (List (List Nat))

def q (l : List Nat) : Quad Nat :=
  match l with
  | [a, b] => ⟨a, b⟩
  | _ => ⟨0, 0⟩

def c (l : List Nat) : Cube Nat :=
  match l with
  | [a, b, d] => ⟨a, b, d⟩
  | _ => ⟨0, 0, 0⟩

def quadOps (I : FieldImpl) (canonical : Bool) (X : Ext2 Nat) : EOps :=
  let B := BOps.ofImpl I
  { I := I, n := 2, canonical := canonical
    add := fun a b => (Quad.add B (q a) (q b)).toList
    sub := fun a b => (Quad.sub B (q a) (q b)).toList
    mul := fun a b => (Quad.mul X (q a) (q b)).toList
    neg := fun a => (Quad.neg B (q a)).toList
    dbl := fun a => (Quad.double B (q a)).toList
    sq := fun a => (Quad.square X (q a)).toList
    conj := fun a => (Quad.conjugate X (q a)).toList
    mulBase := fun a b => (Quad.mulBase X (q a) b).toList
    inv := fun a => (Quad.inv B X (q a)).map Quad.toList
    div := fun a b => (Quad.div B X (q a) (q b)).map Quad.toList
    exp := fun a p => (Quad.exp B X (q a) p).toList
    beq := fun a b => Quad.beq B (q a) (q b)
    zero := (Quad.zero B).toList
    one := (Quad.one B).toList
    ofBase := fun x => (Quad.ofBase B x).toList
    baseElement := fun a i => (q a).baseElement i
    unflatten := fun l => (Quad.unflatten l).map (fun es => es.map Quad.toList) }

def cubeOps (I : FieldImpl) (canonical : Bool) (X : Ext3 Nat) : EOps :=
  let B := BOps.ofImpl I
  { I := I, n := 3, canonical := canonical
    add := fun a b => (Cube.add B (c a) (c b)).toList
    sub := fun a b => (Cube.sub B (c a) (c b)).toList
    mul := fun a b => (Cube.mul X (c a) (c b)).toList
    neg := fun a => (Cube.neg B (c a)).toList
    dbl := fun a => (Cube.double B (c a)).toList
    sq := fun a => (Cube.square X (c a)).toList
    conj := fun a => (Cube.conjugate X (c a)).toList
    mulBase := fun a b => (Cube.mulBase X (c a) b).toList
    inv := fun a => (Cube.inv B X (c a)).map Cube.toList
    div := fun a b => (Cube.div B X (c a) (c b)).map Cube.toList
    exp := fun a p => (Cube.exp B X (c a) p).toList
    beq := fun a b => Cube.beq B (c a) (c b)
    zero := (Cube.zero B).toList
    one := (Cube.one B).toList
    ofBase := fun x => (Cube.ofBase B x).toList
    baseElement := fun a i => (c a).baseElement i
    unflatten := fun l => (Cube.unflatten l).map (fun es => es.map Cube.toList) }

def ext? : String → Option EOps
  | "q64" => some (quadOps F64.impl Gen.F64.IS_CANONICAL (Ext2.f64 (BOps.ofImpl F64.impl).toFOps))
  | "q62" => some (quadOps F62.impl Gen.F62.IS_CANONICAL (Ext2.f62 (BOps.ofImpl F62.impl).toFOps))
  | "q128" => some (quadOps F128.impl Gen.F128.IS_CANONICAL (Ext2.f128 (BOps.ofImpl F128.impl).toFOps))
  | "c64" => some (cubeOps F64.impl Gen.F64.IS_CANONICAL (Ext3.f64 (BOps.ofImpl F64.impl).toFOps))
  | "c62" => some (cubeOps F62.impl Gen.F62.IS_CANONICAL (Ext3.f62 (BOps.ofImpl F62.impl).toFOps))
  | _ => none

/-- canonical integers of all coordinates, then the raw words -/
def fmt (E : EOps) (a : List Nat) : String :=
  joinNat (a.map E.I.asInt ++ a)

def fmtRes (E : EOps) : Res (List Nat) → String
  | .ok a => fmt E a
  | .panic => "panic"
  | .hang => "hang"

/-- an operand word: an integer given to `BaseElement::new` (after the `as u64` cast of the harness for the 64-bit
    words), or a raw internal word; `none`: not constructible (raw word of the 128-bit field ≥ M: the harness panics) -/
def baseOf (E : EOps) (raw : Bool) (w : Nat) : Option Nat :=
  let w := w % 2 ^ E.I.wordBits
  if raw then
    if E.I.name == "f128" && w ≥ E.I.M then none else some w
  else some (E.I.new w)

def u128? (s : String) : Option Nat :=
  if s.isEmpty || !(s.all Char.isDigit) then none
  else
    match s.toNat? with
    | some v => if v < 2 ^ 128 then some v else none
    | none => none

def nums? (ts : List String) : Option (List Nat) := ts.mapM u128?

/-- split `k` elements off a list of operand words -/
def takeElems (E : EOps) (raw : Bool) : Nat → List Nat → Option (List (List Nat) × List Nat)
  | 0, ws => some ([], ws)
  | k + 1, ws =>
    if ws.length < E.n then none
    else
      match (ws.take E.n).mapM (baseOf E raw), takeElems E raw k (ws.drop E.n) with
      | some a, some (es, rest) => some (a :: es, rest)
      | _, _ => none

def seqStep (E : EOps) (st : Option (Res (List Nat × List Nat))) (op : String) : Option (Res (List Nat × List Nat)) :=
  match st with
  | none => none
  | some .panic => some .panic
  | some .hang => some .hang
  | some (.ok (acc, y)) =>
    match op with
    | "add" => some (.ok (E.add acc y, y))
    | "sub" => some (.ok (E.sub acc y, y))
    | "mul" => some (.ok (E.mul acc y, y))
    | "neg" => some (.ok (E.neg acc, y))
    | "dbl" => some (.ok (E.dbl acc, y))
    | "sq" => some (.ok (E.sq acc, y))
    | "conj" => some (.ok (E.conj acc, y))
    | "frob" => some (.ok (E.conj acc, y))
    | "mb" => some (.ok (E.mulBase acc (y.headD 0), y))
    | "swap" => some (.ok (y, acc))
    | "inv" => some ((E.inv acc).map (fun r => (r, y)))
    | "div" => some ((E.div acc y).map (fun r => (r, y)))
    | _ => none

def isOpName (s : String) : Bool := (u128? s).isNone

def handleE (E : EOps) (raw : Bool) : List String → String
  | [] => "bad-op"
  | op :: rest =>
    match op with
    | "add" | "sub" | "mul" | "div" | "aut" =>
      match nums? rest with
      | none => "bad-op"
      | some ws =>
        if ws.length ≠ 2 * E.n then "bad-op"
        else
          match takeElems E raw 2 ws with
          | some ([a, b], []) =>
            match op with
            | "add" => fmt E (E.add a b)
            | "sub" => fmt E (E.sub a b)
            | "mul" => fmt E (E.mul a b)
            | "div" => fmtRes E (E.div a b)
            | _ => s!"{fmt E (E.conj (E.mul a b))} {fmt E (E.conj (E.add a b))}"
          | _ => "-"
    | "sq" | "dbl" | "neg" | "inv" | "conj" | "frob" | "ser" | "cube" =>
      match nums? rest with
      | none => "bad-op"
      | some ws =>
        if ws.length ≠ E.n then "bad-op"
        else
          match takeElems E raw 1 ws with
          | some ([a], []) =>
            match op with
            | "sq" => fmt E (E.sq a)
            | "dbl" => fmt E (E.dbl a)
            | "neg" => fmt E (E.neg a)
            | "inv" => fmtRes E (E.inv a)
            | "ser" => s!"{hexOf (ExtBytes.toBytes E.I a)} {hexOf (ExtBytes.asBytes E.I a)}"
            -- `cube` (trait default): residues of (a * a) * a
            | "cube" => joinNat ((E.mul (E.mul a a) a).map E.I.asInt)
            | _ => fmt E (E.conj a)
          | _ => "-"
    | "mulbase" | "exp" | "basee" | "expv" =>
      match nums? rest with
      | none => "bad-op"
      | some ws =>
        if ws.length ≠ E.n + 1 then "bad-op"
        else
          match takeElems E raw 1 ws with
          | some ([a], [x]) =>
            match op with
            | "mulbase" =>
              match baseOf E raw x with
              | some b => fmt E (E.mulBase a b)
              | none => "-"
            | "exp" => fmt E (E.exp a (if E.I.wordBits == 64 then x % 2 ^ 64 else x))
            -- `exp_vartime` denotes the same function as `exp`; residues only
            | "expv" => joinNat ((E.exp a (if E.I.wordBits == 64 then x % 2 ^ 64 else x)).map E.I.asInt)
            | _ =>
              match E.baseElement a x with
              | some b => s!"{E.I.asInt b} {b}"
              | none => "panic"
          | _ => "-"
    | "emb" =>
      match nums? rest with
      | some [x, y] =>
        match baseOf E raw x, baseOf E raw y with
        | some x, some y =>
          let (ex, ey) := (E.ofBase x, E.ofBase y)
          s!"{fmt E (E.mul ex ey)} {fmt E (E.add ex ey)} {fmt E (E.sub ex ey)}"
        | _, _ => "-"
      | _ => "bad-op"
    | "read" =>
      match rest with
      | [h] =>
        match unhex h with
        | some bs =>
          match ExtBytes.readFrom E.I E.n bs with
          | .ok cs r => s!"ok {fmt E cs} {r.length}"
          | .eof => "eof"
          | .err => "err"
        | none => "-"
      | _ => "bad-op"
    | "frombytes" =>
      match rest with
      | [h] =>
        match unhex h with
        | some bs =>
          match ExtBytes.tryFromBytes E.I E.n bs with
          | some cs => s!"ok {fmt E cs}"
          | none => "err"
        | none => "-"
      | _ => "bad-op"
    | "bytes" =>
      match rest with
      | [o, h] =>
        match (if o.all Char.isDigit && !o.isEmpty then o.toNat? else none), unhex h with
        | some off, some bs =>
          if off ≥ 64 then "bad-op"
          else
            match ExtBytes.bytesAsWords E.I E.n bs with
            | none => "err"
            | some ws =>
              if off % E.I.bytes ≠ 0 then "err"
              else s!"ok {ws.length / E.n} {hexOf (ExtBytes.asBytes E.I ws)}"
        | _, _ => "-"
      | _ => "bad-op"
    | "tryfrom" =>
      match rest.head?.bind u128? with
      | some v =>
        match E.I.tryFrom v with
        | .ok r => s!"ok {fmt E (E.ofBase r)}"
        | .err => "err"
      | none => "bad-op"
    | "small" =>
      match rest.head?.bind u128? with
      | some v =>
        let f := fun (k : Nat) => fmt E (E.ofBase (E.I.new (v % 2 ^ k)))
        s!"{f 32} {f 16} {f 8}"
      | none => "bad-op"
    | "flat" =>
      match nums? (rest.filter (· ≠ "-")) with
      | none => "bad-op"
      | some ws =>
        match ws.mapM (baseOf E raw) with
        | none => "-"
        | some bs =>
          match E.unflatten bs with
          | none => "panic"
          | some es =>
            let parts := [toString es.length] ++ es.map (fmt E) ++ [hexOf (ExtBytes.asBytes E.I bs)]
            " ".intercalate parts
    | "seq" =>
      let numToks := rest.takeWhile (fun s => !(isOpName s))
      let opToks := rest.dropWhile (fun s => !(isOpName s))
      match nums? numToks with
      | none => "bad-op"
      | some ws =>
        if ws.length ≠ 2 * E.n then "bad-op"
        else
          match takeElems E raw 2 ws with
          | some ([a, b], []) =>
            match opToks.foldl (seqStep E) (some (.ok (a, b))) with
            | none => "bad-op"
            | some .panic => "panic"
            | some .hang => "hang"
            | some (.ok (acc, y)) => s!"{fmt E acc} {fmt E y} {boolStr (E.beq acc y)}"
          | _ => "-"
    | "const" =>
      if rest.isEmpty then
        s!"{fmt E E.zero} {fmt E E.one} {E.n * E.I.bytes} {E.n} 1 {boolStr E.canonical}"
      else "-"
    | _ => "bad-op"

def handle : List String → String
  | [] => "bad-op"
  | tag :: rest =>
    if tag == "c128" then
      -- `impl ExtensibleField<3> for f128::BaseElement`: `is_supported() = false`
      if rest == ["const"] then "supported 0" else "bad-op"
    else
      let (raw, base) := if tag.startsWith "r" then (true, (tag.drop 1).toString) else (false, tag)
      match ext? base with
      | some E => handleE E raw rest
      | none => "bad-op"

end Drv.C08

def main : IO Unit := Drv.runLoop Drv.C08.handle
