-- helpers shared by the line-protocol handlers
namespace Drv

def hexDigit (n : Nat) : Char :=
  if n < 10 then Char.ofNat (48 + n) else Char.ofNat (87 + n)

def hexByte (b : Nat) : String :=
  String.ofList [hexDigit (b / 16 % 16), hexDigit (b % 16)]

/-- bytes (as naturals < 256) to lower-case hex, "-" for the empty string -/
def hexOf (bs : List Nat) : String :=
  if bs.isEmpty then "-" else String.join (bs.map hexByte)

def hexVal (c : Char) : Option Nat :=
  if '0' ≤ c ∧ c ≤ '9' then some (c.toNat - 48)
  else if 'a' ≤ c ∧ c ≤ 'f' then some (c.toNat - 87)
  else if 'A' ≤ c ∧ c ≤ 'F' then some (c.toNat - 55)
  else none

def unhexAux : List Char → List Nat → Option (List Nat)
  | [], acc => some acc.reverse
  | [_], _ => none
  | a :: b :: rest, acc =>
    match hexVal a, hexVal b with
    | some x, some y => unhexAux rest ((16 * x + y) :: acc)
    | _, _ => none

/-- lower-case hex (or "-") to bytes -/
def unhex (s : String) : Option (List Nat) :=
  if s == "-" then some [] else unhexAux s.toList []

def natList (xs : List String) : Option (List Nat) :=
  xs.mapM (fun s => s.toNat?)

def joinNat (xs : List Nat) : String :=
  " ".intercalate (xs.map toString)

def boolStr (b : Bool) : String := if b then "1" else "0"

/-- split a token list at the separator token `;;` -/
def splitHistory : List String → List String → List (List String) → List (List String)
  | [], cur, acc => (cur.reverse :: acc).reverse
  | t :: ts, cur, acc =>
    if t == ";;" then splitHistory ts [] (cur.reverse :: acc) else splitHistory ts (t :: cur) acc

/-- `a ;; b ;; c` is a history: the harness runs the ops back to back in one process; the model
    evaluates each on its own (it has no state), `-` if any part is not modelled -/
def handleHistory (handle : List String → String) (toks : List String) : String :=
  if toks.contains ";;" then
    let outs := (splitHistory toks [] []).map handle
    if outs.contains "-" then "-" else " ;; ".intercalate outs
  else handle toks

/-- the line-protocol loop: one op line in, one canonical result line out; the first token (the
    property id) is dropped before the handler sees the line -/
partial def runLoop (handle : List String → String) : IO Unit := do
  let stdin ← IO.getStdin
  let stdout ← IO.getStdout
  let rec go : IO Unit := do
    let line ← stdin.getLine
    if line.isEmpty then return ()
    let toks := (line.trimAscii.toString.splitOn " ").filter (· ≠ "")
    stdout.putStrLn (handleHistory handle (toks.drop 1))
    go
  go

end Drv
