-- line-protocol handler of property C18 (security estimate and acceptance policy)
-- op lines (after the property id), mirrored by harness/src/bin/c18.rs:
--   opts q b g ext ff fr                         ProofOptions::new             -> ok | panic
--   optsb q b g ext ff fr                        ProofOptions::read_from of six bytes   -> ok | err
--   ctx field log2len b                          Context::new / Context::read_from size limits -> ok | refused
--   plevel CFG modhex cr                         both security levels of the honest proof of CFG
--   tag LABEL                                    label of a history (a ;; b ;; c)        -> t
--   lvl P|C q b g ext log2len modhex hname cr    ONE security_level call (proven / conjectured)
--   bits modhex                                  Context::num_modulus_bits     -> n | panic
--   conj b g ext log2len modhex hname cr         security_level(true), q = 1..255 -> run-length coded levels (p = panic)
--   prov b g ext log2len modhex hname cr q1 q2   security_level(false), q = q1..q2
--   gconj b g ext log2len modhex hname cr        as `conj`, evaluated with the definition regenerated from the Rust source
--                                                (Winter/Gen/Security.lean; translation validation of tie T)
--   alpha b log2len                              side condition 0 <= 1-theta_plus < 1 over the m range -> mMax bad
--   validate POL q b g ext ff fr log2len modhex hname cr [k o1.. ok]      AcceptableOptions::validate
--   verify CFG EB airmodhex quad cube airok POL q b g ext ff fr log2len modhex hname cr [k o1..]   top of verify()
--     POL = conj MIN | proven MIN | set
import Winter.Drv.Util
import Winter.Model.Security
import Winter.Gen.Security
import Winter.Gen.ProofOpts
import Winter.Gen.ProofContext

namespace Drv.C18
open Model.Security

def resStr : Res Nat → String
  | .ok n => toString n
  | .panic _ => "panic"

def resShort : Res Nat → String
  | .ok n => toString n
  | .panic _ => "p"

/-- run-length coding of a list of tokens: `v*k` for k > 1 equal neighbours -/
def rleAux : List String → String → Nat → List String → List String
  | [], cur, k, acc => ((if k > 1 then s!"{cur}*{k}" else cur) :: acc).reverse
  | x :: xs, cur, k, acc =>
    if x == cur then rleAux xs cur (k + 1) acc
    else rleAux xs x 1 ((if k > 1 then s!"{cur}*{k}" else cur) :: acc)

def rle : List String → String
  | [] => ""
  | x :: xs => ",".intercalate (rleAux xs x 1 [])

def mkOptions : List Nat → Option Options
  | [q, b, g, e, ff, fr] =>
    match Ext.ofNat? e with
    | some e => some ⟨q, b, g, e, ff, fr⟩
    | none => none
  | _ => none

def optionSets : List Nat → Option (List Options)
  | [] => some []
  | a :: b :: c :: d :: e :: f :: rest =>
    match mkOptions [a, b, c, d, e, f], optionSets rest with
    | some o, some os => some (o :: os)
    | _, _ => none
  | _ => none

def errStr : VErr → String
  | .inconsistentBaseField => "err field"
  | .unsupportedFieldExtension d => s!"err ext {d}"
  | .insufficientConjecturedSecurity m l => s!"err conj {m} {l}"
  | .insufficientProvenSecurity m l => s!"err proven {m} {l}"
  | .unacceptableProofOptions => "err options"

def outStr (okWord : String) : Out → String
  | .pass => okWord
  | .reject e => errStr e
  | .panic _ => "panic"

/-- parse `POL q b g ext ff fr log2len modhex cr [k o...]` -/
def parsePolicy (toks : List String) : Option (Acceptable × ProofHead × Nat) :=
  let go (mk : List Options → Acceptable) (rest : List String) : Option (Acceptable × ProofHead × Nat) :=
    match rest with
    | q :: b :: g :: e :: ff :: fr :: l2 :: modhex :: _hname :: cr :: tail =>
      match natList [q, b, g, e, ff, fr, l2, cr], unhex modhex, natList tail with
      | some [q, b, g, e, ff, fr, l2, cr], some bytes, some tailN =>
        match mkOptions [q, b, g, e, ff, fr], optionSets (tailN.drop 1) with
        | some o, some set =>
          if bytes.isEmpty ∨ l2 > 63 ∨ q > 255 ∨ b > 255 ∨ g > 255 ∨ ff > 255 ∨ fr > 255 then none
          else some (mk set, ⟨bytes, o, 2 ^ l2⟩, cr)
        | _, _ => none
      | _, _, _ => none
    | _ => none
  match toks with
  | "conj" :: m :: rest => match m.toNat? with
    | some m => go (fun _ => .minConjectured m) rest
    | none => none
  | "proven" :: m :: rest => match m.toNat? with
    | some m => go (fun _ => .minProven m) rest
    | none => none
  | "set" :: rest => go (fun s => .optionSet s) rest
  | _ => none

def alphaBad (b n : Nat) : Nat × Nat :=
  let mMax := floatOps.toU32 (computeUpperM (R := Float) n)
  let bad := (mRange (R := Float) n).foldl (fun acc m =>
    let x := (mid (R := Float) b (n * b) n m).base
    if (0.0 : Float) ≤ x ∧ x < (1.0 : Float) then acc else acc + 1) 0
  (mMax, bad)

/-- `security_level(true)` through the REGENERATED `get_conjectured_security` (+ its no-panic condition) -/
def genLevel (q b g : Nat) (e : Ext) (bytes : List Nat) (n cr : Nat) : String :=
  if !Gen.ProofContext.num_modulus_bits_ok bytes then "p" else
  let bits := Gen.ProofContext.num_modulus_bits bytes
  (fun (bits : Nat) =>
    if Gen.Security.get_conjectured_security_ok b e.degree g q bits n cr then
      toString (Gen.Security.get_conjectured_security b e.degree g q bits n cr)
    else "p") bits

def handle : List String → String
  | "opts" :: rest =>
    match natList rest with
    | some [q, b, g, e, ff, fr] =>
      match Ext.ofNat? e with
      | some e' =>
        -- the model, and `ProofOptions::new` as regenerated from air/src/options.rs on this run (tie T)
        let m := (Options.new q b g e' ff fr).isOk
        let gn := Gen.ProofOpts.new_ok q b g e ff fr
        (if m then "ok" else "panic") ++ (if m == gn then "" else s!" gen={gn}")
      | none => "bad-op"
    | _ => "bad-op"
  | "optsb" :: rest =>
    match natList rest with
    | some [q, b, g, e, ff, fr] =>
      if q > 255 ∨ b > 255 ∨ g > 255 ∨ e > 255 ∨ ff > 255 ∨ fr > 255 then "bad-op" else
      match Ext.ofNat? e with
      | some e => if (Options.new q b g e ff fr).isOk then "ok" else "err"
      | none => "err"
    | _ => "bad-op"
  | ["ctx", field, l2, b] =>
    match natList [l2, b] with
    | some [l2, b] =>
      if l2 < 3 ∨ l2 > 63 ∨ ¬ (b ∈ [2, 4, 8, 16, 32, 64, 128]) ∨ ¬ (field ∈ ["f64", "f62", "f128"]) then "bad-op"
      else
        -- the model, and `Context::new` as regenerated from air/src/proof/context.rs on this run (tie T)
        let m := contextAccepted ⟨1, b, 0, .none, 2, 0⟩ (2 ^ l2)
        let gn := Gen.ProofContext.new_ok (2 ^ l2) b
        (if m then "ok" else "refused") ++ (if m == gn then "" else s!" gen={gn}")
    | _ => "bad-op"
  | ["plevel", cfg, modhex, cr] =>
    match (cfg.splitOn "/").drop 2 |> natList, unhex modhex, cr.toNat? with
    | some [q, b, g, e, ff, fr, l2], some bytes, some cr =>
      match mkOptions [q, b, g, e, ff, fr] with
      | some o =>
        s!"{resShort (securityLevel o bytes (2 ^ l2) cr true)} {resShort (securityLevel o bytes (2 ^ l2) cr false)}"
      | none => "bad-op"
    | _, _, _ => "bad-op"
  | ["tag", _] => "t"
  | ["lvl", kind, q, b, g, e, l2, modhex, _hname, cr] =>
    match natList [q, b, g, e, l2, cr], unhex modhex with
    | some [q, b, g, e, l2, cr], some bytes =>
      match Ext.ofNat? e with
      | some e =>
        if bytes.isEmpty ∨ l2 > 63 ∨ (kind ≠ "C" ∧ kind ≠ "P") then "bad-op" else
        if q > 255 ∨ b > 255 ∨ g > 255 then "noctx" else
        if ¬ contextAccepted ⟨q, b, g, e, 8, 0⟩ (2 ^ l2) then "noctx" else
        if (Options.new q b g e 8 0).isOk then resShort (securityLevel ⟨q, b, g, e, 8, 0⟩ bytes (2 ^ l2) cr (kind == "C"))
        else "noctx"
      | none => "bad-op"
    | _, _ => "bad-op"
  | ["bits", modhex] =>
    match unhex modhex with
    | some bytes =>
      if bytes.isEmpty ∨ bytes.length > 255 then "bad-op" else
      -- the model, and `num_modulus_bits` as regenerated on this run (tie T)
      let m := resStr (numModulusBits bytes)
      let g := if Gen.ProofContext.num_modulus_bits_ok bytes then toString (Gen.ProofContext.num_modulus_bits bytes)
        else "panic"
      if m == g then m else s!"{m} gen={g}"
    | none => "bad-op"
  | ["conj", b, g, e, l2, modhex, _hname, cr] =>
    match natList [b, g, e, l2, cr], unhex modhex with
    | some [b, g, e, l2, cr], some bytes =>
      match Ext.ofNat? e with
      | some e =>
        if bytes.isEmpty ∨ l2 > 63 ∨ b > 255 ∨ g > 255 then "bad-op" else
        if ¬ contextAccepted ⟨1, b, g, e, 8, 0⟩ (2 ^ l2) then "noctx" else
        rle ((List.range 255).map fun i =>
          resShort (securityLevel ⟨i + 1, b, g, e, 8, 0⟩ bytes (2 ^ l2) cr true))
      | none => "bad-op"
    | _, _ => "bad-op"
  | ["gconj", b, g, e, l2, modhex, _hname, cr] =>
    match natList [b, g, e, l2, cr], unhex modhex with
    | some [b, g, e, l2, cr], some bytes =>
      match Ext.ofNat? e with
      | some e =>
        if bytes.isEmpty ∨ l2 > 63 ∨ b > 255 ∨ g > 255 then "bad-op" else
        if ¬ contextAccepted ⟨1, b, g, e, 8, 0⟩ (2 ^ l2) then "noctx" else
        rle ((List.range 255).map fun i => genLevel (i + 1) b g e bytes (2 ^ l2) cr)
      | none => "bad-op"
    | _, _ => "bad-op"
  | ["prov", b, g, e, l2, modhex, _hname, cr, q1, q2] =>
    match natList [b, g, e, l2, cr, q1, q2], unhex modhex with
    | some [b, g, e, l2, cr, q1, q2], some bytes =>
      match Ext.ofNat? e with
      | some e =>
        if bytes.isEmpty ∨ l2 > 63 ∨ b > 255 ∨ g > 255 ∨ q2 > 255 then "bad-op" else
        if ¬ contextAccepted ⟨1, b, g, e, 8, 0⟩ (2 ^ l2) then "noctx" else
        rle ((List.range (q2 + 1 - q1)).map fun i =>
          resShort (securityLevel ⟨q1 + i, b, g, e, 8, 0⟩ bytes (2 ^ l2) cr false))
      | none => "bad-op"
    | _, _ => "bad-op"
  | ["alpha", b, l2] =>
    match natList [b, l2] with
    | some [b, l2] =>
      if b = 0 ∨ l2 > 63 then "bad-op" else
      let (m, bad) := alphaBad b (2 ^ l2); s!"{m} {bad}"
    | _ => "bad-op"
  | "validate" :: rest =>
    match parsePolicy rest with
    | some (a, p, cr) =>
      if ¬ contextAccepted p.options p.traceLen then "noctx" else
      outStr "ok" (validate a p.options (securityLevel p.options p.modulusBytes p.traceLen cr))
    | none => "bad-op"
  | "verify" :: _cfg :: eb :: airmod :: quad :: cube :: airok :: rest =>
    match natList [eb, quad, cube, airok], unhex airmod, parsePolicy rest with
    | some [eb, quad, cube, airok], some airBytes, some (a, p, cr) =>
      let v : VerifierSide := ⟨airBytes, eb, quad == 1, cube == 1, cr, airok == 1⟩
      if ¬ contextAccepted p.options p.traceLen then "noctx" else
      outStr "pass" (verifyTop a v p)
    | _, _, _ => "bad-op"
  | _ => "bad-op"

end Drv.C18

def main : IO Unit := Drv.runLoop Drv.C18.handle
