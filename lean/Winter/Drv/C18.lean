-- line-protocol handler of property C18 (stub: nothing modelled yet)
import Winter.Drv.Util

namespace Drv.C18

def handle (_toks : List String) : String := "-"

end Drv.C18

def main : IO Unit := Drv.runLoop Drv.C18.handle
