-- line-protocol handler of property C16 (stub: nothing modelled yet)
import Winter.Drv.Util

namespace Drv.C16

def handle (_toks : List String) : String := "-"

end Drv.C16

def main : IO Unit := Drv.runLoop Drv.C16.handle
