-- line-protocol handler of property C16 (constraint divisors, assertions, boundary constraints);
-- op lines mirror harness/src/bin/c16.rs
import Winter.Drv.Util
import Winter.Model.Field
import Winter.Model.Divisor
import Winter.Model.DivisorGen

namespace Drv.C16
open Model Model.Divisor

def field? : String → Option FieldImpl
  | "f64" => some F64.impl
  | "f62" => some F62.impl
  | "f128" => some F128.impl
  | _ => none

/-- the code's field operations on raw words -/
def ops (F : FieldImpl) : Ops Nat := rawOps F

def HP : Nat := 2305843009213693951

def hstep (acc x : Nat) : Nat := (acc * 1000003 + x % HP + 1) % HP

def PAT : Nat := 1048576
def NPAT : Nat := 8

def val (seed i : Nat) : Nat :=
  if seed ≥ PAT then
    match seed - PAT with
    | 0 => 0
    | 1 => 5
    | 2 => 3 + 2 * (i % 2)
    | 3 => if i = 1 then 9 else 0
    | 4 => 18446744073709551615
    | 5 => if i = 0 then 0 else 4
    | 6 => i
    | _ => 1 + 4 * ((i / 2) % 2)
  else (seed + 1) * (i + 7) * 1000003 + i * i

def bits (bs : List Bool) : String :=
  if bs.isEmpty then "-" else String.ofList (bs.map (fun b => if b then '1' else '0'))

structure Desc where
  kind : String
  col : Nat
  first : Nat
  stride : Nat
  count : Nat

def Desc.parse (s : String) : Option Desc :=
  match s.splitOn ":" with
  | [k, c, f, st, n] =>
    if k == "s" || k == "p" || k == "q" then
      match c.toNat?, f.toNat?, st.toNat?, n.toNat? with
      | some c, some f, some st, some n => some ⟨k, c, f, st, n⟩
      | _, _, _, _ => none
    else none
  | _ => none

/-- the constructor call the harness makes for a descriptor -/
def Desc.build (F : FieldImpl) (d : Desc) (seed : Nat) : Res (Assertion Nat) :=
  if d.kind == "s" then .ok (single d.col d.first (F.new (val seed 0)))
  else if d.kind == "p" then periodic d.col d.first d.stride (F.new (val seed 0))
  else sequence d.col d.first d.stride ((List.range d.count).map (fun i => F.new (val seed i)))

/-- enumeration of all assertions valid for trace length n in a column (same order as the harness) -/
def pow2sFrom (fuel lo hi : Nat) : List Nat :=
  match fuel with
  | 0 => []
  | fuel + 1 => if lo ≤ hi then lo :: pow2sFrom fuel (2 * lo) hi else []

def allValid (n col : Nat) : List Desc :=
  (List.range n).map (fun f => (⟨"s", col, f, 0, 1⟩ : Desc))
  ++ (pow2sFrom 64 2 n).flatMap (fun st => (List.range st).map (fun f => (⟨"p", col, f, st, 1⟩ : Desc)))
  ++ (pow2sFrom 64 2 (n / 2)).flatMap (fun st => (List.range st).map (fun f => (⟨"q", col, f, st, n / st⟩ : Desc)))

def optStr (F : FieldImpl) : Option Nat → String
  | some r => toString (F.asInt r)
  | none => "hang"

def degStr : Res Nat → String
  | .ok d => toString d
  | .panic _ => "panic"

/-- points g^0 … g^(n-1) as the harness walks them (x := x * g) -/
def domainPoints (F : FieldImpl) (n : Nat) : List Nat :=
  let g := match F.rootOfUnity (Nat.log2 n) with
    | some g => g
    | none => F.new 1
  ((List.range n).foldl (fun (st : Nat × List Nat) _ => (F.mul st.1 g, st.1 :: st.2)) (F.new 1, [])).2.reverse

/-- tie T: the divisor of `from_transition` and its value at `x` through the definitions regenerated from
    air/src/air/divisor.rs on this run; a difference from the model is appended to the model's answer and so
    shows up as a disagreement with the compiled code -/
def tdivGen (F : FieldImpl) (n e : Nat) (x : Nat) : String :=
  let O := ops F
  let okG := Gen.Divisor.from_transition_ok O.toX n e
  let dG := Gen.Divisor.from_transition O.toX n e
  match fromTransition O n e with
  | .panic _ => if okG then " gen=ok" else ""
  | .ok d =>
    if !okG then " gen=panic"
    else if !(dG.1 == d.numerator && dG.2 == d.exemptions) then " gen=other-divisor"
    else
      let x := F.new x
      let vG := Gen.Divisor.evaluate_at O.toX dG.2 dG.1 x
      let eG := Gen.Divisor.evaluate_exemptions_at O.toX dG.2 x
      match d.evalAt O x with
      | some v => if v == vG && eG == d.evalExemptions O x then "" else s!" gen={F.asInt vG}/{F.asInt eG}"
      | none => ""

def tdiv (F : FieldImpl) (agg : Bool) (n e : Nat) (x : Nat) : String :=
  let O := ops F
  (fun (r : String) => r ++ (if n ≤ 4096 then tdivGen F n e x else "")) <|
  match fromTransition O n e, fromTransition O n 0 with
  | .ok d, .ok d0 =>
    if agg then
      let pts := (domainPoints F n).map (fun x => (d.evalAt O x, d.evalExemptions O x, d0.evalAt O x))
      if pts.any (fun p => p.1.isNone || p.2.2.isNone) then "hang"
      else
        let vals := pts.map (fun p => (F.asInt (p.1.getD 0), F.asInt p.2.1, F.asInt (p.2.2.getD 0)))
        let h := vals.foldl (fun h p => hstep (hstep (hstep h p.1) p.2.1) p.2.2) 0
        s!"deg={degStr d.degree} zq={bits (vals.map (·.1 == 0))} ze={bits (vals.map (·.2.1 == 0))} zn={bits (vals.map (·.2.2 == 0))} h={h}"
    else
      let x := F.new x
      s!"{optStr F (d.evalAt O x)} {F.asInt (d.evalExemptions O x)} {optStr F (d0.evalAt O x)} {degStr d.degree}"
  | _, _ => "panic"

def adiv (F : FieldImpl) (agg : Bool) (d : Desc) (n : Nat) (x : Nat) : String :=
  let O := ops F
  match d.build F 0 with
  | .panic _ => "ctor-panic"
  | .ok a =>
    match fromAssertion O a n with
    | .panic _ => "panic"
    | .ok dv =>
      match dv.numerator with
      | [(k, off)] =>
        if agg then
          let vals := (domainPoints F n).map (fun x => dv.evalAt O x)
          if vals.any (·.isNone) then "hang"
          else
            let vals := vals.map (fun v => F.asInt (v.getD 0))
            s!"k={k} off={F.asInt off} deg={degStr dv.degree} z={bits (vals.map (· == 0))} h={vals.foldl hstep 0}"
        else s!"{k} {F.asInt off} {optStr F (dv.evalAt O (F.new x))} {degStr dv.degree}"
      | _ => "bad-divisor"

/-- `AirContext::new(TraceInfo::new(width, n), …)` preconditions -/
def ctxOk (width n : Nat) : Bool := width ≥ 1 && width ≤ 255 && n ≥ 8 && isPow2 n

def bval (F : FieldImpl) (agg : Bool) (d : Desc) (seed n : Nat) (x : Nat) : String :=
  let O := ops F
  match d.build F seed with
  | .panic _ => "panic"
  | .ok a =>
    if !ctxOk (d.col + 1) n then "panic"
    else match prepareAssertions [a] (d.col + 1) n with
    | .panic _ => "panic"
    | .ok sorted =>
      match groupConstraints O sorted n with
      | .panic _ => "panic"
      | .ok _ =>
        match F.rootOfUnity (Nat.log2 n) with
        | none => "panic"
        | some g =>
          match O.div O.one g with
          | none => "hang"
          | some invG =>
            match BConstraint.new O a invG with
            | none => "hang"
            | some c =>
              let sh := s!"sh={c.offsetSteps} {F.asInt c.offsetElem}"
              let value := fun x => F.asInt (O.sub O.zero (c.evalAt O x O.zero))
              if agg then
                let vals := (domainPoints F n).map value
                let v0 := (vals.drop a.first).headD 0
                s!"{sh} v0={v0} h={vals.foldl hstep 0}"
              else s!"{sh} v={value (F.new x)}"

/-- seeds of the assertion values in a `prep*` line (same rule as the harness) -/
def prepSeed (i : Nat) (d : Desc) : Nat := if i % 3 == 2 then PAT + (i + d.first) % NPAT else i

def buildAll (F : FieldImpl) (ds : List Desc) (i0 : Nat) : Option (List (Assertion Nat)) :=
  (ds.zipIdx i0).foldr (fun (d, i) acc =>
    match acc, d.build F (prepSeed i d) with
    | some l, .ok a => some (a :: l)
    | _, _ => none) (some [])

/-- groups of one trace segment: description and hash of the merged evaluations at x0 = 7 with
    state[col] = col + 11 and coefficient cc0 + position + 2 for the assertion at `position` of the
    sorted list -/
def segment (F : FieldImpl) (as : List (Assertion Nat)) (width n cc0 : Nat) : Option String :=
  let O := ops F
  match prepareAssertions as width n with
  | .panic _ => none
  | .ok sorted =>
    match groupConstraints O sorted n, F.rootOfUnity (Nat.log2 n) with
    | .ok groups, some g =>
      match O.div O.one g with
      | none => some "hang"
      | some invG =>
        let x0 := F.new 7
        let gs := groups.map (fun grp =>
          match grp.divisor.numerator with
          | [(k, off)] => s!"{k}/{F.asInt off}:{",".intercalate (grp.columns.map toString)}"
          | _ => "?")
        let evals := groups.map (fun grp =>
          let num := (sorted.zipIdx).foldl (fun (acc : Option Nat) (a, pos) =>
            if a.stride == grp.stride && a.first == grp.first then
              match acc, BConstraint.new O a invG with
              | some acc, some c =>
                some (O.add acc (O.mul (c.evalAt O x0 (F.new (a.column + 11))) (F.new (cc0 + pos + 2))))
              | _, _ => none
            else acc) (some O.zero)
          match num, grp.divisor.evalAt O x0 with
          | some num, some den =>
            match O.div num den with
            | some r => some (F.asInt r)
            | none => none
          | _, _ => none)
        if evals.any (·.isNone) then some "hang"
        else
          let h := evals.foldl (fun h e => hstep h (e.getD 0)) 0
          some s!"{if gs.isEmpty then "-" else ";".intercalate gs} e={h}"
    | _, _ => none

def prep (F : FieldImpl) (n width : Nat) (declared ncoef : Nat) (ds : List Desc) : String :=
  match buildAll F ds 0 with
  | none => "panic"
  | some as =>
    if !ctxOk width n || declared == 0 || declared != as.length || ncoef != as.length then "panic"
    else match segment F as width n 0 with
      | none => "panic"
      | some s => "ok " ++ s

def prepa (F : FieldImpl) (n mainw auxw nmain : Nat) (ds : List Desc) : String :=
  let nmain := min nmain ds.length
  match buildAll F (ds.take nmain) 0, buildAll F (ds.drop nmain) nmain with
  | some ma, some aa =>
    -- TraceInfo::new_multi_segment / AirContext::new_multi_segment preconditions
    if !(mainw ≥ 1 && mainw + auxw ≤ 255 && n ≥ 8 && isPow2 n) || ma.isEmpty
        || (auxw == 0) != aa.isEmpty then "panic"
    else match segment F ma mainw n 0, (if auxw == 0 then some "- e=0" else segment F aa auxw n ma.length) with
      | some m, some x => s!"ok {m} | {x}"
      | _, _ => "panic"
  | _, _ => "panic"

def lenStr : Except LenErr Unit → String
  | .ok () => "ok"
  | .error .notPow2 => "notpow2"
  | .error .tooShort => "short"
  | .error .notExact => "inexact"

def mk (d : Desc) (n width : Nat) : String :=
  let F := F128.impl
  match d.build F 0 with
  | .panic _ => "panic"
  | .ok a =>
    let w := if a.validateTraceWidth width then "ok" else "err"
    let ap := match a.apply n with
      | .panic _ => "panic"
      | .ok l => s!"{l.length}:{l.foldl (fun (h : Nat) (p : Nat × Nat) => hstep (hstep h p.1) (F.asInt p.2)) 0}"
    s!"ok {a.stride} {a.values.length} w={w} l={lenStr (a.validateTraceLength n)} k={degStr (a.getNumSteps n)} ap={ap}"

def overlap (n : Nat) (a : Desc) (b : Option Desc) : String :=
  let F := F128.impl
  match a.build F 1 with
  | .panic _ => "ctor-panic"
  | .ok ia =>
    match b with
    | some b =>
      match b.build F 1 with
      | .panic _ => "ctor-panic"
      | .ok ib => s!"{boolStr (ia.overlapsWith ib)} {boolStr (ib.overlapsWith ia)}"
    | none =>
      let bs := (allValid n 0).map (fun b =>
        match b.build F 2 with
        | .ok ib => ia.overlapsWith ib
        | .panic _ => false)
      s!"cnt={(bs.filter id).length} bits={bits bs}"

def parseDegree (s : String) : Option Degree :=
  match natList (s.splitOn ":") with
  | some (b :: cs) => some ⟨b, cs⟩
  | _ => none

def exempt (n e blowup : Nat) (ds : List Degree) : String :=
  -- AirContext::new: trace length >= 8 and a power of two, blowup >= the constraints' minimum
  if !(n ≥ 8 && isPow2 n) || ds.isEmpty || blowup < ceBlowup ds then "ctx-panic"
  else match setNumTransitionExemptions n ds e with
    | .panic _ => "panic"
    | .ok e' =>
      match fromTransition (ops F128.impl) n e' with
      | .panic _ => "panic"
      | .ok d => s!"ok {e'} {degStr d.degree} {d.exemptions.length} cols={degStr (numCompositionColumns n ds e')}"

def handleF (F : FieldImpl) : List String → String
  | ["tdivx", n, e, x] =>
    match n.toNat?, e.toNat?, x.toNat? with
    | some n, some e, some x => tdiv F false n e x
    | _, _, _ => "bad-op"
  | ["tdivs", n, e] =>
    match n.toNat?, e.toNat? with
    | some n, some e => tdiv F true n e 0
    | _, _ => "bad-op"
  | ["adivx", d, n, x] =>
    match Desc.parse d, n.toNat?, x.toNat? with
    | some d, some n, some x => adiv F false d n x
    | _, _, _ => "bad-op"
  | ["adivs", d, n] =>
    match Desc.parse d, n.toNat? with
    | some d, some n => adiv F true d n 0
    | _, _ => "bad-op"
  | ["bvalx", d, seed, n, x] =>
    match Desc.parse d, seed.toNat?, n.toNat?, x.toNat? with
    | some d, some seed, some n, some x => bval F false d seed n x
    | _, _, _, _ => "bad-op"
  | ["bvals", d, seed, n] =>
    match Desc.parse d, seed.toNat?, n.toNat? with
    | some d, some seed, some n => bval F true d seed n 0
    | _, _, _ => "bad-op"
  | "prep" :: n :: width :: ds =>
    match n.toNat?, width.toNat?, ds.mapM Desc.parse with
    | some n, some width, some ds => prep F n width ds.length ds.length ds
    | _, _, _ => "bad-op"
  | "prepc" :: n :: width :: decl :: nc :: ds =>
    match n.toNat?, width.toNat?, decl.toNat?, nc.toNat?, ds.mapM Desc.parse with
    | some n, some width, some decl, some nc, some ds => prep F n width decl nc ds
    | _, _, _, _, _ => "bad-op"
  | "prepa" :: n :: mw :: aw :: nm :: ds =>
    match n.toNat?, mw.toNat?, aw.toNat?, nm.toNat?, ds.mapM Desc.parse with
    | some n, some mw, some aw, some nm, some ds => prepa F n mw aw nm ds
    | _, _, _, _, _ => "bad-op"
  | _ => "bad-op"

def handle : List String → String
  | ["mk", d, n, width] =>
    match Desc.parse d, n.toNat?, width.toNat? with
    | some d, some n, some width => mk d n width
    | _, _, _ => "bad-op"
  | ["overlap", n, a, b] =>
    match n.toNat?, Desc.parse a, Desc.parse b with
    | some n, some a, some b => overlap n a (some b)
    | _, _, _ => "bad-op"
  | ["ovall", n, a] =>
    match n.toNat?, Desc.parse a with
    | some n, some a => overlap n a none
    | _, _ => "bad-op"
  | "exempt" :: n :: e :: blowup :: ds =>
    match n.toNat?, e.toNat?, blowup.toNat?, ds.mapM parseDegree with
    | some n, some e, some blowup, some ds => exempt n e blowup ds
    | _, _, _, _ => "bad-op"
  | f :: rest =>
    match field? f with
    | some F => handleF F rest
    | none => "bad-op"
  | _ => "bad-op"

end Drv.C16

def main : IO Unit := Drv.runLoop Drv.C16.handle
