-- line-protocol handler of property C01 (stub: nothing modelled yet)
import Winter.Drv.Util

namespace Drv.C01

def handle (_toks : List String) : String := "-"

end Drv.C01

def main : IO Unit := Drv.runLoop Drv.C01.handle
