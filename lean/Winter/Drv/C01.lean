-- line-protocol handler of property C01 (completeness): the protocol glue of
-- Winter/Model/Protocol.lean and the executable reference prover of Winter/Model/RefProver.lean
-- (`refp`: the bytes of the proof); end-to-end `run` lines are not modelled (answer `-`)
import Winter.Drv.Util
import Winter.Model.Protocol
import Winter.Model.RefProver
import Winter.Gen.ProofOpts
import Winter.Gen.FriOpts
import Winter.Gen.Degree
import Winter.Gen.AirContext
import Winter.Gen.TraceInfo

namespace Drv.C01
open Model.Protocol

/-- `base[.cycle]*` -/
def degree? (s : String) : Option Degree :=
  match (s.splitOn ".").mapM (fun x => x.toNat?) with
  | some (b :: cs) => some { base := b, cycles := cs }
  | _ => none

/-- comma separated degrees, `-` for none -/
def degrees? (s : String) : Option (List Degree) :=
  if s == "-" then some [] else (s.splitOn ",").mapM degree?

def glueLine (g : Glue) : String :=
  s!"{g.ceBlowup} {g.ceDomain} {g.ldeDomain} {g.columns} {g.tracePolyDegree} {g.layers} {g.remDomain} {g.remCoef} {boolStr g.wellFormed} {boolStr g.queriesOk}"

-- ---- tie T (owner T; keep when editing this file): translation validation of the definitions regenerated
-- from the Rust sources on this run (Winter/Gen/ProofOpts, FriOpts, Degree, AirContext): they are evaluated
-- on the same operands as the model; a difference is appended to the model's answer and so shows up as a
-- disagreement with the compiled code
def genCtx (n e : Nat) (o : Options) (md ad : List Degree) (gl : Glue) : String :=
  let ev := fun (d : Degree) (m : Nat) => Gen.Degree.get_evaluation_degree d.base d.cycles m
  let evOk := fun (d : Degree) (m : Nat) => Gen.Degree.get_evaluation_degree_ok d.base d.cycles m
  let col := if Gen.AirContext.num_constraint_composition_columns_ok ev evOk ad md e n
    then toString (Gen.AirContext.num_constraint_composition_columns ev evOk ad md e n) else "panic"
  let minb := ((md ++ ad).map fun d =>
    if Gen.Degree.min_blowup_factor_ok d.base d.cycles then Gen.Degree.min_blowup_factor d.base d.cycles else 0).foldl max 0
  let chk (name : String) (a b : String) : String := if a == b then "" else s!" gen:{name}={a}"
  chk "columns" col (toString gl.columns)
    ++ chk "ce_blowup" (toString minb) (toString gl.ceBlowup)
    ++ chk "ce_domain" (if Gen.AirContext.ce_domain_size_ok gl.ceBlowup n then toString (Gen.AirContext.ce_domain_size gl.ceBlowup n) else "panic") (toString gl.ceDomain)
    ++ chk "lde_domain" (if Gen.AirContext.lde_domain_size_ok o.blowup n then toString (Gen.AirContext.lde_domain_size o.blowup n) else "panic") (toString gl.ldeDomain)
    ++ chk "trace_poly_degree" (if Gen.AirContext.trace_poly_degree_ok n then toString (Gen.AirContext.trace_poly_degree n) else "panic") (toString gl.tracePolyDegree)

/-- the regenerated constructors on an accepted glue line: `AirContext::new_multi_segment` (one assertion per
    segment, no Lagrange column) must pass and store the model's `ce_blowup_factor`;
    `set_num_transition_exemptions` must pass -/
def genCtor (n e aw : Nat) (o : Options) (md ad : List Degree) (gl : Glue) : String :=
  let mb := fun (d : Degree) => Gen.Degree.min_blowup_factor d.base d.cycles
  let mbOk := fun (d : Degree) => Gen.Degree.min_blowup_factor_ok d.base d.cycles
  let multi := Gen.TraceInfo.is_multi_segment aw
  let naa := if 0 < aw then 1 else 0
  let okC := Gen.AirContext.new_multi_segment_ok mb mbOk aw multi n md ad 1 naa false 0 o.blowup
  let ce := (Gen.AirContext.new_multi_segment mb mbOk aw multi n md ad 1 naa false 0 o.blowup).1
  let ev := fun (d : Degree) (m : Nat) => Gen.Degree.get_evaluation_degree d.base d.cycles m
  let evOk := fun (d : Degree) (m : Nat) => Gen.Degree.get_evaluation_degree_ok d.base d.cycles m
  let okE := Gen.AirContext.set_num_transition_exemptions_ok ev evOk ad (Gen.AirContext.ce_domain_size ce n) md 1 n e
  (if okC then "" else " gen:new_multi_segment=panic")
    ++ (if ce == gl.ceBlowup then "" else s!" gen:ce_blowup_factor={ce}")
    ++ (if okE then "" else " gen:set_num_transition_exemptions=panic")

def genDiff (n e mw aw nr : Nat) (o : Options) (x : Nat) (md ad : List Degree) (r : Res Glue) : String :=
  let accG := Gen.ProofOpts.new_ok o.queries o.blowup o.grinding x o.folding o.remainder
  let tiG := Gen.TraceInfo.new_multi_segment_ok mw aw nr n []
  let d1 := (if accG == o.accepted then "" else s!" gen:new_ok={boolStr accG}")
    ++ (if tiG == traceInfoAccepted mw aw nr n then "" else s!" gen:trace_info_ok={boolStr tiG}")
  match r with
  | .panic => d1
  | .ok gl =>
    let lde := n * o.blowup
    let fo := Gen.ProofOpts.to_fri_options o.blowup o.folding o.remainder
    let layG := if Gen.ProofOpts.to_fri_options_ok o.blowup o.folding o.remainder
        && Gen.FriOpts.num_fri_layers_ok 64 fo.2.2 fo.1 fo.2.1 lde
      then toString (Gen.FriOpts.num_fri_layers 64 fo.2.2 fo.1 fo.2.1 lde) else "panic"
    d1 ++ (if layG == toString gl.layers then "" else s!" gen:layers={layG}") ++ genCtx n e o md ad gl
      ++ genCtor n e aw o md ad gl

/-- `q.b.g.x.f.r` -/
def optsOf (s : String) : Option Model.Serde.ProofOptions :=
  match (s.splitOn ".").mapM Model.VerifierChecks.parseNat with
  | some [q, b, g, x, f, r] => some ⟨q, b, g, x, f, r⟩
  | _ => none

/-- columns separated by `/`, cells by `,` -/
def traceOf (s : String) : Option (List (List Nat)) :=
  (s.splitOn "/").mapM fun c => (c.splitOn ",").mapM Model.VerifierChecks.parseNat

/-- `refp <field> <hasher> <opts> <seed> <desc> <trace>`: the reference prover's proof bytes, and the reference
    verifier's verdict on them -/
def handleRefp (f h opts desc trace : String) : String :=
  match Model.RefVerifier.instOf f h with
  | none => "-"
  | some J =>
    match Model.RefVerifier.parseDesc desc, optsOf opts, traceOf trace with
    | some d, some o, some t =>
      if d.lagrange then "-"
      else if t.length ≠ d.air.width ∨ t.any (fun c => c.length ≠ d.air.n) ∨ t.any (fun c => c.any (· ≥ J.I.M)) then "bad-op"
      else
        match Model.RefProver.parseAuxGens desc with
        | none => "-"
        | some gens =>
        match Model.RefProver.refProve J d t o gens with
        | .ok bs =>
          -- the executable pair end to end: the reference verifier on the reference prover's bytes
          let v := Model.RefVerifier.refVerify J d (Model.RefProver.refPubInputs J d t) (.optionSet [o]) bs
          hexOf bs ++ " v=" ++ (if v = .ok then "ok" else "rejected")
        | .error _ => "panic"
    | _, _, _ => "bad-op"

def handle (toks : List String) : String :=
  match toks with
  | "run" :: _ => "-"
  | ["refp", f, h, opts, _seed, desc, trace] => handleRefp f h opts desc trace
  | "refp" :: _ => "bad-op"
  | ["glue", n, q, b, g, x, f, r, e, mw, aw, nr, md, ad] =>
    match natList [n, q, b, g, x, f, r, e, mw, aw, nr], degrees? md, degrees? ad with
    | some [n, q, b, g, x, f, r, e, mw, aw, nr], some md, some ad =>
      if x < 1 ∨ 3 < x then "bad-op"
      else if [n, q, b, g, x, f, r, e, mw, aw, nr].any (· > 2 ^ 24)
           ∨ (md ++ ad).any (fun d => d.base > 2 ^ 16 ∨ d.cycles.any (· > 2 ^ 24)) then "bad-op"
      else
        let o : Options := { queries := q, blowup := b, grinding := g, folding := f, remainder := r }
        let res := glue n o e mw aw nr md ad
        (match res with
        | .ok gl => glueLine gl
        | .panic => "panic") ++ genDiff n e mw aw nr o x md ad res   -- tie T: keep
    | _, _, _ => "bad-op"
  | _ => "bad-op"

end Drv.C01

def main : IO Unit := Drv.runLoop Drv.C01.handle
