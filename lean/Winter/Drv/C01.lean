-- line-protocol handler of property C01 (completeness): the protocol glue of
-- Winter/Model/Protocol.lean; end-to-end `run` lines are not modelled (answer `-`)
import Winter.Drv.Util
import Winter.Model.Protocol

namespace Drv.C01
open Model.Protocol

/-- `base[.cycle]*` -/
def degree? (s : String) : Option Degree :=
  match (s.splitOn ".").mapM (fun x => x.toNat?) with
  | some (b :: cs) => some { base := b, cycles := cs }
  | _ => none

/-- comma separated degrees, `-` for none -/
def degrees? (s : String) : Option (List Degree) :=
  if s == "-" then some [] else (s.splitOn ",").mapM degree?

def glueLine (g : Glue) : String :=
  s!"{g.ceBlowup} {g.ceDomain} {g.ldeDomain} {g.columns} {g.tracePolyDegree} {g.layers} {g.remDomain} {g.remCoef} {boolStr g.wellFormed} {boolStr g.queriesOk}"

def handle (toks : List String) : String :=
  match toks with
  | "run" :: _ => "-"
  | ["glue", n, q, b, g, x, f, r, e, mw, aw, nr, md, ad] =>
    match natList [n, q, b, g, x, f, r, e, mw, aw, nr], degrees? md, degrees? ad with
    | some [n, q, b, g, x, f, r, e, mw, aw, nr], some md, some ad =>
      if x < 1 ∨ 3 < x then "bad-op"
      else if [n, q, b, g, x, f, r, e, mw, aw, nr].any (· > 2 ^ 24)
           ∨ (md ++ ad).any (fun d => d.base > 2 ^ 16 ∨ d.cycles.any (· > 2 ^ 24)) then "bad-op"
      else
        match glue n { queries := q, blowup := b, grinding := g, folding := f, remainder := r } e mw aw nr md ad with
        | .ok gl => glueLine gl
        | .panic => "panic"
    | _, _, _ => "bad-op"
  | _ => "bad-op"

end Drv.C01

def main : IO Unit := Drv.runLoop Drv.C01.handle
