-- line-protocol handler of property C03 (stub: nothing modelled yet)
import Winter.Drv.Util

namespace Drv.C03

def handle (_toks : List String) : String := "-"

end Drv.C03

def main : IO Unit := Drv.runLoop Drv.C03.handle
