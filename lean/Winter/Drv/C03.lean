-- line-protocol handler of property C03 (proof integrity).
-- Modelled op (compared with the implementation):
--   chan <field> <hasher> <AirDesc line> <proof bytes hex>
--       `Proof::from_bytes` (Serde.proof.dec, C12) followed by the sub-structure parse of
--       `VerifierChannel::new` (`channelParse` of Winter/Model/VerifierChecks.lean) with the parameters the
--       generic AIR derives from the proof's own context and the description (protocol glue of C01):
--       `noparse` | `panic` | `err:<stage>` | `ok roots=.. fri=.. rows=.. crow=.. rem=.. layers=.. lvals=.. ood=.. evals=..`
--   refv <field> <hasher> <q.b.g.x.f.r> <seed> <AirDesc line> <acceptable> <public inputs> <tag> <proof bytes hex>
--       the EXECUTABLE REFERENCE VERIFIER (`refVerify` of Winter/Model/RefVerifier.lean) on exactly the bytes the
--       real `verify` was given: `ok` | `parse-err` | `err:<VerifierError kind>` | `panic`.  Modelled for the
--       64-bit field with Rp64_256 / RpJive64_256 and the 62-bit field with Rp62_248, descriptions with or without
--       auxiliary segment (no Lagrange kernel column); `-` otherwise.
--       <acceptable> = `os:<q.b.g.x.f.r>[,..]` (OptionSet) | `mc:<bits>` (MinConjecturedSecurity)
-- The mutation families (`flips`, `bytes`, `fields`, `resize`, `sresize`, `reorder`, `remainder`, `partitions`,
-- `nonces`, `extras`) run the real verifier and are judged by the harness's oracle; the model answers `-`.
import Winter.Drv.Util
import Winter.Model.VerifierChecks
import Winter.Model.Protocol
import Winter.Model.RefVerifier

namespace Drv.C03
open Model Model.VerifierChecks

def fieldOf (s : String) : Option FieldImpl :=
  if s = "f64" then some F64.impl else if s = "f62" then some F62.impl else if s = "f128" then some F128.impl else none

def digestOf (s : String) : Option (Serde.Codec (List Nat)) :=
  if s = "blake3_256" ∨ s = "sha3_256" then some (Serde.byteDigest 32)
  else if s = "blake3_192" then some (Serde.byteDigest 24)
  else if s = "rp64_256" ∨ s = "rpjive64_256" then some Serde.elemDigest64
  else if s = "rp62_248" then some Serde.elemDigest62
  else none

/-- `base[.cycle]*` of a constraint `deg:expr` -/
def degreeOf (s : String) : Option Protocol.Degree :=
  match s.splitOn ":" with
  | d :: _ =>
    match (d.splitOn ".").mapM parseNat with
    | some (b :: cs) => some { base := b, cycles := cs }
    | _ => none
  | _ => none

structure DescDims where
  exemptions : Nat := 1
  mainDegs : List Protocol.Degree := []
  auxDegs : List Protocol.Degree := []
  lagrange : Bool := false

/-- the fields of a description line that determine the dimensions of the proof's blocks -/
def dimsOf (line : String) : Option DescDims :=
  let step (acc : Option DescDims) (field : String) : Option DescDims :=
    match acc with
    | none => none
    | some d =>
      match field.splitOn "=" with
      | k :: v :: _ =>
        if k = "e" then (parseNat v).map fun x => { d with exemptions := x }
        else if k = "t" then ((nonEmpty (v.splitOn ",")).mapM degreeOf).map fun x => { d with mainDegs := x }
        else if k = "u" then ((nonEmpty (v.splitOn ",")).mapM degreeOf).map fun x => { d with auxDegs := x }
        else if k = "x" then
          match (v.splitOn ".").mapM parseNat with
          | some [_, _, l] => some { d with lagrange := l ≠ 0 }
          | _ => none
        else some d
      | _ => some d
  (nonEmpty (line.splitOn ";")).foldl step (some {})

def dots (l : List Nat) : String := ".".intercalate (l.map toString)

def summary (c : ParsedChannel) : String :=
  let rows := (c.traceOpenings.map fun o => o.rows.length).sum
  s!"ok roots={c.traceRoots.length} fri={c.friRoots.length} rows={rows} crow={c.constraintOpening.rows.length} rem={c.remainder.length} layers={c.friLayers.length} lvals={dots (c.friLayers.map fun l => (l.rows.map List.length).sum)} ood={c.oodCurrent.length} evals={c.oodEvals.length}"

def handle (toks : List String) : String :=
  match toks with
  | ["refv", f, h, _opts, _seed, desc, acc, pubs, _tag, bytes] => RefVerifier.refvLine f h desc acc pubs (unhex bytes)
  | "refv" :: _ => "bad-op"
  | ["chan", f, h, desc, bytes] =>
    match fieldOf f, digestOf h, dimsOf desc, unhex bytes with
    | some F, some dg, some dims, some bs =>
      match Serde.proof.dec bs with
      | .ok (p, _) =>
        let ti := p.context.traceInfo
        let o := p.context.options
        match Protocol.glue ti.length ⟨o.numQueries, o.blowup, o.grinding, o.folding, o.remDeg⟩ dims.exemptions
            ti.main ti.aux ti.rands dims.mainDegs dims.auxDegs with
        | .panic => "panic"
        | .ok g =>
          let cfg : ChanCfg := {
            F := F, ext := o.fieldExt, digest := dg, numSegments := ti.numSegments,
            mainWidth := ti.main, auxWidth := ti.aux, constraintWidth := g.columns,
            ldeLog := Nat.log2 g.ldeDomain, numFriLayers := g.layers, folding := o.folding,
            lagrangeLog := if dims.lagrange then some (Nat.log2 ti.length) else none }
          match channelParse cfg p with
          | .ok c => summary c
          | .err stage => "err:" ++ stage
          | .panic => "panic"
      | _ => "noparse"
    | _, _, _, _ => "bad-op"
  | "chan" :: _ => "bad-op"
  | op :: _ =>
    if ["flips", "bytes", "fields", "resize", "sresize", "reorder", "remainder", "partitions", "nonces", "extras"].contains op then "-"
    else "bad-op"
  | [] => "bad-op"

end Drv.C03

def main : IO Unit := Drv.runLoop Drv.C03.handle
