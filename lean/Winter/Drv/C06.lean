-- line-protocol handler of property C06 (untrusted input); op lines mirror harness/src/bin/c06.rs
--   raw x <label> <vcfg> <field> <hasher> <e> <main degs> <aux degs> <#main asserts> <#aux asserts>
--         <aux width of the AIR> <lagrange 0|1> <hex>
--     -> `<parse>[ <front>]` as computed by Model.Parse.parseProof / verifyFront
--   refv <field> <hasher> <q.b.g.x.f.r> <seed> <AirDesc line> <acceptable> <public inputs> <label> <hex>
--     -> verdict kind of the EXECUTABLE REFERENCE VERIFIER `Model.RefVerifier.refVerify` on the bytes
--        (`ok` | `parse-err` | `err:<VerifierError kind>` | `panic`): the whole of `verify`, for the instantiations it
--        covers (WinterProofs/C06.lean `verify_whole_safe_partial` is about this function)
--   mut ...   -> `-` (exploration of the unmodelled rest of verify())
import Winter.Drv.Util
import Winter.Model.Parse
import Winter.Model.RefVerifier

namespace Drv.C06
open Model Model.Serde Model.Parse

def fieldOf (s : String) : Option (FieldImpl × Bool) :=
  if s == "f64" then some (F64.impl, true)
  else if s == "f62" then some (F62.impl, true)
  else if s == "f128" then some (F128.impl, false)
  else none

/-- serialized length and `size_of` of the hasher's digest -/
def digestOf (s : String) : Option (Nat × Nat) :=
  if s == "blake3_256" ∨ s == "sha3_256" ∨ s == "rp64_256" ∨ s == "rpjive64_256" then some (32, 32)
  else if s == "blake3_192" then some (24, 24)
  else if s == "rp62_248" then some (31, 32)
  else none

def degOf (s : String) : Option Protocol.Degree :=
  match natList (s.splitOn ".") with
  | some (b :: cs) => some ⟨b, cs⟩
  | _ => none

def degsOf (s : String) : Option (List Protocol.Degree) :=
  if s == "-" then some [] else (s.splitOn ",").mapM degOf

def frontStr : Front → String
  | .field => "field"
  | .opts => "opts"
  | .airnew => "airnew"
  | .ext => "ext"
  | .err => "err"
  | .panic => "panic"
  | .pass => "pass"

def handleRaw (t : List String) : String :=
  match t with
  | [_, _, _, f, h, e, md, ad, nma, naa, aw, lag, hx] =>
    match fieldOf f, digestOf h, natList [e, nma, naa, aw, lag], degsOf md, degsOf ad, unhex hx with
    | some (F, cubic), some (db, ds), some [e, nma, naa, aw, lag], some md, some ad, some bytes =>
      let A : Air := { F := F, cubic := cubic, digestBytes := db, digestSize := ds, exemptions := e,
                       mainDegs := md, auxDegs := ad, nMainAssert := nma, nAuxAssert := naa,
                       descAuxWidth := aw, lagrange := lag == 1 }
      match (parseProof bytes).1 with
      | .ok p => "ok " ++ frontStr (verifyFront A p).1
      | .err => "err"
      | .eof => "eof"
      | .panic => "panic"
    | _, _, _, _, _, _ => "bad-op"
  | _ => "bad-op"

def handle (toks : List String) : String :=
  match toks with
  | "raw" :: rest => handleRaw rest
  | ["refv", f, h, _opts, _seed, desc, acc, pubs, _tag, bytes] => RefVerifier.refvLine f h desc acc pubs (unhex bytes)
  | "refv" :: _ => "bad-op"
  | _ => "-"

end Drv.C06

def main : IO Unit := Drv.runLoop Drv.C06.handle
