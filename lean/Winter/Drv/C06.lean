-- line-protocol handler of property C06 (stub: nothing modelled yet)
import Winter.Drv.Util

namespace Drv.C06

def handle (_toks : List String) : String := "-"

end Drv.C06

def main : IO Unit := Drv.runLoop Drv.C06.handle
