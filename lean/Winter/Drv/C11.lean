-- line-protocol handler of property C11 (stub: nothing modelled yet)
import Winter.Drv.Util

namespace Drv.C11

def handle (_toks : List String) : String := "-"

end Drv.C11

def main : IO Unit := Drv.runLoop Drv.C11.handle
