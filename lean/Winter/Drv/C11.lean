-- line-protocol handler of property C11 (hash functions)
import Winter.Drv.Util
import Winter.Model.Rescue

namespace Drv.C11
open Model Model.Rescue

def rescue? : String → Option Params
  | "rp64" => some rp64
  | "rpjive" => some rpjive
  | "rp62" => some rp62
  | _ => none

/-- canonical integers followed by the raw words -/
def showElems (P : Params) (d : List Nat) : String :=
  joinNat (d.map P.F.asInt ++ d)

/-- a list of integers; the empty list is written `-`; no token at all is malformed -/
def natList' (xs : List String) : Option (List Nat) :=
  if xs = ["-"] then some [] else if xs.isEmpty then none else natList xs

def u64Max : Nat := 18446744073709551615

/-- the permutation is a public function of the 64-bit instances only -/
def permPublic (P : Params) : Bool := P.name != "rp62"

def digestLine (P : Params) (d : List Nat) : String :=
  if P.name == "rp62" then
    let back := match digestRead62 (digestSer62 d) with
      | some (e, rest) => s!"{joinNat (e.map P.F.asInt)} {rest.length}"
      | none => "eof"
    s!"{hexOf (digestBytes62 d)} {hexOf (digestSer62 d)} {back}"
  else
    let back := match digestRead64 (digestBytes64 d) with
      | some (e, rest) => s!"{joinNat (e.map P.F.asInt)} {rest.length}"
      | none => "eof"
    s!"{hexOf (digestBytes64 d)} {hexOf (digestBytes64 d)} {back}"

def handleRescue (P : Params) : List String → String
  | ["hash", h] =>
    match unhex h with
    | some bs =>
      match hashBytes P bs with
      | .ok d => showElems P d
      | .panic _ => "panic"
    | none => "bad-op"
  | "hashel" :: rest =>
    match natList' rest with
    | some v => showElems P (hashElements P (v.map P.F.new))
    | none => "bad-op"
  | "hashraw" :: rest =>
    match natList' rest with
    | some v => showElems P (hashElements P v)
    | none => "bad-op"
  | "hashext" :: deg :: rest =>
    match deg.toNat?, natList' rest with
    | some d, some v =>
      if (d = 2 ∨ d = 3) ∧ v.length % d = 0 then showElems P (hashElements P (v.map P.F.new)) else "bad-op"
    | _, _ => "bad-op"
  | "merge" :: rest =>
    match natList' rest with
    | some v =>
      if v.length = 8 then showElems P (merge P ((v.take 4).map P.F.new) ((v.drop 4).map P.F.new)) else "bad-op"
    | none => "bad-op"
  | "mergeraw" :: rest =>
    match natList' rest with
    | some v => if v.length = 8 then showElems P (merge P (v.take 4) (v.drop 4)) else "bad-op"
    | none => "bad-op"
  | ["mergeint", a, b, c, d, v] =>
    match natList [a, b, c, d], v.toNat? with
    | some s, some v =>
      if v ≤ u64Max then showElems P (mergeWithInt P (s.map P.F.new) v) else "bad-op"
    | _, _ => "bad-op"
  | "perm" :: rest =>
    match natList' rest with
    | some v =>
      if permPublic P ∧ v.length = P.width then showElems P (applyPermutation P v) else "bad-op"
    | none => "bad-op"
  | "round" :: r :: rest =>
    match r.toNat?, natList' rest with
    | some r, some v =>
      if permPublic P ∧ v.length = P.width then
        match applyRound P v r with
        | some st => showElems P st
        | none => "bad-op"
      else "bad-op"
    | _, _ => "bad-op"
  | "digest" :: rest =>
    match natList' rest with
    | some v => if v.length = 4 then digestLine P v else "bad-op"
    | none => "bad-op"
  -- conversion twins of the digest types: `[u8; 32]::from(d)` is `as_bytes`, `digests_as_elements` the elements in order
  | "digconv" :: rest =>
    match natList' rest with
    | some v =>
      if v.length = 8 ∧ v.all P.F.inv? then
        let b := if P.name == "rp62" then digestBytes62 (v.take 4) else digestBytes64 (v.take 4)
        s!"{hexOf b} {joinNat (v.map P.F.asInt)}"
      else "bad-op"
    | none => "bad-op"
  -- `apply_jive_summation(initial, final)`: the four sums the Jive compression ends with
  | "jivesum" :: rest =>
    match natList' rest with
    | some v =>
      if P.jive ∧ v.length = 2 * P.width ∧ v.all P.F.inv? then
        let (ini, fin) := (v.take P.width, v.drop P.width)
        joinNat ((List.range 4).map fun i =>
          P.F.asInt (P.F.add (P.F.add (P.F.add (ini.getD i 0) (ini.getD (4 + i) 0)) (fin.getD i 0)) (fin.getD (4 + i) 0)))
      else "bad-op"
    | none => "bad-op"
  | ["digread", h] =>
    match unhex h with
    | some bs =>
      match (if P.name == "rp62" then digestRead62 bs else digestRead64 bs) with
      | some (e, rest) => s!"{showElems P e} {rest.length}"
      | none => "eof"
    | none => "bad-op"
  | _ => "bad-op"

def field? : String → Option (FieldImpl × Bool × Bool)   -- (field, IS_CANONICAL, cubic extension)
  | "f64" => some (Model.F64.impl, Gen.F64.IS_CANONICAL, true)
  | "f62" => some (Model.F62.impl, Gen.F62.IS_CANONICAL, true)
  | "f128" => some (Model.F128.impl, Gen.F128.IS_CANONICAL, false)
  | _ => none

/-- the byte hashers: the output is the byte string fed to the opaque hash function -/
def handleBytes (n : Nat) : List String → String
  | ["hash", _] => "-"
  | "bdig" :: _ => "-"   -- the byte-digest container: judged by the harness oracle only
  | "hashel" :: f :: rest =>
    match field? f, natList' rest with
    | some (F, can, _), some v => hexOf (bytesFedElements F can (v.map F.new))
    | _, _ => "bad-op"
  | "hashraw" :: f :: rest =>
    match field? f, natList' rest with
    | some (F, can, _), some v => hexOf (bytesFedElements F can v)
    | _, _ => "bad-op"
  | "hashext" :: f :: deg :: rest =>
    match field? f, deg.toNat?, natList' rest with
    | some (F, can, cubic), some d, some v =>
      if (d = 2 ∨ (d = 3 ∧ cubic)) ∧ v.length % d = 0 then hexOf (bytesFedElements F can (v.map F.new))
      else "bad-op"
    | _, _, _ => "bad-op"
  | ["merge", a, b] =>
    match unhex a, unhex b with
    | some a, some b => if a.length = n ∧ b.length = n then hexOf (bytesFedMerge a b) else "bad-op"
    | _, _ => "bad-op"
  | ["mergeint", a, v] =>
    match unhex a, v.toNat? with
    | some a, some v => if a.length = n ∧ v ≤ u64Max then hexOf (bytesFedMergeInt a v) else "bad-op"
    | _, _ => "bad-op"
  | _ => "bad-op"

def handle : List String → String
  | h :: rest =>
    match rescue? h with
    | some P => handleRescue P rest
    | none =>
      match h with
      | "blake3_256" => handleBytes 32 rest
      | "blake3_192" => handleBytes 24 rest
      | "sha3_256" => handleBytes 32 rest
      | _ => "bad-op"
  | _ => "bad-op"

end Drv.C11

def main : IO Unit := Drv.runLoop Drv.C11.handle
