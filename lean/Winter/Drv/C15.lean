-- line-protocol handler of property C15 (FRI completeness and the folding identity)
--   drp   <fld> <N> <logn> <alpha> <coeffs>                      apply_drp on the evaluations of a polynomial
--   pos   <n> <N> <parts> <positions>                            fold_positions + map_positions_to_indexes
--   nl    <blowup> <N> <remdeg> <domain>                         num_fri_layers
--   prove <fld> <hasher> <N> <remdeg> <logb> <logn> <alphas> <coeffs> <positions>
--                                                                honest prover with scripted α's, then the verifier
-- fields: f64 f62 f128 (raw words) and q64 (quadratic extension of f64); elements are canonical integers
-- (`a:b` for q64), lists are comma separated, rows are separated by ';', layers by '|'.
import Winter.Drv.FriUtil
import Winter.Gen.FriOpts
import Winter.Gen.FriPos

namespace Drv.C15
open Model Model.Fri Drv.Fri

def optsOf (logb N r : Nat) : Option Opts := Opts.new? (2 ^ logb) N r

def drp {α : Type} (fld : Fld α) (N logn : Nat) (alpha : String) (coeffs : String) : String :=
  match fld.parse alpha, parseList fld.parse coeffs with
  | some a, some cs =>
    let F := fld.ops
    let evals := evalOnDomain F cs (2 ^ logn)
    match transpose N evals with
    | none => "panic"
    | some rows =>
      match applyDrp F N rows a with
      | .ok out => printList fld.print out
      | _ => "panic"
  | _, _ => "bad-op"

/-- the honest prover followed by the verifier on its proof -/
def prove {α : Type} (fld : Fld α) (N r logb logn : Nat) (alphas coeffs positions : String) : String :=
  match optsOf logb N r, parseList fld.parse alphas, parseList fld.parse coeffs,
      parseList (fun s => s.toNat?) positions with
  | some o, some als, some cs, some ps =>
    let F := fld.ops
    let n := 2 ^ logn
    let evals := evalOnDomain F cs n
    match Prover.buildLayers F o Prover.init als evals with
    | .ok st =>
      match Prover.buildProof o st ps with
      | .ok (st', layers, rem) =>
        let qevals := ps.filterMap fun p => evals[p]?
        let inp : VInput α (List α) := {
          maxPolyDegree := n / o.blowup - 1
          numPartitions := 1
          commitments := (layers.map fun _ => []) ++ [rem]
          alphas := als
          layers := layers.map fun rows => ⟨true, rows⟩
          remainder := rem
          positions := ps
          evaluations := qevals }
        let _ : BEq (List α) := ⟨beqList F⟩
        let v := verify F true id o inp
        let reuse := st'.layers.isEmpty && st'.remainder.isEmpty
        let body := "|".intercalate (layers.map (printRows fld.print))
        s!"rem={printList fld.print rem} layers={if layers.isEmpty then "-" else body} v={verdictStr v} reuse={boolStr reuse}"
      | _ => "panic"
    | _ => "panic"
  | _, _, _, _ => "bad-op"

def withFld (name : String) (k : {α : Type} → Fld α → String) : String :=
  match name with
  | "f64" => k (baseFld F64.impl)
  | "f62" => k (baseFld F62.impl)
  | "f128" => k (baseFld F128.impl)
  | "q64" => k quadFld
  | _ => "bad-op"

def handle : List String → String
  | ["drp", f, n, logn, alpha, coeffs] =>
    match n.toNat?, logn.toNat? with
    | some n, some logn => withFld f fun fld => drp fld n logn alpha coeffs
    | _, _ => "bad-op"
  | ["pos", n, fold, parts, positions] =>
    match n.toNat?, fold.toNat?, parts.toNat?, parseList (fun s => s.toNat?) positions with
    | some n, some fold, some parts, some ps =>
      -- the model, and the definitions regenerated from fri/src/folding/mod.rs / fri/src/utils.rs on this run
      -- (tie T: a difference between the two shows up as a disagreement with the compiled code)
      let m := match foldPositions ps n fold with
        | none => "panic"
        | some folded =>
          match mapPositionsToIndexes folded n fold parts with
          | none => "panic"
          | some idx => s!"{printList toString folded} {printList toString idx}"
      let g := if Gen.FriPos.fold_positions_ok ps n fold then
          let folded := Gen.FriPos.fold_positions ps n fold
          if Gen.FriPos.map_positions_to_indexes_ok folded n fold parts then
            s!"{printList toString folded} {printList toString (Gen.FriPos.map_positions_to_indexes folded n fold parts)}"
          else "panic"
        else "panic"
      if m == g then m else s!"{m} gen={g}"
    | _, _, _, _ => "bad-op"
  | ["nl", b, fold, r, d] =>
    match b.toNat?, fold.toNat?, r.toNat?, d.toNat? with
    | some b, some fold, some r, some d =>
      if h : fold = 2 ∨ fold = 4 ∨ fold = 8 ∨ fold = 16 then
        -- the model, and the definition regenerated from fri/src/options.rs on this run (translation
        -- validation of tie T: a difference between the two shows up as a disagreement with the code)
        let m := toString (numFriLayers ⟨b, fold, r, h⟩ d)
        let g := if Gen.FriOpts.num_fri_layers_ok 64 b fold r d then
            toString (Gen.FriOpts.num_fri_layers 64 b fold r d) else "panic"
        if m == g then m else s!"{m} gen={g}"
      else "panic"
    | _, _, _, _ => "bad-op"
  | ["prove", f, _hasher, n, r, logb, logn, alphas, coeffs, positions] =>
    match n.toNat?, r.toNat?, logb.toNat?, logn.toNat? with
    | some n, some r, some logb, some logn =>
      withFld f fun fld => prove fld n r logb logn alphas coeffs positions
    | _, _, _, _ => "bad-op"
  | "e2e" :: _ => "-"
  | _ => "bad-op"

end Drv.C15

def main : IO Unit := Drv.runLoop Drv.C15.handle
