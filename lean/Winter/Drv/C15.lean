-- line-protocol handler of property C15 (stub: nothing modelled yet)
import Winter.Drv.Util

namespace Drv.C15

def handle (_toks : List String) : String := "-"

end Drv.C15

def main : IO Unit := Drv.runLoop Drv.C15.handle
