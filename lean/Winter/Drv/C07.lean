-- line-protocol handler of property C07 (base fields)
import Winter.Drv.Util
import Winter.Model.Field

namespace Drv.C07
open Model

def field? : String → Option FieldImpl
  | "f64" => some F64.impl
  | "f62" => some F62.impl
  | "f128" => some F128.impl
  | _ => none

def elem (F : FieldImpl) (raw : Nat) : String :=
  s!"{F.asInt raw} {raw}"

def fuelElem (F : FieldImpl) : Fuel Nat → String
  | .done r => elem F r
  | .out => "hang"

def conv (F : FieldImpl) : Conv → String
  | .ok r => s!"ok {F.asInt r}"
  | .err => "err"

def binop (F : FieldImpl) (op : String) (a b : Nat) : String :=
  match op with
  | "add" => elem F (F.add a b)
  | "sub" => elem F (F.sub a b)
  | "mul" => elem F (F.mul a b)
  | "div" => fuelElem F (F.div a b)
  | _ => "bad-op"

def unop (F : FieldImpl) (op : String) (a : Nat) : String :=
  match op with
  | "neg" => elem F (F.neg a)
  | "double" => elem F (F.double a)
  | "square" => elem F (F.mul a a)
  | "cube" => elem F (F.mul (F.mul a a) a)
  | "inv" => fuelElem F (F.inv a)
  | "exp7" => if F.name == "f64" then elem F (Gen.F64.exp7 a) else "bad-op"
  | _ => "bad-op"

/-- residues of `a += b`, `a -= b`, `a *= b`, `a /= b`, `a.mul_base(b)` -/
def asgLine (F : FieldImpl) (a b : Nat) : String :=
  match F.div a b with
  | .done q => s!"{F.asInt (F.add a b)} {F.asInt (F.sub a b)} {F.asInt (F.mul a b)} {F.asInt q} {F.asInt (F.mul a b)}"
  | .out => "hang"

/-- parse one token of an operation sequence -/
def seqOp? : String → Option FieldImpl.SeqOp
  | "add" => some .add
  | "sub" => some .sub
  | "mul" => some .mul
  | "neg" => some .neg
  | "dbl" => some .dbl
  | "sq" => some .sq
  | "swap" => some .swap
  | "inv" => some .inv
  | "div" => some .div
  | "ms3" => some (.mulSmall 3)
  | "ms" => some (.mulSmall 4294967295)
  | _ => none

/-- `mul_small` exists for the 64-bit field only; the harness skips it elsewhere -/
def mulSmallOf (F : FieldImpl) : Nat → Nat → Nat :=
  if F.name == "f64" then Gen.F64.mul_small else fun a _ => a

def handleF (F : FieldImpl) : List String → String
  | ["soak", _, _, _] => "-"   -- oracle-only volume run inside the harness; not modelled line by line
  | ["bin", op, a, b] =>
    match a.toNat?, b.toNat? with
    | some a, some b => binop F op (F.new a) (F.new b)
    | _, _ => "bad-op"
  | ["rbin", op, a, b] =>
    match a.toNat?, b.toNat? with
    | some a, some b => binop F op a b
    | _, _ => "bad-op"
  | ["un", op, a] =>
    match a.toNat? with
    | some a => unop F op (F.new a)
    | _ => "bad-op"
  | ["run", op, a] =>
    match a.toNat? with
    | some a => unop F op a
    | _ => "bad-op"
  | ["exp", a, e] =>
    match a.toNat?, e.toNat? with
    | some a, some e => elem F (F.exp (F.new a) e)
    | _, _ => "bad-op"
  | ["rexp", a, e] =>
    match a.toNat?, e.toNat? with
    | some a, some e => elem F (F.exp a e)
    | _, _ => "bad-op"
  -- `exp_vartime` (trait default) denotes the same function as `exp`
  | ["expv", a, e] =>
    match a.toNat?, e.toNat? with
    | some a, some e => s!"{F.asInt (F.exp (F.new a) e)}"
    | _, _ => "bad-op"
  | ["rexpv", a, e] =>
    match a.toNat?, e.toNat? with
    | some a, some e => s!"{F.asInt (F.exp a e)}"
    | _, _ => "bad-op"
  -- twin entry points: `+=`, `-=`, `*=`, `/=` and `ExtensionOf::mul_base` denote add / sub / mul / div / mul
  | ["asg", a, b] =>
    match a.toNat?, b.toNat? with
    | some a, some b => asgLine F (F.new a) (F.new b)
    | _, _ => "bad-op"
  | ["rasg", a, b] =>
    match a.toNat?, b.toNat? with
    | some a, some b => asgLine F a b
    | _, _ => "bad-op"
  -- conjugate, base_element(0), as_int, Display, Debug, slice views: the residue, seven times
  | ["view", a] =>
    match a.toNat? with
    | some a => " ".intercalate (List.replicate 7 (toString (F.asInt (F.new a))))
    | _ => "bad-op"
  | ["rview", a] =>
    match a.toNat? with
    | some a => " ".intercalate (List.replicate 7 (toString (F.asInt a)))
    | _ => "bad-op"
  | ["basee", i, a] =>
    match i.toNat?, a.toNat? with
    | some i, some a => if i == 0 then toString (F.asInt a) else "panic"
    | _, _ => "bad-op"
  -- elements_as_bytes: the internal words; write_many: the canonical encodings
  | "elems" :: raws =>
    match natList raws with
    | some ws =>
      if ws.all F.inv? then
        s!"{hexOf (ws.flatMap (leBytes F.bytes))} {hexOf (ws.flatMap F.toBytes)}"
      else "bad-op"
    | none => "bad-op"
  -- from_bytes_with_padding: fewer than ELEMENT_BYTES bytes, zero-padded, then `try_from`
  | ["padded", h] =>
    match unhex h with
    | some bs =>
      if bs.length ≥ F.bytes then "panic"
      else match F.tryFromBytes (bs ++ List.replicate (F.bytes - bs.length) 0) with
        | .ok r => s!"ok {F.asInt r}"
        | .err => "panic"
    | none => "bad-op"
  | ["const2"] =>
    s!"{F.M} {Nat.log2 F.M + 1} 1 {F.asInt (F.new 0)} {F.bytes} {F.bytes}"
  | ["mulsmall", a, k] =>
    match a.toNat?, k.toNat? with
    | some a, some k => if F.name == "f64" then elem F (Gen.F64.mul_small a k) else "bad-op"
    | _, _ => "bad-op"
  | ["eq", a, b] =>
    match a.toNat?, b.toNat? with
    | some a, some b => boolStr (F.eq a b)
    | _, _ => "bad-op"
  | ["tryfrom", n] =>
    match n.toNat? with
    | some n => conv F (F.tryFrom n)
    | _ => "bad-op"
  -- small integer conversions: `From<uW>` is `new`, `TryFrom<integer>` / `TryFrom<[u8; 8]>` reject exactly n ≥ p,
  -- integer-from-element conversions give the canonical residue when it fits the target width
  | ["fromint", w, v] =>
    match w.toNat?, v.toNat? with
    | some w, some v => if w == 0 ∨ w > 64 ∨ v ≥ 2 ^ w then "bad-op" else elem F (F.new v)
    | _, _ => "bad-op"
  | ["tryint", _, v] =>
    match v.toNat? with
    | some v => conv F (F.tryFrom v)
    | _ => "bad-op"
  | ["tryarr", h] =>
    match unhex h with
    | some bs => if bs.length ≠ 8 then "bad-op" else conv F (F.tryFrom (ofLeBytes bs))
    | none => "bad-op"
  | ["into", w, raw] =>
    match w.toNat?, raw.toNat? with
    | some w, some raw =>
      if !(F.inv? raw) then "bad-op"
      else
        let v := F.asInt raw
        let fits := if w == 1 then v ≤ 1 else if w == 128 then true else v < 2 ^ w
        if fits then toString v else "err"
    | _, _ => "bad-op"
  | ["serdede", n] =>          -- serde: `try_from` of the integer (build variant `serde` of the harness)
    match n.toNat? with
    | some n => conv F (F.tryFrom n)
    | _ => "bad-op"
  | ["serdeser", a] =>
    match a.toNat? with
    | some a => toString (F.asInt (F.new a))
    | _ => "bad-op"
  | ["rserdeser", a] =>
    match a.toNat? with
    | some a => toString (F.asInt a)
    | _ => "bad-op"
  | ["frombytes", h] =>
    match unhex h with
    | some bs => conv F (F.tryFromBytes bs)
    | none => "bad-op"
  | ["read", h] =>
    match unhex h with
    | some bs =>
      match F.readFrom bs with
      | none => "eof"
      | some (c, rest) => s!"{conv F c} {rest.length}"
    | none => "bad-op"
  | ["ser", a] =>
    match a.toNat? with
    | some a => s!"{hexOf (F.toBytes a)} {hexOf (leBytes F.bytes a)}"
    | _ => "bad-op"
  | ["root", n] =>
    match n.toNat? with
    | some n =>
      match F.rootOfUnity n with
      | some r => elem F r
      | none => "panic"
    | _ => "bad-op"
  | ["const"] =>
    s!"{F.M} {F.generator} {F.twoAdicity} {F.twoAdicRoot} {F.bytes} {F.asInt (F.new 0)} {F.asInt (F.new 1)}"
  | "seq" :: a :: b :: ops =>
    match a.toNat?, b.toNat? with
    | some a, some b =>
      match ops.mapM seqOp? with
      | none => "bad-op"
      | some ops =>
        match F.runSeq (mulSmallOf F) a b ops with
        | some (acc, y) => s!"{elem F acc} {elem F y} {boolStr (F.eq acc y)}"
        | none => "hang"
    | _, _ => "bad-op"
  | _ => "bad-op"

def handle : List String → String
  | f :: rest =>
    match field? f with
    | some F => handleF F rest
    | none => "bad-op"
  | _ => "bad-op"

end Drv.C07

def main : IO Unit := Drv.runLoop Drv.C07.handle
