-- line-protocol handler of property C02 (stub: nothing modelled yet)
import Winter.Drv.Util

namespace Drv.C02

def handle (_toks : List String) : String := "-"

end Drv.C02

def main : IO Unit := Drv.runLoop Drv.C02.handle
