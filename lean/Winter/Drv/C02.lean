-- line-protocol handler of property C02 (soundness for invalid executions / other statements).
-- Modelled ops (compared with the implementation):
--   valid <field> <AirDesc line> <pubs csv|-> <col;col;… each csv>   the reference validity predicate
--         (`checkMain` of Winter/Model/VerifierChecks.lean, decided = `Valid` by WinterProofs.C02.checkMain_iff)
--   seed <field> <main w> <aux w> <aux rands> <log2 len> <meta hex|-> <q.b.g.x.f.r>   `Context::to_elements`
-- The adversarial ops (`cell`, `auxcell`, `stmt`) run the real prover and verifier and are judged by
-- the harness's oracle; the model answers `-`.  Descriptions are assumed validated (the harness only
-- emits descriptions `AirDesc::parse` accepts); a line the driver cannot parse is `bad-op`.
import Winter.Drv.Util
import Winter.Model.VerifierChecks

namespace Drv.C02
open Model Model.VerifierChecks

def fieldOf (s : String) : Option FieldImpl :=
  if s = "f64" then some F64.impl else if s = "f62" then some F62.impl else if s = "f128" then some F128.impl else none

def csv? (s : String) : Option (List Nat) :=
  if s = "-" then some [] else (s.splitOn ",").mapM parseNat

def kindName : ViolKind → String
  | .shape => "Shape"
  | .transition => "Transition"
  | .assertion => "Assertion"

def violText : Option Violation → String
  | none => "ok"
  | some v => s!"{kindName v.kind}[{v.index}]@{v.step}"

def modulusBytes (F : FieldImpl) : List Nat := leBytes F.bytes F.M

def handle (toks : List String) : String :=
  match toks with
  | ["valid", f, desc, pubs, trace] =>
    match fieldOf f, parseAir desc, csv? pubs, (trace.splitOn ";").mapM csv? with
    | some F, some A, some pubs, some cols =>
      violText (checkMain A F.M (cols.map fun c => c.map (· % F.M)) (pubs.map (· % F.M)))
    | _, _, _, _ => "bad-op"
  | ["seed", f, mw, aw, nr, loglen, md, opts] =>
    match fieldOf f, natList [mw, aw, nr, loglen], unhex md, (opts.splitOn ".").mapM parseNat with
    | some F, some [mw, aw, nr, loglen], some md, some [q, b, g, x, fo, r] =>
      let o : Serde.ProofOptions := ⟨q, b, g, x, fo, r⟩
      let t : Serde.TraceInfo := ⟨mw, aw, nr, 2 ^ loglen, md⟩
      if ¬ o.wf ∨ ¬ t.wf ∨ loglen < 3 ∨ 20 < loglen then "bad-op"
      else joinNat (contextElements F.bytes ⟨t, modulusBytes F, o⟩)
    | _, _, _, _ => "bad-op"
  | "valid" :: _ => "bad-op"
  | "seed" :: _ => "bad-op"
  | "cell" :: _ => "-"
  | "auxcell" :: _ => "-"
  | "stmt" :: _ => "-"
  | _ => "bad-op"

end Drv.C02

def main : IO Unit := Drv.runLoop Drv.C02.handle
