-- shared by the line-protocol handlers of C15 and C05: field instances of the FRI model on raw words,
-- parsing and printing of elements, lists and proof layers
import Winter.Drv.Util
import Winter.Model.Field
import Winter.Model.Fri
import Winter.Model.FriFields

namespace Drv.Fri
open Model Model.Fri

/-- a field of the protocol: operations, parser and printer of one element -/
structure Fld (α : Type) where
  ops : FOps α
  parse : String → Option α
  print : α → String

def baseFld (I : FieldImpl) : Fld Nat where
  ops := baseOps I
  parse := fun s => s.toNat?.map I.new
  print := fun x => toString (I.asInt x)

def quadFld : Fld (Nat × Nat) where
  ops := quad64Ops
  parse := fun s =>
    match s.splitOn ":" with
    | [a, b] =>
      match a.toNat?, b.toNat? with
      | some a, some b => some (F64.impl.new a, F64.impl.new b)
      | _, _ => none
    | _ => none
  print := fun x => s!"{F64.impl.asInt x.1}:{F64.impl.asInt x.2}"

/-- comma separated list, "-" for the empty list -/
def parseList {β : Type} (p : String → Option β) (s : String) : Option (List β) :=
  if s == "-" then some [] else (s.splitOn ",").mapM p

def printList {β : Type} (p : β → String) (xs : List β) : String :=
  if xs.isEmpty then "-" else ",".intercalate (xs.map p)

/-- rows separated by ';' -/
def parseRows {β : Type} (p : String → Option β) (s : String) : Option (List (List β)) :=
  if s == "-" then some [] else (s.splitOn ";").mapM (parseList p)

def printRows {β : Type} (p : β → String) (rows : List (List β)) : String :=
  if rows.isEmpty then "-" else ";".intercalate (rows.map (printList p))

def errStr : VErr → String
  | .numPositionEvaluationMismatch => "err:NumPositionEvaluationMismatch"
  | .unsupportedFoldingFactor => "err:UnsupportedFoldingFactor"
  | .layerCommitmentMismatch => "err:LayerCommitmentMismatch"
  | .invalidLayerFolding d => s!"err:InvalidLayerFolding:{d}"
  | .remainderCommitmentMismatch => "err:RemainderCommitmentMismatch"
  | .invalidRemainderFolding => "err:InvalidRemainderFolding"
  | .remainderDegreeMismatch => "err:RemainderDegreeMismatch"
  | .degreeTruncation d => s!"err:DegreeTruncation:{d}"

def verdictStr : Res Unit → String
  | .ok _ => "ok"
  | .err e => errStr e
  | .panic _ => "panic"

/-- evaluations of the polynomial with coefficients `coeffs` over the domain `offset·g^i`, `i < n` -/
def evalOnDomain {α : Type} (F : FOps α) (coeffs : List α) (n : Nat) : List α :=
  let g := F.root (Nat.log2 n)
  (powerSeries F g F.offset n).map fun x => horner F coeffs x

end Drv.Fri
