-- shared by the line-protocol handlers of C15 and C05: field instances of the FRI model on raw words,
-- parsing and printing of elements, lists and proof layers
import Winter.Drv.Util
import Winter.Model.Field
import Winter.Model.Fri

namespace Drv.Fri
open Model Model.Fri

/-- the FRI model's operations over a base field, on raw words, exactly as the Rust code performs them -/
def baseOps (I : FieldImpl) : FOps Nat where
  zero := I.new 0
  one := I.new 1
  add := I.add
  sub := I.sub
  mul := I.mul
  inv := fun x => match I.inv x with
    | .done r => r
    | .out => I.new 0
  beq := I.eq
  ofNat := I.new
  root := fun k => match I.rootOfUnity k with
    | some r => r
    | none => I.new 0
  rootOk := fun k => k != 0 && decide (k ≤ I.twoAdicity)
  offset := I.new I.generator

/-- `QuadExtension<f64::BaseElement>` (x² − x + 2) on pairs of raw words:
    `impl ExtensibleField<2> for f64::BaseElement` and `QuadExtension::inv` -/
def quad64Ops : FOps (Nat × Nat) :=
  let I := F64.impl
  let mul := fun (a b : Nat × Nat) =>
    let a0b0 := I.mul a.1 b.1
    (I.sub a0b0 (I.double (I.mul a.2 b.2)), I.sub (I.mul (I.add a.1 a.2) (I.add b.1 b.2)) a0b0)
  let binv := fun x => match I.inv x with
    | .done r => r
    | .out => I.new 0
  { zero := (I.new 0, I.new 0)
    one := (I.new 1, I.new 0)
    add := fun a b => (I.add a.1 b.1, I.add a.2 b.2)
    sub := fun a b => (I.sub a.1 b.1, I.sub a.2 b.2)
    mul := mul
    inv := fun x =>
      if I.eq x.1 (I.new 0) && I.eq x.2 (I.new 0) then x
      else
        let num := (I.add x.1 x.2, I.neg x.2)
        let norm := mul x num
        let d := binv norm.1
        (I.mul num.1 d, I.mul num.2 d)
    beq := fun a b => I.eq a.1 b.1 && I.eq a.2 b.2
    ofNat := fun n => (I.new n, I.new 0)
    root := fun k => match I.rootOfUnity k with
      | some r => (r, I.new 0)
      | none => (I.new 0, I.new 0)
    rootOk := fun k => k != 0 && decide (k ≤ I.twoAdicity)
    offset := (I.new I.generator, I.new 0) }

/-- a field of the protocol: operations, parser and printer of one element -/
structure Fld (α : Type) where
  ops : FOps α
  parse : String → Option α
  print : α → String

def baseFld (I : FieldImpl) : Fld Nat where
  ops := baseOps I
  parse := fun s => s.toNat?.map I.new
  print := fun x => toString (I.asInt x)

def quadFld : Fld (Nat × Nat) where
  ops := quad64Ops
  parse := fun s =>
    match s.splitOn ":" with
    | [a, b] =>
      match a.toNat?, b.toNat? with
      | some a, some b => some (F64.impl.new a, F64.impl.new b)
      | _, _ => none
    | _ => none
  print := fun x => s!"{F64.impl.asInt x.1}:{F64.impl.asInt x.2}"

/-- comma separated list, "-" for the empty list -/
def parseList {β : Type} (p : String → Option β) (s : String) : Option (List β) :=
  if s == "-" then some [] else (s.splitOn ",").mapM p

def printList {β : Type} (p : β → String) (xs : List β) : String :=
  if xs.isEmpty then "-" else ",".intercalate (xs.map p)

/-- rows separated by ';' -/
def parseRows {β : Type} (p : String → Option β) (s : String) : Option (List (List β)) :=
  if s == "-" then some [] else (s.splitOn ";").mapM (parseList p)

def printRows {β : Type} (p : β → String) (rows : List (List β)) : String :=
  if rows.isEmpty then "-" else ";".intercalate (rows.map (printList p))

def errStr : VErr → String
  | .numPositionEvaluationMismatch => "err:NumPositionEvaluationMismatch"
  | .unsupportedFoldingFactor => "err:UnsupportedFoldingFactor"
  | .layerCommitmentMismatch => "err:LayerCommitmentMismatch"
  | .invalidLayerFolding d => s!"err:InvalidLayerFolding:{d}"
  | .remainderCommitmentMismatch => "err:RemainderCommitmentMismatch"
  | .invalidRemainderFolding => "err:InvalidRemainderFolding"
  | .remainderDegreeMismatch => "err:RemainderDegreeMismatch"
  | .degreeTruncation d => s!"err:DegreeTruncation:{d}"

def verdictStr : Res Unit → String
  | .ok _ => "ok"
  | .err e => errStr e
  | .panic _ => "panic"

/-- evaluations of the polynomial with coefficients `coeffs` over the domain `offset·g^i`, `i < n` -/
def evalOnDomain {α : Type} (F : FOps α) (coeffs : List α) (n : Nat) : List α :=
  let g := F.root (Nat.log2 n)
  (powerSeries F g F.offset n).map fun x => horner F coeffs x

end Drv.Fri
