-- line-protocol handler of property C19 (public coin)
-- op lines (after the property id), mirrored by harness/src/bin/c19.rs:
--   run HASHER FIELD SEED OP...
--     HASHER  toy0 .. toy5 (toy hasher in six modes, modelled) | a real hasher name (not modelled: "-")
--     FIELD   f64 | f62 | f128        SEED  comma separated canonical integers, or "-"
--     OP      rs:HEX (reseed with H::hash(bytes)) | rd:HEX (reseed with the 32-byte digest itself) | d:DEG (draw) | di:N:DOMAIN:NONCE (draw_integers)
--             | lz:NONCE (check_leading_zeros) | gr:GF (the prover's nonce search, at most 4096 candidates)
--   output: one item per op joined by ";": u | e:c0,c1,.. | i:v0,v1,.. | n:K | g:NONCE | g:none | err | panic (stops)
--   pow FIELD HASHER GF   end-to-end grinding check against prover and verifier (not modelled: "-")
--   oracle HASHER FIELD SEED TABLE OP...   the same, with the hasher given by a recorded table
--     TABLE   "|"-separated entries  he:ELEMS=DIGEST | h:HEX=DIGEST | m:HEX=DIGEST | mi:HEX:INT=DIGEST  (as_bytes, 32 bytes)
import Winter.Drv.Util
import Winter.Model.Coin
import Winter.Model.CoinGen
import Winter.Gen.F64
import Winter.Gen.F62
import Winter.Gen.F128

namespace Drv.C19
open Model.Coin

def field? : String → Option FieldDesc
  | "f64" => some ⟨Gen.F64.M, 8⟩
  | "f62" => some ⟨Gen.F62.M, 8⟩
  | "f128" => some ⟨Gen.F128.M, 16⟩
  | _ => none

def outStr : Out → String
  | .elem cs => "e:" ++ ",".intercalate (cs.map toString)
  | .ints vs => "i:" ++ ",".intercalate (vs.map toString)
  | .num n => s!"n:{n}"
  | .unit => "u"
  | .err => "err"
  | .panic _ => "panic"

/-- a hasher for the driver: the abstract operations plus `hash` of raw bytes (used to make reseed
    digests); `none` = the oracle table has no entry -/
structure DrvHasher where
  ops : HashOps (Option (List Nat))
  hash : List Nat → Option (List Nat)

def toyHasher (mode eb : Nat) : DrvHasher :=
  let T := Toy.ops mode eb
  { ops :=
      { hashElements := fun es => some (T.hashElements es)
        merge := fun a b => match a, b with
          | some a, some b => some (T.merge a b)
          | _, _ => none
        mergeWithInt := fun s v => match s with
          | some s => some (T.mergeWithInt s v)
          | none => none
        asBytes := fun d => match d with
          | some d => d
          | none => [] }
    hash := fun bs => some (Toy.hash (Toy.baseMode mode) bs) }

def parseNats (s : String) : Option (List Nat) :=
  if s == "-" then some [] else (s.splitOn ",").mapM (fun t => t.toNat?)

/-- the table hasher: lookups by the textual key -/
def tableHasher (table : List (String × List Nat)) : DrvHasher :=
  let look (k : String) : Option (List Nat) := (table.find? (fun e => e.1 == k)).map (·.2)
  { ops :=
      { hashElements := fun es => look ("he:" ++ (if es.isEmpty then "-" else ",".intercalate (es.map toString)))
        merge := fun a b => match a, b with
          | some a, some b => look ("m:" ++ hexOf (a ++ b))
          | _, _ => none
        mergeWithInt := fun s v => match s with
          | some s => look ("mi:" ++ hexOf s ++ ":" ++ toString v)
          | none => none
        asBytes := fun d => match d with
          | some d => d
          | none => [] }
    hash := fun bs => look ("h:" ++ hexOf bs) }

def parseTable (s : String) : Option (List (String × List Nat)) :=
  if s == "-" then some [] else
  (s.splitOn "|").mapM fun e =>
    match e.splitOn "=" with
    | [k, v] => (unhex v).map (fun d => (k, d))
    | _ => none

/-- a digest is missing (oracle table incomplete): the model cannot continue -/
def missing (c : Coin (Option (List Nat))) : Bool := c.seed.isNone

/-- interpret the op tokens -/
def interp (H : DrvHasher) (fd : FieldDesc) : Nat → Coin (Option (List Nat)) → List String → List String → List String
  | 0, _, _, acc => acc.reverse
  | _, _, [], acc => acc.reverse
  | fuel + 1, c, tok :: rest, acc =>
    if missing c then ("miss" :: acc).reverse else
    match tok.splitOn ":" with
    | ["rs", h] =>
      match unhex h with
      | some bs =>
        let (o, c') := step H.ops c (.reseed (H.hash bs))
        interp H fd fuel c' rest (outStr o :: acc)
      | none => ["bad-op"]
    | ["rd", h] =>
      match unhex h with
      | some bs =>
        if bs.length ≠ 32 then ["bad-op"] else
        let (o, c') := step H.ops c (.reseed (some bs))
        interp H fd fuel c' rest (outStr o :: acc)
      | none => ["bad-op"]
    | ["d", deg] =>
      match deg.toNat? with
      | some deg =>
        if deg < 1 ∨ 3 < deg then ["bad-op"] else
        let (o, c') := step H.ops c (.draw fd deg)
        if isPanic o then (outStr o :: acc).reverse else interp H fd fuel c' rest (outStr o :: acc)
      | none => ["bad-op"]
    | ["di", n, dom, nonce] =>
      match n.toNat?, dom.toNat?, nonce.toNat? with
      | some n, some dom, some nonce =>
        let (o, c') := step H.ops c (.drawIntegers n dom nonce)
        -- tie T: the same through the integer logic regenerated from the Rust source on this run
        let (og, _) := drawIntegersG H.ops n dom nonce c
        let os := outStr o ++ (if outStr og == outStr o then "" else s!"|gen={outStr og}")
        if isPanic o then (os :: acc).reverse else interp H fd fuel c' rest (os :: acc)
      | _, _, _ => ["bad-op"]
    | ["lz", v] =>
      match v.toNat? with
      | some v =>
        let (o, c') := step H.ops c (.checkLeadingZeros v)
        let g := checkLeadingZerosG H.ops c v      -- tie T (as above)
        let os := outStr o ++ (if outStr (.num g) == outStr o then "" else s!"|gen={g}")
        interp H fd fuel c' rest (os :: acc)
      | none => ["bad-op"]
    | ["gr", gf] =>
      match gf.toNat? with
      | some gf =>
        let r := match grind H.ops c gf 4096 1 with
          | some n => s!"g:{n}"
          | none => "g:none"
        interp H fd fuel c rest (r :: acc)
      | none => ["bad-op"]
    | _ => ["bad-op"]

def runLine (H : DrvHasher) (fd : FieldDesc) (seed : String) (ops : List String) : String :=
  match parseNats seed with
  | some es =>
    if es.any (fun e => decide (fd.M ≤ e)) then "bad-op" else
    let c := new H.ops es
    let outs := interp H fd (ops.length + 1) c ops []
    if outs.contains "bad-op" then "bad-op"
    else if outs.contains "miss" then "oracle-miss"
    else if outs.isEmpty then "-" else ";".intercalate outs
  | none => "bad-op"

def handle : List String → String
  | "run" :: hasher :: field :: seed :: ops =>
    match field? field with
    | some fd =>
      match hasher with
      | "toy0" => runLine (toyHasher 0 fd.bytes) fd seed ops
      | "toy1" => runLine (toyHasher 1 fd.bytes) fd seed ops
      | "toy2" => runLine (toyHasher 2 fd.bytes) fd seed ops
      | "toy3" => runLine (toyHasher 3 fd.bytes) fd seed ops
      | "toy4" => runLine (toyHasher 4 fd.bytes) fd seed ops
      | "toy5" => runLine (toyHasher 5 fd.bytes) fd seed ops
      | _ => "-"
    | none => "bad-op"
  | "oracle" :: _hasher :: field :: seed :: table :: ops =>
    match field? field, parseTable table with
    | some fd, some t => runLine (tableHasher t) fd seed ops
    | _, _ => "bad-op"
  | ["tag", _] => "t"
  | "pow" :: _ => "-"
  | "bnd" :: _ => "-"
  | "rnd" :: _ => "-"   -- Randomizable for u8..u128: judged by the harness oracle only
  | _ => "bad-op"

end Drv.C19

def main : IO Unit := Drv.runLoop Drv.C19.handle
