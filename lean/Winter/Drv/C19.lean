-- line-protocol handler of property C19 (stub: nothing modelled yet)
import Winter.Drv.Util

namespace Drv.C19

def handle (_toks : List String) : String := "-"

end Drv.C19

def main : IO Unit := Drv.runLoop Drv.C19.handle
