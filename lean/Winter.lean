-- Root of the executable model: generated definitions (Winter/Gen, regenerated from /repo on
-- every run), hand-written models (Winter/Model) and the line-protocol driver.
import Winter.Gen.Prelude
import Winter.Gen.F64
import Winter.Gen.F62
import Winter.Gen.F128
import Winter.Gen.F62Inv
import Winter.Gen.F128Inv
import Winter.Gen.RealFft
import Winter.Gen.Mds12
import Winter.Gen.Mds8
import Winter.Gen.Rp64
import Winter.Gen.Rp64Jive
import Winter.Gen.Rp62
import Winter.Gen.Limits
