-- C10: Merkle openings verify for committed leaves and only for them (property theorems)
import WinterProofs.Lemmas.C10Single

namespace WinterProofs.C10
open Model.Merkle

variable {D : Type}

/-! ## Single openings (`MerkleTree::prove` / `MerkleTree::verify`) -/

/-- the tree `MerkleTree::new` builds -/
def treeOf (H : Hasher D) (leaves : List D) : Tree D := { nodes := buildNodes H leaves, leaves := leaves }

/-- Completeness: in every tree over `2^d` leaves (`1 ≤ d ≤ 63`, i.e. every tree that fits `usize`)
    the path produced for every in-range position has `d + 1` nodes, starts with the committed leaf
    and verifies against the root. -/
theorem single_complete (H : Hasher D) [DecidableEq D] (leaves : List D) (d : Nat)
    (hd1 : 1 ≤ d) (hd2 : d ≤ 63) (hl : leaves.length = 2 ^ d) (i : Nat) (hi : i < 2 ^ d) :
    ∃ root path, Tree.new H leaves = .ok (treeOf H leaves) ∧ (treeOf H leaves).root = .ok root ∧
      prove (treeOf H leaves) i = .ok path ∧
      path.length = d + 1 ∧ path[0]? = leaves[i]? ∧ verify H root i path = .ok () := by
  have wf : TreeWF H (treeOf H leaves) d := tree_wf H leaves d hd1 hl
  obtain ⟨root, hr1, hr2⟩ := root_of_wf H _ d wf
  obtain ⟨path, h1, h2, h3, h4⟩ := single_complete_wf H _ d wf hd2 i hi root hr1
  exact ⟨root, path, tree_new_ok H leaves d hd1 hl, hr2, h1, h2, h3, h4⟩

/-- Binding: if `merge` is collision free, a path of the tree's length that verifies against the
    root of a tree for an in-range position is exactly the path the tree produces for that position;
    in particular the leaf it claims is the committed one.  (The length hypothesis is necessary:
    `verify` takes the depth from the path, and a shorter path opens an internal node as if it were
    a leaf — see `single_binding_needs_length`.) -/
theorem single_binding (H : Hasher D) [DecidableEq D] (inj : MergeInj H) (leaves : List D) (d : Nat)
    (hd1 : 1 ≤ d) (hd2 : d ≤ 63) (hl : leaves.length = 2 ^ d) (root : D)
    (hroot : (treeOf H leaves).root = .ok root) (i : Nat) (hi : i < 2 ^ d)
    (path : List D) (hlen : path.length = d + 1) (hv : verify H root i path = .ok ()) :
    prove (treeOf H leaves) i = .ok path ∧ path[0]? = leaves[i]? := by
  have wf : TreeWF H (treeOf H leaves) d := tree_wf H leaves d hd1 hl
  obtain ⟨root', hr1, hr2⟩ := root_of_wf H _ d wf
  rw [hr2] at hroot
  injection hroot with hroot
  subst hroot
  exact single_binding_wf H inj _ d wf hd2 root' hr1 i hi path hlen hv

/-- `verify` never panics, whatever the root, the position and the shape of the path: it accepts or
    returns an error (false on the pinned tree: paths of fewer than 2 or more than 64 nodes and
    positions close to `usize::MAX` panicked; repaired by cd5b252 and 9b60bc5) -/
theorem single_no_panic (H : Hasher D) [DecidableEq D] (root : D) (i : Nat) (path : List D) :
    verify H root i path = .ok () ∨ ∃ e, verify H root i path = .err e :=
  verify_total H root i path

/-- shape and position mutations of a single opening are errors: a path of fewer than 2 or more
    than 64 nodes is invalid, and a position beyond the `2^(len-1)` leaves a path of that length
    speaks about is out of bounds (on the pinned tree `i + k·2^depth` was accepted with the path of `i`) -/
theorem single_shape_rejected (H : Hasher D) [DecidableEq D] (root : D) (i : Nat) (path : List D) :
    ((path.length < 2 ∨ path.length > 64) → verify H root i path = .err .invalid) ∧
    (2 ≤ path.length → path.length ≤ 64 → i ≥ 2 ^ (path.length - 1) → verify H root i path = .err .oob) := by
  refine ⟨fun h => by unfold verify; rw [if_pos (by simpa [usizeBits] using h)], fun h1 h2 h3 => ?_⟩
  unfold verify
  rw [if_neg (by simp [usizeBits]; omega), pow2_ok (by omega)]
  simp only [Res.ok_bind]
  rw [if_pos h3]

end WinterProofs.C10
