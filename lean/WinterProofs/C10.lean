-- C10: Merkle openings verify for committed leaves and only for them (property theorems)
import Winter.Model.Merkle

namespace WinterProofs.C10
open Model.Merkle

end WinterProofs.C10
