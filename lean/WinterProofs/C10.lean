-- C10: Merkle openings verify for committed leaves and only for them (property theorems)
import WinterProofs.Lemmas.C10Single
import WinterProofs.Lemmas.C10Bind
import WinterProofs.Lemmas.C10Asm
import WinterProofs.Lemmas.C10Unique
import WinterProofs.Lemmas.C10Spec
import WinterProofs.Lemmas.C10Paths
import WinterProofs.Lemmas.C10PathsHonest
import WinterProofs.Lemmas.C10Ser
import WinterProofs.Lemmas.C10Refine
import WinterProofs.Lemmas.C10Recompress

namespace WinterProofs.C10
open Model.Merkle

variable {D : Type}

/-! ## Single openings (`MerkleTree::prove` / `MerkleTree::verify`) -/

/-- the tree `MerkleTree::new` builds -/
def treeOf (H : Hasher D) (leaves : List D) : Tree D := { nodes := buildNodes H leaves, leaves := leaves }

/-- Completeness: in every tree over `2^d` leaves (`1 ≤ d ≤ 63`, i.e. every tree that fits `usize`)
    the path produced for every in-range position has `d + 1` nodes, starts with the committed leaf
    and verifies against the root. -/
theorem single_complete (H : Hasher D) [DecidableEq D] (leaves : List D) (d : Nat)
    (hd1 : 1 ≤ d) (hd2 : d ≤ 63) (hl : leaves.length = 2 ^ d) (i : Nat) (hi : i < 2 ^ d) :
    ∃ root path, Tree.new H leaves = .ok (treeOf H leaves) ∧ (treeOf H leaves).root = .ok root ∧
      prove (treeOf H leaves) i = .ok path ∧
      path.length = d + 1 ∧ path[0]? = leaves[i]? ∧ verify H root i path = .ok () := by
  have wf : TreeWF H (treeOf H leaves) d := tree_wf H leaves d hd1 hl
  obtain ⟨root, hr1, hr2⟩ := root_of_wf H _ d wf
  obtain ⟨path, h1, h2, h3, h4⟩ := single_complete_wf H _ d wf hd2 i hi root hr1
  exact ⟨root, path, tree_new_ok H leaves d hd1 hl, hr2, h1, h2, h3, h4⟩

/-- Binding: if `merge` is collision free, a path of the tree's length that verifies against the
    root of a tree for an in-range position is exactly the path the tree produces for that position;
    in particular the leaf it claims is the committed one.  (The length hypothesis is necessary:
    `verify` takes the depth from the path, and a shorter path opens an internal node as if it were
    a leaf — see `single_binding_needs_length`.) -/
theorem single_binding (H : Hasher D) [DecidableEq D] (inj : MergeInj H) (leaves : List D) (d : Nat)
    (hd1 : 1 ≤ d) (hd2 : d ≤ 63) (hl : leaves.length = 2 ^ d) (root : D)
    (hroot : (treeOf H leaves).root = .ok root) (i : Nat) (hi : i < 2 ^ d)
    (path : List D) (hlen : path.length = d + 1) (hv : verify H root i path = .ok ()) :
    prove (treeOf H leaves) i = .ok path ∧ path[0]? = leaves[i]? := by
  have wf : TreeWF H (treeOf H leaves) d := tree_wf H leaves d hd1 hl
  obtain ⟨root', hr1, hr2⟩ := root_of_wf H _ d wf
  rw [hr2] at hroot
  injection hroot with hroot
  subst hroot
  exact single_binding_wf H inj _ d wf hd2 root' hr1 i hi path hlen hv

/-- `verify` never panics, whatever the root, the position and the shape of the path: it accepts or
    returns an error (false on the pinned tree: paths of fewer than 2 or more than 64 nodes and
    positions close to `usize::MAX` panicked; repaired by cd5b252 and 9b60bc5) -/
theorem single_no_panic (H : Hasher D) [DecidableEq D] (root : D) (i : Nat) (path : List D) :
    verify H root i path = .ok () ∨ ∃ e, verify H root i path = .err e :=
  verify_total H root i path

/-- shape and position mutations of a single opening are errors: a path of fewer than 2 or more
    than 64 nodes is invalid, and a position beyond the `2^(len-1)` leaves a path of that length
    speaks about is out of bounds (on the pinned tree `i + k·2^depth` was accepted with the path of `i`) -/
theorem single_shape_rejected (H : Hasher D) [DecidableEq D] (root : D) (i : Nat) (path : List D) :
    ((path.length < 2 ∨ path.length > 64) → verify H root i path = .err .invalid) ∧
    (2 ≤ path.length → path.length ≤ 64 → i ≥ 2 ^ (path.length - 1) → verify H root i path = .err .oob) := by
  refine ⟨fun h => by unfold verify; rw [if_pos (by simpa [usizeBits] using h)], fun h1 h2 h3 => ?_⟩
  unfold verify
  rw [if_neg (by simp [usizeBits]; omega), pow2_ok (by omega)]
  simp only [Res.ok_bind]
  rw [if_pos h3]

/-! ## Batch openings (`prove_batch` / `BatchMerkleProof::get_root` / `verify_batch`) -/

/-- Completeness of the code-shaped prover and verifier: for every tree over `2^d` leaves
    (`1 ≤ d ≤ 63`) and every non-empty duplicate-free list of at most 255 in-range positions, in any
    order, `prove_batch` succeeds, the opening has the tree's depth and claims the committed leaves in
    the order of the position list, `get_root` recomputes the root from it (consuming every node of
    the opening) and `verify_batch` accepts it. -/
theorem batch_complete (H : Hasher D) [DecidableEq D] (leaves : List D) (d : Nat)
    (hd1 : 1 ≤ d) (hd2 : d ≤ 63) (hl : leaves.length = 2 ^ d) (idxs : List Nat) (hne : idxs ≠ [])
    (hlen : idxs.length ≤ 255) (hnd : idxs.Nodup) (hr : ∀ i ∈ idxs, i < 2 ^ d) :
    ∃ root p, (treeOf H leaves).root = .ok root ∧ proveBatch H (treeOf H leaves) idxs = .ok p ∧
      p.depth = d ∧ p.leaves.length = idxs.length ∧
      (∀ j (hj : j < idxs.length), p.leaves[j]? = leaves[idxs[j]]?) ∧
      getRoot H p idxs = .ok root ∧ verifyBatch H root idxs p = .ok () := by
  have wf : TreeWF H (treeOf H leaves) d := tree_wf H leaves d hd1 hl
  obtain ⟨root, hr1, hr2⟩ := root_of_wf H _ d wf
  obtain ⟨p, h1, h2, h3, h4, h5⟩ := batch_complete_wf H _ d wf hd2 idxs hne hlen hnd hr root hr1
  exact ⟨root, p, hr2, h1, h2, h3, h4, h5, verifyBatch_of_getRoot H root idxs p h5⟩

/-- Binding of the code-shaped verifier: if `merge` is collision free and `verify_batch` accepts an
    opening of the tree's depth against the tree's root, then the positions are distinct and in range
    and every claimed leaf is the committed leaf at its position, whatever the order of the
    position list and whatever the nodes of the opening.  (The depth of an opening is supplied by
    the verifier — `deserialize(…, depth)` — and must be the tree's: an opening of smaller depth
    opens internal nodes as if they were leaves.) -/
theorem batch_binding (H : Hasher D) [DecidableEq D] (inj : MergeInj H) (leaves : List D) (d : Nat)
    (hd1 : 1 ≤ d) (hl : leaves.length = 2 ^ d) (root : D) (hroot : (treeOf H leaves).root = .ok root)
    (p : BatchProof D) (hdp : p.depth = d) (idxs : List Nat) (hv : verifyBatch H root idxs p = .ok ()) :
    idxs.Nodup ∧ idxs.length = p.leaves.length ∧
    ∀ j (hj : j < idxs.length), idxs[j] < 2 ^ d ∧ p.leaves[j]? = leaves[idxs[j]]? := by
  have wf : TreeWF H (treeOf H leaves) d := tree_wf H leaves d hd1 hl
  obtain ⟨root', hr1, hr2⟩ := root_of_wf H _ d wf
  rw [hr2] at hroot
  injection hroot with hroot
  subst hroot
  have hg := verifyBatch_ok H root' idxs p hv
  have hvr := treeVal_root H _ d wf root' hr1
  rw [← hvr] at hg
  subst hdp
  obtain ⟨_, _, hlen, _, imap, _, _, _, _, _, hm, _⟩ := getRoot_ok_stages H p idxs _ hg
  obtain ⟨_, hnd, hrange, _⟩ := mapIndexes_ok hm
  refine ⟨hnd, hlen, ?_⟩
  intro j hj
  have hr := hrange _ (List.getElem_mem hj)
  refine ⟨hr, ?_⟩
  rw [getRoot_binding H inj (treeVal H (treeOf H leaves)) p idxs (treeVal_wf H _ _ wf) hd1 hg j hj]
  exact treeVal_leaf H _ _ wf _ hr

/-- `get_root` and `verify_batch` never panic, whatever the opening and the position list: missing
    or extra nodes, rows and leaves, any depth `0..255`, duplicated or out-of-range positions (false
    on the pinned tree for depth ≥ 64; repaired by 3957985) -/
theorem batch_no_panic (H : Hasher D) [DecidableEq D] (root : D) (p : BatchProof D) (idxs : List Nat) :
    ((∃ r, getRoot H p idxs = .ok r) ∨ ∃ e, getRoot H p idxs = .err e) ∧
    (verifyBatch H root idxs p = .ok () ∨ ∃ e, verifyBatch H root idxs p = .err e) := by
  have hs := getRoot_sat H p idxs
  refine ⟨hs.no_panic, ?_⟩
  unfold verifyBatch
  rcases hs.no_panic with ⟨r, hr⟩ | ⟨e, he⟩
  · rw [hr]; simp only [Res.ok_bind]
    split
    · exact Or.inr ⟨_, rfl⟩
    · exact Or.inl rfl
  · rw [he]; exact Or.inr ⟨e, rfl⟩

/-- Uniqueness ("only for them", nodes and shape included): if `merge` is collision free, an
    opening of the tree's depth that `verify_batch` accepts against the tree's root is exactly the
    opening `prove_batch` produces for the position list — same leaves, same node rows, nothing
    missing and nothing extra.  (False on the pinned tree: unused extra leaves and nodes were
    accepted; repaired by 5a88c07.) -/
theorem batch_unique (H : Hasher D) [DecidableEq D] (inj : MergeInj H) (leaves : List D) (d : Nat)
    (hd1 : 1 ≤ d) (hd2 : d ≤ 63) (hl : leaves.length = 2 ^ d) (root : D)
    (hroot : (treeOf H leaves).root = .ok root) (p : BatchProof D) (hdp : p.depth = d) (idxs : List Nat)
    (hv : verifyBatch H root idxs p = .ok ()) : proveBatch H (treeOf H leaves) idxs = .ok p := by
  have wf : TreeWF H (treeOf H leaves) d := tree_wf H leaves d hd1 hl
  obtain ⟨root', hr1, hr2⟩ := root_of_wf H _ d wf
  rw [hr2] at hroot
  injection hroot with hroot
  subst hroot
  exact batch_unique_wf H inj _ d wf hd2 root' hr1 p hdp idxs (verifyBatch_ok H root' idxs p hv)

/-- Every mutation is rejected: if an opening is accepted, any different opening of the same depth
    for the same position list — a changed leaf, a changed, missing or extra node, row or leaf —
    is not accepted (by `batch_no_panic` it is an error, not a panic). -/
theorem batch_mutation_rejected (H : Hasher D) [DecidableEq D] (inj : MergeInj H) (leaves : List D) (d : Nat)
    (hd1 : 1 ≤ d) (hd2 : d ≤ 63) (hl : leaves.length = 2 ^ d) (root : D)
    (hroot : (treeOf H leaves).root = .ok root) (p p' : BatchProof D) (hdp : p.depth = d) (hdp' : p'.depth = d)
    (idxs : List Nat) (hv : verifyBatch H root idxs p = .ok ()) (hne : p' ≠ p) :
    ∃ e, verifyBatch H root idxs p' = .err e := by
  rcases (batch_no_panic H root p' idxs).2 with h | h
  · have h1 := batch_unique H inj leaves d hd1 hd2 hl root hroot p hdp idxs hv
    have h2 := batch_unique H inj leaves d hd1 hd2 hl root hroot p' hdp' idxs h
    rw [h1] at h2
    injection h2 with h2
    exact absurd h2.symm hne
  · exact h

/-- `into_paths` never panics, whatever the opening and the position list (false on the pinned tree
    for depth ≥ 64 and for positions close to `usize::MAX`; repaired by 3957985 and 0c7e7d6) -/
theorem paths_no_panic (H : Hasher D) (p : BatchProof D) (idxs : List Nat) :
    (∃ ps, intoPaths H p idxs = .ok ps) ∨ ∃ e, intoPaths H p idxs = .err e :=
  (intoPaths_sat H p idxs).no_panic

/-! ## Decompression and re-compression (`into_paths`, `from_paths`) -/

/-- Decompression: for every tree over `2^d` leaves (`1 ≤ d ≤ 63`) and every non-empty duplicate-free
    list of at most 255 in-range positions, in any order, the opening `prove_batch` produces
    decompresses (`into_paths`) into exactly the single paths `prove` produces for the positions, in
    the order of the position list. -/
theorem paths_decompress (H : Hasher D) (leaves : List D) (d : Nat)
    (hd1 : 1 ≤ d) (hd2 : d ≤ 63) (hl : leaves.length = 2 ^ d) (idxs : List Nat) (hne : idxs ≠ [])
    (hlen : idxs.length ≤ 255) (hnd : idxs.Nodup) (hr : ∀ i ∈ idxs, i < 2 ^ d) :
    ∃ p paths, proveBatch H (treeOf H leaves) idxs = .ok p ∧ intoPaths H p idxs = .ok paths ∧
      paths.length = idxs.length ∧
      ∀ j (hj : j < idxs.length), prove (treeOf H leaves) idxs[j] = .ok (paths.getD j []) :=
  intoPaths_honest_wf H _ d (tree_wf H leaves d hd1 hl) hd2 idxs hne hlen hnd hr

/-- Re-compression (proved below as `paths_recompress`): the single paths of a position list
    re-compress (`from_paths`) to the opening `prove_batch` produces, in any order of the position
    list (duplicates are a documented panic of `from_paths` and excluded).  (False on the pinned
    tree for unsorted position lists; repaired by 725da49.) -/
def PathsRecompress (H : Hasher D) : Prop :=
  ∀ (leaves : List D) (d : Nat), 1 ≤ d → d ≤ 63 → leaves.length = 2 ^ d →
  ∀ (idxs : List Nat), idxs ≠ [] → idxs.length ≤ 255 → idxs.Nodup → (∀ i ∈ idxs, i < 2 ^ d) →
  ∀ (paths : List (List D)), paths.length = idxs.length →
    (∀ j (hj : j < idxs.length), prove (treeOf H leaves) idxs[j] = .ok (paths.getD j [])) →
    fromPaths H paths idxs = proveBatch H (treeOf H leaves) idxs

theorem paths_recompress (H : Hasher D) : PathsRecompress H := by
  intro leaves d hd1 hd2 hl idxs hne hlen hnd hr paths hpl hpaths
  exact fromPaths_honest_wf H _ d (tree_wf H leaves d hd1 hl) hd2 idxs hne hlen hnd hr paths hpl hpaths

/-- Round trip: decompressing the opening the tree produces and re-compressing the paths gives the
    same opening — `from_paths ∘ into_paths` is the identity on the openings of the tree, for every
    tree of depth 1..63 and every non-empty duplicate-free in-range position list in any order. -/
theorem paths_roundtrip (H : Hasher D) (leaves : List D) (d : Nat)
    (hd1 : 1 ≤ d) (hd2 : d ≤ 63) (hl : leaves.length = 2 ^ d) (idxs : List Nat) (hne : idxs ≠ [])
    (hlen : idxs.length ≤ 255) (hnd : idxs.Nodup) (hr : ∀ i ∈ idxs, i < 2 ^ d) :
    ∃ p paths, proveBatch H (treeOf H leaves) idxs = .ok p ∧ intoPaths H p idxs = .ok paths ∧
      fromPaths H paths idxs = .ok p := by
  obtain ⟨p, paths, h1, h2, h3, h4⟩ := paths_decompress H leaves d hd1 hd2 hl idxs hne hlen hnd hr
  refine ⟨p, paths, h1, h2, ?_⟩
  rw [paths_recompress H leaves d hd1 hd2 hl idxs hne hlen hnd hr paths h3 h4, h1]

/-- The other round trip: the single paths of a position list, re-compressed by `from_paths` and
    decompressed by `into_paths`, are returned unchanged and in the same order. -/
theorem paths_roundtrip_conv (H : Hasher D) (leaves : List D) (d : Nat)
    (hd1 : 1 ≤ d) (hd2 : d ≤ 63) (hl : leaves.length = 2 ^ d) (idxs : List Nat) (hne : idxs ≠ [])
    (hlen : idxs.length ≤ 255) (hnd : idxs.Nodup) (hr : ∀ i ∈ idxs, i < 2 ^ d)
    (paths : List (List D)) (hpl : paths.length = idxs.length)
    (hpaths : ∀ j (hj : j < idxs.length), prove (treeOf H leaves) idxs[j] = .ok (paths.getD j [])) :
    ∃ p, fromPaths H paths idxs = .ok p ∧ intoPaths H p idxs = .ok paths := by
  obtain ⟨p, paths', h1, h2, h3, h4⟩ := paths_decompress H leaves d hd1 hd2 hl idxs hne hlen hnd hr
  refine ⟨p, by rw [paths_recompress H leaves d hd1 hd2 hl idxs hne hlen hnd hr paths hpl hpaths, h1], ?_⟩
  have : paths' = paths := by
    apply List.ext_getElem?
    intro j
    by_cases hj : j < idxs.length
    · have e1 := h4 j hj
      rw [hpaths j hj] at e1
      injection e1 with e1
      rw [List.getD_eq_getElem?_getD, List.getD_eq_getElem?_getD, List.getElem?_eq_getElem (by omega),
        List.getElem?_eq_getElem (by omega)] at e1
      rw [List.getElem?_eq_getElem (by omega), List.getElem?_eq_getElem (by omega)]
      simpa using e1.symm
    · rw [List.getElem?_eq_none (by omega), List.getElem?_eq_none (by omega)]
  rw [← this]; exact h2

/-! ## Serialization of the node rows (`serialize_nodes`, `deserialize`) -/

/-- Round trip with exact byte consumption: for every proof with at most 255 rows of at most 255
    nodes each (otherwise `serialize_nodes` panics, as documented), non-zero depth and 1..255 leaves,
    `deserialize` on the serialized rows followed by arbitrary bytes `rest` returns the proof and
    leaves exactly `rest` unread — provided reading a written digest returns it (`CodecOK`). -/
theorem ser_roundtrip (C : Codec D) (hc : CodecOK C) (p : BatchProof D) (hn : p.nodes.length ≤ 255)
    (hrow : ∀ row ∈ p.nodes, row.length ≤ 255) (hd : p.depth ≠ 0) (hl1 : p.leaves ≠ [])
    (hl2 : p.leaves.length ≤ 255) (rest : List Nat) :
    ∃ bytes, serializeNodes C p = .ok bytes ∧ deserialize C (bytes ++ rest) p.leaves p.depth = .ok (p, rest) := by
  obtain ⟨bs, hb⟩ := serRows_total C p.nodes hrow
  refine ⟨p.nodes.length :: bs, ?_, ?_⟩
  · unfold serializeNodes
    rw [if_neg (by omega), hb]; rfl
  · unfold deserialize
    rw [if_neg hd, if_neg (by cases hp : p.leaves with | nil => exact absurd hp hl1 | cons a t => simp),
      if_neg (by simp [maxPaths]; omega)]
    simp only [List.cons_append, readRows_serRows C hc p.nodes bs hb rest]

/-! ## The specification `specRoot` (WinterProofs/Lemmas/C10Spec.lean)

`specRoot H l F ns`: the frontier `F` of (heap position, digest) pairs is processed level by level;
a position whose sibling follows it in the frontier is paired with it, otherwise the next proof node
of the flat list `ns` is consumed; after `l` levels the frontier is the root alone and `ns` is empty. -/

/-- Completeness of the specification: for every Merkle valuation of depth `d` (node `j` is the
    hash of nodes `2j`, `2j+1`; leaves at `2^d + i`) and every non-empty list of in-range positions
    in any order, the frontier of the committed leaves with the specification's proof nodes gives
    the root. -/
theorem spec_root_complete (H : Hasher D) (val : Nat → D) (d : Nat) (wf : ValWF H val d) (idxs : List Nat)
    (hne : idxs ≠ []) (hr : ∀ i ∈ idxs, i < 2 ^ d) :
    specRoot H d (leafFrontier d idxs (idxs.map (fun i => val (2 ^ d + i))) [])
      (specNodes val d (SMap.keys (leafFrontier d idxs (idxs.map (fun i => val (2 ^ d + i))) []))) = some (val 1) :=
  spec_complete H val d wf idxs hne hr

/-- Binding of the specification: if `merge` is collision free and `specRoot` computes the root
    from the frontier of the claimed leaves of a duplicate-free in-range position list, whatever the
    proof nodes, every claimed leaf is the committed one. -/
theorem spec_root_binding (H : Hasher D) (inj : MergeInj H) (val : Nat → D) (d : Nat) (wf : ValWF H val d)
    (idxs : List Nat) (leaves ns : List D) (hnd : idxs.Nodup) (hr : ∀ i ∈ idxs, i < 2 ^ d)
    (h : specRoot H d (leafFrontier d idxs leaves []) ns = some (val 1)) :
    ∀ (j i : Nat) (l : D), idxs[j]? = some i → leaves[j]? = some l → l = val (2 ^ d + i) :=
  spec_binding H inj val d wf idxs leaves ns hnd hr h

/-- Structural refinement of the code-shaped verifier to the specification: for every `merge`,
    every opening of depth ≥ 1 and every position list that passes the index checks (non-empty, at
    most 255, as many as leaves, accepted by `map_indexes`, as many pairs as node rows), `get_root`
    — positional rows `nodes[i]`, proof pointers, map of hashed nodes — returns exactly what
    `specRoot` computes from the sorted frontier of the opening's leaves and the rows flattened in
    the order the levels consume them (`flattenRows`; `invalid` when a row is too short or not
    consumed to its end).  No hypothesis on `merge`, the digests or the root. -/
theorem getRoot_refines_spec (H : Hasher D) : GetRootRefinesSpec H := getRoot_refines H

/-- A consequence on trees (kept from the time the refinement was open): whenever `get_root`
    recomputes the root of a tree from an opening of the tree's depth (`merge` collision free),
    `specRoot` accepts the frontier of the opening's leaves with the specification's own proof nodes. -/
theorem getRoot_sound_wrt_spec_partial (H : Hasher D) [DecidableEq D] (inj : MergeInj H) (leaves : List D) (d : Nat)
    (hd1 : 1 ≤ d) (hl : leaves.length = 2 ^ d) (root : D) (hroot : (treeOf H leaves).root = .ok root)
    (p : BatchProof D) (hdp : p.depth = d) (idxs : List Nat) (hg : getRoot H p idxs = .ok root) :
    ∃ ns, specRoot H d (leafFrontier d idxs p.leaves []) ns = some root := by
  have wf : TreeWF H (treeOf H leaves) d := tree_wf H leaves d hd1 hl
  obtain ⟨root', hr1, hr2⟩ := root_of_wf H _ d wf
  rw [hr2] at hroot
  injection hroot with hroot
  subst hroot
  have hvr := treeVal_root H _ d wf root' hr1
  have vwf := treeVal_wf H _ d wf
  rw [← hvr] at hg ⊢
  subst hdp
  obtain ⟨hne, _, hlen, _, imap, _, _, _, _, _, hm, _⟩ := getRoot_ok_stages H p idxs _ hg
  obtain ⟨_, _, hrange, _⟩ := mapIndexes_ok hm
  have hb := getRoot_binding H inj (treeVal H (treeOf H leaves)) p idxs vwf hd1 hg
  have hleaves : p.leaves = idxs.map (fun i => treeVal H (treeOf H leaves) (2 ^ p.depth + i)) := by
    apply List.ext_getElem?
    intro j
    by_cases hj : j < idxs.length
    · rw [hb j hj, List.getElem?_map, List.getElem?_eq_getElem hj]; rfl
    · rw [List.getElem?_eq_none (by omega), List.getElem?_eq_none (by simp; omega)]
  rw [hleaves]
  exact ⟨_, spec_complete H _ p.depth vwf idxs hne hrange⟩


/-! ## Concrete instances (every theorem with hypotheses has a non-trivial instance)

The example hasher is the free binary tree over the leaves: `merge` is a constructor, hence
collision free — the idealisation under which the binding theorems hold. -/

inductive T where
  | leaf (n : Nat)
  | node (l r : T)
  deriving DecidableEq, Repr

def exH : Hasher T := { merge := T.node, dflt := T.leaf 0 }

theorem exH_inj : MergeInj exH := by
  intro a b c d h; injection h with h1 h2; exact ⟨h1, h2⟩

/-- eight leaves `leaf 0 .. leaf 7` -/
def exLeaves : List T := (List.range 8).map T.leaf
def exTree : Tree T := treeOf exH exLeaves
def exRoot : T := T.node (T.node (T.node (T.leaf 0) (T.leaf 1)) (T.node (T.leaf 2) (T.leaf 3)))
  (T.node (T.node (T.leaf 4) (T.leaf 5)) (T.node (T.leaf 6) (T.leaf 7)))
/-- the path of position 5 -/
def exPath5 : List T := [T.leaf 5, T.leaf 4, T.node (T.leaf 6) (T.leaf 7),
  T.node (T.node (T.leaf 0) (T.leaf 1)) (T.node (T.leaf 2) (T.leaf 3))]
/-- the batch opening of positions 6, 1, 3 (in this order) -/
def exBatch : BatchProof T :=
  { leaves := [T.leaf 6, T.leaf 1, T.leaf 3],
    nodes := [[T.leaf 0], [T.leaf 2], [T.leaf 7, T.node (T.leaf 4) (T.leaf 5)]], depth := 3 }

example : Tree.new exH exLeaves = .ok exTree ∧ exTree.root = .ok exRoot := by decide
example : prove exTree 5 = .ok exPath5 ∧ verify exH exRoot 5 exPath5 = .ok () := by decide
example : proveBatch exH exTree [6, 1, 3] = .ok exBatch ∧ verifyBatch exH exRoot [6, 1, 3] exBatch = .ok () := by
  decide

-- instances of the hypotheses of `single_complete`, `single_binding`, `batch_complete`, `batch_binding`
example := single_complete exH exLeaves 3 (by decide) (by decide) (by decide) 5 (by decide)
example := single_binding exH exH_inj exLeaves 3 (by decide) (by decide) (by decide) exRoot (by decide) 5 (by decide)
  exPath5 (by decide) (by decide)
example := batch_complete exH exLeaves 3 (by decide) (by decide) (by decide) [6, 1, 3] (by decide) (by decide)
  (by decide) (by decide)
example := paths_decompress exH exLeaves 3 (by decide) (by decide) (by decide) [6, 1, 3] (by decide) (by decide)
  (by decide) (by decide)
example := paths_roundtrip exH exLeaves 3 (by decide) (by decide) (by decide) [6, 1, 3] (by decide) (by decide)
  (by decide) (by decide)
example := batch_binding exH exH_inj exLeaves 3 (by decide) (by decide) exRoot (by decide) exBatch rfl [6, 1, 3]
  (by decide)

-- mutations of the two openings are errors, not acceptance and not panics
example : verify exH exRoot 4 exPath5 = .err .invalid ∧ verify exH exRoot 13 exPath5 = .err .oob ∧
    verify exH exRoot 5 (exPath5.take 1) = .err .invalid ∧
    verify exH exRoot 5 (exPath5 ++ List.replicate 61 (T.leaf 9)) = .err .invalid := by decide
example : verifyBatch exH exRoot [6, 1, 3] { exBatch with nodes := [[T.leaf 0], [T.leaf 2, T.leaf 9],
      [T.leaf 7, T.node (T.leaf 4) (T.leaf 5)]] } = .err .invalid ∧
    verifyBatch exH exRoot [6, 1, 3] { exBatch with leaves := exBatch.leaves ++ [T.leaf 9] } = .err .invalid ∧
    verifyBatch exH exRoot [6, 1, 3] { exBatch with depth := 64 } = .err .invalid ∧
    verifyBatch exH exRoot [6, 1, 1] exBatch = .err .dup ∧
    verifyBatch exH exRoot [6, 1, 8] exBatch = .err .oob ∧
    verifyBatch exH exRoot [1, 6, 3] exBatch = .err .invalid := by decide

-- the round trips on the concrete opening (positions in the order 6, 1, 3)
example : ∃ paths, intoPaths exH exBatch [6, 1, 3] = .ok paths ∧
    prove exTree 6 = .ok (paths.getD 0 []) ∧ prove exTree 1 = .ok (paths.getD 1 []) ∧
    prove exTree 3 = .ok (paths.getD 2 []) ∧ fromPaths exH paths [6, 1, 3] = .ok exBatch :=
  ⟨[[T.leaf 6, T.leaf 7, T.node (T.leaf 4) (T.leaf 5), T.node (T.node (T.leaf 0) (T.leaf 1)) (T.node (T.leaf 2) (T.leaf 3))],
    [T.leaf 1, T.leaf 0, T.node (T.leaf 2) (T.leaf 3), T.node (T.node (T.leaf 4) (T.leaf 5)) (T.node (T.leaf 6) (T.leaf 7))],
    [T.leaf 3, T.leaf 2, T.node (T.leaf 0) (T.leaf 1), T.node (T.node (T.leaf 4) (T.leaf 5)) (T.node (T.leaf 6) (T.leaf 7))]],
   by decide, by decide, by decide, by decide, by decide⟩
-- malformed inputs of `from_paths` are the documented panics, `into_paths` returns errors
example : (fromPaths exH ([] : List (List T)) []).isPanic = true ∧
    (fromPaths exH [[T.leaf 1, T.leaf 0]] [1, 2]).isPanic = true ∧
    (fromPaths exH [[T.leaf 1, T.leaf 0], [T.leaf 1, T.leaf 0]] [1, 1]).isPanic = true ∧
    intoPaths exH { exBatch with depth := 200 } [6, 1, 3] = .err .invalid ∧
    intoPaths exH exBatch [6, 1, 18446744073709551615] = .err .oob ∧
    intoPaths exH { exBatch with nodes := [[T.leaf 0, T.leaf 9], [T.leaf 2], [T.leaf 7, T.node (T.leaf 4) (T.leaf 5)]] }
      [6, 1, 3] = .err .invalid := by decide

-- serialization of the concrete opening (digests written as one tag byte per constructor … here: a toy
-- codec on `T` is not needed: the instance below uses the numbers 0..255 as digests, one byte each)
example := ser_roundtrip (D := Nat) { enc := fun d => [d], dec := fun bs => match bs with | [] => .error .eof | b :: r => .ok (b, r) }
  (fun _ _ => rfl) { leaves := [6, 1, 3], nodes := [[0], [2], [7, 45]], depth := 3 } (by decide) (by decide) (by decide)
  (by decide) (by decide) [9, 9]

-- the refinement statement on the concrete opening: the rows flatten to the nodes `specRoot` consumes
example : flattenRows [(1, 1), (3, 2), (6, 0)] exBatch (normalizeIndexes [6, 1, 3]) =
    some [T.leaf 0, T.leaf 2, T.leaf 7, T.node (T.leaf 4) (T.leaf 5)] ∧
    specRoot exH 3 (leafFrontier 3 [6, 1, 3] exBatch.leaves [])
      [T.leaf 0, T.leaf 2, T.leaf 7, T.node (T.leaf 4) (T.leaf 5)] = some exRoot ∧
    getRoot exH exBatch [6, 1, 3] = .ok exRoot := by decide

/-- Why `single_binding` fixes the length of the path (and `batch_binding` the depth of the
    opening): `verify` takes the depth of the tree from the path, and the two-node path
    `[node 0..3, node 4..7]` verifies against the root for position 0 although its first node is not
    the committed leaf 0 — it opens an internal node as a leaf.  The depth is an input the
    verifier of the protocol supplies, not a part of the untrusted opening. -/
theorem single_binding_needs_length :
    ∃ path : List T, verify exH exRoot 0 path = .ok () ∧ path[0]? ≠ exLeaves[0]? :=
  ⟨[T.node (T.node (T.leaf 0) (T.leaf 1)) (T.node (T.leaf 2) (T.leaf 3)),
    T.node (T.node (T.leaf 4) (T.leaf 5)) (T.node (T.leaf 6) (T.leaf 7))], by decide, by decide⟩

end WinterProofs.C10
