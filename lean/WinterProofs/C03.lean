-- C03: proof integrity — every value the verifier consumes is tied to a commitment that the coin absorbed
-- before the query positions were drawn (BINDING / DECISION theorems on the model of the verifier's checks,
-- Winter/Model/VerifierChecks.lean, under the cryptographic idealisation: collision-free `merge` (C10) and
-- `hash_elements`).
--
-- What is proved (for all inputs):
--   * `challenges_depend_on_committed_part_only`, `absorbed_before_queries`: the query positions are a function of
--     the statement and of the commitments / OOD frames / nonce only, and the coin they are drawn from has absorbed
--     every trace commitment, the constraint commitment, the hashes of both OOD frames and every FRI commitment
--     (layers and remainder), in this order;
--   * `accepted_rows_are_committed_leaves`: each opened trace / constraint row hashes to the committed leaf at its
--     query position (leaves are recomputed from the opened values, Merkle binding is C10's `getRoot_binding`);
--   * `accepted_proofs_agree`: two accepted proofs for the same statement with the same committed part and the
--     same partition count carry the same trace rows, constraint rows, rows of every FRI layer and the same
--     remainder — nothing the verifier consumes after the positions are known can be exchanged;
--   * `remainder_is_committed` (since 21c4b77) / `remainder_unbound_on_pinned_tree`: the remainder is bound by
--     `hash_elements(remainder) = last FRI commitment`; without that check (pinned tree) the verdict on the remainder
--     did not depend on any commitment (the defect the harness's adaptive substitution exhibits);
--   * sub-structures (`channel_*`): an accepted channel has exactly the scheduled number of FRI layers, no GKR bytes
--     unless the AIR has a Lagrange kernel column, a Lagrange frame of exactly log2(n)+1 rows iff it has one.
-- Enumerated, NOT bound (see the end of the file): the proof-of-work nonce (`nonce_not_bound`), trace metadata padding
-- (`C02.contextElements_metadata_fails`), the FRI partition count (exempt by the property when it maps the queried
-- positions to the same leaves), the inner nodes of the batch Merkle openings (bound in the code by C10's
-- all-nodes-consumed check; not a theorem here), OOD frames (absorbed before the positions are drawn — a changed frame
-- changes the transcript — but that a changed frame is then rejected is the soundness error of DEEP/FRI: a
-- probability statement, not claimed).
import WinterProofs.Lemmas.C02Decision
import WinterProofs.Lemmas.C02Transcript
import WinterProofs.Lemmas.C03Bind
import WinterProofs.Lemmas.C03Parse
import WinterProofs.Lemmas.C03Toy
import WinterProofs.Lemmas.C10Single

set_option linter.unusedSectionVars false

namespace WinterProofs.C03
open Model Model.VerifierChecks Model.Merkle WinterProofs.C02L WinterProofs.C03L WinterProofs.C10

local notation "vverify" => Model.VerifierChecks.verify

variable {C D V : Type} [DecidableEq D] [DecidableEq V]

/-! ## the positions are drawn after, and from, the commitments -/

/-- the challenges (composition coefficients, `z`, DEEP coefficients, FRI α's, query positions) of an accepted
    proof are those of its `Committed` part: the opened rows, Merkle nodes, FRI layer values, remainder and
    partition count (`Opened`) are read only afterwards and cannot influence them -/
theorem challenges_depend_on_committed_part_only (W : Verifier C D V) (ctx : Serde.Context) (cm : Committed V D)
    (op1 op2 : Opened V D) (h1 : vverify W ctx (some (cm, op1)) = .ok ()) (h2 : vverify W ctx (some (cm, op2)) = .ok ()) :
    ∃ ch, challenges W ctx cm = .ok ch ∧ checkOpened W ctx cm op1 ch = .ok () ∧ checkOpened W ctx cm op2 ch = .ok () := by
  obtain ⟨_, _, _, cm1, o1, ch1, hp1, hc1, ho1⟩ := verify_ok h1
  obtain ⟨_, _, _, cm2, o2, ch2, hp2, hc2, ho2⟩ := verify_ok h2
  injection hp1 with hp1; injection hp2 with hp2
  simp only [Prod.mk.injEq] at hp1 hp2
  obtain ⟨rfl, rfl⟩ := hp1
  obtain ⟨rfl, rfl⟩ := hp2
  rw [hc1] at hc2; injection hc2 with hc2; subst hc2
  exact ⟨ch1, hc1, ho1, ho2⟩

/-- **absorbed before the query positions are drawn**: the digests the coin absorbed, in order, are the trace
    commitment(s), the constraint commitment, the hash of the OOD trace frame, the hash of the OOD constraint
    evaluations and every FRI commitment (the last one commits to the remainder); the positions are
    `sort; dedup` of `draw_integers` on that coin with the nonce -/
theorem absorbed_before_queries (W : Verifier C D V) (ctx : Serde.Context) (cm : Committed V D) (ch : Challenges C D V)
    (h : challenges W ctx cm = .ok ch) :
    (∃ pre, (pre = cm.traceRoots.take 1 ∨ pre = cm.traceRoots.take 2) ∧
      ch.log = pre ++ [cm.constraintRoot, W.hashElems cm.oodTrace, W.hashElems cm.oodEvals] ++ cm.friRoots) ∧
    ch.alphas.length = cm.friRoots.length ∧
    ∃ ps, W.coin.drawInts ch.coinAtQueries (W.air ctx).numQueries (W.air ctx).ldeSize cm.powNonce = some ps ∧
      ch.positions = sortDedup ps ∧ (W.air ctx).grinding ≤ W.coin.leadingZeros ch.coinAtQueries cm.powNonce := by
  obtain ⟨r0, rest, c2, log2, c3, c4, c7, c8, flog, ps, hroots, haux, _, _, _, _, hfri, hpow, hps, hpos, hc8, hlog⟩ :=
    (challenges_ok h).ex
  obtain ⟨hf1, hf2⟩ := friNew_log _ _ _ _ hfri
  refine ⟨⟨log2, ?_, by rw [hlog, hf1]⟩, hf2, ps, by rw [hc8]; exact hps, hpos, by rw [hc8]; exact hpow⟩
  rcases auxPhase_log haux with ⟨_, hl⟩ | ⟨_, r1, rest', hr, hl⟩
  · left; rw [hl, hroots]; rfl
  · right; rw [hl, hroots, hr]; rfl

/-! ## binding of the opened rows -/

/-- **every consumed trace / constraint row is the committed one**: if the proof is accepted and a commitment
    is the root of a Merkle tree of the LDE domain's depth (`val`), then under collision-free `merge` the hash
    recomputed from the `j`-th opened row is the committed leaf at the `j`-th query position -/
theorem accepted_rows_are_committed_leaves (W : Verifier C D V) (inj : MergeInj W.merkle) (ctx : Serde.Context)
    (cm : Committed V D) (op : Opened V D) (h : vverify W ctx (some (cm, op)) = .ok ())
    (hd : 1 ≤ Nat.log2 (W.air ctx).ldeSize) :
    ∃ ch, challenges W ctx cm = .ok ch ∧
      (∀ (i : Nat) (root : D) (o : Opening V D), cm.traceRoots[i]? = some root → op.traceOpenings[i]? = some o →
        ∀ val, ValWF W.merkle val (Nat.log2 (W.air ctx).ldeSize) → val 1 = root →
          ch.positions.length = o.rows.length ∧ ∀ j (hj : j < ch.positions.length),
            (o.rows.map W.hashElems)[j]? = some (val (2 ^ Nat.log2 (W.air ctx).ldeSize + ch.positions[j]))) ∧
      (∀ val, ValWF W.merkle val (Nat.log2 (W.air ctx).ldeSize) → val 1 = cm.constraintRoot →
          ch.positions.length = op.constraintOpening.rows.length ∧ ∀ j (hj : j < ch.positions.length),
            (op.constraintOpening.rows.map W.hashElems)[j]?
              = some (val (2 ^ Nat.log2 (W.air ctx).ldeSize + ch.positions[j]))) := by
  obtain ⟨_, _, _, cm', op', ch, hp, hch, hop⟩ := verify_ok h
  injection hp with hp; simp only [Prod.mk.injEq] at hp; obtain ⟨rfl, rfl⟩ := hp
  obtain ⟨ht, hc, _⟩ := checkOpened_ok hop
  refine ⟨ch, hch, ?_, ?_⟩
  · intro i root o hr ho val wf hroot
    have hm : (root, o) ∈ cm.traceRoots.zip op.traceOpenings :=
      List.mem_of_getElem? (by rw [List.getElem?_zip_eq_some]; exact ⟨hr, ho⟩)
    exact openingOk_leaves W inj val root ch.positions o _ wf hd hroot (ht _ hm)
  · intro val wf hroot
    exact openingOk_leaves W inj val _ ch.positions _ _ wf hd hroot hc

/-! ## two accepted proofs agree on everything consumed -/

/-- **integrity of everything read after the positions are known.**  Two accepted proofs for the same statement
    (`W`, `ctx`) with the same committed part (commitments, OOD frames, nonce, GKR bytes) and the same partition
    count carry, under collision-free `merge` and `hash_elements` and for commitments that are Merkle roots of
    the depths the verifier opens them at: the same rows in every trace opening, the same constraint rows, the
    same rows in every FRI layer, and (with the remainder commitment check) the same remainder. -/
theorem accepted_proofs_agree (W : Verifier C D V) (inj : MergeInj W.merkle) (hinj : Function.Injective W.hashElems)
    (ctx : Serde.Context) (cm : Committed V D) (op1 op2 : Opened V D)
    (h1 : vverify W ctx (some (cm, op1)) = .ok ()) (h2 : vverify W ctx (some (cm, op2)) = .ok ())
    (hnp : op1.numPartitions = op2.numPartitions)
    (hlen1 : op1.traceOpenings.length = cm.traceRoots.length) (hlen2 : op2.traceOpenings.length = cm.traceRoots.length)
    (hd : 1 ≤ Nat.log2 (W.air ctx).ldeSize)
    (htr : ∀ root ∈ cm.traceRoots, IsMerkleRoot W.merkle root (Nat.log2 (W.air ctx).ldeSize))
    (hcr : IsMerkleRoot W.merkle cm.constraintRoot (Nat.log2 (W.air ctx).ldeSize))
    (hfr : LayersCommitted W.merkle (W.air ctx).fri.folding cm.friRoots
      (Fri.numFriLayers (W.air ctx).fri (Fri.nextPow2 ((W.air ctx).tracePolyDegree + 1) * (W.air ctx).fri.blowup)) 0
      (Fri.nextPow2 ((W.air ctx).tracePolyDegree + 1) * (W.air ctx).fri.blowup)) :
    (∀ (i : Nat) (root : D) (o1 o2 : Opening V D), cm.traceRoots[i]? = some root → op1.traceOpenings[i]? = some o1 →
        op2.traceOpenings[i]? = some o2 → o1.rows = o2.rows) ∧
    op1.constraintOpening.rows = op2.constraintOpening.rows ∧
    (∀ k, k < Fri.numFriLayers (W.air ctx).fri (Fri.nextPow2 ((W.air ctx).tracePolyDegree + 1) * (W.air ctx).fri.blowup) →
        (op1.friLayers[k]?).map (·.rows) = (op2.friLayers[k]?).map (·.rows)) ∧
    (W.commitCheck = true → op1.remainder = op2.remainder) := by
  obtain ⟨ch, hch, ho1, ho2⟩ := challenges_depend_on_committed_part_only W ctx cm op1 op2 h1 h2
  obtain ⟨ht1, hc1, hf1⟩ := checkOpened_ok ho1
  obtain ⟨ht2, hc2, hf2⟩ := checkOpened_ok ho2
  have rows_tr : ∀ (i : Nat) (root : D) (o1 o2 : Opening V D), cm.traceRoots[i]? = some root → op1.traceOpenings[i]? = some o1 →
      op2.traceOpenings[i]? = some o2 → o1.rows = o2.rows := by
    intro i root o1 o2 hr h1' h2'
    have m1 : (root, o1) ∈ cm.traceRoots.zip op1.traceOpenings :=
      List.mem_of_getElem? (by rw [List.getElem?_zip_eq_some]; exact ⟨hr, h1'⟩)
    have m2 : (root, o2) ∈ cm.traceRoots.zip op2.traceOpenings :=
      List.mem_of_getElem? (by rw [List.getElem?_zip_eq_some]; exact ⟨hr, h2'⟩)
    exact openingOk_rows_eq W inj hinj root ch.positions o1 o2 _ (htr root (List.mem_of_getElem? hr)) hd
      (ht1 _ m1) (ht2 _ m2)
  have rows_c : op1.constraintOpening.rows = op2.constraintOpening.rows :=
    openingOk_rows_eq W inj hinj _ ch.positions _ _ _ hcr hd hc1 hc2
  -- the DEEP evaluations handed to FRI coincide: they are a function of the opened rows
  have rows_all : op1.traceOpenings.map (·.rows) = op2.traceOpenings.map (·.rows) := by
    apply List.ext_getElem?
    intro i
    simp only [List.getElem?_map]
    by_cases hi : i < cm.traceRoots.length
    · obtain ⟨root, hr⟩ : ∃ root, cm.traceRoots[i]? = some root := ⟨_, List.getElem?_eq_getElem hi⟩
      obtain ⟨o1, e1⟩ : ∃ o1, op1.traceOpenings[i]? = some o1 := ⟨_, List.getElem?_eq_getElem (by omega)⟩
      obtain ⟨o2, e2⟩ : ∃ o2, op2.traceOpenings[i]? = some o2 := ⟨_, List.getElem?_eq_getElem (by omega)⟩
      rw [e1, e2]; simp only [Option.map_some]; rw [rows_tr i root o1 o2 hr e1 e2]
    · rw [List.getElem?_eq_none (by omega), List.getElem?_eq_none (by omega)]
  refine ⟨rows_tr, rows_c, ?_⟩
  -- FRI
  unfold friVerify at hf1 hf2
  rw [rows_all, rows_c] at hf1
  split at hf1
  · cases hf1
  · split at hf2
    · cases hf2
    · simp only at hf1 hf2
      split at hf1
      · cases hf1
      · rename_i pos1 ev1 dom1 md1 hl1
        split at hf2
        · cases hf2
        · rename_i pos2 ev2 dom2 md2 hl2
          rw [hnp] at hl1
          obtain ⟨hr, hk⟩ := friLayers_same W (W.air ctx) inj hinj cm.friRoots ch.alphas op2.numPartitions
            op1.friLayers op2.friLayers _ _ _ _ _ _ _ _ hfr hl1 hl2
          refine ⟨fun k hk' => by simpa using hk k hk', fun hcc => ?_⟩
          simp only [Prod.mk.injEq] at hr
          obtain ⟨rfl, rfl, rfl, rfl⟩ := hr
          have r1 := (friRemainder_committed W _ _ _ _ _ _ _ _ hcc hf1).1
          have r2 := (friRemainder_committed W _ _ _ _ _ _ _ _ hcc hf2).1
          rw [r1] at r2; injection r2 with r2
          exact hinj r2


/-! ## the remainder -/

/-- **the remainder is the committed one** (the check added by 21c4b77): an accepted proof's remainder hashes to
    the commitment that follows the FRI layer commitments — a commitment the coin absorbed before the positions
    were drawn (`absorbed_before_queries`) — has at most the allowed number of coefficients and agrees with
    the folded evaluations at every folded position -/
theorem remainder_is_committed (W : Verifier C D V) (A : AirInst C D V) (roots : List D) (rem : List V) (numLayers : Nat)
    (pos : List Nat) (ev : List V) (dom md : Nat) (hc : W.commitCheck = true)
    (h : friRemainder W A roots rem numLayers pos ev dom md = .ok ()) :
    roots[numLayers]? = some (W.hashElems rem) ∧ rem.length ≤ md ∧
    ∀ pe ∈ pos.zip ev, A.evalRemainder rem dom pe.1 = pe.2 :=
  friRemainder_committed W A roots rem numLayers pos ev dom md hc h

/-- on the pinned tree (no commitment check) the verdict on the remainder is the same whatever the commitments
    are: the remainder was bound to nothing the prover had committed to.  `toy_pinned_accepts` /
    `toy_fixed_rejects` below are the concrete pair; against the real code the harness's adaptive substitution
    (remainder + multiple of the vanishing polynomial of the folded queried points) was accepted before 21c4b77. -/
theorem remainder_unbound_on_pinned_tree (W : Verifier C D V) (A : AirInst C D V) (roots roots' : List D) (rem : List V)
    (numLayers : Nat) (pos : List Nat) (ev : List V) (dom md : Nat) (hc : W.commitCheck = false) :
    friRemainder W A roots rem numLayers pos ev dom md = friRemainder W A roots' rem numLayers pos ev dom md :=
  friRemainder_unbound W A roots roots' rem numLayers pos ev dom md hc

/-- the concrete pair: without the check two different remainders are accepted with the same commitments;
    with the check the one that is not committed is rejected with `RemainderCommitmentMismatch` -/
theorem remainder_binding_witness :
    vverify (toyVerifier false) toyCtx (some (toyCommitted 0, toyOpened [4, 5])) = .ok () ∧
    vverify (toyVerifier false) toyCtx (some (toyCommitted 0, toyOpened [9, 9])) = .ok () ∧
    vverify (toyVerifier true) toyCtx (some (toyCommitted 0, toyOpened [4, 5])) = .ok () ∧
    vverify (toyVerifier true) toyCtx (some (toyCommitted 0, toyOpened [9, 9])) = .error .remainderCommitmentMismatch :=
  ⟨toy_pinned_accepts _ (by decide), toy_pinned_accepts _ (by decide), toy_accepted 0, toy_fixed_rejects⟩

/-! ## sub-structures: nothing beyond the decoded content is accepted -/

/-- **what an accepted channel construction implies** (`VerifierChannel::new`): at least one query, one query
    set per trace segment, exactly the scheduled number of FRI layers (a surplus layer is an error: 73d3514),
    GKR bytes only for an AIR with a Lagrange kernel column (76bb3d0), a Lagrange frame of exactly
    `log2(n) + 1` rows iff the AIR has such a column (bef468b), and nonce / GKR bytes passed on unchanged -/
theorem channel_accepts_only_scheduled_content (cfg : ChanCfg) (p : Serde.Proof) (c : ParsedChannel)
    (h : channelParse cfg p = .ok c) :
    p.numUniqueQueries ≠ 0 ∧ p.traceQueries.length = cfg.numSegments ∧
    p.friProof.layers.length = cfg.numFriLayers ∧
    (cfg.lagrangeLog = none → p.gkrProof = none) ∧
    c.oodLagrange.map List.length = cfg.lagrangeLog.map (· + 1) ∧
    c.gkr = p.gkrProof ∧ c.powNonce = p.powNonce ∧ c.friLayers.length = cfg.numFriLayers :=
  channel_ok_facts cfg p c h

/-- **no trailing bytes in the commitment block**: an accepted block with anything appended is an error -/
theorem commitments_reject_trailing_bytes {δ : Type} {d : Serde.Codec δ} (hd : Stable d.dec) (bytes : Serde.Bytes) (nt nf : Nat)
    (x : List δ × δ × List δ) (h : Serde.commitmentsParse d bytes nt nf = .ok x) (e : Serde.Bytes) (he : e ≠ []) :
    Serde.commitmentsParse d (bytes ++ e) nt nf = .err :=
  commitments_no_trailing hd bytes nt nf x h e he

/-- **no trailing bytes in query openings** (`Queries::parse`): neither in the value block nor in the node block -/
theorem queries_reject_trailing_bytes {ε δ : Type} (e : Serde.Codec ε) (eb : Nat) {d : Serde.Codec δ} (hd : Stable d.dec)
    (q : Serde.Queries) (depth rows cols : Nat) (x : List (List ε) × List (List δ))
    (h : Serde.queriesParse e eb d q depth rows cols = .ok x) (ex : Serde.Bytes) (hex : ex ≠ []) :
    Serde.queriesParse e eb d { q with values := q.values ++ ex } depth rows cols = .err ∧
    Serde.queriesParse e eb d { q with paths := q.paths ++ ex } depth rows cols = .err :=
  queries_no_trailing e eb hd q depth rows cols x h ex hex

-- the digest and element decoders of the proof format are stable (the hypothesis of the two theorems)
example : Stable (Serde.byteDigest 32).dec := stable_byteDigest 32
example : Stable (extElem F64.impl 2).dec := stable_extElem _ _
example : Stable (Serde.deserializeNodes (Serde.byteDigest 24)) := stable_deserializeNodes (stable_byteDigest 24)

/-! ## what is NOT bound (enumeration of the malleable, unconsumed or only probabilistically bound data)

* **proof-of-work nonce** — consumed only through `check_leading_zeros` and `draw_integers`: any nonce that passes
  the grinding check and yields the same positions is accepted (`nonce_not_bound`; recorded finding
  `c03.accepted-mutation.pow_nonce`, inherent: with `q` queries over an LDE domain of `N` points a random other
  nonce collides with probability about `1 / C(N, q)` — only for toy domains);
* **trace metadata** — absorbed into the seed with zero padding (`C02.contextElements_metadata_fails`; recorded
  finding `c03.accepted-mutation.context.trace_meta`);
* **FRI partition count** — layout-only: exempt by the property when it maps every queried position to the same
  leaf; otherwise the layer openings fail (`friLayers` reads it only through `map_positions_to_indexes`);
* **inner nodes of batch Merkle openings** — every node is consumed (C10 `5a88c07`: unused nodes are an error) and,
  under collision-free `merge`, is the committed inner node; C10 proves the binding of the leaves, not of the
  nodes: listed, covered by the harness (node replaced / swapped / added);
* **OOD frames** — absorbed before the DEEP coefficients, the FRI challenges and the positions are drawn
  (`absorbed_before_queries`), so a changed frame changes the transcript (`C02.statement_binding`); that the
  changed proof is then rejected is the DEEP/FRI soundness error: a probability statement, not claimed;
* **alternative encodings of a digest** (algebraic hashers reduce the words they read) — same decoded content,
  outside the claim by the property's own statement. -/

/-- the nonce is not bound: the (toy) verifier accepts the same proof with any two nonces when the coin maps
    them to the same positions -/
theorem nonce_not_bound : ∃ n1 n2 : Nat, n1 ≠ n2 ∧
    vverify (toyVerifier true) toyCtx (some (toyCommitted n1, toyOpened [4, 5])) = .ok () ∧
    vverify (toyVerifier true) toyCtx (some (toyCommitted n2, toyOpened [4, 5])) = .ok () :=
  ⟨0, 1, by decide, toy_accepted 0, toy_accepted 1⟩

/-! ## the hypotheses of the binding theorems are satisfiable -/

-- an accepted instance: the rows the toy proof opens hash to the committed leaves at positions 1, 3, 6
example := accepted_rows_are_committed_leaves (toyVerifier true) exH_inj toyCtx (toyCommitted 0) (toyOpened [4, 5])
  (toy_accepted 0) (by decide)
example : ∃ ch, challenges (toyVerifier true) toyCtx (toyCommitted 0) = .ok ch ∧ ch.positions = [1, 3, 6] ∧
    ch.log = [exRoot, exRoot, T.leaf 3, T.leaf 3, T.leaf 9] := ⟨_, toy_challenges true 0, rfl, rfl⟩
example := absorbed_before_queries (toyVerifier true) toyCtx (toyCommitted 0) _ (toy_challenges true 0)


-- `accepted_proofs_agree` on the instance (both proofs the same one: the hypotheses are what matters here)
example := accepted_proofs_agree toyVerifierI exH_inj hashInj_injective toyCtx toyCommittedI (toyOpened [4, 5]) (toyOpened [4, 5])
  toyI_accepted toyI_accepted rfl rfl rfl (by decide)
  (by intro root hr; simp only [toyCommittedI, toyCommitted, List.mem_singleton] at hr; rw [hr]; exact exRoot_isMerkleRoot)
  exRoot_isMerkleRoot (by
    have ha : toyVerifierI.air toyCtx = toyAir := rfl
    rw [ha, toy_layers]; trivial)

end WinterProofs.C03
