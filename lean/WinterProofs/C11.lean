-- C11: hash functions implement their specification on every input (property theorems).
-- Helper lemmas: WinterProofs/Lemmas/C11{MdsCommon,Mds12,Mds8,Sponge,Misc}.lean.
--
-- What is proved here and what is not (see also checks/C11.json):
--  * (1) frequency-domain MDS: `mds_multiply_freq` is EXACTLY the integer matrix-vector product with
--    the generated `MDS` table, with every i64 intermediate in range, for all limbs < 2^32 (both
--    the 12x12 and the 8x8 variant); the tables are circulant; `INV_MDS * MDS = I (mod p)`; the
--    96-bit reduction tail is correct modulo p, returns a 64-bit word, can return a NON-canonical
--    word (witness), and `add_constants` brings any 64-bit word back into [0, p).
--    The plumbing of `mds_multiply` itself (`mds_multiply_glue`) is proved too, by rewriting with
--    one proof-carrying equation per generated step (no definitional unfolding in the kernel).
--  * (1)+(2) composed: one round, and `apply_permutation` (seven rounds with the table constants), of
--    all three instances on valid raw words denote the reference round / permutation on residues.
--  * (2) S-boxes (on top of C07's `val` / `Inv`): `exp7` / `cube` denote `x^7` / `x^3`, the inverse
--    S-box chains denote `x^INV_ALPHA`, `alpha * inv_alpha = 1 (mod p - 1)`, and by Fermat the two
--    S-boxes invert each other on every residue, zero included, for all three instances.
--  * (4) sponge level: `hash_elements` of all three instances, and `hash`, `merge`, `merge_with_int`
--    of Rp64_256, on valid raw words denote the reference sponge on residues (absorb into the rate by
--    addition, permute when full, pad, squeeze) built on the reference permutation.
--  * (3) sponge: totality of byte hashing; the byte encoding is injective; `hash` is
--    `hash_elements` of the encoding; `merge = hash_elements (a ++ b)` for Rp64_256 / Rp62_248 on
--    canonical raw words; `merge_with_int`: different u64 integers give pre-permutation states that
--    differ as residues (all three instances, on the state the model builds); extension elements
--    hash as their flattening (by definition of the model: the cast is modelled, not verified).
import Winter.Model.Rescue
import WinterProofs.Lemmas.C11MdsCommon
import WinterProofs.Lemmas.C11Mds12
import WinterProofs.Lemmas.C11Mds8
import WinterProofs.Lemmas.C11Sponge
import WinterProofs.Lemmas.C11Misc
import WinterProofs.Lemmas.C11Sbox
import WinterProofs.Lemmas.C11MergeInt
import WinterProofs.Lemmas.C11Round12
import WinterProofs.Lemmas.C11Round8
import WinterProofs.Lemmas.C11Round62
import WinterProofs.Lemmas.C11SpongeSem
import WinterProofs.Lemmas.C11Sponge64

namespace WinterProofs.C11
open Gen Model Model.Rescue

/-! ## (1) MDS -/

/-- 12x12: no `i64` intermediate of the frequency-domain product overflows -/
theorem mds12_freq_no_overflow (s0 s1 s2 s3 s4 s5 s6 s7 s8 s9 s10 s11 : Nat)
    (h0 : s0 < 4294967296) (h1 : s1 < 4294967296) (h2 : s2 < 4294967296) (h3 : s3 < 4294967296)
    (h4 : s4 < 4294967296) (h5 : s5 < 4294967296) (h6 : s6 < 4294967296) (h7 : s7 < 4294967296)
    (h8 : s8 < 4294967296) (h9 : s9 < 4294967296) (h10 : s10 < 4294967296) (h11 : s11 < 4294967296) :
    Gen.Mds12.mds_multiply_freq_ok s0 s1 s2 s3 s4 s5 s6 s7 s8 s9 s10 s11 = true :=
  Mds12.freq_ok s0 s1 s2 s3 s4 s5 s6 s7 s8 s9 s10 s11 h0 h1 h2 h3 h4 h5 h6 h7 h8 h9 h10 h11

/-- 12x12: the frequency-domain product IS the integer matrix-vector product with the `MDS` table -/
theorem mds12_freq_is_matVec (s0 s1 s2 s3 s4 s5 s6 s7 s8 s9 s10 s11 : Nat)
    (h0 : s0 < 4294967296) (h1 : s1 < 4294967296) (h2 : s2 < 4294967296) (h3 : s3 < 4294967296)
    (h4 : s4 < 4294967296) (h5 : s5 < 4294967296) (h6 : s6 < 4294967296) (h7 : s7 < 4294967296)
    (h8 : s8 < 4294967296) (h9 : s9 < 4294967296) (h10 : s10 < 4294967296) (h11 : s11 < 4294967296) :
    (match Gen.Mds12.mds_multiply_freq s0 s1 s2 s3 s4 s5 s6 s7 s8 s9 s10 s11 with
     | (r0, r1, r2, r3, r4, r5, r6, r7, r8, r9, r10, r11) => [r0, r1, r2, r3, r4, r5, r6, r7, r8, r9, r10, r11])
      = matVec Gen.Rp64.MDS [s0, s1, s2, s3, s4, s5, s6, s7, s8, s9, s10, s11] :=
  Mds12.freq_matVec s0 s1 s2 s3 s4 s5 s6 s7 s8 s9 s10 s11 h0 h1 h2 h3 h4 h5 h6 h7 h8 h9 h10 h11

-- a non-trivial instance of the hypotheses: the extreme limbs
example : Gen.Mds12.mds_multiply_freq_ok 4294967295 4294967295 4294967295 4294967295 4294967295 4294967295
    4294967295 4294967295 4294967295 4294967295 4294967295 4294967295 = true :=
  mds12_freq_no_overflow _ _ _ _ _ _ _ _ _ _ _ _ (by decide) (by decide) (by decide) (by decide) (by decide)
    (by decide) (by decide) (by decide) (by decide) (by decide) (by decide) (by decide)

/-- 8x8: no `i64` intermediate of the frequency-domain product overflows -/
theorem mds8_freq_no_overflow (s0 s1 s2 s3 s4 s5 s6 s7 : Nat)
    (h0 : s0 < 4294967296) (h1 : s1 < 4294967296) (h2 : s2 < 4294967296) (h3 : s3 < 4294967296)
    (h4 : s4 < 4294967296) (h5 : s5 < 4294967296) (h6 : s6 < 4294967296) (h7 : s7 < 4294967296) :
    Gen.Mds8.mds_multiply_freq_ok s0 s1 s2 s3 s4 s5 s6 s7 = true :=
  Mds8.freq_ok s0 s1 s2 s3 s4 s5 s6 s7 h0 h1 h2 h3 h4 h5 h6 h7

/-- 8x8: the frequency-domain product IS the integer matrix-vector product with the `MDS` table -/
theorem mds8_freq_is_matVec (s0 s1 s2 s3 s4 s5 s6 s7 : Nat)
    (h0 : s0 < 4294967296) (h1 : s1 < 4294967296) (h2 : s2 < 4294967296) (h3 : s3 < 4294967296)
    (h4 : s4 < 4294967296) (h5 : s5 < 4294967296) (h6 : s6 < 4294967296) (h7 : s7 < 4294967296) :
    (match Gen.Mds8.mds_multiply_freq s0 s1 s2 s3 s4 s5 s6 s7 with
     | (r0, r1, r2, r3, r4, r5, r6, r7) => [r0, r1, r2, r3, r4, r5, r6, r7])
      = matVec Gen.Rp64Jive.MDS [s0, s1, s2, s3, s4, s5, s6, s7] :=
  Mds8.freq_matVec s0 s1 s2 s3 s4 s5 s6 s7 h0 h1 h2 h3 h4 h5 h6 h7

theorem mds_tables_circulant :
    Misc.isCirculant 12 Gen.Rp64.MDS = true ∧ Misc.isCirculant 8 Gen.Rp64Jive.MDS = true :=
  ⟨Misc.rp64_mds_circulant, Misc.jive_mds_circulant⟩

theorem inv_mds_is_inverse :
    Misc.matMulMod Gen.F64.M Gen.Rp64.INV_MDS Gen.Rp64.MDS = Misc.identity 12 ∧
    Misc.matMulMod Gen.F64.M Gen.Rp64Jive.INV_MDS Gen.Rp64Jive.MDS = Misc.identity 8 :=
  ⟨Misc.rp64_inv_mds, Misc.jive_inv_mds⟩

/-- the reduction tail: a 64-bit word, congruent to `l + h * 2^32` modulo p, no overflow inside -/
theorem mds_reduction_tail_correct (L H : Nat) (hL : L < 687194767360) (hH : H < 687194767360) :
    tailRed L H < 18446744073709551616 ∧
    ∃ k, L + H * 4294967296 = tailRed L H + k * 18446744069414584321 :=
  tail_val L H hL hH

example : (7 : Nat) < 687194767360 ∧ (9 : Nat) < 687194767360 := by decide

/-- "is the output of `mds_multiply` canonical?" — no: the tail returns `2^64 - 8 >= p` -/
theorem mds_reduction_tail_not_canonical :
    ¬ (∀ L H, L < 687194767360 → H < 687194767360 → tailRed L H < 18446744069414584321) := by
  intro h
  -- witness inside the limb-sum bound: l = 1, h = 2^32 - 1 gives l + h * 2^32 = p exactly, and the
  -- tail returns p itself (checked by evaluation: `tailRed 1 4294967295 = 18446744069414584321`)
  exact absurd (h 1 4294967295 (by decide) (by decide)) (by decide)

/-- ... but it cannot reach a digest: `add_constants` maps ANY 64-bit word into `[0, p)`, correctly
    modulo p, because every round constant's raw word is at most `p - 2^32` -/
theorem add_constants_recanonicalises (s k : Nat) (hs : s < 18446744073709551616)
    (hk : k ≤ 18446744065119617025) :
    Gen.F64.add s k < 18446744069414584321 ∧ ∃ q, s + k = Gen.F64.add s k + q * 18446744069414584321 :=
  Misc.f64_add_canonical s k hs hk

theorem round_constants_small :
    Misc.arkSmall Gen.Rp64.ARK1 = true ∧ Misc.arkSmall Gen.Rp64.ARK2 = true ∧
    Misc.arkSmall Gen.Rp64Jive.ARK1 = true ∧ Misc.arkSmall Gen.Rp64Jive.ARK2 = true :=
  ⟨Misc.rp64_ark_small.1, Misc.rp64_ark_small.2, Misc.jive_ark_small.1, Misc.jive_ark_small.2⟩

/-- `mds_multiply` is the reduction tail applied, component by component, to the two
    frequency-domain products of the low and the high 32-bit limbs (both variants) -/
def mds_multiply_glue : Prop := Mds12.mm_eq_tail_statement ∧ Mds8.mm_eq_tail_statement

theorem mds_multiply_is_tail_of_freq : mds_multiply_glue := ⟨Mds12.mm_eq_tail, Mds8.mm_eq_tail⟩

/-! ## (2) S-boxes -/

theorem sbox_exponents_inverse :
    (Gen.Rp64.ALPHA * Gen.Rp64.INV_ALPHA) % (Gen.F64.M - 1) = 1 ∧
    (Gen.Rp64Jive.ALPHA * Gen.Rp64Jive.INV_ALPHA) % (Gen.F64.M - 1) = 1 ∧
    (Gen.Rp62.ALPHA * Gen.Rp62.INV_ALPHA) % (Gen.F62.M - 1) = 1 :=
  ⟨Misc.alpha_inv_64, Misc.alpha_inv_jive, Misc.alpha_inv_62⟩

/-- 64-bit instances: the S-box denotes the seventh power, the inverse S-box chain the power
    `INV_ALPHA`, on every valid raw word -/
theorem sbox64_denotes_powers (x : Nat) (hx : F64Z.Inv x) :
    (F64Z.Inv (Gen.F64.exp7 x) ∧ F64Z.val (Gen.F64.exp7 x) = F64Z.val x ^ Gen.Rp64.ALPHA) ∧
    (F64Z.Inv (Model.Rescue.F64.invSbox x) ∧
      F64Z.val (Model.Rescue.F64.invSbox x) = F64Z.val x ^ Gen.Rp64.INV_ALPHA) :=
  ⟨Sbox.F64.exp7_pow x hx, Sbox.F64.invSbox_pow x hx⟩

/-- 64-bit instances (Rp64_256 and RpJive64_256 share the code and the exponents): the inverse
    S-box inverts the S-box, and conversely, on EVERY residue (zero included) -/
theorem sbox64_inverse (x : Nat) (hx : F64Z.Inv x) :
    (F64Z.Inv (Model.Rescue.F64.invSbox (Gen.F64.exp7 x)) ∧
      F64Z.val (Model.Rescue.F64.invSbox (Gen.F64.exp7 x)) = F64Z.val x) ∧
    (F64Z.Inv (Gen.F64.exp7 (Model.Rescue.F64.invSbox x)) ∧
      F64Z.val (Gen.F64.exp7 (Model.Rescue.F64.invSbox x)) = F64Z.val x) :=
  ⟨Sbox.F64.inv_after_sbox x hx, Sbox.F64.sbox_after_inv x hx⟩

theorem jive_uses_the_same_exponents :
    Gen.Rp64Jive.INV_ALPHA = Gen.Rp64.INV_ALPHA ∧ Gen.Rp64Jive.ALPHA = Gen.Rp64.ALPHA :=
  Sbox.F64.inv_alpha_jive

-- non-trivial instances of the hypothesis: zero and the largest canonical word
example : F64Z.Inv 0 ∧ F64Z.Inv 18446744069414584320 := by unfold F64Z.Inv; decide

/-- 62-bit instance: cube and the chain for `INV_ALPHA`, on every valid raw word (`< 2p`) -/
theorem sbox62_denotes_powers (x : Nat) (hx : F62Z.Inv x) :
    (F62Z.Inv (Model.Rescue.F62.cube x) ∧ F62Z.val (Model.Rescue.F62.cube x) = F62Z.val x ^ Gen.Rp62.ALPHA) ∧
    (F62Z.Inv (Model.Rescue.F62.invSbox x) ∧
      F62Z.val (Model.Rescue.F62.invSbox x) = F62Z.val x ^ Gen.Rp62.INV_ALPHA) :=
  ⟨Sbox.F62.cube_pow x hx, Sbox.F62.invSbox_pow x hx⟩

theorem sbox62_inverse (x : Nat) (hx : F62Z.Inv x) :
    (F62Z.Inv (Model.Rescue.F62.invSbox (Model.Rescue.F62.cube x)) ∧
      F62Z.val (Model.Rescue.F62.invSbox (Model.Rescue.F62.cube x)) = F62Z.val x) ∧
    (F62Z.Inv (Model.Rescue.F62.cube (Model.Rescue.F62.invSbox x)) ∧
      F62Z.val (Model.Rescue.F62.cube (Model.Rescue.F62.invSbox x)) = F62Z.val x) :=
  ⟨Sbox.F62.inv_after_sbox x hx, Sbox.F62.sbox_after_inv x hx⟩

-- both representatives of zero, and a non-normalised word
example : F62Z.Inv 0 ∧ F62Z.Inv 4611624995532046337 ∧ F62Z.Inv 9223249991064092673 := by
  unfold F62Z.Inv; decide

/-- Rp64_256: one round on valid raw words, with round constants whose raw words are `<= p - 2^32`
    (all constants of the tables are: `round_constants_small`), yields valid raw words and denotes
    the reference round on residues (S-box `x^7`, matrix-vector product with the `MDS` table,
    constants, `x^INV_ALPHA`, MDS, constants). -/
theorem round_rp64_denotes_reference
    (x0 x1 x2 x3 x4 x5 x6 x7 x8 x9 x10 x11 a0 a1 a2 a3 a4 a5 a6 a7 a8 a9 a10 a11 b0 b1 b2 b3 b4 b5 b6 b7 b8 b9 b10 b11 : Nat) (hx0 : F64Z.Inv x0) (hx1 : F64Z.Inv x1) (hx2 : F64Z.Inv x2) (hx3 : F64Z.Inv x3) (hx4 : F64Z.Inv x4) (hx5 : F64Z.Inv x5) (hx6 : F64Z.Inv x6) (hx7 : F64Z.Inv x7) (hx8 : F64Z.Inv x8) (hx9 : F64Z.Inv x9) (hx10 : F64Z.Inv x10) (hx11 : F64Z.Inv x11)
    (ha0 : a0 ≤ 18446744065119617025) (ha1 : a1 ≤ 18446744065119617025) (ha2 : a2 ≤ 18446744065119617025) (ha3 : a3 ≤ 18446744065119617025) (ha4 : a4 ≤ 18446744065119617025) (ha5 : a5 ≤ 18446744065119617025) (ha6 : a6 ≤ 18446744065119617025) (ha7 : a7 ≤ 18446744065119617025) (ha8 : a8 ≤ 18446744065119617025) (ha9 : a9 ≤ 18446744065119617025) (ha10 : a10 ≤ 18446744065119617025) (ha11 : a11 ≤ 18446744065119617025)
    (hb0 : b0 ≤ 18446744065119617025) (hb1 : b1 ≤ 18446744065119617025) (hb2 : b2 ≤ 18446744065119617025) (hb3 : b3 ≤ 18446744065119617025) (hb4 : b4 ≤ 18446744065119617025) (hb5 : b5 ≤ 18446744065119617025) (hb6 : b6 ≤ 18446744065119617025) (hb7 : b7 ≤ 18446744065119617025) (hb8 : b8 ≤ 18446744065119617025) (hb9 : b9 ≤ 18446744065119617025) (hb10 : b10 ≤ 18446744065119617025) (hb11 : b11 ≤ 18446744065119617025) :
    (∀ e ∈ roundWith rp64 [x0, x1, x2, x3, x4, x5, x6, x7, x8, x9, x10, x11] [a0, a1, a2, a3, a4, a5, a6, a7, a8, a9, a10, a11] [b0, b1, b2, b3, b4, b5, b6, b7, b8, b9, b10, b11], F64Z.Inv e) ∧
    (roundWith rp64 [x0, x1, x2, x3, x4, x5, x6, x7, x8, x9, x10, x11] [a0, a1, a2, a3, a4, a5, a6, a7, a8, a9, a10, a11] [b0, b1, b2, b3, b4, b5, b6, b7, b8, b9, b10, b11]).map F64Z.val
      = Round12.refRound ([x0, x1, x2, x3, x4, x5, x6, x7, x8, x9, x10, x11].map F64Z.val) ([a0, a1, a2, a3, a4, a5, a6, a7, a8, a9, a10, a11].map F64Z.val) ([b0, b1, b2, b3, b4, b5, b6, b7, b8, b9, b10, b11].map F64Z.val) :=
  Round12.round_spec x0 x1 x2 x3 x4 x5 x6 x7 x8 x9 x10 x11 a0 a1 a2 a3 a4 a5 a6 a7 a8 a9 a10 a11 b0 b1 b2 b3 b4 b5 b6 b7 b8 b9 b10 b11 hx0 hx1 hx2 hx3 hx4 hx5 hx6 hx7 hx8 hx9 hx10 hx11 ha0 ha1 ha2 ha3 ha4 ha5 ha6 ha7 ha8 ha9 ha10 ha11 hb0 hb1 hb2 hb3 hb4 hb5 hb6 hb7 hb8 hb9 hb10 hb11

/-- RpJive64_256: one round on valid raw words, with round constants whose raw words are `<= p - 2^32`
    (all constants of the tables are: `round_constants_small`), yields valid raw words and denotes
    the reference round on residues (S-box `x^7`, matrix-vector product with the `MDS` table,
    constants, `x^INV_ALPHA`, MDS, constants). -/
theorem round_rpjive_denotes_reference
    (x0 x1 x2 x3 x4 x5 x6 x7 a0 a1 a2 a3 a4 a5 a6 a7 b0 b1 b2 b3 b4 b5 b6 b7 : Nat) (hx0 : F64Z.Inv x0) (hx1 : F64Z.Inv x1) (hx2 : F64Z.Inv x2) (hx3 : F64Z.Inv x3) (hx4 : F64Z.Inv x4) (hx5 : F64Z.Inv x5) (hx6 : F64Z.Inv x6) (hx7 : F64Z.Inv x7)
    (ha0 : a0 ≤ 18446744065119617025) (ha1 : a1 ≤ 18446744065119617025) (ha2 : a2 ≤ 18446744065119617025) (ha3 : a3 ≤ 18446744065119617025) (ha4 : a4 ≤ 18446744065119617025) (ha5 : a5 ≤ 18446744065119617025) (ha6 : a6 ≤ 18446744065119617025) (ha7 : a7 ≤ 18446744065119617025)
    (hb0 : b0 ≤ 18446744065119617025) (hb1 : b1 ≤ 18446744065119617025) (hb2 : b2 ≤ 18446744065119617025) (hb3 : b3 ≤ 18446744065119617025) (hb4 : b4 ≤ 18446744065119617025) (hb5 : b5 ≤ 18446744065119617025) (hb6 : b6 ≤ 18446744065119617025) (hb7 : b7 ≤ 18446744065119617025) :
    (∀ e ∈ roundWith rpjive [x0, x1, x2, x3, x4, x5, x6, x7] [a0, a1, a2, a3, a4, a5, a6, a7] [b0, b1, b2, b3, b4, b5, b6, b7], F64Z.Inv e) ∧
    (roundWith rpjive [x0, x1, x2, x3, x4, x5, x6, x7] [a0, a1, a2, a3, a4, a5, a6, a7] [b0, b1, b2, b3, b4, b5, b6, b7]).map F64Z.val
      = Round8.refRound ([x0, x1, x2, x3, x4, x5, x6, x7].map F64Z.val) ([a0, a1, a2, a3, a4, a5, a6, a7].map F64Z.val) ([b0, b1, b2, b3, b4, b5, b6, b7].map F64Z.val) :=
  Round8.round_spec x0 x1 x2 x3 x4 x5 x6 x7 a0 a1 a2 a3 a4 a5 a6 a7 b0 b1 b2 b3 b4 b5 b6 b7 hx0 hx1 hx2 hx3 hx4 hx5 hx6 hx7 ha0 ha1 ha2 ha3 ha4 ha5 ha6 ha7 hb0 hb1 hb2 hb3 hb4 hb5 hb6 hb7

-- the hypotheses are satisfiable by non-trivial states: e.g. zero and the largest canonical word,
-- and constants at the bound
example : F64Z.Inv 0 ∧ F64Z.Inv 18446744069414584320 ∧ (18446744065119617025 : Nat) ≤ 18446744065119617025 := by
  unfold F64Z.Inv; decide

/-- Rp62_248: one round on valid raw words (`< 2p`) with valid constants denotes the reference
    round (cube, plain matrix-vector product with the `MDS` table, constants, `x^INV_ALPHA`, ...) -/
theorem round_rp62_denotes_reference (st k1 k2 : List Nat)
    (hs : Sem.AllInv Round62.S62 st) (h1 : Sem.AllInv Round62.S62 k1) (h2 : Sem.AllInv Round62.S62 k2) :
    Sem.AllInv Round62.S62 (roundWith rp62 st k1 k2) ∧
    (roundWith rp62 st k1 k2).map F62Z.val
      = Round62.refRound (st.map F62Z.val) (k1.map F62Z.val) (k2.map F62Z.val) :=
  Round62.round_sem st k1 k2 hs h1 h2

/-- `apply_permutation` of Rp64_256 on twelve valid raw words: twelve valid raw words that denote
    the seven reference rounds with the constants of the `ARK1` / `ARK2` tables -/
theorem permutation_rp64_denotes_reference (st : List Nat) (hl : st.length = 12)
    (hs : ∀ e ∈ st, F64Z.Inv e) :
    (applyPermutation rp64 st).length = 12 ∧ (∀ e ∈ applyPermutation rp64 st, F64Z.Inv e) ∧
    (applyPermutation rp64 st).map F64Z.val = Round12.refPerm (st.map F64Z.val) :=
  Round12.perm_sem st hl hs

theorem permutation_rpjive_denotes_reference (st : List Nat) (hl : st.length = 8)
    (hs : ∀ e ∈ st, F64Z.Inv e) :
    (applyPermutation rpjive st).length = 8 ∧ (∀ e ∈ applyPermutation rpjive st, F64Z.Inv e) ∧
    (applyPermutation rpjive st).map F64Z.val = Round8.refPerm (st.map F64Z.val) :=
  Round8.perm_sem st hl hs

theorem permutation_rp62_denotes_reference (st : List Nat) (hl : st.length = 12)
    (hs : ∀ e ∈ st, F62Z.Inv e) :
    (applyPermutation rp62 st).length = 12 ∧ (∀ e ∈ applyPermutation rp62 st, F62Z.Inv e) ∧
    (applyPermutation rp62 st).map F62Z.val = Round62.refPerm (st.map F62Z.val) :=
  Round62.perm_sem st hl hs

/-- the constants the 62-bit reference permutation adds are the table entries, as residues -/
theorem rp62_reference_constants :
    rp62.ark1.map (fun r => r.map F62Z.val) = Gen.Rp62.ARK1.map (fun r => r.map (fun (k : Nat) => (k : ZMod F62Z.P))) ∧
    rp62.ark2.map (fun r => r.map F62Z.val) = Gen.Rp62.ARK2.map (fun r => r.map (fun (k : Nat) => (k : ZMod F62Z.P))) :=
  Round62.ark_val

-- a non-trivial state: the sponge's initial state for an 8-element input
example : [8, 0, 0, 0, 0, 0, 0, 0, 0, 0, 0, 0].length = 12 ∧ ∀ e ∈ [8, 0, 0, 0, 0, 0, 0, 0, 0, 0, 0, 0], F64Z.Inv e := by
  unfold F64Z.Inv; decide

/-! ## (3) Sponge -/

/-- hashing a byte string succeeds for EVERY length, for all three Rescue instances -/
theorem hash_bytes_total (P : Params) (bs : List Nat) : ∃ d, hashBytes P bs = .ok d :=
  Sponge.hashBytes_total P bs

/-- `hash` is `hash_elements` of the documented encoding of the bytes -/
theorem hash_bytes_is_hash_elements (P : Params) (bs : List Nat) :
    hashBytes P bs = .ok (hashElements P ((Sponge.encodeBytes bs).map P.F.new)) :=
  Sponge.hashBytes_eq P bs

/-- the encoding is injective: inputs differing only in length or trailing zero bytes are encoded
    differently (the element count also goes into the capacity: `encodeBytes_length`) -/
theorem byte_encoding_injective (a b : List Nat) (ha : ∀ x ∈ a, x < 256) (hb : ∀ x ∈ b, x < 256)
    (h : Sponge.encodeBytes a = Sponge.encodeBytes b) : a = b :=
  Sponge.encodeBytes_injective a b ha hb h

example : Sponge.encodeBytes [1, 2] ≠ Sponge.encodeBytes [1, 2, 0] := by decide

theorem merge_is_hash_elements_rp64 (a0 a1 a2 a3 b0 b1 b2 b3 : Nat)
    (h0 : a0 < 18446744069414584321) (h1 : a1 < 18446744069414584321) (h2 : a2 < 18446744069414584321)
    (h3 : a3 < 18446744069414584321) (h4 : b0 < 18446744069414584321) (h5 : b1 < 18446744069414584321)
    (h6 : b2 < 18446744069414584321) (h7 : b3 < 18446744069414584321) :
    merge rp64 [a0, a1, a2, a3] [b0, b1, b2, b3] = hashElements rp64 [a0, a1, a2, a3, b0, b1, b2, b3] :=
  Sponge.rp64_merge_eq a0 a1 a2 a3 b0 b1 b2 b3 h0 h1 h2 h3 h4 h5 h6 h7

/-- for the 62-bit instance the raw words must be below `2^62` (every canonical word is): a word in
    `[2^62, 2p)` is copied by `merge` but reduced by `hash_elements`' `+=`, so the raw states differ
    although the residues agree -/
theorem merge_is_hash_elements_rp62 (a0 a1 a2 a3 b0 b1 b2 b3 : Nat)
    (h0 : a0 < 4611686018427387904) (h1 : a1 < 4611686018427387904) (h2 : a2 < 4611686018427387904)
    (h3 : a3 < 4611686018427387904) (h4 : b0 < 4611686018427387904) (h5 : b1 < 4611686018427387904)
    (h6 : b2 < 4611686018427387904) (h7 : b3 < 4611686018427387904) :
    merge rp62 [a0, a1, a2, a3] [b0, b1, b2, b3] = hashElements rp62 [a0, a1, a2, a3, b0, b1, b2, b3] :=
  Misc.rp62_merge_eq a0 a1 a2 a3 b0 b1 b2 b3 h0 h1 h2 h3 h4 h5 h6 h7

/-- the residues `merge_with_int` writes (value mod p, value div p, flag) determine the integer -/
theorem merge_with_int_encoding_injective (M v v' : Nat)
    (h : Misc.intEncodingRes M v = Misc.intEncodingRes M v') : v = v' :=
  Misc.intEncodingRes_injective M v v' h

/-- ... and on the state the code actually builds: for every seed, two different 64-bit integers
    give pre-permutation states that differ as residues (`new` maps `v` to the residue `v`, C07) -/
theorem merge_with_int_states_injective (s0 s1 s2 s3 v v' : Nat)
    (hv : v < 18446744073709551616) (hv' : v' < 18446744073709551616) :
    ((mergeIntState rp64 [s0, s1, s2, s3] v).map F64Z.val
        = (mergeIntState rp64 [s0, s1, s2, s3] v').map F64Z.val → v = v') ∧
    ((mergeIntState rpjive [s0, s1, s2, s3] v).map F64Z.val
        = (mergeIntState rpjive [s0, s1, s2, s3] v').map F64Z.val → v = v') ∧
    ((mergeIntState rp62 [s0, s1, s2, s3] v).map F62Z.val
        = (mergeIntState rp62 [s0, s1, s2, s3] v').map F62Z.val → v = v') :=
  ⟨MergeInt.rp64_mergeInt_injective s0 s1 s2 s3 v v' hv hv',
   MergeInt.rpjive_mergeInt_injective s0 s1 s2 s3 v v' hv hv',
   MergeInt.rp62_mergeInt_injective s0 s1 s2 s3 v v' hv hv'⟩

-- the integers the 2^-32-measure branch is about: p and p + 1 (both >= p, same `div`, residues 0 and 1)
example : (18446744069414584321 : Nat) < 18446744073709551616 ∧ (18446744069414584322 : Nat) < 18446744073709551616 := by
  decide

/-- extension elements are hashed as their base-field flattening (definitional in the model) -/
theorem hash_elements_ext_is_flattening (P : Params) (es : List (List Nat)) :
    hashElementsExt P es = hashElements P es.flatten := rfl

/-! ## (4) The sponge on raw words denotes the reference sponge on residues -/

/-- `hash_elements` of Rp64_256 on valid raw words: a digest of valid raw words whose residues are
    the reference sponge (`SpongeSem.refHashElements`: element count in the capacity, absorb into the
    rate by addition, reference permutation when the rate is full and at the end, squeeze) -/
theorem hash_elements_rp64_denotes_reference (es : List Nat) (he : ∀ e ∈ es, F64Z.Inv e)
    (hlen : es.length < 18446744073709551616) :
    (∀ d ∈ hashElements rp64 es, F64Z.Inv d) ∧
    (hashElements rp64 es).map F64Z.val = SpongeSem.refHashElements Round12.perm (es.map F64Z.val) :=
  SpongeSem.hashElements_sem Round12.perm es he hlen

/-- the same for RpJive64_256 (Hirose padding: flag in the capacity, a one and zeros over the rate) -/
theorem hash_elements_rpjive_denotes_reference (es : List Nat) (he : ∀ e ∈ es, F64Z.Inv e)
    (hlen : es.length < 18446744073709551616) :
    (∀ d ∈ hashElements rpjive es, F64Z.Inv d) ∧
    (hashElements rpjive es).map F64Z.val = SpongeSem.refHashElements Round8.perm (es.map F64Z.val) :=
  SpongeSem.hashElements_sem Round8.perm es he hlen

/-- the same for Rp62_248, on every valid raw word (`< 2p`): in particular the digest depends on the
    residues only up to the residues of the result, whichever representative each input word is -/
theorem hash_elements_rp62_denotes_reference (es : List Nat) (he : ∀ e ∈ es, F62Z.Inv e)
    (hlen : es.length < 18446744073709551616) :
    (∀ d ∈ hashElements rp62 es, F62Z.Inv d) ∧
    (hashElements rp62 es).map F62Z.val = SpongeSem.refHashElements Round62.perm62 (es.map F62Z.val) :=
  SpongeSem.hashElements_sem Round62.perm62 es he hlen

-- a non-trivial instance: nine elements (more than one rate block), among them 0 and p - 1
example : (∀ e ∈ [0, 1, 2, 3, 4, 5, 6, 7, 18446744069414584320], F64Z.Inv e) ∧
    [0, 1, 2, 3, 4, 5, 6, 7, 18446744069414584320].length < 18446744073709551616 := by
  unfold F64Z.Inv; decide

/-- `merge` of Rp64_256: the reference sponge over the eight residues of the two digests -/
theorem merge_rp64_denotes_reference (a0 a1 a2 a3 b0 b1 b2 b3 : Nat)
    (h0 : F64Z.Inv a0) (h1 : F64Z.Inv a1) (h2 : F64Z.Inv a2) (h3 : F64Z.Inv a3)
    (h4 : F64Z.Inv b0) (h5 : F64Z.Inv b1) (h6 : F64Z.Inv b2) (h7 : F64Z.Inv b3) :
    (merge rp64 [a0, a1, a2, a3] [b0, b1, b2, b3]).map F64Z.val
      = SpongeSem.refHashElements Round12.perm ([a0, a1, a2, a3, b0, b1, b2, b3].map F64Z.val) := by
  rw [Sponge.rp64_merge_eq a0 a1 a2 a3 b0 b1 b2 b3 h0 h1 h2 h3 h4 h5 h6 h7]
  refine (SpongeSem.hashElements_sem Round12.perm _ ?_ (by simp)).2
  intro e he
  simp only [List.mem_cons, List.not_mem_nil, or_false] at he
  rcases he with rfl | rfl | rfl | rfl | rfl | rfl | rfl | rfl <;> assumption

/-- `merge_with_int` of Rp64_256: seed, `v`, `v div p` and the domain flag, permuted and squeezed -/
theorem merge_with_int_rp64_denotes_reference (s0 s1 s2 s3 v : Nat)
    (h0 : F64Z.Inv s0) (h1 : F64Z.Inv s1) (h2 : F64Z.Inv s2) (h3 : F64Z.Inv s3)
    (hv : v < 18446744073709551616) :
    (∀ d ∈ mergeWithInt rp64 [s0, s1, s2, s3] v, F64Z.Inv d) ∧
    (mergeWithInt rp64 [s0, s1, s2, s3] v).map F64Z.val
      = Sponge64.refMergeWithInt ([s0, s1, s2, s3].map F64Z.val) v :=
  Sponge64.mergeWithInt_sem s0 s1 s2 s3 v h0 h1 h2 h3 hv

/-- `hash` of Rp64_256 on a byte string: succeeds, and the digest denotes the reference sponge over
    the documented encoding of the bytes (7-byte little-endian chunks, a byte 1 after the last) -/
theorem hash_rp64_denotes_reference (bs : List Nat) (hb : ∀ x ∈ bs, x < 256)
    (hlen : bs.length < 18446744073709551616) :
    ∃ d, hashBytes rp64 bs = .ok d ∧ (∀ e ∈ d, F64Z.Inv e) ∧
      d.map F64Z.val = SpongeSem.refHashElements Round12.perm
        ((Sponge.encodeBytes bs).map (fun (k : Nat) => (k : ZMod F64Z.P))) := by
  refine ⟨_, Sponge.hashBytes_eq rp64 bs, ?_⟩
  have h64 : ∀ k ∈ Sponge.encodeBytes bs, k < 18446744073709551616 :=
    fun k hk => Nat.lt_trans (Sponge64.encodeBytes_lt bs hb k hk) (by decide)
  have hl : ((Sponge.encodeBytes bs).map Gen.F64.new).length < 18446744073709551616 := by
    rw [List.length_map, Sponge.encodeBytes_length]
    unfold numElements
    split <;> omega
  obtain ⟨i, v⟩ := SpongeSem.hashElements_sem Round12.perm _ (Sponge64.newRow_inv _ h64) hl
  refine ⟨i, ?_⟩
  show List.map F64Z.val (hashElements rp64 (List.map rp64.F.new (Sponge.encodeBytes bs))) = _
  have ev : (Round12.perm).S.val = F64Z.val := rfl
  have en : rp64.F.new = Gen.F64.new := rfl
  rw [ev] at v
  rw [en, v, Sponge64.newRow_val _ h64]

end WinterProofs.C11
