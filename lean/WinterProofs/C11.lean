-- C11: hash functions implement their specification on every input (property theorems)
import Winter.Model.Rescue

namespace WinterProofs.C11
open Gen Model Model.Rescue

/-- the S-box exponents are inverse to each other modulo `p - 1` (64-bit instances) -/
theorem alpha_inv_alpha_64 : (Rp64.ALPHA * Rp64.INV_ALPHA) % (F64.M - 1) = 1 := by decide +kernel

end WinterProofs.C11
