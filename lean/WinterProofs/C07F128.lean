-- C07, 128-bit field: arithmetic equals integer arithmetic modulo the prime (property theorems).
--
-- The model: `Gen.F128.*` is regenerated from math/src/field/f128/mod.rs on every run (translate/);
-- `Model.F128.exp/inv`, conversions and byte encodings are hand-written (Winter/Model/Field.lean)
-- and tied to the code by the correspondence harness.  Raw words are canonical integers: a raw word
-- `r` satisfies `Inv r := r < p` and denotes the residue `val r = (r : ZMod p)`.
import WinterProofs.Lemmas.C07F128Z
import WinterProofs.Lemmas.C07F128Inv
import WinterProofs.Lemmas.C07F128InvGen
import WinterProofs.Lemmas.C07Bytes
import WinterProofs.Lemmas.Primes

namespace WinterProofs.C07
open Model

/-! ## The 128-bit field, p = 2^128 - 45·2^40 + 1 (canonical representation) -/
namespace F128
open Gen.F128 WinterProofs.F128Z WinterProofs.Primes

/-! ### published constants -/

theorem modulus_eq : M = 2 ^ 128 - 45 * 2 ^ 40 + 1 := by decide

theorem modulus_prime : Nat.Prime M := prime_M128

/-- `ELEMENT_BYTES` holds every canonical value, the modulus has exactly 128 bits -/
theorem element_constants : ELEMENT_BYTES = 16 ∧ M < 256 ^ ELEMENT_BYTES ∧
    MODULUS_BITS = 128 ∧ 2 ^ 127 < M ∧ M < 2 ^ 128 ∧ IS_CANONICAL = true := by decide

/-- two-adicity: `2^40` is the exact power of two dividing `p - 1` -/
theorem two_adicity : 2 ^ TWO_ADICITY ∣ M - 1 ∧ ¬ 2 ^ (TWO_ADICITY + 1) ∣ M - 1 := by decide

/-- the published generator generates the whole multiplicative group -/
theorem generator_order : orderOf ((GENERATOR : Nat) : ZMod P) = P - 1 := by
  apply order_of_lucas P GENERATOR (List.replicate 40 2 ++ [29, 181, 286619, 11394379, 18053749339])
  · norm_num
  · norm_num
  · intro q hq
    simp only [List.mem_append, List.mem_replicate, List.mem_cons, List.not_mem_nil, or_false] at hq
    rcases hq with ⟨-, rfl⟩ | rfl | rfl | rfl | rfl | rfl
    · norm_num
    · norm_num
    · norm_num
    · norm_num
    · norm_num
    · exact prime_18053749339
  · decide +kernel
  · decide +kernel
  · decide +kernel

/-- the published root of unity has order exactly `2^TWO_ADICITY` -/
theorem root_of_unity_order :
    orderOf ((TWO_ADIC_ROOT_OF_UNITY : Nat) : ZMod P) = 2 ^ TWO_ADICITY := by
  apply order_two_pow P TWO_ADIC_ROOT_OF_UNITY 39
  · norm_num
  · decide +kernel
  · decide +kernel

/-- the root of unity is the generator raised to the odd cofactor of `p - 1` -/
theorem root_of_unity_def :
    ((TWO_ADIC_ROOT_OF_UNITY : Nat) : ZMod P) = ((GENERATOR : Nat) : ZMod P) ^ ((M - 1) / 2 ^ TWO_ADICITY) := by
  rw [zmod_pow_eq GENERATOR _ P (by decide)]
  exact (ZMod.natCast_eq_natCast_iff' _ _ P).2 (by decide +kernel)

/-! ### every public operation preserves the representation invariant and computes in `ZMod p` -/

/-- `BaseElement::new` reduces silently: any 128-bit word, value `v mod p` (one conditional subtraction) -/
theorem new_correct (v : Nat) (hv : v < 2 ^ 128) :
    Inv (new v) ∧ val (new v) = (v : ZMod P) ∧ new_ok v = true :=
  ⟨new_inv v hv, val_new v hv, (F128L.new_spec v hv).2.2⟩

theorem add_correct (a b : Nat) (ha : Inv a) (hb : Inv b) :
    Inv (add a b) ∧ val (add a b) = val a + val b ∧ add_ok a b = true :=
  ⟨add_inv a b ha hb, val_add a b ha hb, F128L.add_ok_spec a b hb⟩

theorem sub_correct (a b : Nat) (ha : Inv a) (hb : Inv b) :
    Inv (sub a b) ∧ val (sub a b) = val a - val b ∧ sub_ok a b = true :=
  ⟨sub_inv a b ha hb, val_sub a b ha hb, F128L.sub_ok_spec a b hb⟩

/-- multiplication: canonical result, product in `ZMod p`, and none of the checked 64/128-bit
    operations of the debug build overflows -/
theorem mul_correct (a b : Nat) (ha : Inv a) (hb : Inv b) :
    Inv (mul a b) ∧ val (mul a b) = val a * val b ∧ mul_ok a b = true :=
  ⟨mul_inv a b ha hb, val_mul a b ha hb, (F128L.mul_spec a b ha hb).2.2⟩

theorem neg_correct (a : Nat) (ha : Inv a) : Inv (neg a) ∧ val (neg a) = - val a ∧ neg_ok a = true :=
  ⟨neg_inv a ha, val_neg a ha, F128L.neg_ok_spec a ha⟩

/-- `double` is `add a a` in this field -/
theorem double_correct (a : Nat) (ha : Inv a) :
    Inv (Model.F128.impl.double a) ∧ val (Model.F128.impl.double a) = 2 * val a := by
  refine ⟨add_inv a a ha ha, ?_⟩
  show val (add a a) = 2 * val a
  rw [val_add a a ha ha, two_mul]

theorem square_correct (a : Nat) (ha : Inv a) : Inv (mul a a) ∧ val (mul a a) = val a ^ 2 := by
  refine ⟨mul_inv a a ha ha, ?_⟩
  rw [val_mul a a ha ha, pow_two]

/-- the operator forms are the same functions -/
theorem op_forms (a b : Nat) : op_add a b = add a b ∧ op_sub a b = sub a b ∧ op_mul a b = mul a b :=
  ⟨rfl, rfl, rfl⟩

/-- exponentiation by any 128-bit exponent (the early exits `power = 0` and `x = 0` included) -/
theorem exp_correct (a e : Nat) (ha : Inv a) (he : e < 2 ^ 128) :
    Inv (Model.F128.exp a e) ∧ val (Model.F128.exp a e) = val a ^ e :=
  exp_spec a e ha he

/-- inversion (binary extended GCD): terminates within the model's fuel for every canonical word,
    zero maps to zero (`0⁻¹ = 0` in `ZMod p`), every other word to the canonical inverse -/
theorem inv_correct (a : Nat) (ha : Inv a) :
    ∃ r, Model.F128.inv a = .done r ∧ Inv r ∧ val r = (val a)⁻¹ :=
  inv_total a ha

/-- inversion, stated about the code AS TRANSLATED ON THIS RUN (tie T): `Gen.F128Inv.inv N` is
    generated from `fn inv` of math/src/field/f128/mod.rs — its four `while` loops on the 64-bit limbs
    `(a0,a1,a2)`, `(u0,u1,u2)`, `(d0,d1,d2)` and the `u128` `v`, each with fuel `N` — so any change to
    those loops changes the definitions this theorem is about.  For every fuel `N ≥ 800` (hence
    independently of the fuel) the result is the canonical inverse, zero maps to zero, and no
    executed step overflows or underflows (`inv_ok`, including the `_ok` of the limb helpers in every
    iteration).  `Model.F128.inv` stays the executable model of the line-protocol correspondence
    (tie K); `F128G.gen_inv_refines` proves the two agree. -/
theorem inv_gen_correct (a N : Nat) (ha : Inv a) (hN : 800 ≤ N) :
    Inv (Gen.F128Inv.inv N a) ∧ val (Gen.F128Inv.inv N a) = (val a)⁻¹ ∧
      Gen.F128Inv.inv_ok N a = true := by
  obtain ⟨r, hr, hri, hrv⟩ := inv_total a ha
  obtain ⟨hg, hok⟩ := F128G.gen_inv_refines a r N ha hN hr
  rw [hg]
  exact ⟨hri, hrv, hok⟩

/-- the translated loops and the hand model return the same word, whatever fuel `N ≥ 800` -/
theorem inv_gen_eq_model (a N : Nat) (ha : Inv a) (hN : 800 ≤ N) :
    Model.F128.inv a = .done (Gen.F128Inv.inv N a) := by
  obtain ⟨r, hr, _, _⟩ := inv_total a ha
  rw [(F128G.gen_inv_refines a r N ha hN hr).1]
  exact hr

/-- a concrete non-trivial word (the one that needs eleven final reductions) and a concrete fuel -/
example : Inv (Gen.F128Inv.inv 800 340282366920938463463374557953744860744) ∧
    val (Gen.F128Inv.inv 800 340282366920938463463374557953744860744)
      = (val 340282366920938463463374557953744860744)⁻¹ ∧
    Gen.F128Inv.inv_ok 800 340282366920938463463374557953744860744 = true :=
  inv_gen_correct _ _ (by unfold F128Z.Inv; decide) (by norm_num)

theorem div_correct (a b : Nat) (ha : Inv a) (hb : Inv b) :
    ∃ r, Model.F128.impl.div a b = .done r ∧ Inv r ∧ val r = val a / val b := by
  obtain ⟨i, hi, hii, hiv⟩ := inv_total b hb
  refine ⟨mul a i, ?_, mul_inv a i ha hii, ?_⟩
  · show (match Model.F128.inv b with
      | .done i => Fuel.done (mul a i)
      | .out => Fuel.out) = Fuel.done (mul a i)
    rw [hi]
  · rw [val_mul a i ha hii, hiv, div_eq_mul_inv]

/-- `as_int` is the identity on raw words: the canonical representative of the residue -/
theorem as_int_correct (a : Nat) (ha : Inv a) :
    Model.F128.impl.asInt a < M ∧ Model.F128.impl.asInt a = (val a).val :=
  ⟨ha, (val_val a ha).symm⟩

/-- `==` holds exactly for equal residues (the representation is canonical) -/
theorem eq_correct (a b : Nat) (ha : Inv a) (hb : Inv b) :
    Model.F128.impl.eq a b = true ↔ val a = val b := by
  show (a == b) = true ↔ val a = val b
  rw [beq_iff_eq]
  exact ⟨fun h => by rw [h], val_injective ha hb⟩

/-! ### conversions -/

/-- `TryFrom<u128>` rejects exactly the integers `≥ p` and otherwise denotes the integer -/
theorem try_from_correct (n : Nat) :
    (n ≥ M → Model.F128.impl.tryFrom n = .err) ∧
    (n < M → Model.F128.impl.tryFrom n = .ok n ∧ Inv n ∧ val n = (n : ZMod P)) := by
  constructor
  · intro h
    show (if n ≥ M then Conv.err else Conv.ok (new n)) = Conv.err
    rw [if_pos h]
  · intro h
    refine ⟨?_, h, rfl⟩
    show (if n ≥ M then Conv.err else Conv.ok (new n)) = Conv.ok n
    rw [if_neg (by omega), new_of_lt n h]

/-- byte round trip: decoding what was encoded returns the same element and consumes exactly
    the sixteen written bytes, whatever follows -/
theorem bytes_roundtrip (a : Nat) (ha : Inv a) (rest : List Nat) :
    Model.F128.impl.readFrom (Model.F128.impl.toBytes a ++ rest) = some (.ok a, rest) := by
  have hlen : (leBytes 16 a).length = 16 := Bytes.leBytes_length 16 _
  have ha' : a < 256 ^ 16 := lt_trans ha (by decide)
  show (if (leBytes 16 a ++ rest).length < 16 then none
    else some (FieldImpl.tryFrom Model.F128.impl (ofLeBytes ((leBytes 16 a ++ rest).take 16)),
      (leBytes 16 a ++ rest).drop 16)) = some (.ok a, rest)
  rw [if_neg (by rw [List.length_append, hlen]; omega)]
  rw [List.take_left' hlen, List.drop_left' hlen, Bytes.ofLeBytes_leBytes_of_lt 16 _ ha']
  rw [((try_from_correct a).2 ha).1]

/-- decoding exactly sixteen bytes: accepted iff the little-endian integer is `< p` -/
theorem try_from_bytes_correct (bs : List Nat) :
    (bs.length ≠ 16 → Model.F128.impl.tryFromBytes bs = .err) ∧
    (bs.length = 16 → Model.F128.impl.tryFromBytes bs = Model.F128.impl.tryFrom (ofLeBytes bs)) := by
  constructor
  · intro h
    show (if bs.length ≠ 16 then Conv.err else _) = Conv.err
    rw [if_pos h]
  · intro h
    show (if bs.length ≠ 16 then Conv.err else _) = _
    rw [if_neg (by omega)]

/-- two elements serialize identically exactly when they denote the same residue -/
theorem to_bytes_eq_iff (a b : Nat) (ha : Inv a) (hb : Inv b) :
    Model.F128.impl.toBytes a = Model.F128.impl.toBytes b ↔ val a = val b := by
  have ha' : a < 256 ^ 16 := lt_trans ha (by decide)
  have hb' : b < 256 ^ 16 := lt_trans hb (by decide)
  constructor
  · intro h
    have h' : a = b := Bytes.leBytes_inj 16 _ _ ha' hb' h
    rw [h']
  · intro h
    have : a = b := val_injective ha hb h
    rw [this]

/-- `get_root_of_unity(n)`: defined for 1 ≤ n ≤ 40 with order exactly `2^n`; the documented
    assertion failures (`none`) are exactly n = 0 and n > 40 -/
theorem get_root_of_unity_correct (n : Nat) :
    (n = 0 ∨ n > 40 → Model.F128.impl.rootOfUnity n = none) ∧
    (1 ≤ n → n ≤ 40 → ∃ r, Model.F128.impl.rootOfUnity n = some r ∧ Inv r ∧ orderOf (val r) = 2 ^ n) := by
  constructor
  · intro h
    show (if n = 0 ∨ n > 40 then none else some _) = none
    rw [if_pos h]
  · intro h1 h2
    have hw := new_correct TWO_ADIC_ROOT_OF_UNITY (by decide)
    have he : 2 ^ (40 - n) < 2 ^ 128 := Nat.pow_lt_pow_right (by norm_num) (by omega)
    obtain ⟨hi, hv⟩ := exp_correct (new TWO_ADIC_ROOT_OF_UNITY) (2 ^ (40 - n)) hw.1 he
    refine ⟨Model.F128.exp (new TWO_ADIC_ROOT_OF_UNITY) (2 ^ (40 - n)), ?_, hi, ?_⟩
    · show (if n = 0 ∨ n > 40 then none else some _) = some _
      rw [if_neg (by omega)]
      rfl
    · rw [hv, hw.2.1, orderOf_pow_of_dvd (by positivity), root_of_unity_order]
      · show 2 ^ 40 / 2 ^ (40 - n) = 2 ^ n
        rw [Nat.pow_div (by omega) (by norm_num)]
        congr 1; omega
      · rw [root_of_unity_order]
        exact pow_dvd_pow 2 (by show 40 - n ≤ 40; omega)

/-! ### the representation invariant over every sequence of public operations -/

/-- the meaning of an operation sequence on residues (`mulSmall` does not exist in this field:
    the harness maps it to the identity) -/
def specStep (st : ZMod P × ZMod P) : FieldImpl.SeqOp → ZMod P × ZMod P
  | .add => (st.1 + st.2, st.2)
  | .sub => (st.1 - st.2, st.2)
  | .mul => (st.1 * st.2, st.2)
  | .neg => (-st.1, st.2)
  | .dbl => (2 * st.1, st.2)
  | .sq => (st.1 ^ 2, st.2)
  | .swap => (st.2, st.1)
  | .inv => (st.1⁻¹, st.2)
  | .div => (st.1 / st.2, st.2)
  | .mulSmall _ => st

theorem seq_step (acc y : Nat) (op : FieldImpl.SeqOp) (ha : Inv acc) (hy : Inv y) :
    ∃ acc' y', Model.F128.impl.seqStep (fun a _ => a) (some (acc, y)) op = some (acc', y') ∧
      Inv acc' ∧ Inv y' ∧ (val acc', val y') = specStep (val acc, val y) op := by
  cases op with
  | add => exact ⟨add acc y, y, rfl, add_inv _ _ ha hy, hy, by rw [val_add _ _ ha hy]; rfl⟩
  | sub => exact ⟨sub acc y, y, rfl, sub_inv _ _ ha hy, hy, by rw [val_sub _ _ ha hy]; rfl⟩
  | mul => exact ⟨mul acc y, y, rfl, mul_inv _ _ ha hy, hy, by rw [val_mul _ _ ha hy]; rfl⟩
  | neg => exact ⟨neg acc, y, rfl, neg_inv _ ha, hy, by rw [val_neg _ ha]; rfl⟩
  | dbl =>
    exact ⟨add acc acc, y, rfl, add_inv _ _ ha ha, hy, by rw [val_add _ _ ha ha, ← two_mul]; rfl⟩
  | sq => exact ⟨mul acc acc, y, rfl, mul_inv _ _ ha ha, hy, by rw [val_mul _ _ ha ha, ← pow_two]; rfl⟩
  | swap => exact ⟨y, acc, rfl, hy, ha, rfl⟩
  | inv =>
    obtain ⟨r, hr, hri, hrv⟩ := inv_total acc ha
    refine ⟨r, y, ?_, hri, hy, by rw [hrv]; rfl⟩
    show (match Model.F128.inv acc with
      | .done r => some (r, y)
      | .out => none) = some (r, y)
    rw [hr]
  | div =>
    obtain ⟨r, hr, hri, hrv⟩ := div_correct acc y ha hy
    refine ⟨r, y, ?_, hri, hy, by rw [hrv]; rfl⟩
    show (match Model.F128.impl.div acc y with
      | .done r => some (r, y)
      | .out => none) = some (r, y)
    rw [hr]
  | mulSmall k => exact ⟨acc, y, rfl, ha, hy, rfl⟩

/-- every state reachable from integers by public operations satisfies the representation
    invariant and denotes the residues obtained by the same operations in `ZMod p` (no operation
    runs out of fuel); in particular `==` and serialization agree with residue equality in every
    reachable state -/
theorem seq_invariant (a b : Nat) (ha : a < 2 ^ 128) (hb : b < 2 ^ 128) (ops : List FieldImpl.SeqOp) :
    ∃ acc y, Model.F128.impl.runSeq (fun a _ => a) a b ops = some (acc, y) ∧ Inv acc ∧ Inv y ∧
      (val acc, val y) = ops.foldl specStep ((a : ZMod P), (b : ZMod P)) := by
  unfold FieldImpl.runSeq
  have h0 : ∃ acc y, (some (Model.F128.impl.new a, Model.F128.impl.new b) : Option (Nat × Nat)) = some (acc, y) ∧
      Inv acc ∧ Inv y ∧ (val acc, val y) = ((a : ZMod P), (b : ZMod P)) :=
    ⟨new a, new b, rfl, new_inv a ha, new_inv b hb, by rw [val_new a ha, val_new b hb]⟩
  generalize (some (Model.F128.impl.new a, Model.F128.impl.new b) : Option (Nat × Nat)) = st at h0
  generalize (((a : ZMod P), (b : ZMod P)) : ZMod P × ZMod P) = sp at h0 ⊢
  induction ops generalizing st sp with
  | nil => simpa using h0
  | cons op ops ih =>
    obtain ⟨acc, y, rfl, hi1, hi2, hv⟩ := h0
    obtain ⟨acc', y', hs, hj1, hj2, hv'⟩ := seq_step acc y op hi1 hi2
    rw [List.foldl_cons, List.foldl_cons, hs]
    apply ih
    exact ⟨acc', y', rfl, hj1, hj2, by rw [hv', hv]⟩

/-- non-vacuity: concrete raw words satisfy the invariant and are not trivial -/
example : Inv (new 5) ∧ Inv (new (2 ^ 128 - 1)) ∧ new (2 ^ 128 - 1) = 45 * 2 ^ 40 - 2 :=
  ⟨new_inv 5 (by norm_num), new_inv _ (by norm_num), by decide⟩

/-- the input on which an earlier version of the model ran out of fuel in the final reduction
    (the accumulator leaves the GCD loop in `[11p, 12p)`): inverted correctly -/
example : ∃ r, Model.F128.inv 340282366920938463463374557953744860744 = .done r ∧ Inv r ∧
    val r = (val 340282366920938463463374557953744860744)⁻¹ :=
  inv_correct _ (by unfold F128Z.Inv; decide)

end F128

end WinterProofs.C07
